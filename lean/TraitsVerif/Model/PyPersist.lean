/-
PyP - the subset of Python in which the persistence methods of `HasTraits`
(`__getstate__`, `__reduce_ex__`, `__setstate__`, `copy_traits`, `clone_traits`,
`__deepcopy__`, traits/has_traits.py) and of the three container objects
(`__getstate__`, `__setstate__`, `__deepcopy__` of `TraitListObject`,
`TraitDictObject`, `TraitSetObject`) are written, deep-embedded, with total
interpreters.  `harness/translate/pypersist.py` translates the *source text* of
those methods into terms of this language on every run
(`Generated/PersistProg.lean`); `Props/C14.lean` proves that the hand-written
functions of `Model/Persist` (`getstateL`, `setstateL`, `cloneL`, `cloneTraits`,
`deepcopyObj`, `copyCopy`; `Binding.afterSetstate`, the node case of
`deepcopyV`) are exactly the interpretation of those terms.

The translator knows syntax only.  What the interpreter fixes:
  * the object model of `Model/Persist`: an object is its list of slots in class
    order; a list of trait names (`trait_names()` and its relatives, which
    return names in class order) is the predicate selecting the slots it
    names; `for name in <names>` visits the selected slots in class order with
    the slot of `other` and the slot of `self` for that name in focus;
  * the meaning of the calls it knows (`getattr`, `setattr`, `copy_module.copy`,
    `copy_module.deepcopy`, `self.trait`, `other.base_trait`, `trait_get`,
    `trait_set`, `__new__`, the life-cycle methods, `memo.get`, ...), in terms
    of `readSlot`, `assignSlot`, `shallowV`, `deepcopyV`, `getstateL`,
    `setstateL` of `Model/Persist`;
  * Python's evaluation order, `try: … except:` (a bare except catches
    everything, the state reached when the exception was raised stays),
    `continue`, `return`.
Anything else is `stuck`: never equal to what a model function produces, so an
obligation fails when the source leaves the subset.  Local variables live in
numbered slots of a frame.  Core Lean only; total.
-/
import TraitsVerif.Model.Persist
namespace TraitsVerif.Model.PyP
open TraitsVerif TraitsVerif.Model.Persist

inductive Expr where
  | var (i : Nat)
  | glob (x : String)                       -- a module-level name that is not inlined
  | noneLit
  | boolLit (b : Bool)
  | strLit (s : String)
  | intLit (n : Nat)
  | strs (l : List String)                  -- a module-level tuple of string constants, inlined
  | emptyList
  | emptyDict
  | lambdaNone                              -- `lambda: None`
  | attr (e : Expr) (a : String)
  | callF (f : String) (args : List Expr) (kwn : List String) (kwv : List Expr)          -- `f(args, k=v, **m)`
  | callM (recv : Expr) (m : String) (args : List Expr) (kwn : List String) (kwv : List Expr)
  | callV (f : Expr) (args : List Expr)     -- call of a local variable holding a bound method
  | cmp (op : String) (a b : Expr)          -- "==", "is", "is not", "in", ">"
  | or (a b : Expr)
  | and (a b : Expr)
  | not (a : Expr)
  | tuple (es : List Expr)
  | list (es : List Expr)
  | sub (e k : Expr)                        -- `e[k]`
  | listComp (elt : Expr) (x : Nat) (iter : Expr) (conds : List Expr)
  | setComp (elt : Expr) (x : Nat) (iter : Expr)
  | genExp (elt : Expr) (x : Nat) (iter : Expr)     -- `(elt for x in iter)`
  | opaque (src : String)                   -- outside the subset: `stuck` when evaluated

inductive Stmt where
  | skip
  | seq (a b : Stmt)
  | assign (i : Nat) (e : Expr)
  | assignSub (t k e : Expr)                -- `t[k] = e`
  | delSub (t k : Expr)                     -- `del t[k]`
  | expr (e : Expr)
  | ifS (c : Expr) (t e : Stmt)
  | forS (i : Nat) (iter : Expr) (body : Stmt)
  | tryS (body handler : Stmt)              -- `try: body` / bare `except: handler`
  | cont
  | ret (e : Expr)
  | opaque (src : String)                   -- outside the subset: `stuck` when executed

/-- A translated method: parameter names after `self` with optional default
values, whether it ends in `**metadata`, the size of the frame, the body.  Slot
0 is `self`, slots `1 …` the parameters, then `**metadata` if any. -/
structure Func where
  params : List (String × Option Expr)
  kwargs : Bool := false
  nslots : Nat
  body : Stmt

def lookupFn (m : String) : List (String × Func) → Option Func
  | [] => none
  | (k, f) :: rest => if k = m then some f else lookupFn m rest

/-! ## Run-time values -/

inductive Val where
  | none
  | bool (b : Bool)
  | str (s : String)
  | int (n : Nat)
  | strs (l : List String)
  | glob (x : String)
  /-- the two objects of a copy: `false` = the one copied from, `true` = the new one -/
  | obj (isNew : Bool)
  | cls
  | dictOf (isNew : Bool)                   -- `obj.__dict__`
  /-- a list of trait names in class order: the predicate selecting them -/
  | names (p : Decl → Bool)
  /-- a local list of names built by `append` -/
  | nameList (l : List String)
  /-- the loop variable: the name in focus -/
  | name (s : String)
  | trait (d : Decl)
  | value (v : CVal)
  | memo
  /-- a state dictionary, aligned with the slots; `ver`: it has `__traits_version__` -/
  | state (xs : List (Option CVal)) (ver : Bool)
  | kwMeta                                  -- `**metadata`: empty
  | method (i : Nat) (m : String)           -- `<local i>.m`

abbrev Frame := List (Option Val)

inductive Flow where
  | next | cont | ret (v : Val) | raised (e : Exc) | stuck

/-- What pure expressions can look at. -/
structure Ctx where
  vars : Frame
  memo : List (String × Val)
  /-- the slots of the object copied from -/
  slots : List Slot
  /-- the declarations of `other`'s and of `self`'s trait for the name in focus -/
  focus : Option (Decl × Decl)

def modeStr : CopyMode → String
  | .ref => "ref" | .shallow => "shallow" | .deep => "deep"

/-- `trait.type` metadata. -/
def typeStr : TKind → String
  | .value => "trait" | .readonly => "trait" | .event => "event" | .property => "property"

def memoGet (m : List (String × Val)) (k : String) : Option Val :=
  match m with
  | [] => Option.none
  | (k', v) :: rest => if k' = k then some v else memoGet rest k

def memoSet (m : List (String × Val)) (k : String) (v : Val) : List (String × Val) :=
  match m with
  | [] => [(k, v)]
  | (k', v') :: rest => if k' = k then (k, v) :: rest else (k', v') :: memoSet rest k v

/-- The life-cycle methods called on a new object (no effect on the slots; their ORDER is recorded). -/
def lifecycle : List String :=
  ["_init_trait_listeners", "_init_trait_observers", "_post_init_trait_listeners",
   "_post_init_trait_observers", "traits_init", "_trait_set_inited"]


/-! ## Destructors (keep every `match` single-discriminant) -/

def Val.asObj : Val → Option Bool | .obj r => some r | _ => Option.none
def Val.asStr : Val → Option String | .str s => some s | _ => Option.none
def Val.asInt : Val → Option Nat | .int n => some n | _ => Option.none
def Val.asBool : Val → Option Bool | .bool b => some b | _ => Option.none
def Val.asNames : Val → Option (Decl → Bool) | .names p => some p | _ => Option.none
def Val.asNameList : Val → Option (List String) | .nameList l => some l | _ => Option.none
def Val.asName : Val → Option String | .name s => some s | _ => Option.none
def Val.asTrait : Val → Option Decl | .trait d => some d | _ => Option.none
def Val.asValue : Val → Option CVal | .value v => some v | _ => Option.none
def Val.asState : Val → Option (List (Option CVal) × Bool) | .state xs v => some (xs, v) | _ => Option.none
def Val.asStrs : Val → Option (List String) | .strs l => some l | _ => Option.none
def Val.asGlob : Val → Option String | .glob x => some x | _ => Option.none
def Val.asDictOf : Val → Option Bool | .dictOf r => some r | _ => Option.none
def Val.asMethod : Val → Option (Nat × String) | .method i m => some (i, m) | _ => Option.none
def Val.isNone : Val → Bool | .none => true | _ => false
def Val.isMemo : Val → Bool | .memo => true | _ => false
def Val.isMeta : Val → Bool | .kwMeta => true | _ => false
def Val.isCls : Val → Bool | .cls => true | _ => false

def Expr.asVar : Expr → Option Nat | .var i => some i | _ => Option.none
def Expr.asGlob : Expr → Option String | .glob x => some x | _ => Option.none

def getVar (vars : Frame) (i : Nat) : Option Val :=
  match vars[i]? with
  | some (some v) => some v
  | _ => Option.none

/-- `(name, dic[name])` with `name` the comprehension variable `x`: returns the local `dic`. -/
def nameDicPair (x : Nat) : Expr → Option Nat
  | .tuple es =>
    (match es with
     | [a, b] =>
       (match b with
        | .sub d k => if a.asVar = some x ∧ k.asVar = some x then d.asVar else Option.none
        | _ => Option.none)
     | _ => Option.none)
  | _ => Option.none

/-- `name in dic`: returns `dic`. -/
def nameInDic (x : Nat) : Expr → Option Nat
  | .cmp op a d => if op = "in" ∧ a.asVar = some x then d.asVar else Option.none
  | _ => Option.none

/-- Attribute of a value. -/
def attrOf (v : Val) (e : Expr) (a : String) : Option Val :=
  match v with
  | .trait d =>
    if a = "type" then some (.str (typeStr d.kind))
    else if a = "copy" then some (match d.copy with | Option.none => .none | some m => .str (modeStr m))
    else Option.none
  | .obj r =>
    if a = "__class__" then some .cls
    else if a = "__dict__" then some (.dictOf r)
    else Option.none
  | .state _ _ => (match e.asVar with | some i => if a = "pop" then some (.method i "pop") else Option.none | _ => Option.none)
  | _ => Option.none

/-- Builtin functions of one argument. -/
def builtin1 (slots : List Slot) (f : String) (v : Val) : Option Val :=
  match v with
  | .names p => if f = "len" then some (.int (slots.filter (fun sl => p sl.decl)).length) else Option.none
  | .nameList l => if f = "len" then some (.int l.length) else Option.none
  | .obj _ => if f = "id" then some (.str "#id") else Option.none
  | .state xs ver => if f = "dict" then some (.state xs ver) else Option.none
  | _ => Option.none

/-- Pure methods of an object.  `focus`: declarations of `other`'s and `self`'s trait for the name in focus. -/
def objMethod (focus : Option (Decl × Decl)) (r : Bool) (m : String) (as : List Val) (kwn : List String)
    (ks : List Val) : Option Val :=
  if m = "copyable_trait_names" then
    (if as.isEmpty ∧ kwn = ["**"] ∧ (ks.map Val.isMeta) = [true] then some (.names Decl.copyable) else Option.none)
  else if m = "all_trait_names" then
    (if as.isEmpty ∧ kwn = [] then some (.names (fun _ => true)) else Option.none)
  else if m = "trait_names" then
    -- `trait_names(type="delegate", transient=False)`: the modelled classes declare no delegates
    (if as.isEmpty ∧ kwn = ["type", "transient"] ∧ ks.map Val.asStr = [some "delegate", Option.none] ∧
        ks.map Val.asBool = [Option.none, some false] then some (.names (fun _ => false)) else Option.none)
  else if m = "has_traits_interface" then
    -- the modelled classes do not implement ISerializable
    (if as.map Val.asGlob = [some "ISerializable"] ∧ kwn = [] then some (.bool false) else Option.none)
  else if m = "trait" then
    (match focus with
     | some (_, b) => if r = true ∧ (as.map Val.asName).all Option.isSome ∧ as.length = 1 ∧ kwn = [] then some (.trait b) else Option.none
     | Option.none => Option.none)
  else if m = "base_trait" then
    (match focus with
     | some (a, _) => if r = false ∧ (as.map Val.asName).all Option.isSome ∧ as.length = 1 ∧ kwn = [] then some (.trait a) else Option.none
     | Option.none => Option.none)
  else Option.none

def memoMethod (memo : List (String × Val)) (m : String) (as : List Val) : Option Val :=
  if m = "get" then
    (match as with
     | [k] => (match k.asStr with | some k => some ((memoGet memo k).getD .none) | _ => Option.none)
     | [k, d] => (match k.asStr with | some k => some ((memoGet memo k).getD d) | _ => Option.none)
     | _ => Option.none)
  else Option.none

def cmpVals (op : String) (x y : Val) : Option Val :=
  if y.isNone then
    (if op = "is" ∨ op = "==" then some (.bool x.isNone)
     else if op = "is not" then some (.bool (!x.isNone)) else Option.none)
  else
    match y with
    | .str t =>
      (match x with
       | .str s => if op = "==" then some (.bool (s = t)) else Option.none
       | .none => if op = "==" then some (.bool false) else Option.none
       | .names _ => if op = "==" then some (.bool false) else Option.none
       | _ => Option.none)
    | .int b =>
      (match x with
       | .int a => if op = "==" then some (.bool (a = b)) else if op = ">" then some (.bool (a > b)) else Option.none
       | _ => Option.none)
    | .strs l => (match x with | .str s => if op = "in" then some (.bool (l.contains s)) else Option.none | _ => Option.none)
    | _ => Option.none

mutual
/-- Pure expressions; `none` = stuck. -/
def eval (c : Ctx) : Expr → Option Val
  | .var i => getVar c.vars i
  | .glob x => some (.glob x)
  | .noneLit => some .none
  | .boolLit b => some (.bool b)
  | .strLit s => some (.str s)
  | .intLit n => some (.int n)
  | .strs l => some (.strs l)
  | .emptyList => some (.nameList [])
  | .emptyDict => some .memo
  | .attr e a => (match eval c e with | some v => attrOf v e a | Option.none => Option.none)
  | .callF f args kwn _ =>
    (match evalAll c args with
     | some [v] => if kwn = [] then builtin1 c.slots f v else Option.none
     | _ => Option.none)
  | .callM recv m args kwn kwv =>
    (match eval c recv with
     | some rv =>
       (match evalAll c args with
        | some as =>
          (match evalAll c kwv with
           | some ks =>
             (match rv.asObj with
              | some r => objMethod c.focus r m as kwn ks
              | Option.none => if rv.isMemo ∧ kwn = [] then memoMethod c.memo m as else Option.none)
           | Option.none => Option.none)
        | Option.none => Option.none)
     | Option.none => Option.none)
  | .callV f args =>
    -- `pop("__traits_version__", None)`: reads the version mark (that the key leaves the dictionary is not
    -- tracked: `trait_set` does not look at it)
    (match eval c f with
     | some fv =>
       (match fv.asMethod, evalAll c args with
        | some (i, m), some as =>
          if m = "pop" ∧ as.map Val.asStr = [some "__traits_version__", Option.none] ∧ as.map Val.isNone = [false, true] then
            (match getVar c.vars i with
             | some sv => (match sv.asState with
                           | some (_, ver) => some (if ver then .str "version" else .none)
                           | Option.none => Option.none)
             | Option.none => Option.none)
          else Option.none
        | _, _ => Option.none)
     | Option.none => Option.none)
  | .cmp op a b =>
    (match eval c a with
     | some x => (match eval c b with | some y => cmpVals op x y | Option.none => Option.none)
     | Option.none => Option.none)
  | .or a b =>
    (match eval c a with
     | some x =>
       (match x.asBool with
        | some true => some (.bool true)
        | some false => (match eval c b with
                         | some y => (match y.asBool with | some yb => some (.bool yb) | Option.none => Option.none)
                         | Option.none => Option.none)
        | Option.none => Option.none)
     | Option.none => Option.none)
  | .not a =>
    (match eval c a with
     | some x => (match x.asBool with | some xb => some (.bool (!xb)) | Option.none => Option.none)
     | Option.none => Option.none)
  | .listComp elt x iter conds =>
    -- `[(name, dic[name]) for name in <names> if name in dic]`: the `__dict__` entries of the selected traits
    (match conds with
     | [cond] =>
       (match nameDicPair x elt, nameInDic x cond, eval c iter with
        | some d1, some d2, some it =>
          (match getVar c.vars d1, getVar c.vars d2 with
           | some v1, some v2 =>
             (match it.asNames with
              | some p =>
                if v1.asDictOf = some false ∧ v2.asDictOf = some false then
                  some (.state (c.slots.map (fun sl => if p sl.decl then sl.val else Option.none)) false)
                else Option.none
              | Option.none => Option.none)
           | _, _ => Option.none)
        | _, _, _ => Option.none)
     | _ => Option.none)
  | _ => Option.none
def evalAll (c : Ctx) : List Expr → Option (List Val)
  | [] => some []
  | e :: es =>
    (match eval c e with
     | some v => (match evalAll c es with | some vs => some (v :: vs) | Option.none => Option.none)
     | Option.none => Option.none)
end

/-- `d.update(d2)` of two aligned state dictionaries. -/
def mergeState : List (Option CVal) → List (Option CVal) → List (Option CVal)
  | x :: xs, y :: ys => (match y with | some v => some v | Option.none => x) :: mergeState xs ys
  | xs, _ => xs

/-! ## Inside `for name in …`: one slot of `other` and one of `self` in focus -/

structure FS where
  a : Slot
  b : Slot
  n : Nat
  vars : Frame
  memo : List (String × Val)

def FS.ctx (s : FS) : Ctx := ⟨s.vars, s.memo, [], some (s.a.decl, s.b.decl)⟩

/-- `getattr(other, name)`: an Event is write-only, reading it raises. -/
def doGetattr (E : Env) (oS : Nat) (s : FS) (as : List Val) : Option (Except Exc Val × FS) :=
  match as with
  | [x, y] =>
    if x.asObj = some false ∧ y.asName.isSome then
      (if s.a.decl.kind = .event then some (.error .attributeError, s)
       else
         let r := readSlot E oS s.n s.a
         some (.ok (.value r.1), { s with a := r.2.1, n := r.2.2 }))
    else Option.none
  | _ => Option.none

/-- `setattr(self, name, value)`. -/
def doSetattr (E : Env) (oD : Nat) (s : FS) (as : List Val) : Option (Except Exc Val × FS) :=
  match as with
  | [x, y, z] =>
    if x.asObj = some true ∧ y.asName.isSome then
      (match z.asValue with
       | some v =>
         (match assignSlot E oD s.n s.b v with
          | .error e => some (.error e, s)
          | .ok (b', n') => some (.ok .none, { s with b := b', n := n' }))
       | Option.none => Option.none)
    else Option.none
  | _ => Option.none

/-- `copy_module.copy(value)`, `copy_module.deepcopy(value)`, `copy_module.deepcopy(value, memo)`. -/
def doCopy (E : Env) (s : FS) (m : String) (as : List Val) : Option (Except Exc Val × FS) :=
  match as with
  | [x] =>
    (match x.asValue with
     | some v =>
       if m = "copy" then
         (match shallowV E s.n v with
          | .error e => some (.error e, s)
          | .ok (v', n') => some (.ok (.value v'), { s with n := n' }))
       else if m = "deepcopy" then
         (match deepcopyV s.n v with
          | .error e => some (.error e, s)
          | .ok (v', n') => some (.ok (.value v'), { s with n := n' }))
       else Option.none
     | Option.none => Option.none)
  | [x, y] =>
    (match x.asValue with
     | some v =>
       if m = "deepcopy" ∧ y.isMemo then
         (match deepcopyV s.n v with
          | .error e => some (.error e, s)
          | .ok (v', n') => some (.ok (.value v'), { s with n := n' }))
       else Option.none
     | Option.none => Option.none)
  | _ => Option.none

/-- `<local list>.append(name)`. -/
def doAppend (s : FS) (i : Nat) (as : List Val) : Option (Except Exc Val × FS) :=
  match getVar s.vars i, as with
  | some lv, [x] =>
    (match lv.asNameList, x.asName with
     | some l, some nm => some (.ok .none, { s with vars := s.vars.set i (some (.nameList (l ++ [nm]))) })
     | _, _ => Option.none)
  | _, _ => Option.none

/-- Calls with an effect on the slots in focus.  `none`: not such a call. -/
def callB (E : Env) (oS oD : Nat) (s : FS) : Expr → Option (Except Exc Val × FS)
  | .callF f args kwn _ =>
    if kwn = [] then
      (match evalAll s.ctx args with
       | some as =>
         if f = "getattr" then doGetattr E oS s as
         else if f = "setattr" then doSetattr E oD s as
         else Option.none
       | Option.none => Option.none)
    else Option.none
  | .callM recv m args kwn _ =>
    if kwn = [] then
      (match evalAll s.ctx args with
       | some as =>
         (match recv with
          | .glob g => if g = "copy_module" then doCopy E s m as else Option.none
          | .var i => if m = "append" then doAppend s i as else Option.none
          | _ => Option.none)
       | Option.none => Option.none)
    else Option.none
  | _ => Option.none

def execB (E : Env) (oS oD : Nat) : Stmt → FS → Flow × FS
  | .skip, s => (.next, s)
  | .seq a b, s =>
    (match execB E oS oD a s with
     | (.next, s') => execB E oS oD b s'
     | r => r)
  | .assign i e, s =>
    (match callB E oS oD s e with
     | some (.ok v, s') => (.next, { s' with vars := s'.vars.set i (some v) })
     | some (.error ex, s') => (.raised ex, s')
     | Option.none =>
       (match eval s.ctx e with
        | some v => (.next, { s with vars := s.vars.set i (some v) })
        | Option.none => (.stuck, s)))
  | .expr e, s =>
    (match callB E oS oD s e with
     | some (.ok _, s') => (.next, s')
     | some (.error ex, s') => (.raised ex, s')
     | Option.none => (.stuck, s))
  | .ifS c t e, s =>
    (match eval s.ctx c with
     | some cv =>
       (match cv.asBool with
        | some true => execB E oS oD t s
        | some false => execB E oS oD e s
        | Option.none => (.stuck, s))
     | Option.none => (.stuck, s))
  | .tryS body handler, s =>
    (match execB E oS oD body s with
     | (.raised _, s') => execB E oS oD handler s'
     | r => r)
  | .cont, s => (.cont, s)
  | _, s => (.stuck, s)

/-- `for name in <names p>: body` over the aligned slots of `other` and `self`. -/
def loopB (E : Env) (oS oD : Nat) (body : Stmt) (i : Nat) (p : Decl → Bool) (memo : List (String × Val)) :
    List Slot → List Slot → Nat → Frame → Flow × List Slot × List Slot × Nat × Frame
  | a :: as, b :: bs, n, vars =>
    if p a.decl then
      match execB E oS oD body ⟨a, b, n, vars.set i (some (.name a.decl.name)), memo⟩ with
      | (.next, s') =>
        let r := loopB E oS oD body i p memo as bs s'.n s'.vars
        (r.1, s'.a :: r.2.1, s'.b :: r.2.2.1, r.2.2.2)
      | (.cont, s') =>
        let r := loopB E oS oD body i p memo as bs s'.n s'.vars
        (r.1, s'.a :: r.2.1, s'.b :: r.2.2.1, r.2.2.2)
      | (f, s') => (f, s'.a :: as, s'.b :: bs, s'.n, s'.vars)
    else
      let r := loopB E oS oD body i p memo as bs n vars
      (r.1, a :: r.2.1, b :: r.2.2.1, r.2.2.2)
  | as, bs, n, vars => (.next, as, bs, n, vars)

/-! ## Method level -/

structure TS where
  /-- the slots of the object copied from (`obj false`) -/
  src : List Slot
  /-- the slots of the new object (`obj true`) -/
  dst : List Slot
  n : Nat
  vars : Frame
  memo : List (String × Val) := []
  /-- the methods called on the new object, in order -/
  log : List String := []

def TS.ctx (s : TS) : Ctx := ⟨s.vars, s.memo, s.src, Option.none⟩

/-- How a call of another translated method is carried out: (method, receiver
is the new object, positional arguments, keyword names, keyword values). -/
abbrev Handler := String → Bool → List Val → List String → List Val → TS → Option (Except Exc Val × TS)

def noHandler : Handler := fun _ _ _ _ _ _ => Option.none

/-- Effectful methods of an object. -/
def objCall (E : Env) (oS oD : Nat) (H : Handler) (s : TS) (r : Bool) (m : String) (as : List Val)
    (kwn : List String) (ks : List Val) : Option (Except Exc Val × TS) :=
  if m = "__new__" then
    (if r = false ∧ as.map Val.isCls = [true] ∧ kwn = [] then
       some (.ok (.obj true), { s with dst := s.src.map (fun sl => ⟨sl.decl, Option.none⟩) })
     else Option.none)
  else if lifecycle.contains m then
    (if r = true ∧ as.isEmpty ∧ kwn = [] then some (.ok .none, { s with log := s.log ++ [m] }) else Option.none)
  else if m = "trait_get" then
    -- `trait_get(transient=is_none)`: every trait without `transient` metadata, read in class order
    (if r = false ∧ as.isEmpty ∧ kwn = ["transient"] ∧ ks.map Val.asGlob = [some "is_none"] then
       let g := getstateL E oS s.n s.src
       some (.ok (.state g.1 false), { s with src := g.2.1, n := g.2.2 })
     else Option.none)
  else if m = "trait_set" then
    -- `trait_set(trait_change_notify=…, **state)`: every value assigned, in order
    (if r = true ∧ as.isEmpty ∧ kwn = ["trait_change_notify", "**"] then
       (match ks with
        | [k1, k2] =>
          (match k1.asBool, k2.asState with
           | some _, some (xs, _) =>
             (match setstateL E oD s.n s.dst xs with
              | .error e => some (.error e, { s with log := s.log ++ [m] })
              | .ok (d', n') => some (.ok (.obj true), { s with dst := d', n := n', log := s.log ++ [m] }))
           | _, _ => Option.none)
        | _ => Option.none)
     else Option.none)
  else if m = "copy_traits" ∨ m = "clone_traits" ∨ m = "__getstate__" then
    (match H m r as kwn ks s with
     | some (res, s') => some (res, if r then { s' with log := s'.log ++ [m] } else s')
     | Option.none => Option.none)
  else Option.none

/-- `result.update(<state>)`, `result.setdefault("__traits_version__", TraitsVersion)` on the local `i`. -/
def stateCall (s : TS) (i : Nat) (xs : List (Option CVal)) (ver : Bool) (m : String) (as : List Val) :
    Option (Except Exc Val × TS) :=
  if m = "update" then
    (match as with
     | [y] => (match y.asState with
               | some (ys, _) => some (.ok .none, { s with vars := s.vars.set i (some (.state (mergeState xs ys) ver)) })
               | Option.none => Option.none)
     | _ => Option.none)
  else if m = "setdefault" then
    (if as.map Val.asStr = [some "__traits_version__", Option.none] ∧ as.map Val.asGlob = [Option.none, some "TraitsVersion"] then
       some (.ok .none, { s with vars := s.vars.set i (some (.state xs true)) })
     else Option.none)
  else Option.none

/-- Calls with an effect at method level.  `none`: not such a call (or stuck). -/
def callT (E : Env) (oS oD : Nat) (H : Handler) (s : TS) : Expr → Option (Except Exc Val × TS)
  | .callM recv m args kwn kwv =>
    (match eval s.ctx recv, evalAll s.ctx args, evalAll s.ctx kwv with
     | some rv, some as, some ks =>
       (match rv.asObj with
        | some r => objCall E oS oD H s r m as kwn ks
        | Option.none =>
          (match rv.asState, recv.asVar with
           | some (xs, ver), some i => if kwn = [] then stateCall s i xs ver m as else Option.none
           | _, _ => Option.none))
     | _, _, _ => Option.none)
  | _ => Option.none

/-- `(__newobj__, (self.__class__,), <call>)`: the third item. -/
def reduceTriple : Expr → Option Expr
  | .tuple es =>
    (match es with
     | [f, _, inner] => if f.asGlob = some "__newobj__" then some inner else Option.none
     | _ => Option.none)
  | _ => Option.none

def execT (E : Env) (oS oD : Nat) (H : Handler) : Stmt → TS → Flow × TS
  | .skip, s => (.next, s)
  | .seq a b, s =>
    (match execT E oS oD H a s with
     | (.next, s') => execT E oS oD H b s'
     | r => r)
  | .assign i e, s =>
    (match callT E oS oD H s e with
     | some (.ok v, s') => (.next, { s' with vars := s'.vars.set i (some v) })
     | some (.error ex, s') => (.raised ex, s')
     | Option.none =>
       (match eval s.ctx e with
        | some v =>
          -- `memo = {}`: a new, empty memo
          (.next, { s with vars := s.vars.set i (some v), memo := if v.isMemo then [] else s.memo })
        | Option.none => (.stuck, s)))
  | .assignSub t k e, s =>
    (match eval s.ctx t, eval s.ctx k, eval s.ctx e with
     | some tv, some kv, some v =>
       (match kv.asStr with
        | some key => if tv.isMemo then (.next, { s with memo := memoSet s.memo key v }) else (.stuck, s)
        | Option.none => (.stuck, s))
     | _, _, _ => (.stuck, s))
  | .expr e, s =>
    (match callT E oS oD H s e with
     | some (.ok _, s') => (.next, s')
     | some (.error ex, s') => (.raised ex, s')
     | Option.none => (.stuck, s))
  | .ifS c t e, s =>
    (match eval s.ctx c with
     | some cv =>
       (match cv.asBool with
        | some true => execT E oS oD H t s
        | some false => execT E oS oD H e s
        | Option.none => (.stuck, s))
     | Option.none => (.stuck, s))
  | .forS i iter body, s =>
    (match eval s.ctx iter with
     | some it =>
       (match it.asNames, it.asNameList with
        | some p, _ =>
          let r := loopB E oS oD body i p s.memo s.src s.dst s.n s.vars
          (r.1, { s with src := r.2.1, dst := r.2.2.1, n := r.2.2.2.1, vars := r.2.2.2.2 })
        | Option.none, some l =>
          let r := loopB E oS oD body i (fun d => l.contains d.name) s.memo s.src s.dst s.n s.vars
          (r.1, { s with src := r.2.1, dst := r.2.2.1, n := r.2.2.2.1, vars := r.2.2.2.2 })
        | Option.none, Option.none => (.stuck, s))
     | Option.none => (.stuck, s))
  | .ret e, s =>
    (match callT E oS oD H s (match reduceTriple e with | some inner => inner | Option.none => e) with
     | some (.ok v, s') => (.ret v, s')
     | some (.error ex, s') => (.raised ex, s')
     | Option.none =>
       (match eval s.ctx e with
        | some v => (.ret v, s)
        | Option.none => (.stuck, s)))
  | _, s => (.stuck, s)

/-! ## Calling a translated method -/

/-- Default parameter values are literals. -/
def evalDefault : Expr → Option Val
  | .noneLit => some .none
  | .boolLit b => some (.bool b)
  | .strLit s => some (.str s)
  | _ => Option.none

def kwLookup : List String → List Val → String → Option Val
  | k :: ks, v :: vs, x => if k = x then some v else kwLookup ks vs x
  | _, _, _ => Option.none

/-- Positional arguments first, then keywords by name, then defaults. -/
def bindParams : List (String × Option Expr) → List Val → List String → List Val → Option (List (Option Val))
  | [], [], _, _ => some []
  | [], _ :: _, _, _ => Option.none
  | _ :: ps, a :: as, kwn, kwv =>
    (match bindParams ps as kwn kwv with | some r => some (some a :: r) | Option.none => Option.none)
  | (x, d) :: ps, [], kwn, kwv =>
    (match kwLookup kwn kwv x with
     | some v => (match bindParams ps [] kwn kwv with | some r => some (some v :: r) | Option.none => Option.none)
     | Option.none =>
       (match d with
        | some de =>
          (match evalDefault de, bindParams ps [] kwn kwv with
           | some v, some r => some (some v :: r)
           | _, _ => Option.none)
        | Option.none => Option.none))

/-- Run `f` with receiver `self` on state `s` (frame replaced; the caller's frame is put back). -/
def runFn (E : Env) (oS oD : Nat) (H : Handler) (f : Func) (self : Val) (args : List Val)
    (kwn : List String) (kwv : List Val) (s : TS) : Option (Except Exc Val × TS) :=
  match bindParams f.params args kwn kwv with
  | Option.none => Option.none
  | some ps =>
    let frame : Frame := (some self :: ps) ++ (if f.kwargs then [some .kwMeta] else []) ++
      List.replicate (f.nslots - (1 + ps.length + (if f.kwargs then 1 else 0))) Option.none
    match execT E oS oD H f.body { s with vars := frame } with
    | (.ret v, s') => some (.ok v, { s' with vars := s.vars })
    | (.next, s') => some (.ok .none, { s' with vars := s.vars })
    | (.raised e, s') => some (.error e, { s' with vars := s.vars })
    | _ => Option.none

/-- A handler that runs the methods of `prog` (which themselves call through `H`). -/
def progHandler (E : Env) (oS oD : Nat) (prog : List (String × Func)) (H : Handler) : Handler :=
  fun m r as kwn kwv s =>
    match lookupFn m prog with
    | some f => runFn E oS oD H f (.obj r) as kwn kwv s
    | Option.none => Option.none

end TraitsVerif.Model.PyP
