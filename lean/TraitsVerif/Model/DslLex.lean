/-
C15 (cluster `dsl`) — tokens and lexer of the observe mini-language.

Mirrors the terminals of /repo/traits/observation/_dsl_grammar.lark as they are
compiled into /repo/traits/observation/_generated_parser.py (MEMO, line 3160):

  WS     (?:[ \t\x0c\r\n])+        ignored                  (%import common.WS / %ignore WS)
  NAME   [a-zA-Z_]\w*              (_dsl_grammar.lark:50)
  ITEMS  "items"   PLUS "+"   STAR "*"   DOT "."   COLON ":"   LSQB "["   RSQB "]"   COMMA ","

The generated parser uses Lark's *contextual* lexer (`'lexer_type': 'contextual'`):
in the parser state after PLUS only NAME is acceptable, so `+items` is the
metadata name "items"; everywhere else an identifier spelt `items` is the
keyword (Lark's string-over-regex rule: identifier "itemsx" stays a NAME).
This is the only context dependence and is modelled by the flag `afterPlus`.

`\w` for non-ASCII characters is Python's Unicode table; the model takes it as a
parameter `uw : Char → Bool` (consulted only for code points ≥ 128), so every
theorem holds for every such table; the harness supplies the table entries for
the characters of a case on the case line.

Names are `List Char` (no `String` reasoning needed in proofs).
Core Lean only.
-/
namespace TraitsVerif.Model.Dsl

abbrev Name := List Char

/-- Series connectors: `.` (left operand notifies) and `:` (left operand quiet).
_dsl_grammar.lark:19-23. -/
inductive Conn where
  | notify | quiet
  deriving DecidableEq, Repr, Inhabited

inductive Tok where
  | name (n : Name)      -- NAME
  | items                -- ITEMS keyword
  | plus | star
  | conn (c : Conn)      -- DOT / COLON
  | comma | lb | rb
  deriving DecidableEq, Repr, Inhabited

def itemsKw : Name := ['i', 't', 'e', 'm', 's']

def isAsciiLetter (c : Char) : Bool :=
  (c.val ≥ 97 && c.val ≤ 122) || (c.val ≥ 65 && c.val ≤ 90)

def isAsciiDigit (c : Char) : Bool := c.val ≥ 48 && c.val ≤ 57

/-- `[a-zA-Z_]` -/
def isWordStart (c : Char) : Bool := isAsciiLetter c || c == '_'

/-- `\w` : ASCII `[a-zA-Z0-9_]`, otherwise whatever the table `uw` says. -/
def isWordChar (uw : Char → Bool) (c : Char) : Bool :=
  isWordStart c || isAsciiDigit c || (c.val ≥ 128 && uw c)

/-- Lark `common.WS` = `[ \t\f\r\n]`. -/
def isWs (c : Char) : Bool :=
  c == ' ' || c == '\t' || c == '\x0c' || c == '\r' || c == '\n'

/-- The one-character string terminals. -/
def symTok (c : Char) : Option Tok :=
  if c == '+' then some .plus
  else if c == '*' then some .star
  else if c == '.' then some (.conn .notify)
  else if c == ':' then some (.conn .quiet)
  else if c == ',' then some .comma
  else if c == '[' then some .lb
  else if c == ']' then some .rb
  else none

/-- Token for a completed identifier (contextual keyword rule). -/
def wordTok (afterPlus : Bool) (w : Name) : Tok :=
  if !afterPlus && w == itemsKw then .items else .name w

/-- Emit the pending identifier, if any. -/
def flush (afterPlus : Bool) (acc : Name) : List Tok :=
  if acc.isEmpty then [] else [wordTok afterPlus acc]

/-- Does the next token come directly after a PLUS?  (`acc` pending identifier,
`ap` = the last emitted token was PLUS.) -/
def apAfter (ap : Bool) (acc : Name) : Bool := ap && acc.isEmpty

/-- The lexer: one left-to-right pass, maximal munch for identifiers.
`acc` is the identifier being read (empty = none), `ap` = last emitted token is PLUS.
`none` = Lark `UnexpectedCharacters`. -/
def lexGo (uw : Char → Bool) : List Char → Name → Bool → Option (List Tok)
  | [], acc, ap => some (flush ap acc)
  | c :: cs, acc, ap =>
    if !acc.isEmpty && isWordChar uw c then lexGo uw cs (acc ++ [c]) ap
    else if acc.isEmpty && isWordStart c then lexGo uw cs [c] ap
    else
      match symTok c with
      | some t =>
        (lexGo uw cs [] (t == .plus)).map (fun r => flush ap acc ++ t :: r)
      | none =>
        if isWs c then (lexGo uw cs [] (apAfter ap acc)).map (fun r => flush ap acc ++ r)
        else none

def lex (uw : Char → Bool) (s : List Char) : Option (List Tok) := lexGo uw s [] false

/-- The text of a token. -/
def Tok.text : Tok → List Char
  | .name n => n
  | .items => itemsKw
  | .plus => ['+']
  | .star => ['*']
  | .conn .notify => ['.']
  | .conn .quiet => [':']
  | .comma => [',']
  | .lb => ['[']
  | .rb => [']']

end TraitsVerif.Model.Dsl
