/-
PyLO — the subset of Python in which the *object-level* methods of the
trait-bound containers are written: `TraitListObject._item_validator`,
`_validate_length`, `notifier`; `TraitDictObject._key_validator`,
`_value_validator`, `notifier`; `TraitSetObject._validator`, `notifier`
(traits/trait_list_object.py, trait_dict_object.py, trait_set_object.py).
`harness/translate/pylobj.py` translates their source text into terms of this
language on every run (`Generated/ObjProg.lean`); `Lemmas/PyLObj.lean` proves
that the hand-written gates of `Model/ContainerObject.lean` are the
interpretation of those terms for every state of `self`.

These methods do not touch the container's contents; what they decide is
 * whether an item / key / value is passed through the inner trait's `validate`
   (and with which owner), returned as is, or an exception is raised,
 * whether the new length is checked against `minlen..maxlen`,
 * whether the `<name>_items` event is delivered to the owner, built from which
   arguments.
The interpreter is run on an abstract `self` (`OSelf`): does it have a `trait`
attribute and is it `None`, what does calling `self.object` give (a live owner
or `None`), is `name_items` `None`, is `getattr(owner, name)` still this very
container.  The inner trait's `validate` is a parameter (`Callback`).
-/
import TraitsVerif.Py.Basic
namespace TraitsVerif.Model.PyLO
open TraitsVerif

/-- Which inner trait of the container trait a validator goes to. -/
inductive Which where
  | item | key | value
  deriving Repr, DecidableEq

/-- What the methods read of `self.trait` (a CTrait). -/
structure CT where
  itemNone : Bool := false      -- `trait.item_trait.validate is None`
  keyNone : Bool := false       -- `trait.key_trait.validate is None`
  valueNone : Bool := false     -- `trait.value_trait.validate is None`
  minlen : Nat := 0
  maxlen : Nat := 0
  deriving Repr, DecidableEq

def CT.validateNone (t : CT) : Which → Bool
  | .item => t.itemNone
  | .key => t.keyNone
  | .value => t.valueNone

/-- The attributes of `self` the object-level methods read.
`trait`: `none` = no such attribute, `some none` = `None` (after `__setstate__`),
`some (some t)` = a CTrait.  `object`: `none` = no such attribute, `some alive` =
a callable (weakref to the owner or `lambda: None`) that returns the owner
(`alive`) or `None`.  `nameItems`: `self.name_items is not None`.  `current`:
`getattr(owner, self.name) is self` (false when the container has been replaced
on the owner, or sits inside another container of the same trait). -/
structure OSelf where
  trait : Option (Option CT)
  object : Option Bool
  nameItems : Bool
  current : Bool
  deriving Repr, DecidableEq

inductive Expr where
  | var (i : Nat)
  | self
  | noneLit
  | boolLit (b : Bool)
  | intLit (n : Int)
  | lambdaNone                                   -- `lambda: None`
  | selfAttr (name : String)                     -- `self.name`
  | getattrSelf (name : String) (dflt : Expr)    -- `getattr(self, 'name', dflt)`
  | hasattrSelf (name : String)                  -- `hasattr(self, 'name')`
  | attr (e : Expr) (name : String)              -- `e.name`
  | getattrDyn (o n : Expr)                      -- `getattr(o, n)`
  | isNone (e : Expr)                            -- `e is None`
  | isNotNone (e : Expr)                         -- `e is not None`
  | isSame (a b : Expr)                          -- `a is b`
  | isNotSame (a b : Expr)                       -- `a is not b`
  | not (a : Expr)
  | or (a b : Expr)
  | and (a b : Expr)
  | le (a b : Expr)                              -- `a <= b`
  | call0 (f : Expr)                             -- `f()`
  | call3 (f a b c : Expr)                       -- `f(a, b, c)`
  | method0 (recv : Expr) (m : String)           -- `recv.m()`
  | mkEvent2 (cls : String) (k1 : String) (e1 : Expr) (k2 : String) (e2 : Expr)
  | mkEvent3 (cls : String) (k1 : String) (e1 : Expr) (k2 : String) (e2 : Expr) (k3 : String) (e3 : Expr)
  deriving Repr

inductive Stmt where
  | skip
  | seq (a b : Stmt)
  | assign (i : Nat) (e : Expr)
  | ifS (c : Expr) (t e : Stmt)
  | ret (e : Expr)
  | tryExcept (body : Stmt) (exc : Exc) (bind : Nat) (handler : Stmt)
  | setPrefix (i : Nat)                          -- `x.set_prefix("…")`
  | raiseVar (i : Nat)                           -- `raise x` (also a bare `raise` in the handler that bound `x`)
  | raiseNew (e : Exc)                           -- `raise E(<message>)`: the message is not interpreted
  | send3 (recv : Expr) (m : String) (a b c : Expr)   -- `recv.m(a, b, c)` as a statement
  deriving Repr

structure Func where
  nparams : Nat
  nslots : Nat
  body : Stmt
  deriving Repr

def stuck {β : Type} : Except Exc β := .error .other

variable {α : Type}

/-- What the owner's `trait_items_event` was called with: the event class, and
for each keyword of its constructor which parameter of `notifier` (0 = the
container argument, 1.. = the parts of the change) it was given. -/
structure Delivery where
  cls : String
  fields : List (String × Nat)
  deriving Repr, DecidableEq

inductive Val (α : Type) where
  | none
  | bool (b : Bool)
  | int (n : Int)
  | item (x : α)                        -- the value being validated
  | param (i : Nat)                     -- an argument of `notifier`, opaque
  | ref (alive : Bool)                  -- what `self.object` holds
  | owner                               -- the HasTraits owner
  | selfObj                             -- this container
  | otherObj                            -- some object that is not this container
  | trait (t : CT)
  | inner (w : Which) (validateNone : Bool)   -- `trait.item_trait` / `key_trait` / `value_trait`
  | validateFn (w : Which)
  | name                                -- `self.name`
  | nameItems                           -- `self.name_items` when it is not `None`
  | event (d : Delivery)                -- a freshly built `Trait*Event`
  | itemsEvent                          -- `self.trait.items_event()`
  | exc (e : Exc)
  deriving Repr

abbrev Frame (α : Type) := List (Option (Val α))

structure St (α : Type) where
  vars : Frame α
  sent : List Delivery := []

inductive Flow (α : Type) where
  | next
  | returned (v : Val α)
  | raised (e : Exc)

structure Ctx (α : Type) where
  self : OSelf
  /-- which inner trait this method is about (`item` for a method that validates nothing) -/
  which : Which
  /-- the inner trait's `validate`, as a function of "called with an owner" -/
  inner : Bool → Callback α α
  ordinal : Nat

def truthy : Val α → Option Bool
  | .none => some false
  | .bool b => some b
  | .int n => some (decide (n ≠ 0))
  | _ => Option.none

def getVar (vars : Frame α) (i : Nat) : Except Exc (Val α) :=
  match vars[i]? with
  | some (some v) => .ok v
  | _ => stuck

def setVar (vars : Frame α) (i : Nat) (v : Val α) : Frame α := vars.set i (some v)

/-- `self.<name>`: `none` = the attribute does not exist. -/
def selfAttrVal (σ : OSelf) (n : String) : Option (Option (Val α)) :=
  if n = "trait" then
    some (match σ.trait with | some (some t) => some (.trait t) | some Option.none => some .none | Option.none => Option.none)
  else if n = "object" then
    some (match σ.object with | some a => some (.ref a) | Option.none => Option.none)
  else if n = "name" then some (some .name)
  else if n = "name_items" then some (some (if σ.nameItems then .nameItems else .none))
  else Option.none

/-- Identity of two values, where the interpreter can tell. -/
def sameObj : Val α → Val α → Option Bool
  | .selfObj, .selfObj => some true
  | .selfObj, .otherObj => some false
  | .otherObj, .selfObj => some false
  | .none, .none => some true
  | .selfObj, .none => some false
  | .none, .selfObj => some false
  | .otherObj, .none => some false
  | .none, .otherObj => some false
  | _, _ => Option.none

def paramOf : Val α → Option Nat
  | .param i => some i
  | _ => Option.none

def eval (C : Ctx α) (vars : Frame α) : Expr → Except Exc (Val α)
  | .var i => getVar vars i
  | .self => .ok .selfObj
  | .noneLit => .ok .none
  | .boolLit b => .ok (.bool b)
  | .intLit n => .ok (.int n)
  | .lambdaNone => .ok (.ref false)
  | .selfAttr n =>
    match selfAttrVal C.self n with
    | some (some v) => .ok v
    | some Option.none => .error .attributeError
    | Option.none => stuck
  | .getattrSelf n dflt =>
    match selfAttrVal C.self n with
    | some (some v) => .ok v
    | some Option.none => eval C vars dflt
    | Option.none => stuck
  | .hasattrSelf n =>
    match selfAttrVal (α := α) C.self n with
    | some (some _) => .ok (.bool true)
    | some Option.none => .ok (.bool false)
    | Option.none => stuck
  | .attr e n =>
    match eval C vars e with
    | .ok (.trait t) =>
      if n = "item_trait" then .ok (.inner .item t.itemNone)
      else if n = "key_trait" then .ok (.inner .key t.keyNone)
      else if n = "value_trait" then .ok (.inner .value t.valueNone)
      else if n = "minlen" then .ok (.int t.minlen)
      else if n = "maxlen" then .ok (.int t.maxlen)
      else stuck
    | .ok (.inner w vn) => if n = "validate" then .ok (if vn then .none else .validateFn w) else stuck
    | .ok .none => .error .attributeError            -- `None.anything`
    | .ok _ => stuck
    | .error e => .error e
  | .getattrDyn o n =>
    match eval C vars o, eval C vars n with
    | .ok .owner, .ok .name => .ok (if C.self.current then .selfObj else .otherObj)
    | .error e, _ => .error e
    | _, .error e => .error e
    | _, _ => stuck
  | .isNone e =>
    match eval C vars e with
    | .ok .none => .ok (.bool true)
    | .ok _ => .ok (.bool false)
    | .error e => .error e
  | .isNotNone e =>
    match eval C vars e with
    | .ok .none => .ok (.bool false)
    | .ok _ => .ok (.bool true)
    | .error e => .error e
  | .isSame a b =>
    match eval C vars a, eval C vars b with
    | .ok x, .ok y => (match sameObj x y with | some r => .ok (.bool r) | Option.none => stuck)
    | .error e, _ => .error e
    | _, .error e => .error e
  | .isNotSame a b =>
    match eval C vars a, eval C vars b with
    | .ok x, .ok y => (match sameObj x y with | some r => .ok (.bool (!r)) | Option.none => stuck)
    | .error e, _ => .error e
    | _, .error e => .error e
  | .not a =>
    match eval C vars a with
    | .ok v => (match truthy v with | some b => .ok (.bool (!b)) | Option.none => stuck)
    | .error e => .error e
  | .or a b =>
    match eval C vars a with
    | .ok v => (match truthy v with | some true => .ok v | some false => eval C vars b | Option.none => stuck)
    | .error e => .error e
  | .and a b =>
    match eval C vars a with
    | .ok v => (match truthy v with | some false => .ok v | some true => eval C vars b | Option.none => stuck)
    | .error e => .error e
  | .le a b =>
    match eval C vars a, eval C vars b with
    | .ok (.int x), .ok (.int y) => .ok (.bool (decide (x ≤ y)))
    | .error e, _ => .error e
    | _, .error e => .error e
    | _, _ => stuck
  | .call0 f =>
    match eval C vars f with
    | .ok (.ref alive) => .ok (if alive then .owner else .none)
    | .ok _ => stuck
    | .error e => .error e
  | .call3 f a b c =>
    match eval C vars f, eval C vars a, eval C vars b, eval C vars c with
    | .ok (.validateFn w), .ok .owner, .ok .name, .ok (.item x) =>
      if w = C.which then (C.inner true C.ordinal x).map .item else stuck
    | .ok (.validateFn w), .ok .none, .ok .name, .ok (.item x) =>
      if w = C.which then (C.inner false C.ordinal x).map .item else stuck
    | .error e, _, _, _ => .error e
    | _, .error e, _, _ => .error e
    | _, _, .error e, _ => .error e
    | _, _, _, .error e => .error e
    | _, _, _, _ => stuck
  | .method0 recv m =>
    match eval C vars recv with
    | .ok (.trait _) => if m = "items_event" then .ok .itemsEvent else stuck
    | .ok .none => .error .attributeError
    | .ok _ => stuck
    | .error e => .error e
  | .mkEvent2 cls k1 e1 k2 e2 =>
    match eval C vars e1, eval C vars e2 with
    | .ok v1, .ok v2 =>
      (match paramOf v1, paramOf v2 with
       | some i1, some i2 => .ok (.event ⟨cls, [(k1, i1), (k2, i2)]⟩)
       | _, _ => stuck)
    | .error e, _ => .error e
    | _, .error e => .error e
  | .mkEvent3 cls k1 e1 k2 e2 k3 e3 =>
    match eval C vars e1, eval C vars e2, eval C vars e3 with
    | .ok v1, .ok v2, .ok v3 =>
      (match paramOf v1, paramOf v2, paramOf v3 with
       | some i1, some i2, some i3 => .ok (.event ⟨cls, [(k1, i1), (k2, i2), (k3, i3)]⟩)
       | _, _, _ => stuck)
    | .error e, _, _ => .error e
    | _, .error e, _ => .error e
    | _, _, .error e => .error e

def exec (C : Ctx α) : Stmt → St α → St α × Flow α
  | .skip, st => (st, .next)
  | .seq a b, st =>
    match exec C a st with
    | (st', .next) => exec C b st'
    | r => r
  | .assign i e, st =>
    match eval C st.vars e with
    | .ok v => ({ st with vars := setVar st.vars i v }, .next)
    | .error x => (st, .raised x)
  | .ifS c t e, st =>
    match eval C st.vars c with
    | .ok v =>
      (match truthy v with
       | some true => exec C t st
       | some false => exec C e st
       | Option.none => (st, .raised .other))
    | .error x => (st, .raised x)
  | .ret e, st =>
    match eval C st.vars e with
    | .ok v => (st, .returned v)
    | .error x => (st, .raised x)
  | .tryExcept body exc i handler, st =>
    match exec C body st with
    | (st', .raised x) =>
      if x = exc then exec C handler { st' with vars := setVar st'.vars i (.exc x) } else (st', .raised x)
    | r => r
  | .setPrefix i, st =>
    match getVar st.vars i with
    | .ok (.exc .traitError) => (st, .next)       -- only TraitError has `set_prefix`; the message is not observed
    | .ok _ => (st, .raised .attributeError)
    | .error x => (st, .raised x)
  | .raiseVar i, st =>
    match getVar st.vars i with
    | .ok (.exc x) => (st, .raised x)
    | .ok _ => (st, .raised .typeError)
    | .error x => (st, .raised x)
  | .raiseNew e, st => (st, .raised e)
  | .send3 recv m a b c, st =>
    match eval C st.vars recv, eval C st.vars a, eval C st.vars b, eval C st.vars c with
    | .ok .owner, .ok .nameItems, .ok (.event d), .ok .itemsEvent =>
      if m = "trait_items_event" then ({ st with sent := st.sent ++ [d] }, .next) else (st, .raised .other)
    | .error e, _, _, _ => (st, .raised e)
    | _, .error e, _, _ => (st, .raised e)
    | _, _, .error e, _ => (st, .raised e)
    | _, _, _, .error e => (st, .raised e)
    | _, _, _, _ => (st, .raised .other)

/-- `self.<validator>(x)` as the `n`-th validator call of an operation. -/
def runValidator (fn : Func) (w : Which) (σ : OSelf) (inner : Bool → Callback α α) : Callback α α := fun n x =>
  if fn.nparams ≠ 1 ∨ fn.nslots < 1 then stuck
  else
    match exec { self := σ, which := w, inner := inner, ordinal := n } fn.body
        { vars := some (.item x) :: List.replicate (fn.nslots - 1) Option.none } with
    | (_, .returned (.item y)) => .ok y
    | (_, .raised e) => .error e
    | _ => stuck

/-- `self._validate_length(n)`: returns (`ok`) or raises. -/
def runLengthCheck (fn : Func) (σ : OSelf) (n : Int) : Except Exc Unit :=
  if fn.nparams ≠ 1 ∨ fn.nslots < 1 then stuck
  else
    match exec (α := Unit) { self := σ, which := .item, inner := fun _ _ _ => stuck, ordinal := 0 } fn.body
        { vars := some (.int n) :: List.replicate (fn.nslots - 1) Option.none } with
    | (_, .next) => .ok ()
    | (_, .returned .none) => .ok ()
    | (_, .raised e) => .error e
    | _ => stuck

/-- `self.notifier(container, part₁, …)`: what was delivered to the owner, or the exception. -/
def runNotifier (fn : Func) (σ : OSelf) : Except Exc (List Delivery) :=
  if fn.nslots < fn.nparams then stuck
  else
    match exec (α := Unit) { self := σ, which := .item, inner := fun _ _ _ => stuck, ordinal := 0 } fn.body
        { vars := (List.range fn.nparams).map (fun i => some (.param i)) ++ List.replicate (fn.nslots - fn.nparams) Option.none } with
    | (st, .next) => .ok st.sent
    | (st, .returned .none) => .ok st.sent
    | (_, .raised e) => .error e
    | _ => stuck

end TraitsVerif.Model.PyLO
