/-
C15 — the grammar the model implements, as data, in the shape in which
harness/translate/grammar.py emits /repo/traits/observation/_dsl_grammar.lark
(Generated/Grammar.lean).  `Props/C15.lean` proves `Generated.grammarRules =
Model.Dsl.grammar` by `decide`: a change to the .lark file breaks that proof.

The data is given a meaning here (`Gen`: the token strings a nonterminal
derives) and `Lemmas/DslGrammar.lean` proves that the derivation trees `Cst`
with `kind` are exactly the derivations of this data.
-/
import TraitsVerif.Model.DslSyntax
namespace TraitsVerif.Model.Dsl

/-- (rule, `?`-inlined, alternatives of (kind, text) symbols) -/
def grammar : List (String × Bool × List (List (String × String))) := [
  ("trait", false, [[("term", "NAME")]]),
  ("items", false, [[("lit", "items")]]),
  ("metadata", false, [[("lit", "+"), ("term", "NAME")]]),
  ("anytrait", false, [[("lit", "*")]]),
  ("notify", false, [[("lit", ".")]]),
  ("quiet", false, [[("lit", ":")]]),
  ("element", true, [
     [("nt", "trait")], [("nt", "items")], [("nt", "metadata")],
     [("lit", "["), ("nt", "parallel"), ("lit", "]")]]),
  ("series", true, [
     [("nt", "series"), ("nt", "notify"), ("nt", "element")],
     [("nt", "series"), ("nt", "quiet"), ("nt", "element")],
     [("nt", "element")]]),
  ("parallel", true, [
     [("nt", "parallel"), ("lit", ","), ("nt", "series")],
     [("nt", "series")]]),
  ("series_terminal", true, [
     [("nt", "series"), ("nt", "notify"), ("nt", "element")],
     [("nt", "series"), ("nt", "notify"), ("nt", "anytrait")],
     [("nt", "series"), ("nt", "quiet"), ("nt", "element")],
     [("nt", "series"), ("nt", "quiet"), ("nt", "anytrait")],
     [("nt", "element")],
     [("nt", "anytrait")]]),
  ("parallel_terminal", true, [
     [("nt", "parallel_terminal"), ("lit", ","), ("nt", "series_terminal")],
     [("nt", "series_terminal")]]),
  ("start", true, [[("nt", "parallel_terminal")]])]

/-! ### what the data means: the token strings a nonterminal derives -/

abbrev GSym := String × String
abbrev GRules := List (String × Bool × List (List GSym))

/-- the token a string literal of the grammar stands for -/
def litTok (s : String) : Option Tok :=
  if s = "items" then some .items
  else if s = "+" then some .plus
  else if s = "*" then some .star
  else if s = "." then some (.conn .notify)
  else if s = ":" then some (.conn .quiet)
  else if s = "," then some .comma
  else if s = "[" then some .lb
  else if s = "]" then some .rb
  else none

/-- `G g (.inl A) ts`: the rule `A` derives the token string `ts`;
`G g (.inr α) ts`: the sequence of symbols `α` derives `ts`.
The terminal NAME derives any NAME token. -/
inductive G (g : GRules) : String ⊕ List GSym → List Tok → Prop
  | rule {A : String} {inl : Bool} {alts : List (List GSym)} {alt : List GSym} {ts : List Tok} :
      (A, inl, alts) ∈ g → alt ∈ alts → G g (.inr alt) ts → G g (.inl A) ts
  | nil : G g (.inr []) []
  | nt {A : String} {rest : List GSym} {t1 t2 : List Tok} :
      G g (.inl A) t1 → G g (.inr rest) t2 → G g (.inr (("nt", A) :: rest)) (t1 ++ t2)
  | name {n : Name} {rest : List GSym} {t2 : List Tok} :
      G g (.inr rest) t2 → G g (.inr (("term", "NAME") :: rest)) (.name n :: t2)
  | lit {s : String} {t : Tok} {rest : List GSym} {t2 : List Tok} :
      litTok s = some t → G g (.inr rest) t2 → G g (.inr (("lit", s) :: rest)) (t :: t2)

/-- the token language of the grammar file -/
def Gen (g : GRules) (A : String) (ts : List Tok) : Prop := G g (.inl A) ts

def grammarTerminals : List (String × String) := [("NAME", "[a-zA-Z_]\\w*")]
def grammarImports : List String := ["common.WS"]
def grammarIgnore : List String := ["WS"]

end TraitsVerif.Model.Dsl
