/-
C15 — the grammar the model implements, as data, in the shape in which
harness/translate/grammar.py emits /repo/traits/observation/_dsl_grammar.lark
(Generated/Grammar.lean).  `Props/C15.lean` proves `Generated.grammarRules =
Model.Dsl.grammar` by `decide`: a change to the .lark file breaks that proof.

The data is given a meaning here (`Gen`: the token strings a nonterminal
derives) and `Lemmas/DslGrammar.lean` proves that the derivation trees `Cst`
with `kind` are exactly the derivations of this data.
-/
import TraitsVerif.Model.DslSyntax
namespace TraitsVerif.Model.Dsl

/-- (rule, `?`-inlined, alternatives of (kind, text) symbols) -/
def grammar : List (String × Bool × List (List (String × String))) := [
  ("trait", false, [[("term", "NAME")]]),
  ("items", false, [[("lit", "items")]]),
  ("metadata", false, [[("lit", "+"), ("term", "NAME")]]),
  ("anytrait", false, [[("lit", "*")]]),
  ("notify", false, [[("lit", ".")]]),
  ("quiet", false, [[("lit", ":")]]),
  ("element", true, [
     [("nt", "trait")], [("nt", "items")], [("nt", "metadata")],
     [("lit", "["), ("nt", "parallel"), ("lit", "]")]]),
  ("series", true, [
     [("nt", "series"), ("nt", "notify"), ("nt", "element")],
     [("nt", "series"), ("nt", "quiet"), ("nt", "element")],
     [("nt", "element")]]),
  ("parallel", true, [
     [("nt", "parallel"), ("lit", ","), ("nt", "series")],
     [("nt", "series")]]),
  ("series_terminal", true, [
     [("nt", "series"), ("nt", "notify"), ("nt", "element")],
     [("nt", "series"), ("nt", "notify"), ("nt", "anytrait")],
     [("nt", "series"), ("nt", "quiet"), ("nt", "element")],
     [("nt", "series"), ("nt", "quiet"), ("nt", "anytrait")],
     [("nt", "element")],
     [("nt", "anytrait")]]),
  ("parallel_terminal", true, [
     [("nt", "parallel_terminal"), ("lit", ","), ("nt", "series_terminal")],
     [("nt", "series_terminal")]]),
  ("start", true, [[("nt", "parallel_terminal")]])]

def grammarTerminals : List (String × String) := [("NAME", "[a-zA-Z_]\\w*")]
def grammarImports : List String := ["common.WS"]
def grammarIgnore : List String := ["WS"]

end TraitsVerif.Model.Dsl
