/-
The construction of a class's wildcard table (`__prefix_traits__`) in
`update_traits_class_dict` (traits/has_traits.py) as an ordered list of steps
with an interpreter (cluster `resolve`, C13).  The translator
harness/translate/prefixtable.py reads the statements of the function that
touch `prefix_list` / `prefix_traits`, **in source order**, into
`Generated/PrefixTable.lean`; `Props/C13.C13_prefix_table_is_source` proves that
`mkClass … .prefixes` equals the interpretation of those steps for all bases and
declarations.  A statement touching the table that the reader does not recognise
becomes `TStep.unknown` (the interpreter is stuck), as does a sort with another
key / direction.
-/
import TraitsVerif.Model.Resolve
namespace TraitsVerif.Model.PrefixTable
open TraitsVerif TraitsVerif.Model.Resolve

/-- tests on a declaration's name -/
inductive NameTest where
  | lastCharIsNot (c : Char)        -- `name[-1:] != "c"`
  | other (text : String)
  deriving Repr, Inhabited

inductive NameExpr where
  | dropLast                        -- `name[:-1]`
  | other (text : String)
  deriving Repr, Inhabited

inductive SortKey where
  | len | none | other (text : String)
  deriving Repr, Inhabited

inductive TStep where
  | init                                          -- `prefix_list = []` (and `prefix_traits = {}`)
  | own (exactIf : NameTest) (stem : NameExpr)    -- declaration loop: exact class trait iff the test holds, else
                                                  --   `name = stem; prefix_list.append(name); prefix_traits[name] = value`
  | mergeBases (guardNotIn : Bool)                -- `for base in bases: for name in base["*"]: if name not in prefix_list: append; store`
  | default (key : Name) (whenAbsent : Bool)      -- `if prefix_traits.get(key) is None: append key; store Python()`
  | store                                         -- `prefix_traits["*"] = prefix_list` (the same list object)
  | sort (key : SortKey) (reverse : Bool)         -- `prefix_list.sort(key=…, reverse=…)`
  | unknown (text : String)
  deriving Repr, Inhabited

structure TState where
  list : Option (List (Name × Trait)) := none     -- `prefix_list` zipped with `prefix_traits`
  stored : Bool := false
  stuck : Bool := false
  deriving Repr, Inhabited

def evalTest : NameTest → Name → Option Bool
  | .lastCharIsNot c, n => some (n.drop (n.length - 1) != [c])
  | .other _, _ => none

def evalStem : NameExpr → Name → Option Name
  | .dropLast, n => some (n.take (n.length - 1))
  | .other _, _ => none

def stuckState (s : TState) : TState := { s with stuck := true }

def stepT (bases : List Cls) (decls : List (Name × Trait)) (s : TState) : TStep → TState
  | .init => { s with list := some [] }
  | .own (.lastCharIsNot c) .dropLast =>
    match s.list with
    | some l => { s with list := some (l ++ (decls.filter (fun d => !(d.1.drop (d.1.length - 1) != [c]))).map
                                              (fun d => (d.1.take (d.1.length - 1), d.2))) }
    | none => stuckState s
  | .own _ _ => stuckState s
  | .mergeBases true =>
    match s.list with
    | some l => { s with list := some (bases.foldl (fun acc b => mergePrefixes acc b.prefixes) l) }
    | none => stuckState s
  | .mergeBases false => stuckState s
  | .default key true =>
    match s.list with
    | some l => { s with list := some (match Map.get l key with
                                        | some _ => l
                                        | none => l ++ [(key, pythonDefault)]) }
    | none => stuckState s
  | .default _ false => stuckState s
  | .store => { s with stored := true }
  | .sort .len true =>
    match s.list with
    | some l => { s with list := some (sortPrefixes l) }       -- the stored alias is the same object
    | none => stuckState s
  | .sort _ _ => stuckState s
  | .unknown _ => stuckState s

/-- `cls.__prefix_traits__["*"]` zipped with the traits, after running the steps. -/
def tableOf (bases : List Cls) (decls : List (Name × Trait)) (steps : List TStep) : Option (List (Name × Trait)) :=
  let s := steps.foldl (stepT bases decls) {}
  if s.stuck || !s.stored then none else s.list

end TraitsVerif.Model.PrefixTable
