/-
What the models of construction and copying assume about the source, statement for statement:
the constructors of `TraitList` / `TraitListObject` and the copy / pickle methods of the six container
classes, as normalised statement texts.  `harness/translate/ctorcopy.py` re-reads the same methods from the
working tree on every run (`Generated/CtorCopy.lean`); `C05_init_source`, `C04_init_source`, `C05_copy_source`,
`C04_copy_source`, `C06_copy_source`, `C07_copy_source` compare the two literally.  (The constructors of the dict
and set classes: `dictConstructorsAssumed` / `setConstructorsAssumed`, `C06_init_source` / `C07_init_source`.)
-/
namespace TraitsVerif.Model.CtorCopyAssumed

/-- `TraitList` (trait_list_object.py:201-215, 502-528).  `TraitList.init` / `TraitList.step` assume: the
validator is replaced iff one `is not None` was given; every initial item goes through it, in order, before
the list is filled; the notifier list is a private COPY (`list(notifiers)`: the caller's list is not aliased —
seeded C05-m9); `__deepcopy__` re-validates deep copies of the items with a deep copy of the validator and
copies no notifier; `__getstate__` drops `notifiers`, `__setstate__` restores them to `[]`. -/
def traitListCtorCopy : List (List String) := [
  ["def __new__(cls, *args, **kwargs)",
   "self = super().__new__(cls)",
   "self.item_validator = _validate_everything",
   "self.notifiers = []",
   "return self"],
  ["def __init__(self, iterable=(), *, item_validator=None, notifiers=None)",
   "if item_validator is not None: self.item_validator = item_validator",
   "super().__init__((self.item_validator(item) for item in iterable))",
   "if notifiers is not None: self.notifiers = list(notifiers)"],
  ["def __deepcopy__(self, memo)",
   "return type(self)([copy.deepcopy(x, memo) for x in self], item_validator=copy.deepcopy(self.item_validator, memo))"],
  ["def __getstate__(self)",
   "result = self.__dict__.copy()",
   "result.pop('notifiers', None)",
   "return result"],
  ["def __setstate__(self, state)",
   "state['notifiers'] = []",
   "self.__dict__.update(state)"]
]

/-- `TraitListObject` (trait_list_object.py:574-593, 816-858).  `TraitListObject.assign` assumes: the value is
listed, its length checked (`_validate_length(len(value))`) BEFORE any item is validated, then `TraitList.__init__`
runs with the object's own `_item_validator` and `[self.notifier]`; `OSelf.live` assumes `name_items` is set iff
`trait is not None and trait.has_items` and the owner is held by weak reference iff it `is not None`;
`OSelf.afterDeepcopy`: `__deepcopy__` builds `TraitListObject(self.trait, None, self.name, …)`;
`OSelf.afterSetstate`: `__getstate__` drops `object` and `trait`, `__setstate__` installs `lambda: None` / `None`
and `[self.notifier]`. -/
def traitListObjectCtorCopy : List (List String) := [
  ["def __init__(self, trait, object, name, value)",
   "self.trait = trait",
   "self.object = (lambda: None) if object is None else ref(object)",
   "self.name = name",
   "self.name_items = None",
   "if trait is not None and trait.has_items: self.name_items = name + '_items'",
   "value = list(value)",
   "self._validate_length(len(value))",
   "super().__init__(value, item_validator=self._item_validator, notifiers=[self.notifier])"],
  ["def __deepcopy__(self, memo)",
   "return TraitListObject(self.trait, None, self.name, [copy.deepcopy(x, memo) for x in self])"],
  ["def __getstate__(self)",
   "result = super().__getstate__()",
   "result.pop('object', None)",
   "result.pop('trait', None)",
   "return result"],
  ["def __setstate__(self, state)",
   "name = state.setdefault('name', '')",
   "state['notifiers'] = [self.notifier]",
   "object = state.pop('object', None)",
   "if object is not None: state['object'] = ref(object) trait = self.object()._trait(name, 0) if trait is not None: state['trait'] = trait.handler else: state['object'] = lambda: None state['trait'] = None",
   "self.__dict__.update(state)"]
]

/-- `TraitDict` (trait_dict_object.py:353-387): like `TraitList`; `__deepcopy__` passes `notifiers=[]`. -/
def traitDictCtorCopy : List (List String) := [
  ["def __deepcopy__(self, memo)",
   "result = TraitDict(dict((copy.deepcopy(x, memo) for x in self.items())), key_validator=copy.deepcopy(self.key_validator, memo), value_validator=copy.deepcopy(self.value_validator, memo), notifiers=[])",
   "return result"],
  ["def __getstate__(self)",
   "result = self.__dict__.copy()",
   "del result['notifiers']",
   "return result"],
  ["def __setstate__(self, state)",
   "state['notifiers'] = []",
   "self.__dict__.update(state)"]
]

/-- `TraitDictObject` (trait_dict_object.py:563-598): `OSelf.afterDeepcopy` / `OSelf.afterSetstate` as for lists. -/
def traitDictObjectCtorCopy : List (List String) := [
  ["def __deepcopy__(self, memo)",
   "result = TraitDictObject(self.trait, None, self.name, dict((copy.deepcopy(x, memo) for x in self.items())))",
   "return result"],
  ["def __getstate__(self)",
   "result = super().__getstate__()",
   "del result['object']",
   "del result['trait']",
   "return result"],
  ["def __setstate__(self, state)",
   "state.setdefault('name', '')",
   "state['notifiers'] = [self.notifier]",
   "state['object'] = lambda: None",
   "state['trait'] = None",
   "self.__dict__.update(state)"]
]

/-- `TraitSet` (trait_set_object.py:398-428): what `TraitSet.copyOp` assumes (`Model/TraitSet.lean`): `__deepcopy__`
calls the constructor with `item_validator=` a deep copy of `self.item_validator` (finding F1 was a misspelt
attribute here), so the members are validated again (F25); `__getstate__` keeps `item_validator`. -/
def traitSetCtorCopy : List (List String) := [
  ["def __deepcopy__(self, memo)",
   "result = TraitSet([copy.deepcopy(x, memo) for x in self], item_validator=copy.deepcopy(self.item_validator, memo), notifiers=[])",
   "return result"],
  ["def __getstate__(self)",
   "result = self.__dict__.copy()",
   "del result['notifiers']",
   "return result"],
  ["def __setstate__(self, state)",
   "state['notifiers'] = []",
   "self.__dict__.update(state)"]
]

/-- `TraitSetObject` (trait_set_object.py:559-604): what `TraitSetObject.copyOp` assumes: `__deepcopy__` keeps the
trait and drops the owner; `__reduce_ex__` rebuilds from `list(self)` and the state of `__getstate__`, which
drops `object` and `trait`; `__setstate__` installs `lambda: None` / `None`. -/
def traitSetObjectCtorCopy : List (List String) := [
  ["def __deepcopy__(self, memo)",
   "result = TraitSetObject(self.trait, None, self.name, {copy.deepcopy(x, memo) for x in self})",
   "return result"],
  ["def __getstate__(self)",
   "result = super().__getstate__()",
   "del result['object']",
   "del result['trait']",
   "return result"],
  ["def __setstate__(self, state)",
   "state.setdefault('name', '')",
   "state['notifiers'] = [self.notifier]",
   "state['object'] = lambda: None",
   "state['trait'] = None",
   "self.__dict__.update(state)"],
  ["def __reduce_ex__(self, protocol=None)",
   "return (copyreg._reconstructor, (type(self), set, list(self)), self.__getstate__())"]
]

end TraitsVerif.Model.CtorCopyAssumed
