/-
`Model.Sync` with partner death *during* a propagation, and with the two
synchronisation handlers transcribed statement by statement (has_traits.py
`_sync_trait_modified`, `_sync_trait_items_modified`) — the functions that
`Props/C20.lean` proves equal to the interpretation of the program generated from
the source text (`Generated/SyncProg.lean`), and equal to `Model.Sync.cascade`
on every state without armed triggers.

(Since fix 8e10b05 the handlers iterate over a snapshot, skip collected partners
and release the lock in `finally`: finding F97 is repaired.)

The state is `PyLSync.KWorld`: a `Sync.World` plus armed triggers (`doom`: "when
trait `p` is notified, drop the last reference to object `o`" — a user handler
doing `del`), the objects collected so far, the objects the running command
addresses, and the number of exceptions that escaped a synchronisation handler
(swallowed by the notifier machinery: the harness runs with
`push_exception_handler(reraise_exceptions=False)`).
-/
import TraitsVerif.Model.PyLLink
namespace TraitsVerif.Model.SyncLive
open TraitsVerif TraitsVerif.Py TraitsVerif.Model TraitsVerif.Model.Sync TraitsVerif.Model.PyLSync
  TraitsVerif.Model.PyLLink

variable {α : Type}

/-- `applyMutate` returning the event itself (what the notification carries)
instead of the operation the handler derives from it. -/
def applyMutateE (E : Sync.Env α) (w : World α) (p : Pair) (op : Op α) :
    Except Exc (World α × Option α × Option (Event α)) :=
  if E.isList p then
    match listStep (E.tl p) (w.list p) op with
    | .error e => .error e
    | .ok o =>
      match o.event with
      | none => .ok ({ w with val := upd w.val p (.l o.items) }, o.ret, none)
      | some e =>
        .ok ({ w with val := upd w.val p (.l o.items), nItems := upd w.nItems p (w.nItems p + 1) },
             o.ret, if p ∈ w.hooked then some e else none)
  else .error .typeError

/-- The change on the trait itself, and what its notification carries. -/
def applyK [DecidableEq α] (E : Sync.Env α) (w : World α) (p : Pair) :
    Req α → Except Exc (World α × Option α × Option (Payload α))
  | .assign v =>
    match applyAssign E w p v with
    | .error e => .error e
    | .ok (w1, r, y) => .ok (w1, r, y.map .new)
  | .mutate op =>
    match applyMutateE E w p op with
    | .error e => .error e
    | .ok (w1, r, y) => .ok (w1, r, y.map .event)

/-- Object `o` is collected (`World.kill`) — once. -/
def killK (k : KWorld α) (o : Nat) : KWorld α :=
  { k with w := k.w.kill o, dead := if o ∈ k.dead then k.dead else o :: k.dead }

/-- An object that cannot be collected now: the running command addresses it,
it is the notifying object, or one of its synchronisation handlers is on the
stack (its lock is set). -/
def isBusy (k : KWorld α) (p : Pair) (o : Nat) : Bool :=
  decide (o = p.1) || decide (o ∈ k.busy) || k.w.locked.any (fun l => decide (l.1 = o))

/-- The recording handlers of `p` run (first: they were registered first): every
armed trigger watching `p` drops its victim, unless the victim is busy. -/
def fire (k : KWorld α) (p : Pair) : KWorld α :=
  k.doom.foldl (fun k t => if t.1 = p ∧ isBusy k p t.2 = false then killK k t.2 else k) k

/-- The body of the loop of both handlers for partner `q`:
```
object = object()
if object is None: continue
if object_name not in object._get_sync_trait_info()[""]:
    try:    <setattr / list operation on the partner>
    except: pass
```
Nothing escapes it. -/
def visitK (rec : Rec α) (req : Req α) (k : KWorld α) (q : Pair) : KWorld α :=
  if q.1 ∈ k.dead then k
  else if q ∈ k.w.locked then k
  else match rec k q req with
    | .ok (k', _) => k'
    | .error _ => k

/-- The shape shared by the two handlers (has_traits.py, after fix 8e10b05):
```
info = self.__sync_trait__
if name not in info: return
locked = info[""]; locked[name] = None
try:
    for object, object_name in list(info[name].values()): …     -- a snapshot
finally:
    del locked[name]
```
-/
def handlerK (rec : Rec α) (req : Req α) (k : KWorld α) (p : Pair) : KWorld α × Option Exc :=
  if (k.w.partners p).isEmpty then (k, none)
  else
    let k2 : KWorld α := (k.w.partners p).foldl (visitK rec req) { k with w := k.w.lock p }
    if p ∈ k2.w.locked then ({ k2 with w := k2.w.unlock p }, none) else (k2, some .keyError)

/-- `_sync_trait_modified(self, object, name, old, new)`. -/
def handlerModified (rec : Rec α) (k : KWorld α) (p : Pair) (v : AVal α) : KWorld α × Option Exc :=
  handlerK rec (.assign v) k p

/-- The loop body of `_sync_trait_items_modified` since fix 78fd598: a list object
that holds the change already is skipped (`if id(partner_list) in updated:
continue`), the others are remembered (`updated.add(id(partner_list))`, before the
operation: it stays remembered when the operation raises).  A list object is
named by the trait that holds it (see `Model/PyLSync.lean`). -/
def visitU (rec : Rec α) (req : Req α) (s : KWorld α × List Pair) (q : Pair) : KWorld α × List Pair :=
  if q.1 ∈ s.1.dead then s
  else if q ∈ s.1.w.locked then s
  else if q ∈ s.2 then s
  else match rec s.1 q req with
    | .ok (k', _) => (k', q :: s.2)
    | .error _ => (s.1, q :: s.2)

/-- `handlerK` with `updated = {id(changed_list)}` in front of the loop. -/
def handlerU (rec : Rec α) (req : Req α) (k : KWorld α) (p : Pair) : KWorld α × Option Exc :=
  if (k.w.partners p).isEmpty then (k, none)
  else
    let k2 : KWorld α := ((k.w.partners p).foldl (visitU rec req) ({ k with w := k.w.lock p }, [p])).1
    if p ∈ k2.w.locked then ({ k2 with w := k2.w.unlock p }, none) else (k2, some .keyError)

/-- `_sync_trait_items_modified(self, object, name, old, event)`. -/
def handlerItems (rec : Rec α) (k : KWorld α) (p : Pair) (e : Event α) : KWorld α × Option Exc :=
  handlerU rec (.mutate (eventOp e)) k p

def runHandlerK (rec : Rec α) (k : KWorld α) (p : Pair) : Payload α → KWorld α × Option Exc
  | .new v => handlerModified rec k p v
  | .event e => handlerItems rec k p e

/-- Was `p` notified by the step `w → w1`? -/
def notified (w w1 : World α) (p : Pair) : Bool := w1.nChg p != w.nChg p || w1.nItems p != w.nItems p

/-- An exception that escaped a handler is swallowed (and counted). -/
def swallow (r : KWorld α × Option Exc) : KWorld α :=
  match r with
  | (k, none) => k
  | (k, some _) => { k with swallowed := k.swallowed + 1 }

/-- `Sync.cascade` on `KWorld`. -/
def cascadeK [DecidableEq α] (E : Sync.Env α) : Nat → Rec α
  | 0, _, _, _ => .error .runtimeError
  | d + 1, k, p, req =>
    match applyK E k.w p req with
    | .error e => .error e
    | .ok (w1, r, pay) =>
      let k1 : KWorld α := if notified k.w w1 p then fire { k with w := w1 } p else { k with w := w1 }
      match pay with
      | none => .ok (k1, r)
      | some pl => .ok (swallow (runHandlerK (cascadeK E d) k1 p pl), r)

structure ResK (α : Type) where
  world : KWorld α
  ret : Option α := none
  exc : Option Exc := none

def finishK (k : KWorld α) : Except Exc (KWorld α × Option α) → ResK α
  | .ok (k', r) => { world := k', ret := r }
  | .error e => { world := k, exc := some e }

def assignK [DecidableEq α] (E : Sync.Env α) (k : KWorld α) (p : Pair) (v : AVal α) : ResK α :=
  finishK k (cascadeK E k.w.budget k p (.assign v))

def mutateK [DecidableEq α] (E : Sync.Env α) (k : KWorld α) (p : Pair) (op : Op α) : ResK α :=
  finishK k (cascadeK E k.w.budget k p (.mutate op))

def linkOneK [DecidableEq α] (E : Sync.Env α) (k : KWorld α) (p q : Pair) : ResK α :=
  if (⟨p, q⟩ : Edge) ∈ k.w.edges then { world := k }
  else assignK E { k with w := k.w.register E p q } q (k.w.val p)

def linkK [DecidableEq α] (E : Sync.Env α) (k : KWorld α) (p q : Pair) (both : Bool) : ResK α :=
  let r := linkOneK E k p q
  match r.exc with
  | some _ => r
  | none => if both then linkOneK E r.world q p else r

/-! ### `sync_trait`, transcribed (has_traits.py `sync_trait`, add and remove paths) -/

/-- `setattr` / list call with the recursion budget of the state it starts in. -/
def recB [DecidableEq α] (E : Sync.Env α) : Rec α := fun k p r => cascadeK E k.w.budget k p r

def hookM (k : KWorld α) (p : Pair) : KWorld α := if p ∈ k.hookedM then k else { k with hookedM := p :: k.hookedM }

def hookI (k : KWorld α) (p : Pair) : KWorld α := if p ∈ k.w.hooked then k else setHooked k (p :: k.w.hooked)

/-- One direction of `sync_trait(…, remove=False)`:
```
if key not in dic:
    if len(dic) == 0: self._on_trait_change(self._sync_trait_modified, trait_name)
    if is_list:       self._on_trait_change(self._sync_trait_items_modified, trait_name + "_items")
    dic[key] = value
    setattr(object, alias, getattr(self, trait_name))
```
-/
def linkOneS [DecidableEq α] (E : Sync.Env α) (k : KWorld α) (p q : Pair) : KWorld α × Option Exc :=
  if (⟨p, q⟩ : Edge) ∈ k.w.edges then (k, none)
  else
    let k1 := if (k.w.partners p).isEmpty then hookM k p else k
    let k2 := if E.isList p && E.isList q then hookI k1 p else k1
    let k3 := setEdges k2 (k2.w.edges ++ [(⟨p, q⟩ : Edge)])
    match recB E k3 q (.assign (k3.w.val p)) with
    | .ok (k4, _) => (k4, none)
    | .error e => (k3, some e)

/-- `self.sync_trait(p.2, object, q.2, mutual)`; the reverse registration is not
reached when the first half raised. -/
def linkS [DecidableEq α] (E : Sync.Env α) (k : KWorld α) (p q : Pair) (both : Bool) : KWorld α × Option Exc :=
  match linkOneS E k p q with
  | (k1, some e) => (k1, some e)
  | (k1, none) => if both then linkOneS E k1 q p else (k1, none)

/-- `any(other() is not None and other()._is_list_trait(other_alias) for other, other_alias in dic.values())` -/
def listPartnerLeft (E : Sync.Env α) (k : KWorld α) (p : Pair) : Bool :=
  k.w.edges.any (fun e => decide (e.src = p) && decide (e.dst.1 ∉ k.dead) && E.isList e.dst)

/-- One direction of `sync_trait(…, remove=True)`. -/
def unlinkOneS (E : Sync.Env α) (k : KWorld α) (p q : Pair) : KWorld α :=
  if (k.w.partners p).isEmpty then k
  else if (⟨p, q⟩ : Edge) ∈ k.w.edges then
    let k1 := setEdges k (k.w.edges.filter (fun e => e ≠ (⟨p, q⟩ : Edge)))
    let k2 : KWorld α :=
      if (k1.w.partners p).isEmpty then
        { setEdges k1 (k1.w.edges.filter (fun e => e.src ≠ p)) with hookedM := k1.hookedM.filter (· ≠ p) }
      else k1
    if E.isList p && E.isList q && !(listPartnerLeft E k2 p) then setHooked k2 (k2.w.hooked.filter (· ≠ p)) else k2
  else k

def unlinkS (E : Sync.Env α) (k : KWorld α) (p q : Pair) (both : Bool) : KWorld α :=
  if both then unlinkOneS E (unlinkOneS E k p q) q p else unlinkOneS E k p q

/-- `_sync_trait_listener_deleted(ref, info)`, transcribed: in every partner table
the entries of the collected partner go, tables left empty go, the lock table is
not touched. -/
def cbModel (dead : Nat) (i : Info) : Info :=
  { i with tabs := (i.tabs.map (fun t => (t.1, t.2.filter (fun e => e.1 ≠ dead)))).filter (fun t => !t.2.isEmpty) }

/-- Object `s`'s `__sync_trait__` as `Model.Sync` holds it, for the trait names `names`:
the lock table, and the non-empty partner tables. -/
def infoOf (names : List Name) (w : World α) (s : Nat) : Info :=
  { lock := some ((w.locked.filter (fun l => l.1 = s)).map (·.2)),
    tabs := (names.map (fun n => (n, w.partners (s, n)))).filter (fun t => !t.2.isEmpty) }

/-- `_is_list_trait`: a `List` trait is one whose *handler* has the default-value
type `trait_list_object`. -/
def isListTrait (d : TraitDesc) : Bool :=
  match d.handler with
  | some .traitListObject => true
  | _ => false

/-- The commands of a history, and arming a trigger. -/
inductive CmdK (α : Type) where
  | cmd (c : Cmd α)
  | arm (p : Pair) (o : Nat)

def cmdObjs : Cmd α → List Nat
  | .assign p _ => [p.1]
  | .mutate p _ => [p.1]
  | .link p q _ => [p.1, q.1]
  | .unlink p q _ => [p.1, q.1]
  | .kill _ => []

def stepK [DecidableEq α] (E : Sync.Env α) (k : KWorld α) : CmdK α → ResK α
  | .arm p o => { world := { k with doom := k.doom ++ [(p, o)] } }
  | .cmd c =>
    let k0 : KWorld α := { k with busy := cmdObjs c }
    match c with
    | .assign p v => assignK E k0 p v
    | .mutate p op => mutateK E k0 p op
    | .link p q m =>
      match linkS E k0 p q m with
      | (k', exc) => { world := k', exc := exc }
    | .unlink p q m => { world := unlinkS E k0 p q m }
    | .kill o => { world := killK k0 o }

/-- A history; an exception leaves the state the failing command left. -/
def runK [DecidableEq α] (E : Sync.Env α) : KWorld α → List (CmdK α) → KWorld α
  | k, [] => k
  | k, c :: cs => runK E (stepK E k c).world cs

end TraitsVerif.Model.SyncLive
