/-
PyLC — the subset of Python in which the constructors `TraitList.__init__` and
`TraitListObject.__init__` (traits/trait_list_object.py:210-215, 574-593) are
written, deep-embedded, with a total interpreter; and the hand-written models
of the two constructors.  `harness/translate/ctorprog.py` translates the source
text on every run (`Generated/CtorProg.lean`); `Lemmas/PyLCtor.lean` proves the
models equal to the interpretation.

The object under construction starts as `__new__` leaves it (`Obj` defaults:
empty, `item_validator = _validate_everything`, `notifiers = []`).  What a
constructor decides: which validator the object ends up with, that every
initial item goes through *that* validator in order with the call ordinal
threaded (and nothing is stored if one fails), where the notifier list comes
from — a private copy of the caller's list, never the caller's list object —
and, for the trait value, owner / trait / `name_items` and that the length is
checked BEFORE any item is validated.
-/
import TraitsVerif.Model.TraitListObject
namespace TraitsVerif.Model.PyLC
open TraitsVerif

/-- Where the object's item validator comes from. -/
inductive VSrc where
  | everything     -- `_validate_everything` installed by `__new__`
  | arg            -- the caller's `item_validator`
  | own            -- the bound method `self._item_validator`
  deriving Repr, DecidableEq

/-- Which list object `self.notifiers` is. -/
inductive NSrc where
  | newEmpty       -- the `[]` installed by `__new__`
  | argAlias       -- the caller's list object itself
  | argCopy        -- `list(<caller's list>)`
  | ownAlias       -- the display `[self.notifier]` itself
  | ownCopy        -- a copy of it
  deriving Repr, DecidableEq

/-- The object under construction.  `trait`: unset / `None` / a CTrait with
`has_items`; `object`: unset / `lambda: None` (`some false`) / `ref(owner)`;
`nameItems`: unset / `None` (`some false`) / `name + '_items'`. -/
structure Obj (α : Type) where
  items : List α := []
  itemValidator : VSrc := .everything
  notifiers : NSrc := .newEmpty
  trait : Option (Option Bool) := none
  object : Option Bool := none
  name : Bool := false
  nameItems : Option Bool := none
  deriving Repr

inductive Expr where
  | var (i : Nat)
  | noneLit
  | isNone (e : Expr)
  | isNotNone (e : Expr)
  | and (a b : Expr)
  | ite (c a b : Expr)                 -- `a if c else b`
  | listOf (e : Expr)                  -- `list(e)`
  | list1 (e : Expr)                   -- `[e]`
  | len (e : Expr)
  | selfAttr (name : String)           -- `self.name`
  | lambdaNone                         -- `lambda: None`
  | ref (e : Expr)                     -- `ref(e)`
  | attr (e : Expr) (name : String)    -- `e.name`
  | addStr (e : Expr) (s : String)     -- `e + '<s>'`
  deriving Repr

inductive Stmt where
  | skip
  | seq (a b : Stmt)
  | ifS (c : Expr) (t e : Stmt)
  | assign (i : Nat) (e : Expr)
  | setAttr (name : String) (e : Expr)                    -- `self.name = e`
  | superInitGen (it : Expr)                              -- `super().__init__(self.item_validator(item) for item in it)`
  | superInitKw (value iv ns : Expr)                      -- `super().__init__(value, item_validator=iv, notifiers=ns)`
  | checkLen (e : Expr)                                   -- `self._validate_length(e)`
  deriving Repr

variable {α : Type}

inductive Val (α : Type) where
  | none
  | bool (b : Bool)
  | int (n : Int)
  | iter (xs : List α)
  | vfn (v : VSrc)
  | nlist (n : NSrc)
  | trait (hasItems : Bool)
  | owner
  | ownerRef
  | noOwnerFn
  | name
  | nameItems
  | boundNotifier
  deriving Repr

abbrev Frame (α : Type) := List (Option (Val α))

structure Ctx (α : Type) where
  given : Callback α α          -- the caller's item validator
  own : Callback α α            -- `self._item_validator`
  lenOk : Int → Bool            -- `_validate_length` passes

def Ctx.vOf (C : Ctx α) : VSrc → Callback α α
  | .everything => fun _ x => .ok x
  | .arg => C.given
  | .own => C.own

def stuck {β : Type} : Except Exc β := .error .other

def getVar (vars : Frame α) (i : Nat) : Except Exc (Val α) :=
  match vars[i]? with
  | some (some v) => .ok v
  | _ => stuck

def truthy : Val α → Option Bool
  | .none => some false
  | .bool b => some b
  | _ => Option.none

def eval (o : Obj α) (vars : Frame α) : Expr → Except Exc (Val α)
  | .var i => getVar vars i
  | .noneLit => .ok .none
  | .isNone e =>
    match eval o vars e with
    | .ok .none => .ok (.bool true)
    | .ok _ => .ok (.bool false)
    | .error x => .error x
  | .isNotNone e =>
    match eval o vars e with
    | .ok .none => .ok (.bool false)
    | .ok _ => .ok (.bool true)
    | .error x => .error x
  | .and a b =>
    match eval o vars a with
    | .ok v => (match truthy v with | some false => .ok v | some true => eval o vars b | Option.none => stuck)
    | .error x => .error x
  | .ite c a b =>
    match eval o vars c with
    | .ok v => (match truthy v with | some true => eval o vars a | some false => eval o vars b | Option.none => stuck)
    | .error x => .error x
  | .listOf e =>
    match eval o vars e with
    | .ok (.iter xs) => .ok (.iter xs)
    | .ok (.nlist .argAlias) => .ok (.nlist .argCopy)
    | .ok (.nlist .newEmpty) => .ok (.nlist .argCopy)        -- a copy of any other list: a private list
    | .ok (.nlist .argCopy) => .ok (.nlist .argCopy)
    | .ok (.nlist .ownAlias) => .ok (.nlist .ownCopy)
    | .ok (.nlist .ownCopy) => .ok (.nlist .ownCopy)
    | .ok _ => stuck
    | .error x => .error x
  | .list1 e =>
    match eval o vars e with
    | .ok .boundNotifier => .ok (.nlist .ownAlias)
    | .ok _ => stuck
    | .error x => .error x
  | .len e =>
    match eval o vars e with
    | .ok (.iter xs) => .ok (.int xs.length)
    | .ok _ => stuck
    | .error x => .error x
  | .selfAttr n =>
    if n = "item_validator" then .ok (.vfn o.itemValidator)
    else if n = "_item_validator" then .ok (.vfn .own)
    else if n = "_validator" then .ok (.vfn .own)            -- TraitSetObject's bound item validator
    else if n = "notifier" then .ok .boundNotifier
    else stuck
  | .lambdaNone => .ok .noOwnerFn
  | .ref e =>
    match eval o vars e with
    | .ok .owner => .ok .ownerRef
    | .ok .none => .error .typeError
    | .ok _ => stuck
    | .error x => .error x
  | .attr e n =>
    match eval o vars e with
    | .ok (.trait h) => if n = "has_items" then .ok (.bool h) else stuck
    | .ok .none => .error .attributeError
    | .ok _ => stuck
    | .error x => .error x
  | .addStr e s =>
    match eval o vars e with
    | .ok .name => if s = "_items" then .ok .nameItems else stuck
    | .ok _ => stuck
    | .error x => .error x

inductive Flow where
  | next
  | raised (e : Exc)

def setAttrObj (o : Obj α) (n : String) : Val α → Option (Obj α)
  | .vfn v => if n = "item_validator" then some { o with itemValidator := v } else Option.none
  | .nlist l => if n = "notifiers" then some { o with notifiers := l } else Option.none
  | .trait h => if n = "trait" then some { o with trait := some (some h) } else Option.none
  | .ownerRef => if n = "object" then some { o with object := some true } else Option.none
  | .noOwnerFn => if n = "object" then some { o with object := some false } else Option.none
  | .name => if n = "name" then some { o with name := true } else Option.none
  | .nameItems => if n = "name_items" then some { o with nameItems := some true } else Option.none
  | .none =>
    if n = "name_items" then some { o with nameItems := some false }
    else if n = "trait" then some { o with trait := some Option.none }
    else Option.none
  | _ => Option.none

/-- `sup` runs the base class's `__init__` on `(value, item_validator, notifiers)`. -/
def exec (C : Ctx α) (sup : Option (Frame α → Obj α → Obj α × Flow)) : Stmt → Frame α × Obj α → (Frame α × Obj α) × Flow
  | .skip, st => (st, .next)
  | .seq a b, st =>
    match exec C sup a st with
    | (st', .next) => exec C sup b st'
    | r => r
  | .ifS c t e, st =>
    match eval st.2 st.1 c with
    | .ok v =>
      (match truthy v with
       | some true => exec C sup t st
       | some false => exec C sup e st
       | Option.none => (st, .raised .other))
    | .error x => (st, .raised x)
  | .assign i e, st =>
    match eval st.2 st.1 e with
    | .ok v => ((st.1.set i (some v), st.2), .next)
    | .error x => (st, .raised x)
  | .setAttr n e, st =>
    match eval st.2 st.1 e with
    | .ok v => (match setAttrObj st.2 n v with | some o => ((st.1, o), .next) | Option.none => (st, .raised .other))
    | .error x => (st, .raised x)
  | .superInitGen it, st =>
    match eval st.2 st.1 it with
    | .ok (.iter xs) =>
      (match valAll (C.vOf st.2.itemValidator) 0 xs with
       | .ok ys => ((st.1, { st.2 with items := ys }), .next)
       | .error x => (st, .raised x))
    | .ok _ => (st, .raised .other)
    | .error x => (st, .raised x)
  | .superInitKw value iv ns, st =>
    match sup, eval st.2 st.1 value, eval st.2 st.1 iv, eval st.2 st.1 ns with
    | some f, .ok v, .ok i, .ok n =>
      let r := f [some v, some i, some n] st.2
      ((st.1, r.1), r.2)
    | _, .error x, _, _ => (st, .raised x)
    | _, _, .error x, _ => (st, .raised x)
    | _, _, _, .error x => (st, .raised x)
    | _, _, _, _ => (st, .raised .other)
  | .checkLen e, st =>
    match eval st.2 st.1 e with
    | .ok (.int n) => if C.lenOk n then (st, .next) else (st, .raised .traitError)
    | .ok _ => (st, .raised .other)
    | .error x => (st, .raised x)

structure Func where
  nparams : Nat
  nslots : Nat
  body : Stmt
  deriving Repr

def finish : (Frame α × Obj α) × Flow → Except Exc (Obj α)
  | ((_, o), .next) => .ok o
  | (_, .raised e) => .error e

def optVal (f : β → Val α) : Option β → Val α
  | some x => f x
  | Option.none => .none

/-- `TraitList(iterable, item_validator=iv, notifiers=ns)` after `__new__`:
`iv = none` / `ns = none` = argument not given (its default `None`). -/
def runListInit (fn : Func) (C : Ctx α) (xs : List α) (iv : Option VSrc) (ns : Option NSrc) : Except Exc (Obj α) :=
  if fn.nparams ≠ 3 ∨ fn.nslots < 3 then stuck
  else finish (exec C Option.none fn.body
    ([some (.iter xs), some (optVal .vfn iv), some (optVal .nlist ns)] ++ List.replicate (fn.nslots - 3) Option.none, {}))

/-- `TraitListObject(trait, object, name, value)` after `__new__`; `base` is the
translated `TraitList.__init__`. -/
def runListObjectInit (fn base : Func) (C : Ctx α) (t : Option Bool) (owner : Bool) (xs : List α) : Except Exc (Obj α) :=
  if fn.nparams ≠ 4 ∨ fn.nslots < 4 ∨ base.nparams ≠ 3 ∨ base.nslots < 3 then stuck
  else
    let sup : Frame α → Obj α → Obj α × Flow := fun args o =>
      let r := exec C Option.none base.body (args ++ List.replicate (base.nslots - 3) Option.none, o)
      (r.1.2, r.2)
    finish (exec C (some sup) fn.body
      ([some (optVal .trait t), some (if owner then .owner else .none), some .name, some (.iter xs)]
        ++ List.replicate (fn.nslots - 4) Option.none, {}))

/-! ### The hand-written models -/

/-- `TraitList.__init__` (trait_list_object.py:210-215). -/
def listInit (C : Ctx α) (xs : List α) (iv : Option VSrc) (ns : Option NSrc) : Except Exc (Obj α) :=
  let v := iv.getD .everything
  match valAll (C.vOf v) 0 xs with
  | .error e => .error e
  | .ok ys =>
    .ok { items := ys, itemValidator := v,
          notifiers := match ns with
            | Option.none => .newEmpty
            | some .argAlias => .argCopy
            | some .newEmpty => .argCopy
            | some .ownAlias => .ownCopy
            | some n => n }

/-- `TraitListObject.__init__` (trait_list_object.py:574-593): attributes first,
then the length of the listed value, then `TraitList.__init__` with the
object's own validator and a copy of `[self.notifier]`. -/
def listObjectInit (C : Ctx α) (t : Option Bool) (owner : Bool) (xs : List α) : Except Exc (Obj α) :=
  if C.lenOk xs.length then
    match valAll C.own 0 xs with
    | .error e => .error e
    | .ok ys =>
      .ok { items := ys, itemValidator := .own, notifiers := .ownCopy, trait := some t, object := some owner,
            name := true, nameItems := some (t == some true) }
  else .error .traitError

/-- `TraitSet.__init__` (trait_set_object.py:102-107), run with the same
interpreter: `items` is the sequence of validated members handed to
`set.__init__` (the set is `ofList` of it).  Unlike `TraitList`, the notifier
list given is used AS IS (`self.notifiers = notifiers`: the caller's list object). -/
def setInit (C : Ctx α) (xs : List α) (iv : Option VSrc) (ns : Option NSrc) : Except Exc (Obj α) :=
  let v := iv.getD .everything
  match valAll (C.vOf v) 0 xs with
  | .error e => .error e
  | .ok ys => .ok { items := ys, itemValidator := v, notifiers := ns.getD .newEmpty }

/-- `TraitSetObject.__init__` (trait_set_object.py:474-484): attributes, then
`TraitSet.__init__` with the object's own `_validator` and the display
`[self.notifier]` itself; no length check. -/
def setObjectInit (C : Ctx α) (t : Option Bool) (owner : Bool) (xs : List α) : Except Exc (Obj α) :=
  match valAll C.own 0 xs with
  | .error e => .error e
  | .ok ys =>
    .ok { items := ys, itemValidator := .own, notifiers := .ownAlias, trait := some t, object := some owner,
          name := true, nameItems := some (t == some true) }

end TraitsVerif.Model.PyLC
