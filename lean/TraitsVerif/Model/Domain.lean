/-
The declared domain of every trait type of the `val` cluster and the documented
conversion, written from the documentation (docstrings of trait_types.py /
trait_handlers.py and docs/source/traits_user_manual/defining.rst) and
independently of both validators: no function of FastValidate.lean or
PyValidate.lean other than the CPython-level vocabulary of Py/Val.lean
(`isinstance`, `==`, hashing, IEEE order, the numeric protocol) is used.

* `inDomain E tt w`  — `w` satisfies the declared criteria of `tt`
                       (type, range and bound exclusivity, enumeration membership,
                       tuple shape, instance class, allow_none, string length/regex,
                       unique prefix, mapped key);
* `Conv E tt v w`    — `w` is the documented conversion of the assigned value `v`.
-/
import TraitsVerif.Model.PyValidate
namespace TraitsVerif.Model.Val
open TraitsVerif TraitsVerif.Py.Value

/-- IEEE range membership with optional, possibly exclusive bounds: NaN is in no
bounded range. -/
def inRangeF (lo hi : Option F) (exLo exHi : Bool) (x : F) : Bool :=
  (match lo with
   | none => true
   | some l => if exLo then F.lt l x else F.le l x) &&
  (match hi with
   | none => true
   | some h => if exHi then F.lt x h else F.le x h)

def inRangeI (lo hi : Option Int) (exLo exHi : Bool) (x : Int) : Bool :=
  (match lo with
   | none => true
   | some l => if exLo then decide (l < x) else decide (l ≤ x)) &&
  (match hi with
   | none => true
   | some h => if exHi then decide (x < h) else decide (x ≤ h))

/-- `w` is a key of a dict with these keys. -/
def isKey (keys : List Val) (w : Val) : Bool :=
  w.hashable && keys.any (fun k => Val.pyEq k w == .yes)

/-- `w` is a member of the collection (under `==`). -/
def isMember (vals : List Val) (w : Val) : Bool :=
  vals.any (fun m => Val.pyEq m w == .yes)

variable (E : Env)

mutual
def inDomain : TraitType → Val → Bool
  | .any, _ => true
  -- "A trait type whose value must be an int / a float / a complex number"
  | .int, w => Val.exactTy .int w
  | .float, w => Val.exactTy .float w
  | .complex, w => Val.exactTy .complex w
  -- "…whose value must be a string / a bytestring / a bool"
  | .str, w => Val.isInst .str w
  | .bytes, w => Val.isInst .bytes w
  | .bool, w => Val.exactTy .bool w
  -- "A coercing trait type whose value is an integer / …"
  | .cint, w => Val.exactTy .int w
  | .cfloat, w => Val.exactTy .float w
  | .ccomplex, w => Val.exactTy .complex w
  | .cstr, w => Val.exactTy .str w
  | .cbytes, w => Val.exactTy .bytes w
  | .cbool, w => Val.exactTy .bool w
  | .noFast t, w => inDomain t w
  -- Range: "numeric value lies inside a range", exclude_low / exclude_high
  | .rangeF lo hi exLo exHi, w =>
    match w with
    | .atom (.float false f) => inRangeF lo hi exLo exHi f
    | _ => false
  | .rangeI lo hi exLo exHi, w =>
    match w with
    | .atom (.int false n) => inRangeI lo hi exLo exHi n
    | _ => false
  -- Enum: "an element of a finite collection"
  | .enum vals, w => isMember vals w
  -- Map: "a key of a specified dictionary"
  | .map keys _, w => isKey keys w
  -- Tuple: "a tuple of the same length … whose elements must match the types"
  | .tuple items, w =>
    match w with
    | .tuple _ ws => inDomainL items ws
    | _ => false
  | .baseTuple items, w =>
    match w with
    | .tuple _ ws => inDomainL items ws
    | _ => false
  -- ValidatedTuple: "a tuple with customized validation … fvalidate … should return True"
  | .validatedTuple items fv, w =>
    match w with
    | .tuple _ ws =>
      inDomainL items ws && (match fv with | none => true | some f => (match E.pred f w with | .ok b => b | .error _ => false))
    | _ => false
  | .tupleAny, w => Val.isInst .tuple w
  -- Instance: "an instance of a class or its subclasses", allow_none, adapt
  | .instance cls an mode dflt, w =>
    (an && w.isNone) || (!w.isNone && Val.isInst cls w) || (decide (mode ≥ 1) && E.provides w cls)
      || (decide (mode ≥ 2) && w == dflt)
  -- Type: "a subclass of a specified class", allow_none
  | .type_ cls an, w => (an && w.isNone) || isSubclass w cls == some true
  -- This: "an instance of the defining class"
  | .this an, w => (an && w.isNone) || Val.isInst (.user E.selfCls) w
  -- Callable: "a Python callable", allow_none
  | .callable an, w => (an && w.isNone) || w.callable
  | .module, w => Val.isInst .module w
  -- Either / Union: "any of a specified list of traits"
  | .either alts wn, w => inDomainAny alts w || (wn && w.isNone)
  | .union alts, w => inDomainAny alts w
  | .noneTrait, w => w.isNone
  -- String: "a string whose length is in a specified range, and which optionally matches a regex"
  | .string minlen maxlen regex, w =>
    match w with
    | .atom (.str false s) =>
      decide (minlen ≤ s.length) && (match maxlen with | none => true | some m => decide (s.length ≤ m))
        && (match regex with | none => true | some k => E.rx k s)
    | _ => false
  -- PrefixList / PrefixMap: "the actual values assigned … are limited to" the members / keys
  | .prefixList vals, w =>
    match strOf w with
    | some s => vals.contains s
    | none => false
  | .prefixMap keys _, w =>
    match strOf w with
    | some s => keys.contains s
    | none => false
  -- Array: "dtype: the type of elements in the array", "shape: the required shape … wildcards and ranges"
  | .array dt sh _, w =>
    match w with
    | .atom (.ndarray d s) =>
      (match dt with | none => true | some t => d == t) && (match sh with | none => true | some sp => shapeOk sp s)
    | _ => false
  -- TraitCoerceType: "of a specified Python type, or can be coerced to the specified type"
  | .coerceH ty, w => Val.isInst ty w
  -- TraitCastType: "its value is of the type associated with the TraitCastType instance"
  | .castH ty, w => Val.exactTy ty w
  | .instanceH cls an, w => (an && w.isNone) || (!w.isNone && Val.isInst cls w)
  | .functionH f, w => E.fnRange f w
  | .enumH vals, w => isMember vals w
  | .mapH keys _, w => isKey keys w
  | .compoundH hs, w => inDomainAny hs w
def inDomainL : List TraitType → List Val → Bool
  | [], [] => true
  | t :: ts, w :: ws => inDomain t w && inDomainL ts ws
  | _, _ => false
def inDomainAny : List TraitType → Val → Bool
  | [], _ => false
  | t :: ts, w => inDomain t w || inDomainAny ts w
end

/-- The documented conversion of a float-like value. -/
def ConvFloat (v w : Val) : Prop :=
  (Val.exactTy .float v ∧ w = v) ∨ (∃ f, asDouble v = .ok f ∧ w = Val.ofFloat f)

/-- `T(v)` unless `v` is already exactly a `T`. -/
def ConvCast (ty : Ty) (v w : Val) : Prop :=
  (Val.exactTy ty v ∧ w = v) ∨ E.cast ty v = .ok w

mutual
/-- `w` is the documented conversion of `v` for trait type `tt`. -/
def Conv : TraitType → Val → Val → Prop
  | .any, v, w => w = v
  -- "Values which support the Python index protocol … converted to the corresponding int value"
  | .int, v, w => ∃ n, index v = .ok n ∧ w = Val.ofInt n
  -- "Values which support automatic conversion to floats via __float__ … converted to the corresponding float"
  | .float, v, w => ConvFloat v w
  | .complex, v, w =>
    (Val.exactTy .complex v ∧ w = v) ∨ (∃ re im, asComplex v = .ok (re, im) ∧ w = Val.ofComplex re im)
  | .str, v, w => w = v
  | .bytes, v, w => w = v
  | .bool, v, w => (Val.exactTy .bool v ∧ w = v) ∨ E.cast .bool v = .ok w
  | .cint, v, w => ConvCast E .int v w
  | .cfloat, v, w => ConvCast E .float v w
  | .ccomplex, v, w => ConvCast E .complex v w
  | .cstr, v, w => ConvCast E .str v w
  | .cbytes, v, w => ConvCast E .bytes v w
  | .cbool, v, w => ConvCast E .bool v w
  | .noFast t, v, w => Conv t v w
  | .rangeF .., v, w => ConvFloat v w
  | .rangeI .., v, w => ∃ n, index v = .ok n ∧ w = Val.ofInt n
  | .enum _, v, w => w = v
  | .map .., v, w => w = v
  -- element-wise; the container is the value itself or a new plain tuple
  | .tuple items, v, w =>
    match v, w with
    | .tuple _ vs, .tuple _ ws => ConvL items vs ws
    | _, _ => False
  | .baseTuple items, v, w =>
    match v, w with
    | .tuple _ vs, .tuple _ ws => ConvL items vs ws
    | .list vs, .tuple _ ws => ConvL items vs ws
    | _, _ => False
  | .validatedTuple items _, v, w =>
    match v, w with
    | .tuple _ vs, .tuple _ ws => ConvL items vs ws
    | .list vs, .tuple _ ws => ConvL items vs ws
    | _, _ => False
  | .tupleAny, v, w => w = v ∨ (∃ vs, v = .list vs ∧ w = .tuple false vs)
  -- the value, its adapter, or (adapt='default') the default value
  | .instance cls _ mode dflt, v, w =>
    w = v ∨ (mode ≥ 1 ∧ E.adapt v cls = .ok (some w)) ∨ (mode ≥ 2 ∧ w = dflt)
  | .type_ .., v, w => w = v
  | .this _, v, w => w = v
  | .callable _, v, w => w = v
  | .module, v, w => w = v
  | .either alts wn, v, w => ConvAny alts v w ∨ (wn = true ∧ w = v)
  | .union alts, v, w => ConvAny alts v w
  | .noneTrait, v, w => w = v
  -- `str(value)` of a str, int, float or complex
  | .string .., v, w => E.cast .str v = .ok w
  -- "the actual value assigned … is the corresponding s_i value that v matched"
  | .prefixList vals, v, w =>
    w = v ∨ (∃ s k, strOf v = some s ∧ vals.filter (fun k => s.isPrefixOf k) = [k] ∧ w = Val.ofStr k)
  | .prefixMap keys _, v, w =>
    w = v ∨ (∃ s k, strOf v = some s ∧ keys.filter (fun k => s.isPrefixOf k) = [k] ∧ w = Val.ofStr k)
  -- the array itself; an array cast to the dtype; `asarray` of a list / tuple
  | .array dt _ cast, v, w =>
    w = v ∨ (∃ d s t, v = .atom (.ndarray d s) ∧ dt = some t ∧ E.canCast d t cast = true ∧ w = .atom (.ndarray t s)) ∨
      (∃ d s, E.asarray v dt = .ok (d, s) ∧ w = .atom (.ndarray d s))
  -- "if the value can be coerced to the required type, then the coerced value is assigned"
  | .coerceH ty, v, w => (Val.isInst ty v ∧ w = v) ∨ E.cast ty v = .ok w
  | .castH ty, v, w => ConvCast E ty v w
  | .instanceH .., v, w => w = v
  | .functionH f, v, w => E.fn f v = .ok w
  | .enumH _, v, w => w = v
  | .mapH .., v, w => w = v
  | .compoundH hs, v, w => ConvAny hs v w
def ConvL : List TraitType → List Val → List Val → Prop
  | [], [], [] => True
  | t :: ts, v :: vs, w :: ws => Conv t v w ∧ ConvL ts vs ws
  | _, _, _ => False
def ConvAny : List TraitType → Val → Val → Prop
  | [], _, _ => False
  | t :: ts, v, w => Conv t v w ∨ ConvAny ts v w
end

/-- The value of the shadow attribute `name_` the documentation promises for a
mapped trait: `map[value]`. -/
def mappedValue : TraitType → Val → Option Val
  | .map keys vals, w =>
    match dictFind keys w with
    | .ok (some i) => vals[i]?
    | _ => none
  | .mapH keys vals, w =>
    match dictFind keys w with
    | .ok (some i) => vals[i]?
    | _ => none
  | .prefixMap keys vals, w =>
    match strOf w with
    | some s => (keys.findIdx? (· == s)).bind (vals[·]?)
    | none => none
  | _, _ => none

end TraitsVerif.Model.Val
