/-
ParL — deep embedding of `ListenerParser` (traits/traits_listener.py: `parse`, `parse_group`,
`parse_item`) and of `ListenerGroup.register / unregister / set_next / set_notify`, with a total
interpreter.  `harness/translate/legacysrc.py` emits the terms (`Generated/LegacyProg.lean`).

Token level.  The character-level helpers of the parser (`next`, `skip_ws`, `backspace`, `name`
with the regular expression `name_pat`) are read as a tokenizer: an identifier (with the white
space around it) is ONE token `name i`, every other significant character one token, the end of
the string `eos` (TRUSTED; the helpers' text is pinned by the translator).  Identifiers are
numbered, the empty name "" is `none`; the suffixes `name += "*"` / `name += "?"` are flags.

Core Lean only.
-/
namespace TraitsVerif.Model.ParL

inductive Tok where
  | name (i : Nat) | dot | colon | plus | minus | quest | star | lbr | rbr | comma | eos | other
  deriving DecidableEq, Repr

inductive CVar where | c | cn | nextChar deriving DecidableEq, Repr
inductive SVar where | name | metadata deriving DecidableEq, Repr
inductive BVar where | cycle | isClosing | itemComplete deriving DecidableEq, Repr

/-- A `ListenerItem` as the parser leaves it (handler / dispatch / priority are copied from the
parser object into every item and are not represented). -/
structure Item where
  name : Option Nat
  star : Bool := false
  opt : Bool := false
  notify : Bool := true
  type : Nat
  deferred : Bool
  metaName : Option Nat := none
  metaDefined : Bool := true
  isAnytrait : Bool := false
  isListHandler : Bool := false
  deriving DecidableEq, Repr

/-- Listener structures: `item it next`, `nil` (= `next is None`), and `ListenerGroup(items=[…])` as a
cons-list `group first rest` / `gnil`.  (`cyc` marks `set_next(self)`-style cycles, which a tree
cannot hold; the fragment has none.) -/
inductive LTree where
  | nil
  | item (it : Item) (next : LTree)
  | group (first rest : LTree)
  | gnil
  | cyc
  deriving Repr

/-- `set_notify` (ListenerItem: the field; ListenerGroup: every item). -/
def LTree.setNotify (b : Bool) : LTree → LTree
  | .item it nx => .item { it with notify := b } nx
  | .group f r => .group (LTree.setNotify b f) (LTree.setNotify b r)
  | .nil => .nil
  | .gnil => .gnil
  | .cyc => .cyc

/-- `set_next` (ListenerItem: the field; ListenerGroup: every item). -/
def LTree.setNext (nx : LTree) : LTree → LTree
  | .item it _ => .item it nx
  | .group f r => .group (LTree.setNext nx f) (LTree.setNext nx r)
  | .nil => .nil
  | .gnil => .gnil
  | .cyc => .cyc

inductive PExp where
  | cIs (v : CVar) (t : Tok)         -- `v == "<t>"`
  | cIn (v : CVar) (ts : List Tok)   -- `v in "<ts>"`
  | cIsTerm (v : CVar)               -- `v == terminator`
  | termIs (t : Tok)                 -- `terminator == "<t>"`
  | sEmpty (v : SVar)                -- `v == ""` / `len(v) == 0`
  | bvar (v : BVar)
  | isAny                            -- `result.is_anytrait`
  | not (e : PExp)
  | and (a b : PExp)
  | or (a b : PExp)
  deriving Repr

/-- Statements of `parse_item`. -/
inductive PStmt where
  | skip
  | seq (a b : PStmt)
  | ite (c : PExp) (t e : PStmt)
  | readWs (v : CVar)                -- `v = self.skip_ws`
  | readNext (v : CVar)              -- `v = self.next`
  | readName (v : SVar)              -- `v = self.name`
  | copyC (d s : CVar)               -- `d = s`
  | setB (v : BVar) (e : PExp)
  | setBWsIs (v : BVar) (t : Tok)    -- `v = self.skip_ws == "<t>"`
  | backspace
  | error
  | callGroup (t : Tok) (d : Option Bool) (ty : Option Nat)
      -- `result = self.parse_group(terminator="<t>", deferred=…, handler_type=…)`; `none` = the
      -- method's own argument is passed on, `some v` = the constant written in the call
  | mkItem                           -- `result = ListenerItem(name=name, …, deferred=deferred, type=handler_type)`
  | appendStar | appendOpt           -- `result.name += "*"` / `"?"`
  | setMetaDefined (e : PExp)
  | setMetaName (v : SVar)           -- `result.metadata_name = metadata = self.name` is readName + this
  | setIsAny (e : PExp)
  | setListHandler
  | setNotify (e : PExp)             -- `result.set_notify(e)`
  | callItem (d : Option Bool) (ty : Option Nat)
      -- `next = self.parse_item(terminator=terminator, deferred=…, handler_type=…)`
  | cycleSplice                      -- the `if cycle:` block that splices a group into the chain
  | setNextFromNext                  -- `result.set_next(next)`
  | selfCycle                        -- `result.set_next(result)`
  | ret                              -- `return result`
  deriving Repr

/-- Parser position: consumed tokens (latest first; a read past the end consumes a virtual `eos`,
as `self.index` keeps growing) and the remaining ones. -/
structure PS where
  before : List Tok
  rest : List Tok
  deriving Repr

def PS.read (s : PS) : Tok × PS :=
  match s.rest with
  | [] => (.eos, { s with before := .eos :: s.before })
  | t :: r => (t, ⟨t :: s.before, r⟩)

def PS.back (s : PS) : PS :=
  match s.before with
  | [] => s
  | .eos :: b => ⟨b, s.rest⟩
  | t :: b => ⟨b, t :: s.rest⟩

/-- `self.name`: the identifier whose first character has just been consumed. -/
def PS.lastName (s : PS) : Option Nat :=
  match s.before with
  | .name i :: _ => some i
  | _ => none

structure Loc where
  c : Tok := .other
  cn : Tok := .other
  nextChar : Tok := .other
  name : Option Nat := none
  metadata : Option Nat := none
  cycle : Bool := false
  isClosing : Bool := false
  itemComplete : Bool := false
  result : LTree := .nil
  next : LTree := .nil
  returned : Bool := false

def Loc.getC (l : Loc) : CVar → Tok
  | .c => l.c | .cn => l.cn | .nextChar => l.nextChar
def Loc.setC (l : Loc) (v : CVar) (t : Tok) : Loc :=
  match v with | .c => { l with c := t } | .cn => { l with cn := t } | .nextChar => { l with nextChar := t }
def Loc.getS (l : Loc) : SVar → Option Nat
  | .name => l.name | .metadata => l.metadata
def Loc.setS (l : Loc) (v : SVar) (x : Option Nat) : Loc :=
  match v with | .name => { l with name := x } | .metadata => { l with metadata := x }
def Loc.getB (l : Loc) : BVar → Bool
  | .cycle => l.cycle | .isClosing => l.isClosing | .itemComplete => l.itemComplete
def Loc.setB (l : Loc) (v : BVar) (b : Bool) : Loc :=
  match v with
  | .cycle => { l with cycle := b } | .isClosing => { l with isClosing := b }
  | .itemComplete => { l with itemComplete := b }

/-- The arguments of `parse_item` / `parse_group`. -/
structure Ctx where
  term : Tok
  deferred : Bool
  type : Nat

def resultIsAny : LTree → Bool
  | .item it _ => it.isAnytrait
  | _ => false

def evalP (cx : Ctx) (l : Loc) : PExp → Bool
  | .cIs v t => l.getC v == t
  | .cIn v ts => ts.contains (l.getC v)
  | .cIsTerm v => l.getC v == cx.term
  | .termIs t => cx.term == t
  | .sEmpty v => (l.getS v).isNone
  | .bvar v => l.getB v
  | .isAny => resultIsAny l.result
  | .not e => !evalP cx l e
  | .and a b => evalP cx l a && evalP cx l b
  | .or a b => evalP cx l a || evalP cx l b

def updItem (f : Item → Item) : LTree → LTree
  | .item it nx => .item (f it) nx
  | t => t

abbrev Rec := Ctx → PS → Option (LTree × PS)

/-- One statement of `parse_item`; `none` = `self.error(…)`.  `recI` / `recG` are the recursive calls. -/
def execP (recI recG : Rec) (cx : Ctx) : PStmt → PS × Loc → Option (PS × Loc)
  | .skip, st => some st
  | .seq a b, st =>
    match execP recI recG cx a st with
    | some st' => execP recI recG cx b st'
    | none => none
  | .ite c t e, (s, l) =>
    if l.returned then some (s, l)
    else if evalP cx l c then execP recI recG cx t (s, l) else execP recI recG cx e (s, l)
  | .readWs v, (s, l) => if l.returned then some (s, l) else some (s.read.2, l.setC v s.read.1)
  | .readNext v, (s, l) => if l.returned then some (s, l) else some (s.read.2, l.setC v s.read.1)
  | .readName v, (s, l) => if l.returned then some (s, l) else some (s, l.setS v s.lastName)
  | .copyC d v, (s, l) => if l.returned then some (s, l) else some (s, l.setC d (l.getC v))
  | .setB v e, (s, l) => if l.returned then some (s, l) else some (s, l.setB v (evalP cx l e))
  | .setBWsIs v t, (s, l) =>
    if l.returned then some (s, l) else some (s.read.2, l.setB v (s.read.1 == t))
  | .backspace, (s, l) => if l.returned then some (s, l) else some (s.back, l)
  | .error, (s, l) => if l.returned then some (s, l) else none
  | .callGroup t d ty, (s, l) =>
    if l.returned then some (s, l) else
      match recG ⟨t, d.getD cx.deferred, ty.getD cx.type⟩ s with
      | some (r, s') => some (s', { l with result := r })
      | none => none
  | .mkItem, (s, l) =>
    if l.returned then some (s, l)
    else some (s, { l with result := .item { name := l.name, type := cx.type, deferred := cx.deferred } .nil })
  | .appendStar, (s, l) =>
    if l.returned then some (s, l) else some (s, { l with result := updItem (fun it => { it with star := true }) l.result })
  | .appendOpt, (s, l) =>
    if l.returned then some (s, l) else some (s, { l with result := updItem (fun it => { it with opt := true }) l.result })
  | .setMetaDefined e, (s, l) =>
    if l.returned then some (s, l)
    else some (s, { l with result := updItem (fun it => { it with metaDefined := evalP cx l e }) l.result })
  | .setMetaName v, (s, l) =>
    if l.returned then some (s, l)
    else some (s, { l with result := updItem (fun it => { it with metaName := l.getS v }) l.result })
  | .setIsAny e, (s, l) =>
    if l.returned then some (s, l)
    else some (s, { l with result := updItem (fun it => { it with isAnytrait := evalP cx l e }) l.result })
  | .setListHandler, (s, l) =>
    if l.returned then some (s, l)
    else some (s, { l with result := updItem (fun it => { it with isListHandler := true }) l.result })
  | .setNotify e, (s, l) =>
    if l.returned then some (s, l) else some (s, { l with result := LTree.setNotify (evalP cx l e) l.result })
  | .callItem d ty, (s, l) =>
    if l.returned then some (s, l) else
      match recI ⟨cx.term, d.getD cx.deferred, ty.getD cx.type⟩ s with
      | some (r, s') => some (s', { l with next := r })
      | none => none
  | .cycleSplice, (s, l) => if l.returned then some (s, l) else some (s, { l with result := .cyc })
  | .setNextFromNext, (s, l) =>
    if l.returned then some (s, l) else some (s, { l with result := LTree.setNext l.next l.result })
  | .selfCycle, (s, l) => if l.returned then some (s, l) else some (s, { l with result := .cyc })
  | .ret, (s, l) => if l.returned then some (s, l) else some (s, { l with returned := true })

/-- What the translator extracts from the parser and from `ListenerGroup`. -/
structure PProg where
  itemBody : PStmt
  anyListener : Nat
  /-- `parse_group`: the `deferred=` / `handler_type=` arguments of its `parse_item` call -/
  groupItemArgs : Option Bool × Option Nat
  /-- `parse_group`: `if len(items) == 1: return items[0]` is present -/
  groupUnwrapsSingle : Bool
  /-- `parse`: the `simple_pat` shortcut; (deferred, type) of the outer and of the inner item -/
  simpleOuter : Option Bool × Option Nat
  simpleInner : Option Bool × Option Nat
  /-- `parse`: `notify=match.group(2) == "."` -/
  simpleNotifyIsDot : Bool
  /-- `parse`: the arguments of the final `parse_group` call (terminator EOS) -/
  parseGroupArgs : Option Bool × Option Nat
  /-- `ListenerGroup.register / unregister` are `for item in self.items: item.<same>(arg)` -/
  groupRegisterForwards : Bool
  groupUnregisterForwards : Bool
  /-- `ListenerGroup.set_next` / `set_notify` forward to every item -/
  groupSetNextForwards : Bool
  groupSetNotifyForwards : Bool

/-- `ListenerGroup.register` (`remove = false`) / `unregister`: the items' own method, in list order. -/
def groupReg (P : PProg) (remove : Bool) (f : α → σ → σ) (items : List α) (s : σ) : σ :=
  if (if remove then P.groupUnregisterForwards else P.groupRegisterForwards) then items.foldl (fun s it => f it s) s else s

def mkGroup : List LTree → LTree
  | [] => .gnil
  | t :: ts => .group t (mkGroup ts)

/-- `parse_group`: the `while True:` loop (its own fuel). -/
def groupLoop (P : PProg) (recI : Rec) : Nat → Ctx → PS → List LTree → Option (LTree × PS)
  | 0, _, _, _ => none
  | f + 1, cx, s, acc =>
    match recI ⟨cx.term, P.groupItemArgs.1.getD cx.deferred, P.groupItemArgs.2.getD cx.type⟩ s with
    | none => none
    | some (t, s1) =>
      let items := acc ++ [t]
      let c := s1.read.1
      let s2 := s1.read.2
      if c = cx.term then
        match items with
        | [x] => if P.groupUnwrapsSingle then some (x, s2) else some (mkGroup items, s2)
        | _ => some (mkGroup items, s2)
      else if c = .comma then groupLoop P recI f cx s2 items
      else none

def parseItem (P : PProg) : Nat → Rec
  | 0 => fun _ _ => none
  | f + 1 => fun cx s =>
    let recI := parseItem P f
    let recG : Rec := fun cx s => groupLoop P recI f cx s []
    match execP recI recG cx P.itemBody (s, {}) with
    | some (s', l) => if l.returned then some (l.result, s') else none
    | none => none

/-- `ListenerParser.parse` on a token string. -/
def parseSrc (P : PProg) (toks : List Tok) (deferred : Bool) (type : Nat) : Option LTree :=
  match toks with
  | [.name a, sep, .name b] =>
    if sep = .dot ∨ sep = .colon then
      -- `simple_pat` matched
      some (.item { name := some a, notify := if P.simpleNotifyIsDot then decide (sep = .dot) else decide (sep ≠ .dot),
                    type := P.simpleOuter.2.getD type, deferred := P.simpleOuter.1.getD deferred }
              (.item { name := some b, type := P.simpleInner.2.getD type, deferred := P.simpleInner.1.getD deferred } .nil))
    else
      (groupLoop P (parseItem P (toks.length + 2)) (toks.length + 2)
        ⟨.eos, P.parseGroupArgs.1.getD deferred, P.parseGroupArgs.2.getD type⟩ ⟨[], toks⟩ []).map (·.1)
  | _ =>
    (groupLoop P (parseItem P (toks.length + 2)) (toks.length + 2)
      ⟨.eos, P.parseGroupArgs.1.getD deferred, P.parseGroupArgs.2.getD type⟩ ⟨[], toks⟩ []).map (·.1)

end TraitsVerif.Model.ParL
