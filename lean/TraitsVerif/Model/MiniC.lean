/-
MiniC — the small subset of C in which the attribute functions of
traits/ctraits.c are written, deep-embedded, with a big-step interpreter.
`harness/translate/cattr.py` reads the *source text* of

  setattr_trait, setattr_event, getattr_trait, default_value_for,
  call_notifiers, has_traits_getattro, has_traits_setattro

on every run (tokenizer + recursive descent, fails closed) and writes them as
terms of this language to `Generated/AttrProg.lean`.  `Props/C02.lean` and
`Props/C10.lean` prove that the hand-written models `Model.Attr.setattrTrait`,
`setattrEvent`, `getattrTrait`, `defaultValueFor`, `callNotifiers`, `getattro`
are exactly the interpretation of those terms — for every object state, value,
validator, factory, `post_setattr` hook and handler behaviour.

What the translator leaves out (and says so): declarations without
initialiser, reference counting (`Py_INCREF` / `Py_DECREF` / `Py_XDECREF`
statements), `assert`, pointer casts other than `(PyObject *)`.  It expands the
function-like macro `has_notifiers`, turns `switch` into the equivalent chain of
`if`s (every arm must end in `break` / `return`), a forward `goto L` into the
statements that follow the label, `for (i = 0; i < n; i++)` with a
loop-invariant bound into `forRange`, and `PyList_SET_ITEM(x, i, v)` on a
local `x` into `x = list_set(x, i, v)`.

What the interpreter fixes: C truthiness, short-circuit `&&` / `||`, the
order of evaluation (arguments left to right), early `return`, `break`, the
CPython error indicator (`err`), and the meaning of the *primitives* — the
CPython API calls and the trait callbacks — in terms of the model's state
(`callPrim`, `callFPtr`, `getField` below; these are the trusted reading of
the C API, see TRUSTED in harness/props/c02.py).
-/
import TraitsVerif.Model.SetAttr
namespace TraitsVerif.Model.MiniC
open TraitsVerif TraitsVerif.Model.Attr

/-- The function pointers stored in a `trait_object`. -/
inductive FPtr where
  | validate | post | getattr | setattr
  deriving DecidableEq, Repr

/-- Run-time values: C ints and the pointers the functions handle. -/
inductive Val where
  /-- the program left the subset the interpreter understands -/
  | stuck
  | null
  | int (n : Int)
  /-- a non-NULL `PyObject *` (a Python value, by identity) -/
  | obj (i : Id)
  /-- the `has_traits_object *obj` the function was called on -/
  | self
  /-- the `trait_object *` the dispatch selected (`traito == traitd` in this cluster) -/
  | trait
  /-- the attribute name -/
  | name
  /-- `obj->obj_dict` -/
  | dict
  /-- `obj->itrait_dict` / `obj->ctrait_dict` -/
  | idict | cdict
  /-- a non-NULL notifier list (and which one it is) -/
  | nlist (l : List Notifier) (loc : Loc)
  /-- the fresh list `all_notifiers` while it is being filled -/
  | items (l : List (Option (Notifier × Loc)))
  /-- one notifier taken from a list -/
  | item (n : Notifier) (loc : Loc)
  | fptr (k : FPtr)
  /-- `PyTuple_Pack(4, obj, name, old, new)` -/
  | args4 (old new : Id)
  /-- `PyTuple_Pack(1, obj)` -/
  | args1
  /-- `PyTuple_GET_ITEM(default_value, k)` of a callable-and-args default -/
  | tpart (d : Id) (k : Int)
  /-- `TraitListObject` / `TraitDictObject` / `TraitSetObject` -/
  | cls (k : Nat)
  /-- an exception class `PyExc_*` -/
  | exc (e : Exc)
  /-- a string literal (contents irrelevant) -/
  | str
  deriving DecidableEq, Repr

inductive BinOp where
  | eq | ne | lt | gt | band | add | land | lor
  deriving DecidableEq, Repr

inductive Fld where
  | flags | validate | post_setattr | getattr | setattr | notifiers
  | default_value_type | default_value | obj_dict | itrait_dict | ctrait_dict
  | other (s : String)
  deriving DecidableEq, Repr

inductive Glob where
  | Undefined | Uninitialized | Py_None
  | TraitListObject | TraitDictObject | TraitSetObject
  | PyExc_ValueError | PyExc_KeyError | PyExc_AttributeError
  | other (s : String)
  deriving DecidableEq, Repr

inductive Prim where
  | PyDict_GetItem | PyDict_SetItem | PyDict_DelItem | PyDict_New | PyUnicode_Check
  | invalid_attribute_error | default_value_for | call_notifiers
  | PyList_GET_SIZE | PyList_GET_ITEM | PyList_New | list_set
  | PyTuple_Pack | PyTuple_GET_ITEM | PyObject_Call | PyHasTraits_Check
  | PySequence_List | PyDict_Copy | call_class | warn_on_attribute_error
  | PyErr_SetString | PyErr_ExceptionMatches | PyErr_SetObject | PyErr_Clear
  | dict_getitem | get_prefix_trait | PyObject_GenericGetAttr | has_notifiers
  | other (s : String)
  deriving DecidableEq, Repr

inductive Expr where
  | var (i : Nat)
  | null
  | intLit (n : Int)
  | strLit
  | glob (g : Glob)
  | field (e : Expr) (f : Fld)
  /-- `(PyObject *)e` -/
  | castObj (e : Expr)
  | not (e : Expr)
  | bin (op : BinOp) (a b : Expr)
  | cond (c a b : Expr)
  | assign (i : Nat) (e : Expr)
  | assignField (b : Expr) (f : Fld) (e : Expr)
  | call (p : Prim) (args : List Expr)
  | callPtr (f : Expr) (args : List Expr)
  deriving Repr

inductive Stmt where
  | skip
  | seq (a b : Stmt)
  | expr (e : Expr)
  | ifS (c : Expr) (t e : Stmt)
  | ret (e : Expr)
  /-- `for (i = 0; i < bound; i++) body`, `bound` loop-invariant -/
  | forRange (i : Nat) (bound : Expr) (body : Stmt)
  | brk
  deriving Repr

structure Func where
  nparams : Nat
  body : Stmt
  deriving Repr

/-- What the interpreter is run with.  `isHT v` = `PyHasTraits_Check(v)`,
`vflag v` = the `HASTRAITS_VETO_NOTIFY` bit of `v`'s flags. -/
structure IC where
  E : Env
  t : TraitCore
  isHT : Id → Bool
  vflag : Id → Bool

/-- Machine state. -/
structure MS where
  vars : Nat → Val
  s : OSt
  /-- `obj->obj_dict == NULL` -/
  dictNull : Bool
  /-- `obj->itrait_dict == NULL` -/
  idictNull : Bool := false
  /-- the CPython error indicator -/
  err : Option Exc := none

inductive Flow where
  | next
  | returned (v : Val)
  | broke

def truthy : Val → Bool
  | .null => false
  | .int n => decide (n ≠ 0)
  | .stuck => false
  | _ => true

def setVar (vars : Nat → Val) (i : Nat) (v : Val) : Nat → Val :=
  fun j => if j = i then v else vars j

def bindArgs : Nat → List Val → Nat → Val
  | _, [] => fun _ => .stuck
  | k, v :: vs => fun j => if j = k then v else bindArgs (k + 1) vs j

def ofBool (b : Bool) : Val := .int (if b then 1 else 0)

/-- Binary operators on evaluated operands (`&&` / `||` are short-circuited in `eval`). -/
def binop : BinOp → Val → Val → Val
  | _, .stuck, _ => .stuck
  | _, _, .stuck => .stuck
  | .eq, a, b => ofBool (decide (a = b))
  | .ne, a, b => ofBool (decide (a ≠ b))
  | .lt, .int a, .int b => ofBool (decide (a < b))
  | .gt, .int a, .int b => ofBool (decide (a > b))
  | .band, .int a, .int b => .int ((a.toNat &&& b.toNat : Nat) : Int)
  | .add, .int a, .int b => .int (a + b)
  | _, _, _ => .stuck

/-- A notifier-list pointer as the model sees it. -/
def asList : Val → Option (Option (List Notifier))
  | .null => some none
  | .nlist l _ => some (some l)
  | _ => none

/-- A notifier-list field as a pointer. -/
def nlv (o : Option (List Notifier)) (loc : Loc) : Val :=
  match o with
  | some l => .nlist l loc
  | none => .null

/-- An object-or-NULL pointer. -/
def ptrv (o : Option Id) : Val :=
  match o with
  | some v => .obj v
  | none => .null

/-- The value of `has_notifiers(a, b)` on two list pointers (tied to the macro's
own text by `has_notifiers_is_source`). -/
def hnV (a b : Val) : Val :=
  match asList a, asList b with
  | some x, some y => .int (if hasNotifiers x y then 1 else 0)
  | _, _ => .stuck

/-- `NULL` reads as `None` where the model's `default_value` does (`Option.getD noneId`). -/
def idOf : Val → Option Id
  | .null => some noneId
  | .obj d => some d
  | _ => none

def getGlob : Glob → Val
  | .Undefined => .obj undef
  | .Uninitialized => .obj uninit
  | .Py_None => .obj noneId
  | .TraitListObject => .cls 0
  | .TraitDictObject => .cls 1
  | .TraitSetObject => .cls 2
  | .PyExc_ValueError => .exc .valueError
  | .PyExc_KeyError => .exc .keyError
  | .PyExc_AttributeError => .exc .attributeError
  | .other _ => .stuck

/-- `e->f`. -/
def getField (C : IC) (ms : MS) : Val → Fld → Val
  | .trait, .flags => .int C.t.flags
  | .trait, .validate => (match C.t.validate with | some _ => .fptr .validate | none => .null)
  | .trait, .post_setattr => (match C.t.post with | some _ => .fptr .post | none => .null)
  | .trait, .getattr => .fptr .getattr
  | .trait, .setattr => .fptr .setattr
  | .trait, .notifiers => nlv ms.s.tn .t
  | .trait, .default_value_type => .int C.t.dvt
  | .trait, .default_value => ptrv C.t.dv
  | .self, .flags => .int (if ms.s.noNotify then Generated.HASTRAITS_NO_NOTIFY else 0 : Nat)
  | .self, .notifiers => nlv ms.s.on .o
  | .self, .obj_dict => if ms.dictNull then .null else .dict
  | .self, .itrait_dict => if ms.idictNull then .null else .idict
  | .self, .ctrait_dict => .cdict
  | .obj v, .flags => .int (if C.vflag v then Generated.HASTRAITS_VETO_NOTIFY else 0 : Nat)
  | _, _ => .stuck

def setField (ms : MS) : Val → Fld → Val → Option MS
  | .self, .obj_dict, .dict => some { ms with dictNull := false }
  | _, _, _ => none

def withS (ms : MS) (s : OSt) : MS := { ms with s := s }
def failS (ms : MS) (s : OSt) (e : Exc) : MS := { ms with s := s, err := some e }

def retPtr (ms : MS) : Except Exc Id × OSt → Val × MS
  | (.ok v, s) => (.obj v, withS ms s)
  | (.error e, s) => (.null, failS ms s e)

def retInt (ms : MS) : Option Exc × OSt → Val × MS
  | (none, s) => (.int 0, withS ms s)
  | (some e, s) => (.int (-1), failS ms s e)

/-- The CPython API and the helper functions, in terms of the model's state. -/
def callPrim (C : IC) : Prim → List Val → MS → Val × MS
  | .PyDict_GetItem, [.dict, .name], ms =>
    (ptrv ms.s.slot, ms)
  | .PyDict_SetItem, [.dict, .name, .obj v], ms => (.int 0, withS ms { ms.s with slot := some v })
  | .PyDict_DelItem, [.dict, .name], ms =>
    (match ms.s.slot with
     | some _ => (.int 0, withS ms { ms.s with slot := none })
     | none => (.int (-1), failS ms ms.s .keyError))
  | .PyDict_New, [], ms => (.dict, ms)
  | .PyUnicode_Check, [.name], ms => (.int 1, ms)
  | .invalid_attribute_error, [.name], ms => (.int (-1), failS ms ms.s .typeError)
  | .default_value_for, [.trait, .self, .name], ms => retPtr ms (ms.s.defaultValueFor C.E C.t)
  | .call_notifiers, [tn, on, .self, .name, .obj old, .obj new], ms =>
    (match asList tn, asList on with
     | some a, some b => retInt ms (callNotifiers C.E C.t a b old new ms.s)
     | _, _ => (.stuck, ms))
  | .has_notifiers, [a, b], ms => (hnV a b, ms)
  | .PyList_GET_SIZE, [.nlist l _], ms => (.int l.length, ms)
  | .PyList_GET_ITEM, [.nlist l loc, .int i], ms =>
    ((match l[i.toNat]? with | some n => if 0 ≤ i then .item n loc else .stuck | none => .stuck), ms)
  | .PyList_GET_ITEM, [.items l, .int i], ms =>
    ((match l[i.toNat]? with | some (some (n, loc)) => if 0 ≤ i then .item n loc else .stuck | _ => .stuck), ms)
  | .PyList_New, [.int n], ms => (.items (List.replicate n.toNat none), ms)
  | .list_set, [.items l, .int i, .item n loc], ms =>
    ((if 0 ≤ i ∧ i.toNat < l.length then .items (l.set i.toNat (some (n, loc))) else .stuck), ms)
  | .PyTuple_Pack, [.int 4, .obj _, .name, .obj old, .obj new], ms => (.args4 old new, ms)
  | .PyTuple_Pack, [.int 1, .obj _], ms => (.args1, ms)
  | .PyTuple_GET_ITEM, [.obj d, .int k], ms => (.tpart d k, ms)
  | .PyTuple_GET_ITEM, [.null, .int k], ms => (.tpart noneId k, ms)
  | .PyHasTraits_Check, [.obj v], ms => (ofBool (C.isHT v), ms)
  -- one registered notifier is called with (object, name, old, new)
  | .PyObject_Call, [.item n loc, .args4 old new, .null], ms =>
    (match callWrapper C.E C.t n loc old new ms.s with
     | (none, s) => (.obj noneId, withS ms s)
     | (some e, s) => (.null, failS ms s e))
  -- factory(*args, **kw)
  | .PyObject_Call, [.tpart d 0, .tpart d' 1, _], ms =>
    if d = d' then
      (match callFactory C.E d ms.s.self ms.s.name noneId ms.s.ctx with
       | (r, c) => retPtr ms (r, { ms.s with ctx := c }))
    else (.stuck, ms)
  -- _name_default(obj)
  | .PyObject_Call, [f, .args1, .null], ms =>
    (match idOf f with
     | some d =>
       (match callFactory C.E d ms.s.self ms.s.name ms.s.self ms.s.ctx with
        | (r, c) => retPtr ms (r, { ms.s with ctx := c }))
     | none => (.stuck, ms))
  | .PySequence_List, [d], ms =>
    (match idOf d with
     | some d => (match ms.s.ctx.copyOf d with | (i, c) => (.obj i, withS ms { ms.s with ctx := c }))
     | none => (.stuck, ms))
  | .PyDict_Copy, [d], ms =>
    (match idOf d with
     | some d => (match ms.s.ctx.copyOf d with | (i, c) => (.obj i, withS ms { ms.s with ctx := c }))
     | none => (.stuck, ms))
  | .call_class, [.cls _, .trait, .self, .name, d], ms =>
    (match idOf d with
     | some d => (match ms.s.ctx.copyOf d with | (i, c) => (.obj i, withS ms { ms.s with ctx := c }))
     | none => (.stuck, ms))
  -- `_warn_on_attribute_error(result)`: under `-W error` the UserWarning replaces the AttributeError
  | .warn_on_attribute_error, [r], ms =>
    (.int 0, if r = .null ∧ ms.err = some .attributeError ∧ C.E.warnError then { ms with err := some .other } else ms)
  | .PyErr_SetString, [.exc e, .str], ms => (.int 0, { ms with err := some e })
  | .PyErr_SetObject, [.exc e, _], ms => (.int 0, { ms with err := some e })
  | .PyErr_ExceptionMatches, [.exc e], ms => (ofBool (decide (ms.err = some e)), ms)
  | .PyErr_Clear, [], ms => (.int 0, { ms with err := none })
  -- `obj->itrait_dict[name]` / `obj->ctrait_dict[name]` (the class trait exists: the model's scope)
  | .dict_getitem, [.idict, .name], ms => ((if ms.s.it.isSome then .trait else .null), ms)
  | .dict_getitem, [.cdict, .name], ms => (.trait, ms)
  | _, _, ms => (.stuck, ms)

/-- Calls through the function pointers of the trait. -/
def callFPtr (C : IC) : FPtr → List Val → MS → Val × MS
  | .validate, [.trait, .self, .name, .obj v], ms =>
    (match runValidate C.E C.t v ms.s.ctx with
     | (r, c) => retPtr ms (r, { ms.s with ctx := c }))
  | .post, [.trait, .self, .name, .obj v], ms => retInt ms (postSetattr C.E C.t v ms.s)
  | .getattr, [.trait, .self, .name], ms => retPtr ms (traitGetattr C.E C.t ms.s)
  | .setattr, [.trait, .trait, .self, .name, .obj v], ms => retInt ms (traitSetattr C.E C.t (some v) ms.s)
  | .setattr, [.trait, .trait, .self, .name, .null], ms => retInt ms (traitSetattr C.E C.t none ms.s)
  | _, _, ms => (.stuck, ms)

mutual
def eval (C : IC) : Expr → MS → Val × MS
  | .var i, ms => (ms.vars i, ms)
  | .null, ms => (.null, ms)
  | .intLit n, ms => (.int n, ms)
  | .strLit, ms => (.str, ms)
  | .glob g, ms => (getGlob g, ms)
  | .field e f, ms =>
    (match eval C e ms with
     | (v, ms1) => (getField C ms1 v f, ms1))
  | .castObj e, ms =>
    (match eval C e ms with
     | (.self, ms1) => (.obj ms1.s.self, ms1)
     | r => r)
  | .not e, ms =>
    (match eval C e ms with
     | (.stuck, ms1) => (.stuck, ms1)
     | (v, ms1) => (ofBool (!truthy v), ms1))
  | .bin .land a b, ms =>
    (match eval C a ms with
     | (.stuck, ms1) => (.stuck, ms1)
     | (v, ms1) =>
       if truthy v then
         (match eval C b ms1 with
          | (.stuck, ms2) => (.stuck, ms2)
          | (w, ms2) => (ofBool (truthy w), ms2))
       else (.int 0, ms1))
  | .bin .lor a b, ms =>
    (match eval C a ms with
     | (.stuck, ms1) => (.stuck, ms1)
     | (v, ms1) =>
       if truthy v then (.int 1, ms1)
       else
         (match eval C b ms1 with
          | (.stuck, ms2) => (.stuck, ms2)
          | (w, ms2) => (ofBool (truthy w), ms2)))
  | .bin op a b, ms =>
    (match eval C a ms with
     | (v, ms1) =>
       (match eval C b ms1 with
        | (w, ms2) => (binop op v w, ms2)))
  | .cond c a b, ms =>
    (match eval C c ms with
     | (.stuck, ms1) => (.stuck, ms1)
     | (v, ms1) => if truthy v then eval C a ms1 else eval C b ms1)
  | .assign i e, ms =>
    (match eval C e ms with
     | (v, ms1) => (v, { ms1 with vars := setVar ms1.vars i v }))
  | .assignField b f e, ms =>
    (match eval C e ms with
     | (v, ms1) =>
       (match eval C b ms1 with
        | (bv, ms2) =>
          (match setField ms2 bv f v with
           | some ms3 => (v, ms3)
           | none => (.stuck, ms2))))
  | .call p args, ms =>
    (match evalArgs C args ms with
     | (vs, ms1) => callPrim C p vs ms1)
  | .callPtr f args, ms =>
    (match eval C f ms with
     | (.fptr k, ms1) =>
       (match evalArgs C args ms1 with
        | (vs, ms2) => callFPtr C k vs ms2)
     | (_, ms1) => (.stuck, ms1))
def evalArgs (C : IC) : List Expr → MS → List Val × MS
  | [], ms => ([], ms)
  | e :: es, ms =>
    (match eval C e ms with
     | (v, ms1) =>
       (match evalArgs C es ms1 with
        | (vs, ms2) => (v :: vs, ms2)))
end

/-- `for (i = k; i < k + r; i++) body`: `r` remaining iterations. -/
def loop (body : MS → MS × Flow) (i : Nat) : Nat → Nat → MS → MS × Flow
  | k, 0, ms => ({ ms with vars := setVar ms.vars i (.int k) }, .next)
  | k, r + 1, ms =>
    match body { ms with vars := setVar ms.vars i (.int k) } with
    | (ms1, .next) => loop body i (k + 1) r ms1
    | (ms1, .broke) => (ms1, .next)
    | (ms1, .returned v) => (ms1, .returned v)

def exec (C : IC) : Stmt → MS → MS × Flow
  | .skip, ms => (ms, .next)
  | .seq a b, ms =>
    (match exec C a ms with
     | (ms1, .next) => exec C b ms1
     | r => r)
  | .expr e, ms =>
    (match eval C e ms with
     | (.stuck, ms1) => (ms1, .returned .stuck)
     | (_, ms1) => (ms1, .next))
  | .ifS c t e, ms =>
    (match eval C c ms with
     | (.stuck, ms1) => (ms1, .returned .stuck)
     | (v, ms1) => if truthy v then exec C t ms1 else exec C e ms1)
  | .ret e, ms =>
    (match eval C e ms with
     | (v, ms1) => (ms1, .returned v))
  | .forRange i b body, ms =>
    (match eval C b ms with
     | (.int n, ms1) => if 0 ≤ n then loop (exec C body) i 0 n.toNat ms1 else (ms1, .returned .stuck)
     | (_, ms1) => (ms1, .returned .stuck))
  | .brk, ms => (ms, .broke)

/-- What a call of a translated function looks like from outside: the returned
value, the object state, the error indicator. -/
abbrev Out := Val × OSt × Option Exc

def call (C : IC) (f : Func) (args : List Val) (s : OSt) (dictNull idictNull : Bool) : Out :=
  if args.length ≠ f.nparams then (.stuck, s, none) else
  match exec C f.body { vars := bindArgs 0 args, s := s, dictNull := dictNull, idictNull := idictNull } with
  | (ms, .returned v) => (v, ms.s, ms.err)
  | (ms, _) => (.stuck, ms.s, ms.err)

/-- The outcome of an `int`-returning model function: 0 and no error set, or -1 and the error set. -/
def ofInt : Option Exc × OSt → Out
  | (none, s) => (.int 0, s, none)
  | (some e, s) => (.int (-1), s, some e)

/-- The outcome of a `PyObject *`-returning model function: the object and no
error set, or NULL and the error set. -/
def ofPtr : Except Exc Id × OSt → Out
  | (.ok v, s) => (.obj v, s, none)
  | (.error e, s) => (.null, s, some e)

/-- `value` argument of a setattr function: NULL is `del`. -/
def ofValue : Option Id → Val
  | none => .null
  | some v => .obj v

end TraitsVerif.Model.MiniC
