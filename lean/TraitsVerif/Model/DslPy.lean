/-
DslPy — the small subset of Python in which the *compiler* of the observe
mini-language is written, deep-embedded, with a total big-step interpreter.

`harness/translate/dslprog.py` translates, on every run, the SOURCE TEXT of
  traits/observation/parsing.py      _handle_series/_parallel/_trait/_anytrait/_metadata/_items,
                                     _handle_tree (the dispatch dict), parse, compile_str
  traits/observation/expression.py   ObserverExpression.__or__/then/…/_as_graphs, the three expression
                                     classes' __init__ and _create_graphs, trait/metadata/match/anytrait/
                                     dict_items/list_items/set_items/join-free module functions, compile_expr
  traits/observation/_observer_graph.py          ObserverGraph.__init__ (the uniqueness check)
  _named_trait_observer.py, _list/_dict/_set_item_observer.py, _filtered_trait_observer.py,
  _metadata_filter.py                __init__ of the observer / filter classes
into a `Prog` of this language (`Generated/DslProg.lean`).  `Props/C15.lean`
proves that the hand-written model (`toExpr`, `create`, `compileChars` of
Model/DslCompile.lean) IS the interpretation of that program, for every parse
tree, every expression and every text.

What the interpreter fixes (the translator does not have to know it): order
of evaluation, binding of positional / keyword / default / keyword-only
arguments, method lookup (class, then its bases), propagation of exceptions,
`and`, `x if c else y`, dict subscript, tuple unpacking, attribute assignment
in `__init__`, the builtins `list` / `len` / `set` / `dict.fromkeys` on lists of
graphs (with `ObserverGraph.__eq__` = `Forest.graphEq` as the element equality),
and which object a finished `__init__` denotes (`finish`: class name + field
names -> `Observer` / `Filter` / `Expr` / graph of Model/DslCompile.lean).

Recursion of the program over its data (`_handle_tree` on the children of a
tree, `_create_graphs` on the operands of an expression) is resolved by a
*hook*: the functions `interpTree` / `interpCreate` below are structurally
recursive on the tree / expression, hand the children to the program as opaque
references (`sub i`, `subE i cls`) and answer a call of the recursive function
on such a reference by their own recursive call.  Everything else the program
calls is looked up in the translated `Prog` and interpreted with a fixed fuel
(nesting depth of expressions + calls; running out of fuel is `stuck`, which is
never equal to a result of the model, so the obligations then fail).
-/
import TraitsVerif.Model.DslCompile
namespace TraitsVerif.Model.DslPy
open TraitsVerif TraitsVerif.Model.Dsl

mutual
/-- Expressions. -/
inductive DExpr where
  | name (x : String)                      -- parameter / local variable
  | glob (q : String)                      -- module-level function, qualified: "parsing._handle_tree"
  | cls (c : String)                       -- class
  | builtin (b : String)                   -- list, len, set, dict
  | prim (p : String)                      -- module-level object: "anytrait_filter", "lark_parser"
  | cNone
  | cBool (b : Bool)
  | cStr (s : String)
  | attr (e : DExpr) (a : String)          -- e.a
  | eq (a b : DExpr)                       -- a == b
  | ne (a b : DExpr)                       -- a != b
  | isNotNone (a : DExpr)                  -- a is not None
  | and (a b : DExpr)
  | ifExp (c a b : DExpr)                  -- a if c else b
  | bitor (a b : DExpr)                    -- a | b
  | add (a b : DExpr)                      -- a + b
  | call (f : DExpr) (args : DArgs)
  | subscript (d k : DExpr)                -- d[k]
  | dict (items : DArgs)                   -- {"k": v, …}  (items as keyword arguments)
  | list (items : DArgs)                   -- [a, b, …]
  | lam2 (x y : String) (body : DExpr)     -- lambda x, y: body   (no free local variables)
/-- Argument lists: positional and keyword arguments in source order. -/
inductive DArgs where
  | nil
  | pos (e : DExpr) (rest : DArgs)
  | kw (k : String) (e : DExpr) (rest : DArgs)
end

inductive DStmt where
  | assign (x : String) (e : DExpr)                    -- x = e
  | unpack (xs : List String) (e : DExpr)              -- a, b, c = e
  | setattr (a : String) (e : DExpr)                   -- self.a = e
  | ifRaise (c : DExpr) (exc : String)                 -- if c: raise exc(…)
  | tryAssign (x : String) (e : DExpr) (caught raised : String)
                                                       -- try: x = e / except caught: raise raised(…)
  | ret (e : DExpr)                                    -- return e

structure DParam where
  name : String
  kwonly : Bool
  default : Option DExpr

structure DFunc where
  params : List DParam
  body : List DStmt
  /-- `*name` -/
  vararg : Option String := none

structure DClass where
  name : String
  bases : List String
  methods : List (String × DFunc)

structure Prog where
  funcs : List (String × DFunc)
  classes : List DClass

/-- Run-time values. -/
inductive DVal where
  | none
  | bool (b : Bool)
  | int (n : Nat)
  | str (s : String)                         -- a str written in the program / Tree.data
  | chars (s : List Char)                    -- a str that came from the text (Token.value, the text itself)
  | tok (v : Name)                           -- lark Token
  | node (data : String) (children : List DVal)   -- lark Tree (the node being handled / a connector)
  | sub (i : Nat)                            -- the i-th child Tree of the node being handled
  | root (c : Cst)                           -- the Tree returned by the parser
  | text                                     -- the text being compiled (opaque)
  | list (xs : List DVal)
  | fdict (items : List (String × DVal))
  | fn (q : String)
  | clsV (c : String)
  | bi (b : String)
  | bound (recv : DVal) (m : String)
  | closure (x y : String) (body : DExpr)    -- a two-argument lambda
  | filter (f : Filter)
  | obs (o : Observer)
  | expr (e : Expr)
  | subE (i : Nat) (cls : String)            -- the i-th operand of the expression being compiled
  | obj (cls : String) (fields : List (String × DVal))   -- `self` in `__init__` / the expression being compiled
  | graph (o : Observer) (k : Forest)        -- ObserverGraph
  | forest (f : Forest)                      -- list of ObserverGraph
  | keys (f : Forest)                        -- dict.fromkeys(list of ObserverGraph)
  | gset (f : Forest)                        -- set(list of ObserverGraph)

inductive Err where
  | stuck                                    -- the program left the subset / ran out of fuel
  | exc (name : String)                      -- a Python exception
  deriving DecidableEq, Repr

/-- Results.  `ite b t e` is a branch on a Boolean that the interpreter does not
look at (the outcome of an `if c: raise …` test): whatever consumes the result
(`bind`) is distributed over both branches *by computation*, so a run on symbolic
data ends in a constructor with the test as an argument instead of in a stuck
`match`; `collapse` finally takes the branch. -/
inductive R (α : Type) where
  | ok (a : α)
  | error (e : Err)
  | ite (b : Bool) (t e : R α)

def R.bind {α β : Type} : R α → (α → R β) → R β
  | .ok a, k => k a
  | .error e, _ => .error e
  | .ite b t e, k => .ite b (t.bind k) (e.bind k)

def R.catch {α : Type} : R α → (Err → R α) → R α
  | .ok a, _ => .ok a
  | .error e, h => h e
  | .ite b t e, h => .ite b (t.catch h) (e.catch h)

def R.collapse {α : Type} : R α → Except Err α
  | .ok a => .ok a
  | .error e => .error e
  | .ite b t e => bif b then t.collapse else e.collapse

def R.ofExcept {α : Type} : Except Err α → R α
  | .ok a => .ok a
  | .error e => .error e

abbrev Res := Except Err DVal
abbrev RV := R DVal
abbrev Env := List (String × DVal)

def stuck {α : Type} : R α := .error .stuck
def stuckE {α : Type} : Except Err α := .error .stuck

/-- What is given to the interpreter from outside. -/
structure Ctx where
  /-- called with the name of a function ("parsing._handle_tree") or method
  ("._create_graphs", receiver first) and the bound arguments in parameter
  order; `some r` answers the call, `none` lets the body run. -/
  hook : String → List DVal → Option Res
  /-- `_LARK_PARSER.parse(<the text>)`; `none` = LarkError -/
  lark : Option DVal

def truthy : DVal → Option Bool
  | .none => some false
  | .bool b => some b
  | .list xs => some (!xs.isEmpty)
  | .forest .nil => some false
  | .forest _ => some true
  | _ => Option.none

def strEq : DVal → DVal → Option Bool
  | .str a, .str b => some (a == b)
  | .chars a, .chars b => some (a == b)
  | .str a, .chars b => some (a.toList == b)
  | .chars a, .str b => some (a == b.toList)
  | .int a, .int b => some (a == b)
  | .bool a, .bool b => some (a == b)
  | _, _ => Option.none

def asName : DVal → Option Name
  | .str s => some s.toList
  | .chars n => some n
  | _ => Option.none

def toForest : List DVal → Option Forest
  | [] => some .nil
  | .graph o k :: r => (toForest r).map (Forest.cons o k)
  | _ => Option.none

def exprCls : Expr → String
  | .single _ => "SingleObserverExpression"
  | .series _ _ => "SeriesObserverExpression"
  | .parallel _ _ => "ParallelObserverExpression"

def classOf : DVal → Option String
  | .expr e => some (exprCls e)
  | .subE _ c => some c
  | .obj c _ => some c
  | _ => Option.none

def findClass (P : Prog) (c : String) : Option DClass := P.classes.find? (·.name == c)

/-- method lookup: the class, then its bases (in order), one level deep -/
def findMethod (P : Prog) (c m : String) : Option DFunc :=
  match findClass P c with
  | Option.none => Option.none
  | some k =>
    match k.methods.lookup m with
    | some f => some f
    | Option.none =>
      k.bases.findSome? (fun b => match findClass P b with
        | some kb => kb.methods.lookup m
        | Option.none => Option.none)

/-- The object a finished `__init__` leaves behind. -/
def finish (cls : String) (fs : List (String × DVal)) : RV :=
  match cls with
  | "NamedTraitObserver" =>
    match (fs.lookup "name").bind asName, fs.lookup "notify", fs.lookup "optional" with
    | some n, some (.bool a), some (.bool b) => .ok (.obs (.named n a b))
    | _, _, _ => stuck
  | "ListItemObserver" =>
    match fs.lookup "notify", fs.lookup "optional" with
    | some (.bool a), some (.bool b) => .ok (.obs (.listItems a b))
    | _, _ => stuck
  | "DictItemObserver" =>
    match fs.lookup "notify", fs.lookup "optional" with
    | some (.bool a), some (.bool b) => .ok (.obs (.dictItems a b))
    | _, _ => stuck
  | "SetItemObserver" =>
    match fs.lookup "notify", fs.lookup "optional" with
    | some (.bool a), some (.bool b) => .ok (.obs (.setItems a b))
    | _, _ => stuck
  | "FilteredTraitObserver" =>
    match fs.lookup "notify", fs.lookup "filter" with
    | some (.bool a), some (.filter f) => .ok (.obs (.filtered a f))
    | _, _ => stuck
  | "MetadataFilter" =>
    match (fs.lookup "metadata_name").bind asName with
    | some n => .ok (.filter (.metadata n))
    | _ => stuck
  | "SingleObserverExpression" =>
    match fs.lookup "_observer" with
    | some (.obs o) => .ok (.expr (.single o))
    | _ => stuck
  | "SeriesObserverExpression" =>
    match fs.lookup "_first", fs.lookup "_second" with
    | some (.expr a), some (.expr b) => .ok (.expr (.series a b))
    | _, _ => stuck
  | "ParallelObserverExpression" =>
    match fs.lookup "_left", fs.lookup "_right" with
    | some (.expr a), some (.expr b) => .ok (.expr (.parallel a b))
    | _, _ => stuck
  | "ObserverGraph" =>
    match fs.lookup "node", fs.lookup "children" with
    | some (.obs o), some (.forest k) => .ok (.graph o k)
    | _, _ => stuck
  | _ => stuck

def getAttr (P : Prog) (v : DVal) (a : String) : RV :=
  match v, a with
  | .tok n, "value" => .ok (.chars n)
  | .node d _, "data" => .ok (.str d)
  | .node _ ks, "children" => .ok (.list ks)
  | .bi "dict", "fromkeys" => .ok (.bi "dict.fromkeys")
  | .obj c fs, a =>
    match fs.lookup a with
    | some x => .ok x
    | Option.none => if (findMethod P c a).isSome then .ok (.bound v a) else stuck
  | .expr e, a => if (findMethod P (exprCls e) a).isSome then .ok (.bound v a) else stuck
  | .subE _ c, a => if (findMethod P c a).isSome then .ok (.bound v a) else stuck
  | _, _ => stuck

def applyBuiltin (b : String) (pos : List DVal) (kws : List (String × DVal)) : RV :=
  if !kws.isEmpty then stuck else
  match b, pos with
  | "dict.fromkeys", [.forest f] => .ok (.keys f.dedupe)
  | "list", [.keys f] => .ok (.forest f)
  | "list", [.forest f] => .ok (.forest f)
  | "set", [.forest f] => .ok (.gset f.dedupe)
  | "len", [.forest f] => .ok (.int f.length)
  | "len", [.gset f] => .ok (.int f.length)
  | _, _ => stuck

section eval
variable (ev : Env → DExpr → RV)

/-- Evaluate an argument list left to right. -/
def evalArgs (env : Env) : DArgs → R (List DVal × List (String × DVal))
  | .nil => .ok ([], [])
  | .pos e rest =>
    (ev env e).bind fun v => (evalArgs env rest).bind fun r =>
      match r with | (ps, ks) => .ok (v :: ps, ks)
  | .kw k e rest =>
    (ev env e).bind fun v => (evalArgs env rest).bind fun r =>
      match r with | (ps, ks) => .ok (ps, (k, v) :: ks)

/-- Bind positional and keyword arguments to the parameters (in parameter
order); a missing / surplus / doubly given argument is `stuck` (Python: TypeError). -/
def bindParams : List DParam → List DVal → List (String × DVal) → R Env
  | [], [], kws => if kws.isEmpty then .ok [] else stuck
  | [], _ :: _, _ => stuck
  | p :: ps, v :: vs, kws =>
    if p.kwonly || (kws.lookup p.name).isSome then stuck else
    (bindParams ps vs kws).bind fun r => .ok ((p.name, v) :: r)
  | p :: ps, [], kws =>
    match kws.lookup p.name with
    | some v =>
      (bindParams ps [] (kws.filter (·.1 != p.name))).bind fun r => .ok ((p.name, v) :: r)
    | Option.none =>
      match p.default with
      | Option.none => stuck
      | some d =>
        (ev [] d).bind fun v => (bindParams ps [] kws).bind fun r => .ok ((p.name, v) :: r)

/-- … and the surplus positional arguments to `*name` (Python: a tuple; here a list). -/
def bindAll (f : DFunc) (pos : List DVal) (kws : List (String × DVal)) : R Env :=
  match f.vararg with
  | Option.none => bindParams ev f.params pos kws
  | some v =>
    (bindParams ev f.params (pos.take (f.params.filter (!·.kwonly)).length) kws).bind fun env =>
      .ok (env ++ [(v, .list (pos.drop (f.params.filter (!·.kwonly)).length))])

/-- `functools.reduce(lambda x, y: body, [acc₀, v, …])` without initial value, after the first element. -/
def reduceR (x y : String) (body : DExpr) : DVal → List DVal → RV
  | acc, [] => .ok acc
  | acc, v :: vs => (ev [(x, acc), (y, v)] body).bind fun r => reduceR x y body r vs

/-- Run a function body: the returned value (`none` = fell off the end) and the final environment. -/
def runBody : List DStmt → Env → R (Option DVal × Env)
  | [], env => .ok (Option.none, env)
  | .assign x e :: rest, env =>
    (ev env e).bind fun v => runBody rest ((x, v) :: env)
  | .unpack xs e :: rest, env =>
    (ev env e).bind fun v =>
      match v with
      | .list vs =>
        if vs.length == xs.length then runBody rest (xs.zip vs ++ env) else .error (.exc "ValueError")
      | _ => stuck
  | .setattr a e :: rest, env =>
    (ev env e).bind fun v =>
      match env.lookup "self" with
      | some (.obj c fs) => runBody rest (("self", .obj c ((a, v) :: fs)) :: env)
      | _ => stuck
  | .ifRaise c exc :: rest, env =>
    (ev env c).bind fun v =>
      match truthy v with
      | some b => .ite b (.error (.exc exc)) (runBody rest env)
      | Option.none => stuck
  | .tryAssign x e caught raised :: rest, env =>
    ((ev env e).catch fun er =>
      match er with
      | .exc n => if n == caught then .error (.exc raised) else .error (.exc n)
      | .stuck => stuck).bind fun v => runBody rest ((x, v) :: env)
  | .ret e :: _, env =>
    (ev env e).bind fun v => .ok (some v, env)

/-- the value of a call: what the body returned, `None` if it fell off the end -/
def retVal (r : Option DVal × Env) : RV := match r with | (x, _) => .ok (x.getD .none)

/-- Call a translated function / method (receiver already in `pos`). -/
def callFunc (cx : Ctx) (hookName : String) (f : DFunc) (pos : List DVal)
    (kws : List (String × DVal)) : RV :=
  (bindAll ev f pos kws).bind fun env =>
    match cx.hook hookName (env.map (·.2)) with
    | some r => .ofExcept r
    | Option.none => (runBody ev f.body env).bind retVal

def apply (P : Prog) (cx : Ctx) (fv : DVal) (pos : List DVal) (kws : List (String × DVal)) : RV :=
  match fv with
  | .fn q =>
    match P.funcs.lookup q with
    | some f => callFunc ev cx q f pos kws
    | Option.none => stuck
  | .clsV c =>
    match findMethod P c "__init__" with
    | Option.none => stuck
    | some f =>
      (bindAll ev f (.obj c [] :: pos) kws).bind fun env =>
        (runBody ev f.body env).bind fun r =>
          match r with
          | (_, env') =>
            match env'.lookup "self" with
            | some (.obj c' fs) => finish c' fs
            | _ => stuck
  | .bound recv m =>
    match classOf recv with
    | Option.none => stuck
    | some c =>
      match findMethod P c m with
      | some f => callFunc ev cx ("." ++ m) f (recv :: pos) kws
      | Option.none => stuck
  | .bi "lark_parse" =>
    match pos, kws with
    | [.text], [] =>
      match cx.lark with
      | some t => .ok t
      | Option.none => .error (.exc "LarkError")
    | _, _ => stuck
  | .bi "functools.reduce" =>
    match pos, kws with
    | [.closure x y b, .list (v :: vs)], [] => reduceR ev x y b v vs
    | [.closure _ _ _, .list []], [] => .error (.exc "TypeError")
    | _, _ => stuck
  | .bi b => applyBuiltin b pos kws
  | _ => stuck

end eval

/-- The interpreter: structural recursion on the fuel. -/
def eval (P : Prog) (cx : Ctx) : Nat → Env → DExpr → RV
  | 0, _, _ => stuck
  | n + 1, env, e =>
    match e with
    | .name x => match env.lookup x with | some v => .ok v | Option.none => stuck
    | .glob q => .ok (.fn q)
    | .cls c => .ok (.clsV c)
    | .builtin b => .ok (.bi b)
    | .prim "anytrait_filter" => .ok (.filter .anytrait)
    | .prim "lark_parser.parse" => .ok (.bi "lark_parse")
    | .prim _ => stuck
    | .cNone => .ok .none
    | .cBool b => .ok (.bool b)
    | .cStr s => .ok (.str s)
    | .lam2 x y b => .ok (.closure x y b)
    | .attr e a => (eval P cx n env e).bind fun v => getAttr P v a
    | .eq a b =>
      (eval P cx n env a).bind fun va => (eval P cx n env b).bind fun vb =>
        match strEq va vb with | some r => .ok (.bool r) | Option.none => stuck
    | .ne a b =>
      (eval P cx n env a).bind fun va => (eval P cx n env b).bind fun vb =>
        match strEq va vb with | some r => .ok (.bool !r) | Option.none => stuck
    | .isNotNone a =>
      (eval P cx n env a).bind fun va =>
        match va with
        | .none => .ok (.bool false)
        | _ => .ok (.bool true)
    | .and a b =>
      (eval P cx n env a).bind fun va =>
        match truthy va with
        | some false => .ok va
        | some true => eval P cx n env b
        | Option.none => stuck
    | .ifExp c a b =>
      (eval P cx n env c).bind fun vc =>
        match truthy vc with
        | some true => eval P cx n env a
        | some false => eval P cx n env b
        | Option.none => stuck
    | .bitor a b =>
      (eval P cx n env a).bind fun va => (eval P cx n env b).bind fun vb =>
        apply (eval P cx n) P cx (.bound va "__or__") [vb] []
    | .add a b =>
      (eval P cx n env a).bind fun va => (eval P cx n env b).bind fun vb =>
        match va, vb with
        | .forest x, .forest y => .ok (.forest (x ++ y))
        | _, _ => stuck
    | .call f args =>
      (eval P cx n env f).bind fun fv => (evalArgs (eval P cx n) env args).bind fun r =>
        match r with | (ps, ks) => apply (eval P cx n) P cx fv ps ks
    | .subscript d k =>
      (eval P cx n env d).bind fun vd => (eval P cx n env k).bind fun vk =>
        match vd, vk with
        | .fdict items, .str s =>
          (match items.lookup s with | some v => .ok v | Option.none => .error (.exc "KeyError"))
        | _, _ => stuck
    | .dict items =>
      (evalArgs (eval P cx n) env items).bind fun r =>
        match r with
        | ([], ks) => .ok (.fdict ks)
        | _ => stuck
    | .list items =>
      (evalArgs (eval P cx n) env items).bind fun r =>
        match r with
        | (ps, []) => (match toForest ps with | some f => .ok (.forest f) | Option.none => stuck)
        | _ => stuck

/-- Fuel for one activation started by `interpTree` / `interpCreate` / `interpCompileStr`:
more than the deepest nesting of expressions and calls in the translated sources. -/
def FUEL : Nat := 40

/-- Run a translated function on positional arguments (the hook is not asked about this outermost call). -/
def runFunc (P : Prog) (cx : Ctx) (q : String) (args : List DVal) : RV :=
  match P.funcs.lookup q with
  | Option.none => stuck
  | some f =>
    (bindAll (eval P cx FUEL) f args []).bind fun env =>
      (runBody (eval P cx FUEL) f.body env).bind retVal

/-- Run a translated method of class `c` (receiver first in `args`). -/
def runMethod (P : Prog) (cx : Ctx) (c m : String) (args : List DVal) : RV :=
  match findMethod P c m with
  | Option.none => stuck
  | some f =>
    (bindAll (eval P cx FUEL) f args []).bind fun env =>
      (runBody (eval P cx FUEL) f.body env).bind retVal

/-! ## the Lark tree of a derivation tree -/

/-- `Tree.data`: the name of the rule that built the node.  `t` = the node is in
a terminal position (derived from `series_terminal` / `parallel_terminal`);
`?element`'s bracket alternative is inlined, so a group is its content in a
non-terminal position (_dsl_grammar.lark:27). -/
def ruleName (t : Bool) : Cst → String
  | .trait _ => "trait"
  | .items => "items"
  | .metadata _ => "metadata"
  | .any => "anytrait"
  | .group p => ruleName false p
  | .ser _ _ _ => if t then "series_terminal" else "series"
  | .par _ _ => if t then "parallel_terminal" else "parallel"

def connName : Conn → String
  | .notify => "notify"
  | .quiet => "quiet"

/-- The Lark tree of a derivation tree written out: `rule(child,…)`, a connector as
`notify()` / `quiet()`, a NAME token as its (escaped) value.  The same rule names and
the same positions (`t`) as the trees `interpTree` hands to the translated
`_handle_tree`; the driver case `t <text>` compares it with the `Tree` objects that the
real `_LARK_PARSER.parse` builds. -/
def larkShow (esc : Name → String) (t : Bool) : Cst → String
  | .trait n => "trait(" ++ esc n ++ ")"
  | .items => "items()"
  | .metadata n => "metadata(" ++ esc n ++ ")"
  | .any => "anytrait()"
  | .group p => larkShow esc false p
  | .ser l c r =>
    ruleName t (.ser l c r) ++ "(" ++ larkShow esc false l ++ "," ++ connName c ++ "()," ++
      larkShow esc t r ++ ")"
  | .par l r =>
    ruleName t (.par l r) ++ "(" ++ larkShow esc t l ++ "," ++ larkShow esc t r ++ ")"

def noHook : String → List DVal → Option Res := fun _ _ => Option.none

/-- answers `_handle_tree(<i-th child>, <bool>)` -/
def treeHook (rec : Nat → Bool → Res) : String → List DVal → Option Res := fun q args =>
  if q == "parsing._handle_tree" then
    match args with
    | [.sub i, .bool b] => some (rec i b)
    | _ => some stuckE
  else Option.none

/-- answers `<i-th operand>._create_graphs(<list of graphs>)` -/
def createHook (rec : Nat → Forest → Res) : String → List DVal → Option Res := fun q args =>
  if q == "._create_graphs" then
    match args with
    | [.subE i _, .forest f] => some (rec i f)
    | _ => some stuckE
  else Option.none

def noLark : Option DVal := Option.none

/-- `_handle_tree(tree, notify)` of the translated parsing.py on the Lark tree of `c`. -/
def interpTree (P : Prog) : Bool → Cst → Bool → Res
  | _, .group p, n => interpTree P false p n
  | t, .ser l c r, n =>
    (runFunc P ⟨treeHook (fun i b => match i with
        | 0 => interpTree P false l b
        | 2 => interpTree P t r b
        | _ => stuckE), noLark⟩ "parsing._handle_tree"
      [.node (ruleName t (.ser l c r)) [.sub 0, .node (connName c) [], .sub 2], .bool n]).collapse
  | t, .par l r, n =>
    (runFunc P ⟨treeHook (fun i b => match i with
        | 0 => interpTree P t l b
        | 1 => interpTree P t r b
        | _ => stuckE), noLark⟩ "parsing._handle_tree"
      [.node (ruleName t (.par l r)) [.sub 0, .sub 1], .bool n]).collapse
  | _, .trait x, n =>
    (runFunc P ⟨noHook, noLark⟩ "parsing._handle_tree" [.node "trait" [.tok x], .bool n]).collapse
  | _, .metadata x, n =>
    (runFunc P ⟨noHook, noLark⟩ "parsing._handle_tree" [.node "metadata" [.tok x], .bool n]).collapse
  | _, .items, n =>
    (runFunc P ⟨noHook, noLark⟩ "parsing._handle_tree" [.node "items" [], .bool n]).collapse
  | _, .any, n =>
    (runFunc P ⟨noHook, noLark⟩ "parsing._handle_tree" [.node "anytrait" [], .bool n]).collapse

/-- `e._create_graphs(branches)` of the translated expression.py (before `collapse`). -/
def interpCreateR (P : Prog) (rec : Nat → Forest → Res) : Expr → Forest → RV
  | .single o, br =>
    runMethod P ⟨noHook, noLark⟩ "SingleObserverExpression" "_create_graphs"
      [.obj "SingleObserverExpression" [("_observer", .obs o)], .forest br]
  | .series a b, br =>
    runMethod P ⟨createHook rec, noLark⟩ "SeriesObserverExpression" "_create_graphs"
      [.obj "SeriesObserverExpression" [("_first", .subE 0 (exprCls a)), ("_second", .subE 1 (exprCls b))],
       .forest br]
  | .parallel a b, br =>
    runMethod P ⟨createHook rec, noLark⟩ "ParallelObserverExpression" "_create_graphs"
      [.obj "ParallelObserverExpression" [("_left", .subE 0 (exprCls a)), ("_right", .subE 1 (exprCls b))],
       .forest br]

/-- `e._create_graphs(branches)` of the translated expression.py. -/
def interpCreate (P : Prog) : Expr → Forest → Res
  | .single o, br => (interpCreateR P (fun _ _ => stuckE) (.single o) br).collapse
  | .series a b, br =>
    (interpCreateR P (fun i f => match i with
        | 0 => interpCreate P a f
        | 1 => interpCreate P b f
        | _ => stuckE) (.series a b) br).collapse
  | .parallel a b, br =>
    (interpCreateR P (fun i f => match i with
        | 0 => interpCreate P a f
        | 1 => interpCreate P b f
        | _ => stuckE) (.parallel a b) br).collapse

/-- `parse(text)` of the translated parsing.py, with the model's parser as `_LARK_PARSER`. -/
def parseHook (rec : Cst → Bool → Res) : String → List DVal → Option Res := fun q args =>
  if q == "parsing._handle_tree" then
    match args with
    | [.root c, .bool b] => some (rec c b)
    | _ => some stuckE
  else Option.none

def interpParseR (P : Prog) (rec : Cst → Bool → Res) (tree : Option Cst) : RV :=
  runFunc P ⟨parseHook rec, tree.map .root⟩ "parsing.parse" [.text]

def interpParse (P : Prog) (uw : Char → Bool) (s : List Char) : Res :=
  (interpParseR P (interpTree P true) (parseChars uw s)).collapse

/-- `compile_expr(expr)` of the translated expression.py. -/
def exprHook (rec : Expr → Forest → Res) : String → List DVal → Option Res := fun q args =>
  if q == "._create_graphs" then
    match args with
    | [.expr e, .forest f] => some (rec e f)
    | _ => some stuckE
  else Option.none

def interpCompileExprR (P : Prog) (rec : Expr → Forest → Res) (e : Expr) : RV :=
  runFunc P ⟨exprHook rec, noLark⟩ "expression.compile_expr" [.expr e]

def interpCompileExpr (P : Prog) (e : Expr) : Res :=
  (interpCompileExprR P (interpCreate P) e).collapse

/-- `compile_str(text)` of the translated parsing.py: its calls of `parse` (on the
text) and of `compile_expr` are answered by the interpretations above. -/
def strHook (parsed : Res) (rec : Expr → Res) : String → List DVal → Option Res := fun q args =>
  if q == "parsing.parse" then
    match args with
    | [.text] => some parsed
    | _ => some stuckE
  else if q == "expression.compile_expr" then
    match args with
    | [.expr e] => some (rec e)
    | _ => some stuckE
  else Option.none

def interpCompileStrR (P : Prog) (parsed : Res) (rec : Expr → Res) : RV :=
  runFunc P ⟨strHook parsed rec, noLark⟩ "parsing.compile_str" [.text]

def interpCompileStr (P : Prog) (uw : Char → Bool) (s : List Char) : Res :=
  (interpCompileStrR P (interpParse P uw s) (interpCompileExpr P)).collapse

/-- `join(e, e₁, …)` of the translated expression.py on a list of argument values. -/
def interpJoinL (P : Prog) (args : List DVal) : Res :=
  (runFunc P ⟨noHook, noLark⟩ "expression.join" args).collapse

/-- the two parameters and the body of the lambda that `join` hands to `functools.reduce` -/
def joinLam (P : Prog) : String × String × DExpr :=
  match P.funcs.lookup "expression.join" with
  | some ⟨_, [.ret (.call _ (.pos (.lam2 x y b) _))], _⟩ => (x, y, b)
  | _ => ("", "", .cNone)

def interpJoin (P : Prog) (e : Expr) (es : List Expr) : Res := interpJoinL P (.expr e :: es.map .expr)

/-- how a result of the model reads as a result of the interpreter -/
def liftRes {α : Type} (f : α → DVal) : Except Exc α → Res
  | .ok a => .ok (f a)
  | .error e => .error (.exc e.name)

end TraitsVerif.Model.DslPy
