/-
C15 — from the parse tree to ObserverExpression to ObserverGraphs.

Mirrors
  /repo/traits/observation/parsing.py      _handle_series (20-37), _handle_parallel (40-57),
        _handle_trait (60-78), _handle_anytrait (81-95), _handle_metadata (98-116),
        _handle_items (119-144), _handle_tree (147-174), parse (177-204), compile_str (207-220)
  /repo/traits/observation/expression.py   SingleObserverExpression._create_graphs (290-296, with fix 4a0994c),
        SeriesObserverExpression._create_graphs (323-325),
        ParallelObserverExpression._create_graphs (354-357), trait/metadata/anytrait/
        list_items/dict_items/set_items constructors (377-540), compile_expr (543-555)
  /repo/traits/observation/_observer_graph.py   __init__ uniqueness check (66-72), __eq__ (80-89)
  observers' __eq__: _named_trait_observer.py:60, _list_item_observer.py:44,
        _dict_item_observer.py:44, _set_item_observer.py:44, _filtered_trait_observer.py:50,
        _metadata_filter.py:39; anytrait_filter is one function object (_anytrait_filter.py).

A list of ObserverGraph is a `Forest` (first-child / next-sibling encoding of
`List Graph`, a plain inductive type): `cons node children rest`.
-/
import TraitsVerif.Py.Basic
import TraitsVerif.Model.DslParse
namespace TraitsVerif.Model.Dsl
open TraitsVerif

/-- `FilteredTraitObserver.filter`: `anytrait_filter` or `MetadataFilter(metadata_name)`. -/
inductive Filter where
  | anytrait
  | metadata (n : Name)
  deriving DecidableEq, Repr, Inhabited

/-- The observer classes with the attributes their `__eq__` compares. -/
inductive Observer where
  | named (name : Name) (notify optional : Bool)   -- NamedTraitObserver
  | listItems (notify optional : Bool)             -- ListItemObserver
  | dictItems (notify optional : Bool)             -- DictItemObserver
  | setItems (notify optional : Bool)              -- SetItemObserver
  | filtered (notify : Bool) (f : Filter)          -- FilteredTraitObserver
  deriving DecidableEq, Repr, Inhabited

/-- expression.py: Single / Series / Parallel ObserverExpression. -/
inductive Expr where
  | single (o : Observer)
  | series (first second : Expr)
  | parallel (left right : Expr)
  deriving DecidableEq, Repr, Inhabited

/-- parsing.py:119-144 `_handle_items`. -/
def itemsExpr (notify : Bool) : Expr :=
  .parallel
    (.parallel
      (.parallel (.single (.named itemsKw notify true))
                 (.single (.dictItems notify true)))
      (.single (.listItems notify true)))
    (.single (.setItems notify true))

/-- parsing.py:147-174 `_handle_tree`: the Lark tree has no bracket nodes
(`?element` is inlined), so `group` is transparent. -/
def toExpr : Cst → Bool → Expr
  | .trait n, notify => .single (.named n notify false)          -- _handle_trait
  | .items, notify => itemsExpr notify                            -- _handle_items
  | .metadata n, notify => .single (.filtered notify (.metadata n))   -- _handle_metadata
  | .any, notify => .single (.filtered notify .anytrait)          -- _handle_anytrait
  | .group p, notify => toExpr p notify
  | .ser l c r, notify =>                                         -- _handle_series
    -- notify_left = connector.data == "notify"
    .series (toExpr l (c == .notify)) (toExpr r notify)
  | .par l r, notify =>                                           -- _handle_parallel
    .parallel (toExpr l notify) (toExpr r notify)

/-- `list of ObserverGraph`. -/
inductive Forest where
  | nil
  | cons (node : Observer) (children : Forest) (rest : Forest)
  deriving DecidableEq, Repr, Inhabited

namespace Forest

def append : Forest → Forest → Forest
  | nil, g => g
  | cons o k r, g => cons o k (append r g)

instance : Append Forest := ⟨append⟩

def length : Forest → Nat
  | nil => 0
  | cons _ _ r => r.length + 1

def depth : Forest → Nat
  | nil => 0
  | cons _ k r => max (k.depth + 1) r.depth

def any (p : Observer → Forest → Bool) : Forest → Bool
  | nil => false
  | cons o k r => p o k || any p r

def all (p : Observer → Forest → Bool) : Forest → Bool
  | nil => true
  | cons o k r => p o k && all p r

/-- `set(F1) == set(F2)` for lists of graphs, with `ObserverGraph.__eq__`
(_observer_graph.py:80-89: same node and `set(children) == set(children)`)
as element equality.  Fuel = nesting depth still to compare. -/
def setEq : Nat → Forest → Forest → Bool
  | 0, _, _ => true
  | d + 1, f1, f2 =>
    f1.all (fun o k => f2.any (fun o' k' => o == o' && setEq d k k')) &&
    f2.all (fun o' k' => f1.any (fun o k => o == o' && setEq d k k'))

/-- `ObserverGraph.__eq__` for the graphs `(o, k)` and `(o', k')`. -/
def graphEq (o : Observer) (k : Forest) (o' : Observer) (k' : Forest) : Bool :=
  o == o' && setEq (max k.depth k'.depth + 1) k k'

/-- `len(set(children)) == len(children)` (_observer_graph.py:68). -/
def unique : Forest → Bool
  | nil => true
  | cons o k r => !(r.any (fun o' k' => graphEq o k o' k')) && unique r

def filter (p : Observer → Forest → Bool) : Forest → Forest
  | nil => nil
  | cons o k r => if p o k then cons o k (filter p r) else filter p r

/-- `list(dict.fromkeys(branches))` (expression.py:292, fix 4a0994c): the first
of each class of equal graphs, in order of first occurrence.  (Keeping the head
and dropping its equals from the de-duplicated tail is the same list when
`ObserverGraph.__eq__` is an equivalence, which dict semantics presuppose.) -/
def dedupe : Forest → Forest
  | nil => nil
  | cons o k r => cons o k ((dedupe r).filter (fun o' k' => !graphEq o k o' k'))

end Forest

/-- `_create_graphs(branches)`.  The only possible failure is the ValueError of
`ObserverGraph.__init__` ("Not all children are unique."), which cannot occur
since the branches are de-duplicated first (Lemmas/DslCompile.lean `create_total`). -/
def create : Expr → Forest → Except Exc Forest
  | .single o, branches =>                        -- expression.py:290-296
    let b := branches.dedupe                      -- branches = list(dict.fromkeys(branches))
    if b.unique then .ok (.cons o b .nil) else .error .valueError   -- ObserverGraph.__init__
  | .series first second, branches =>             -- expression.py:323-325
    match create second branches with
    | .error e => .error e
    | .ok b => create first b
  | .parallel left right, branches =>             -- expression.py:354-357
    match create left branches with
    | .error e => .error e
    | .ok l =>
      match create right branches with
      | .error e => .error e
      | .ok r => .ok (l ++ r)

/-- `compile_expr(expr)` = `expr._as_graphs()` = `_create_graphs(branches=[])`. -/
def compileExpr (e : Expr) : Except Exc Forest := create e .nil

/-- `compile_str(text)` on characters: `parse` raises ValueError for a text the
parser rejects (parsing.py:199-202); `_handle_tree(tree, notify=True)`. -/
def compileChars (uw : Char → Bool) (s : List Char) : Except Exc Forest :=
  match parseChars uw s with
  | none => .error .valueError
  | some c => compileExpr (toExpr c true)

/-- An item of the expression argument of `HasTraits.observe` / `@observe` /
`Property(observe=…)`: a mini-language text or an ObserverExpression
("If this is a list, each item must be a string or an ObserverExpression",
has_traits.py:350-352, 2313-2315). -/
inductive Item where
  | text (s : List Char)
  | expr (e : Expr)

/-- has_traits.py:369-371: `compile_str(expr) if isinstance(expr, str) else compile_expr(expr)` -/
def compileItem (uw : Char → Bool) : Item → Except Exc Forest
  | .text s => compileChars uw s
  | .expr e => compileExpr e

/-- `_compile_expression(expression)` for a list (has_traits.py:342-373; a
non-list argument is the one-item list): every item is compiled on its own, in
order, and the graph lists are concatenated; the first item that does not
compile raises. -/
def compileItems (uw : Char → Bool) : List Item → Except Exc Forest
  | [] => .ok .nil
  | it :: rest =>
    match compileItem uw it with
    | .error e => .error e
    | .ok g =>
      match compileItems uw rest with
      | .error e => .error e
      | .ok gs => .ok (g ++ gs)

/-- What `create` returns (it never fails): the graphs with de-duplicated children. -/
def createD : Expr → Forest → Forest
  | .single o, branches => .cons o branches.dedupe .nil
  | .series first second, branches => createD first (createD second branches)
  | .parallel left right, branches => createD left branches ++ createD right branches

/-- The graphs as written, without de-duplication (what the code built before
fix 4a0994c when it did not raise); equal to `createD` when no node has two
equal children. -/
def createU : Expr → Forest → Forest
  | .single o, branches => .cons o branches .nil
  | .series first second, branches => createU first (createU second branches)
  | .parallel left right, branches => createU left branches ++ createU right branches

/-- Every node of the forest has pairwise different children. -/
def Forest.wf : Forest → Bool
  | .nil => true
  | .cons _ k r => k.unique && k.wf && r.wf

/-- Root-to-leaf node sequences of a list of graphs, in order. -/
def Forest.paths : Forest → List (List Observer)
  | .nil => []
  | .cons o k r =>
    (match k with
     | .nil => [[o]]
     | _ => k.paths.map (o :: ·)) ++ r.paths

end TraitsVerif.Model.Dsl
