/-
Reference-count events along one control-flow path of a C function, and the
checker that says when a path is reference-neutral.

The event lists are produced by `harness/translate/crefpaths.py` from the text
of `traits/ctraits.c` (Generated/RefPaths.lean): one list per control-flow path
from the entry of a function to one of its `return`s, loops unrolled 0-2 times,
branches on `x == NULL` pruned.  Each event speaks about one *value* (an object
the function sees: a parameter, a global, the contents of a struct field, the
result of a call), identified by its index in `Generated.RefPaths.values`.

Ledger of one value along a path: `held` = references the function owns and has
to get rid of before it returns, `owed` = references it has handed to a
container / struct field without owning one yet (`PyList_SET_ITEM(l, i, item);
Py_INCREF(item);`, `trait->handler = source->handler; Py_XINCREF(...)`).
Parameters, globals, field contents and results of borrowed-returning calls
start at `held = 0`.
-/
namespace TraitsVerif.Model.RefPaths

/-- Reference events.
* `new`    a call returned a new reference (or an out-parameter received one);
* `inc`    `Py_INCREF` / `Py_XINCREF` of a non-NULL value;
* `take`   an object field holding this value was overwritten: the reference the
           struct owned is now the function's to release;
* `dec`    `Py_DECREF`;  `xdec` `Py_XDECREF` / `Py_CLEAR` of a non-NULL value;
* `steal`  passed to a reference-stealing function (`PyErr_Restore`, `PyException_SetCause`);
* `ret`    returned to the caller of a function that returns an object;
* `store`  written into an object field, or `PyTuple_SET_ITEM` / `PyList_SET_ITEM`;
* `bad`    `Py_DECREF` / `Py_INCREF` of a value known to be NULL on this path. -/
inductive Ev
  | new | inc | take | dec | xdec | steal | ret | store | bad
  deriving DecidableEq, Repr

/-- One control-flow path: function, ordinal, how it ends (`"return NULL"`,
`"return rc=-1"`, `"return result"`, ...), whether that end reports an error,
and the events in order as (value index, event). -/
structure Path where
  fn : String
  ord : Nat
  endKind : String
  isErr : Bool
  evs : List (Nat × Ev)
  deriving Repr

structure Led where
  held : Nat := 0
  owed : Nat := 0
  deriving DecidableEq, Repr

/-- Net owned references: `held - owed`. -/
def Led.net (l : Led) : Int := (l.held : Int) - (l.owed : Int)

/-- One event on the ledger of its value; `none` = the event releases (or hands
over) a reference the function does not hold at that point, or is `bad`. -/
def stepEv (l : Led) : Ev → Option Led
  | .new | .inc | .take =>
      some (if l.owed > 0 then { l with owed := l.owed - 1 } else { l with held := l.held + 1 })
  | .dec | .xdec | .steal | .ret =>
      if l.held > 0 then some { l with held := l.held - 1 } else none
  | .store =>
      some (if l.held > 0 then { l with held := l.held - 1 } else { l with owed := l.owed + 1 })
  | .bad => none

/-- The ledger of value `v` after the events, `none` if some prefix is illegal. -/
def run (v : Nat) : List (Nat × Ev) → Led → Option Led
  | [], l => some l
  | (w, e) :: rest, l =>
      if w = v then
        match stepEv l e with
        | some l' => run v rest l'
        | none => none
      else run v rest l

/-- One event added to the net count of `v`. -/
def balStep (v : Nat) (a : Int) (x : Nat × Ev) : Int :=
  if x.1 = v then
    match x.2 with
    | .new | .inc | .take => a + 1
    | .dec | .xdec | .steal | .ret | .store => a - 1
    | .bad => a
  else a

/-- Net owned references of `v` at the end of the path (`+1` per `new`/`inc`/`take`,
`-1` per `dec`/`xdec`/`steal`/`ret`/`store`), whatever the order. -/
def balance (evs : List (Nat × Ev)) (v : Nat) : Int := evs.foldl (balStep v) 0

/-- No prefix of the path releases, returns or gives away a reference to `v` that
the function does not hold (a `store` may precede its `inc`), and nothing is `bad`. -/
def neverNegative (evs : List (Nat × Ev)) (v : Nat) : Bool :=
  (run v evs {}).isSome

/-- `v` is handled neutrally: legal at every prefix and nothing held, nothing owed at the end. -/
def valueOk (evs : List (Nat × Ev)) (v : Nat) : Bool :=
  run v evs {} == some {}

/-- Every value the path touches is handled neutrally, except those in `skip`. -/
def pathOkExcept (skip : List Nat) (p : Path) : Bool :=
  p.evs.all (fun x => skip.contains x.1 || valueOk p.evs x.1)

def pathOk (p : Path) : Bool := pathOkExcept [] p

/-- The values of a path that are NOT handled neutrally. -/
def offenders (p : Path) : List Nat :=
  (p.evs.map (·.1)).eraseDups.filter (fun v => !valueOk p.evs v)

end TraitsVerif.Model.RefPaths
