/-
Model of the compiled validators of `traits/ctraits.c` (pinned tree, with the
F2 repair e60e19b):

* `fastAlone`      — one arm per stand-alone `validate_trait_*` function
                     (ctraits.c:3194-3983) and `validate_trait_complex` (3989-4280);
* `complexCase`    — one arm per `case N:` of the switch inside
                     `validate_trait_complex` (4003-4273), transcribed SEPARATELY
                     from the stand-alone function of the same kind: the C source
                     duplicates the code and so does the model (C03_copies_agree
                     is the theorem that the two cannot drift);
* shared helpers, shared in C too: `asInteger` (3335), `validateFloat` (3401),
  `validateComplexNumber` (3471), `inFloatRange` (3535), `tupleCheck` (3666),
  `validateCallable` (3839).

A descriptor (`Desc`) is the `fast_validate` tuple stored in `trait->py_validate`.
External behaviour is a parameter (`Env`): calling a type object on a value
(`type_converter`), user validator functions, `adapt`, the class of the object
being assigned to.
-/
import TraitsVerif.Py.Val
namespace TraitsVerif.Model.Val
open TraitsVerif TraitsVerif.Py.Value

/-- Outcome of a validator: the validated value, a `TraitError`
(`raise_trait_error`), or another exception passed through. -/
inductive Res where
  | ok (v : Val)
  | traitError
  | raised (e : Exc)
  deriving DecidableEq, Repr, Inhabited

/-- Behaviour the validators call out to. All pure functions of the value. -/
structure Env where
  /-- `T(v)`: what calling the type object on the value returns or raises
  (`type_converter`, ctraits.c:3238; `int(value)` … in trait_types.py). -/
  cast : Ty → Val → Except Exc Val
  /-- user validator function number `f` applied to `(object, name, value)`. -/
  fn : Nat → Val → Except Exc Val
  /-- `adapt(value, cls, None)`: an adapter, `None` (no adaptation), or an exception. -/
  adapt : Val → Ty → Except Exc (Option Val)
  /-- class id of the object whose attribute is being assigned (`Py_TYPE(obj)`). -/
  selfCls : Nat
  /-- `re.compile(regex_k).match(s) is not None` (String trait; parameter). -/
  rx : Nat → String → Bool
  /-- user predicate number `f` of a ValidatedTuple applied to the validated tuple (`fvalidate(values)`). -/
  pred : Nat → Val → Except Exc Bool := fun _ _ => .ok true
  /-- `numpy.asarray(value[, dtype])` of a list / tuple: dtype code and shape, or an exception (Array trait; parameter). -/
  asarray : Val → Option Nat → Except Exc (Nat × List Nat) := fun _ _ => .error .valueError
  /-- `numpy.can_cast(from, to, casting)`: does `astype(to, casting=…)` succeed (Array trait; parameter). -/
  canCast : Nat → Nat → Nat → Bool := fun _ _ _ => true
  /-- `w` is an adapter object offering protocol `cls` (used by the domain predicate only). -/
  provides : Val → Ty → Bool := fun _ _ => false
  /-- `w` is a value validator function `f` may return (used by the domain predicate only). -/
  fnRange : Nat → Val → Bool := fun _ _ => true

/-- A fast-validation descriptor: the tuple `_trait_set_validate` stores.
Numbering: `Desc.kind`. -/
inductive Desc where
  | typeChk (allowNone : Bool) (ty : Ty)                -- (0, [None,] type)
  | instChk (allowNone : Bool) (ty : Ty)                -- (1, [None,] class)
  | selfType (allowNone : Bool)                         -- (2[, None])
  | floatRange (lo hi : Option F) (mask : Nat)          -- (4, low, high, exclude_mask)
  | enum (vals : List Val)                              -- (5, values)
  | map (keys : List Val)                               -- (6, dict)
  | complex (ds : List Desc)                            -- (7, (d1, d2, …))
  | slow (h : Val → Res)                                -- (8, compound): compound.slow_validate
  | tuple (items : List (Option Desc))                  -- (9, (ctrait, …)); `none` = inner trait without validator
  | coerce (ty : Ty) (rest : List (Option Ty))          -- (11, type, t2, …, None, c1, …)
  | cast (ty : Ty)                                      -- (12, type)
  | function (f : Nat)                                  -- (13, function)
  | python (h : Val → Res)                              -- a callable: handler.validate (kind 14)
  | adapt (cls : Ty) (mode : Nat) (allowNone : Bool) (dflt : Val)  -- (19, class, mode, allow_none)
  | int                                                 -- (20,)
  | float                                               -- (21,)
  | callable (allowNone : Option Bool)                  -- (22[, allow_none])
  | complexNumber                                       -- (23,)

/-- The `ValidateTrait` number of a descriptor (first tuple item; 14 for a callable). -/
def Desc.kind : Desc → Nat
  | .typeChk .. => 0 | .instChk .. => 1 | .selfType .. => 2 | .floatRange .. => 4
  | .enum .. => 5 | .map .. => 6 | .complex .. => 7 | .slow .. => 8 | .tuple .. => 9
  | .coerce .. => 11 | .cast .. => 12 | .function .. => 13 | .python .. => 14
  | .adapt .. => 19 | .int => 20 | .float => 21 | .callable .. => 22 | .complexNumber => 23

/-! ## Shared conversion helpers (shared in the C source as well) -/

/-- `as_integer` (ctraits.c:3335-3366). -/
def asInteger (v : Val) : Except Exc Val :=
  match v with
  | .atom (.int false _) => .ok v                       -- PyLong_CheckExact fast path
  | _ =>
    match index v with                                  -- PyNumber_Index
    | .error e => .error e
    | .ok n => .ok (Val.ofInt n)                        -- PyNumber_Long of the index

/-- `validate_float` (ctraits.c:3401-3418), also exported as `_validate_float`. -/
def validateFloat (v : Val) : Except Exc Val :=
  match v with
  | .atom (.float false _) => .ok v                     -- PyFloat_CheckExact
  | _ =>
    match asDouble v with                               -- PyFloat_AsDouble
    | .error e => .error e
    | .ok f => .ok (Val.ofFloat f)                      -- PyFloat_FromDouble

/-- `validate_complex_number` (ctraits.c:3471-3488). -/
def validateComplexNumber (v : Val) : Except Exc Val :=
  match v with
  | .atom (.complex false _ _) => .ok v                 -- PyComplex_CheckExact
  | _ =>
    match asComplex v with                              -- PyComplex_AsCComplex
    | .error e => .error e
    | .ok (re, im) => .ok (Val.ofComplex re im)

/-- `in_float_range` (ctraits.c:3535-3576, after e60e19b: every test is written
`!(v OP bound)` so that NaN is never in range). -/
def inFloatRange (v : F) (lo hi : Option F) (mask : Nat) : Bool :=
  (match lo with
   | none => true
   | some l =>
     if mask % 2 ≠ 0 then                                -- exclude_mask & 1
       (if !(F.gt v l) then false else true)
     else
       (if !(F.ge v l) then false else true)) &&
  (match hi with
   | none => true
   | some h =>
     if (mask / 2) % 2 ≠ 0 then                          -- exclude_mask & 2
       (if !(F.lt v h) then false else true)
     else
       (if !(F.le v h) then false else true))

/-- The float payload of an exact float. -/
def floatOf : Val → F
  | .atom (.float _ f) => f
  | _ => .nan

/-- `_validate_trait_callable` (ctraits.c:3839-3855): 1 valid, 0 invalid. -/
def validateCallable (allowNone : Option Bool) (v : Val) : Bool :=
  if v.isNone then
    match allowNone with
    | none => true                                       -- old one-element descriptor
    | some b => b
  else v.callable

/-- First loop of the coerce check (ctraits.c:3761-3771 / 4106-4114): scan the
as-is types up to the `None` separator.  Returns whether one matched and the
part of the tuple after the separator (`for (i++; …)`). -/
def coerceScan (v : Val) : List (Option Ty) → Bool × List (Option Ty)
  | [] => (false, [])
  | none :: rest => (false, rest)
  | some t :: rest => if Val.isInst t v then (true, []) else coerceScan v rest

/-- Second loop (3773-3778 / 4116-4121): is the value an instance of one of the
coercible types. -/
def coerceAny (v : Val) : List (Option Ty) → Bool
  | [] => false
  | none :: rest => coerceAny v rest
  | some t :: rest => Val.isInst t v || coerceAny v rest

/-- Result of `validate_trait_tuple_check`: the validated tuple, "no match"
(NULL without exception), or an exception other than TraitError. -/
inductive TupRes where
  | ok (w : Val)
  | fail
  | exc (e : Exc)
  deriving Repr

/-- One step of the loop in `validate_trait_complex`. -/
inductive Step where
  | accept (w : Val)      -- `goto done` / `return result`
  | next                  -- `break`: try the next alternative
  | fail (e : Exc)        -- `return NULL` with an exception other than TraitError set
  | abort                 -- `default:` → `goto error`
  deriving Repr

/-- `validate_trait_tuple_check` (ctraits.c:3666-3725) around its element loop
`run` (= `tupleItems items`).  A new tuple is built only when some validated
element differs from the original (`aitem != bitem`; the model compares
structurally, see ASSUMPTIONS); otherwise the value itself — of whatever tuple
subclass — is returned. -/
def tupleCheckWith (n : Nat) (run : List Val → Except (Option Exc) (List Val)) : Val → TupRes
  | .tuple sub vs =>
    if n = vs.length then
      match run vs with
      | .error none => .fail
      | .error (some e) => .exc e
      | .ok ws => if Val.beqL ws vs then .ok (.tuple sub vs) else .ok (.tuple false ws)
    else .fail
  | _ => .fail

variable (E : Env)

mutual
/-- The stand-alone validators, by descriptor kind (`validate_handlers[kind]`). -/
def fastAlone : Desc → Val → Res
  -- validate_trait_type, ctraits.c:3258-3274
  | .typeChk an ty, v =>
    if (an && v.isNone) || Val.isInst ty v then .ok v else .traitError
  -- validate_trait_instance: None is valid exactly when there is a None slot, it is never
  -- tested against the class (0abe830)
  | .instChk an ty, v =>
    if (an && v.isNone) || (!v.isNone && Val.isInst ty v) then .ok v else .traitError
  -- validate_trait_self_type, 3303-3315
  | .selfType an, v =>
    if (an && v.isNone) || Val.isInst (.user E.selfCls) v then .ok v else .traitError
  -- validate_trait_integer, 3372-3385
  | .int, v =>
    match asInteger v with
    | .ok w => .ok w
    | .error .typeError => .traitError
    | .error e => .raised e
  -- validate_trait_float, 3438-3451
  | .float, v =>
    match validateFloat v with
    | .ok w => .ok w
    | .error .typeError => .traitError
    | .error e => .raised e
  -- validate_trait_complex_number, 3508-3521
  | .complexNumber, v =>
    match validateComplexNumber v with
    | .ok w => .ok w
    | .error .typeError => .traitError
    | .error e => .raised e
  -- validate_trait_float_range, 3582-3614
  | .floatRange lo hi mask, v =>
    match validateFloat v with
    | .error .typeError => .traitError
    | .error e => .raised e
    | .ok w => if inFloatRange (floatOf w) lo hi mask then .ok w else .traitError
  -- validate_trait_enum, 3620-3632 (a failing `==` ends in raise_trait_error as well)
  | .enum vals, v =>
    match seqContains vals v with
    | .yes => .ok v
    | _ => .traitError
  -- validate_trait_map, 3638-3650
  | .map keys, v =>
    match dictFind keys v with
    | .ok (some _) => .ok v
    | _ => .traitError
  -- validate_trait_tuple, 3727-3739
  | .tuple items, v =>
    match tupleCheckWith items.length (tupleItems items) v with
    | .ok w => .ok w
    | .exc e => .raised e
    | .fail => .traitError
  -- validate_trait_coerce_type, 3745-3781
  | .coerce ty rest, v =>
    if Val.isInst ty v then .ok v
    else
      match coerceScan v rest with
      | (true, _) => .ok v
      | (false, after) =>
        if coerceAny v after then
          match E.cast ty v with                          -- return type_converter(type, value)
          | .ok w => .ok w
          | .error e => .raised e
        else .traitError
  -- validate_trait_cast_type, 3787-3806
  | .cast ty, v =>
    if Val.exactTy ty v then .ok v
    else
      match E.cast ty v with
      | .ok w => .ok w
      | .error _ => .traitError                           -- any exception → raise_trait_error
  -- validate_trait_function, 3812-3826
  | .function f, v =>
    match E.fn f v with
    | .ok w => .ok w
    | .error _ => .traitError
  -- validate_trait_python, 3194-3210
  | .python h, v => h v
  -- validate_trait_callable, 3858-3873
  | .callable an, v =>
    if validateCallable an v then .ok v else .traitError
  -- validate_trait_adapt, 3904-3983
  | .adapt cls mode an dflt, v =>
    if v.isNone then (if an then .ok v else .traitError)
    else if mode = 0 then (if Val.isInst cls v then .ok v else .traitError)
    else
      match E.adapt v cls with
      | .error e => .raised e
      | .ok (some r) => .ok r
      | .ok none =>
        if Val.isInst cls v then .ok v
        else if mode = 1 then .traitError
        else .ok dflt                                     -- default_value_for(trait, obj, name)
  -- validate_trait_complex, 3989-4280
  | .complex ds, v => fastComplex ds v
  -- validate_handlers[8] is NULL and `_trait_set_validate` refuses kind 8:
  -- never installed stand-alone; a NULL validator validates nothing.
  | .slow _, v => .ok v

/-- `itrait->validate == NULL ? bitem : itrait->validate(...)` (3680-3686). -/
def optValidate : Option Desc → Val → Res
  | none, v => .ok v
  | some d, v => fastAlone d v

/-- The element loop of `validate_trait_tuple_check` (3677-3714): the first
element that fails decides (TraitError → `none`, other exception → `some e`). -/
def tupleItems : List (Option Desc) → List Val → Except (Option Exc) (List Val)
  | [], _ => .ok []
  | _ :: _, [] => .ok []
  | d :: ds, b :: bs =>
    match optValidate d b with
    | .traitError => .error none
    | .raised e => .error (some e)
    | .ok a =>
      match tupleItems ds bs with
      | .error x => .error x
      | .ok as => .ok (a :: as)

/-- The `case` arms of `validate_trait_complex` (ctraits.c:4003-4273). -/
def complexCase : Desc → Val → Step
  -- case 0, 4004-4013
  | .typeChk an ty, v =>
    if (an && v.isNone) || Val.isInst ty v then .accept v else .next
  -- case 1 (same repair, 0abe830)
  | .instChk an ty, v =>
    if (an && v.isNone) || (!v.isNone && Val.isInst ty v) then .accept v else .next
  -- case 2, 4024-4029
  | .selfType an, v =>
    if (an && v.isNone) || Val.isInst (.user E.selfCls) v then .accept v else .next
  -- case 4, 4031-4057
  | .floatRange lo hi mask, v =>
    match validateFloat v with
    | .error .typeError => .next
    | .error e => .fail e
    | .ok w => if inFloatRange (floatOf w) lo hi mask then .accept w else .next
  -- case 5, 4059-4068 (PyErr_Clear after a failing containment check)
  | .enum vals, v =>
    match seqContains vals v with
    | .yes => .accept v
    | _ => .next
  -- case 6, 4069-4075
  | .map keys, v =>
    match dictFind keys v with
    | .ok (some _) => .accept v
    | _ => .next
  -- case 8, 4077-4086
  | .slow h, v =>
    match h v with
    | .traitError => .next
    | .ok w => .accept w
    | .raised e => .fail e
  -- case 9, 4088-4096
  | .tuple items, v =>
    match tupleCheckWith items.length (tupleItems items) v with
    | .ok w => .accept w
    | .exc e => .fail e
    | .fail => .next
  -- case 11, 4098-4122
  | .coerce ty rest, v =>
    if Val.isInst ty v then .accept v
    else
      match coerceScan v rest with
      | (true, _) => .accept v
      | (false, after) =>
        if coerceAny v after then
          match E.cast ty v with
          | .ok w => .accept w
          | .error e => .fail e
        else .next
  -- case 12, 4124-4135
  | .cast ty, v =>
    if Val.exactTy ty v then .accept v
    else
      match E.cast ty v with
      | .ok w => .accept w
      | .error _ => .next
  -- case 13, 4137-4145
  | .function f, v =>
    match E.fn f v with
    | .ok w => .accept w
    | .error _ => .next
  -- case 19, 4151-4219.  NOTE: `default_value_for(trait, obj, name)` is called with the
  -- COMPOUND trait here, so in adapt mode 2 the C code returns the enclosing trait's
  -- default, not the member's (finding F49).  The model keeps the member's own `dflt`
  -- (the two coincide whenever the compound's default is the member's, e.g. None);
  -- adapt='default' members of compounds are therefore not generated (C03 ASSUMPTIONS).
  | .adapt cls mode an dflt, v =>
    if v.isNone then (if an then .accept v else .next)
    else if mode = 0 then (if Val.isInst cls v then .accept v else .next)
    else
      match E.adapt v cls with
      | .error e => .fail e
      | .ok (some r) => .accept r
      | .ok none =>
        if Val.isInst cls v then .accept v
        else if mode = 1 then .next
        else .accept dflt
  -- case 20, 4221-4231
  | .int, v =>
    match asInteger v with
    | .error .typeError => .next
    | .error e => .fail e
    | .ok w => .accept w
  -- case 21, 4233-4243
  | .float, v =>
    match validateFloat v with
    | .error .typeError => .next
    | .error e => .fail e
    | .ok w => .accept w
  -- case 22, 4245-4256
  | .callable an, v =>
    if validateCallable an v then .accept v else .next
  -- case 23, 4258-4268
  | .complexNumber, v =>
    match validateComplexNumber v with
    | .error .typeError => .next
    | .error e => .fail e
    | .ok w => .accept w
  -- no `case 7:` and no `case 14:` → default: goto error (4270-4272)
  | .complex _, _ => .abort
  | .python _, _ => .abort

/-- The loop of `validate_trait_complex` (4000-4280). -/
def fastComplex : List Desc → Val → Res
  | [], _ => .traitError                                  -- error: raise_trait_error
  | d :: ds, v =>
    match complexCase d v with
    | .accept w => .ok w
    | .next => fastComplex ds v
    | .fail e => .raised e
    | .abort => .traitError
end

/-- `validate_trait_tuple_check(traits, obj, name, value)`. -/
def tupleCheck (items : List (Option Desc)) (v : Val) : TupRes :=
  tupleCheckWith items.length (tupleItems E items) v

/-- The same alternative run through the compound switch on its own: the
descriptor `(7, (d,))`. -/
def fastInCompound (d : Desc) (v : Val) : Res := fastComplex E [d] v

/-! ## The numbering the C tables use (tied to the source by C03_tables_modelled) -/

/-- `validate_handlers[]` as the model understands it (ctraits.c:4286-4310):
index = kind, entry = the C function `fastAlone` transcribes for that kind. -/
def handlerTable : List String :=
  [ "validate_trait_type", "validate_trait_instance", "validate_trait_self_type", "NULL",
    "validate_trait_float_range", "validate_trait_enum", "validate_trait_map",
    "validate_trait_complex", "NULL", "validate_trait_tuple", "NULL",
    "validate_trait_coerce_type", "validate_trait_cast_type", "validate_trait_function",
    "validate_trait_python", "setattr_validate0", "setattr_validate1", "setattr_validate2",
    "setattr_validate3", "validate_trait_adapt", "validate_trait_integer",
    "validate_trait_float", "validate_trait_callable", "validate_trait_complex_number" ]

/-- Kinds for which `complexCase` has an arm other than the default. -/
def complexCaseLabels : List Nat := [0, 1, 2, 4, 5, 6, 8, 9, 11, 12, 13, 19, 20, 21, 22, 23]

/-- Kinds `_trait_set_validate` accepts in a tuple (ctraits.c:4333-4466). -/
def setValidateLabels : List Nat := [0, 1, 2, 4, 5, 6, 7, 9, 11, 12, 13, 19, 20, 21, 22, 23]

/-- `ValidateTrait` (traits/constants.py:30-71) as the model numbers the kinds. -/
def validateTraitEnum : List (String × Nat) :=
  [ ("type", 0), ("instance", 1), ("self_type", 2), ("int_range", 3), ("float_range", 4),
    ("enum", 5), ("map", 6), ("complex", 7), ("slow", 8), ("tuple", 9), ("prefix_map", 10),
    ("coerce", 11), ("cast", 12), ("function", 13), ("python", 14), ("adapt", 19),
    ("int", 20), ("float", 21), ("callable", 22), ("complex_number", 23) ]

end TraitsVerif.Model.Val
