/-
The object-level gates of the trait-bound containers, hand-written:
when does `TraitListObject` / `TraitDictObject` / `TraitSetObject` pass an item
through the inner trait, when is the length checked, when is the
`<name>_items` event delivered to the owner.  (traits/trait_list_object.py
:595-630, 860-910; trait_dict_object.py:454-561; trait_set_object.py:488-557.)
`Lemmas/PyLObj.lean` proves each definition equal to the interpretation of the
translated source (`Generated/ObjProg.lean`), for every state of `self`.
-/
import TraitsVerif.Model.PyLObj
namespace TraitsVerif.Model.Obj
open TraitsVerif TraitsVerif.Model.PyLO

variable {α : Type}

/-- `getattr(self, 'trait', None)` -/
def traitOrNone (σ : OSelf) : Option CT :=
  match σ.trait with
  | some (some t) => some t
  | _ => none

/-- `getattr(self, 'object', lambda: None)()` is the owner -/
def ownerOrNone (σ : OSelf) : Bool :=
  match σ.object with
  | some a => a
  | none => false

/-! ### Validators -/

/-- `TraitListObject._item_validator` (trait_list_object.py:860-876): the owner
is looked up first (`self.object()`: `AttributeError` when there is no such
attribute); without an owner the item is returned as is, *whatever the trait*;
with an owner `self.trait.item_trait.validate` is read (`AttributeError` when
the trait is `None` or missing); `None` there means no validation. -/
def listItemValidator (σ : OSelf) (inner : Bool → Callback α α) : Callback α α := fun n x =>
  match σ.object with
  | none => .error .attributeError
  | some false => .ok x
  | some true =>
    match σ.trait with
    | some (some t) => if t.itemNone then .ok x else inner true n x
    | _ => .error .attributeError

/-- `TraitDictObject._key_validator` / `_value_validator`
(trait_dict_object.py:454-526): no trait (missing or `None`) or no owner
(missing attribute, dead weakref, `lambda: None`) — the key / value is returned
as is; `name_items` plays no role (a `Dict(..., items=False)` validates). -/
def dictValidator (w : Which) (σ : OSelf) (inner : Bool → Callback α α) : Callback α α := fun n x =>
  match traitOrNone σ with
  | none => .ok x
  | some t => if !ownerOrNone σ then .ok x else if t.validateNone w then .ok x else inner true n x

/-- `TraitSetObject._validator` (trait_set_object.py:488-525): validation is
skipped only when `self` has no `object` attribute or no trait; a dead or
absent owner still validates, with `object = None`. -/
def setItemValidator (σ : OSelf) (inner : Bool → Callback α α) : Callback α α := fun n x =>
  match σ.object, traitOrNone σ with
  | some alive, some t => if t.itemNone then .ok x else inner alive n x
  | _, _ => .ok x

/-- `TraitListObject._validate_length` (trait_list_object.py:878-910): no check
without a trait. -/
def listValidateLength (σ : OSelf) (n : Int) : Except Exc Unit :=
  match traitOrNone σ with
  | none => .ok ()
  | some t => if (t.minlen : Int) ≤ n ∧ n ≤ (t.maxlen : Int) then .ok () else .error .traitError

/-! ### Notifier gates -/

/-- What the three `notifier` methods share after their first test: look the
owner up (`self.object()`), stop if it is gone or if `getattr(owner, name)` is
no longer this container, else build the event from the notifier's arguments,
fetch `self.trait.items_event()` and call `owner.trait_items_event`. -/
def deliver (σ : OSelf) (d : Delivery) : Except Exc (List Delivery) :=
  match σ.object with
  | none => .error .attributeError
  | some false => .ok []
  | some true =>
    if !σ.current then .ok []
    else
      match σ.trait with
      | some (some _) => .ok [d]
      | _ => .error .attributeError

def listDelivery : Delivery := ⟨"TraitListEvent", [("index", 1), ("removed", 2), ("added", 3)]⟩
def dictDelivery : Delivery := ⟨"TraitDictEvent", [("removed", 1), ("added", 2), ("changed", 3)]⟩
def setDelivery : Delivery := ⟨"TraitSetEvent", [("removed", 1), ("added", 2)]⟩

/-- `TraitListObject.notifier` (trait_list_object.py:595-628): `self.trait` is
read before `hasattr(self, "trait")` is asked, so a missing attribute raises;
silent when the trait or `name_items` is `None`. -/
def listNotifier (σ : OSelf) : Except Exc (List Delivery) :=
  match σ.trait with
  | none => .error .attributeError
  | some none => .ok []
  | some (some _) => if !σ.nameItems then .ok [] else deliver σ listDelivery

/-- `TraitDictObject.notifier` (trait_dict_object.py:528-559). -/
def dictNotifier (σ : OSelf) : Except Exc (List Delivery) :=
  if !σ.nameItems then .ok [] else deliver σ dictDelivery

/-- `TraitSetObject.notifier` (trait_set_object.py:527-555). -/
def setNotifier (σ : OSelf) : Except Exc (List Delivery) :=
  if !σ.nameItems then .ok [] else deliver σ setDelivery

end TraitsVerif.Model.Obj

/-! ### The states `self` can be in -/
namespace TraitsVerif.Model.PyLO
open TraitsVerif.Model.Obj

/-- The value of a container trait on a live owner (`__init__(trait, object, name, value)`,
`name_items` set iff `trait.has_items`). -/
def OSelf.live (t : CT) (hasItems : Bool) : OSelf :=
  { trait := some (some t), object := some true, nameItems := hasItems, current := true }
/-- The owner was garbage-collected: the weakref is dead. -/
def OSelf.orphaned (σ : OSelf) : OSelf := { σ with object := σ.object.map fun _ => false }
/-- The container was replaced on the owner (or sits inside another container). -/
def OSelf.detached (σ : OSelf) : OSelf := { σ with current := false }
/-- `__deepcopy__`: `Trait*Object(self.trait, None, self.name, …)`. -/
def OSelf.afterDeepcopy (σ : OSelf) : OSelf :=
  { trait := some (traitOrNone σ), object := some false, nameItems := σ.nameItems && (traitOrNone σ).isSome, current := false }
/-- `__setstate__`: `object = lambda: None`, `trait = None`; `name_items` is whatever the state had. -/
def OSelf.afterSetstate (σ : OSelf) : OSelf :=
  { trait := some none, object := some false, nameItems := σ.nameItems, current := false }

end TraitsVerif.Model.PyLO
