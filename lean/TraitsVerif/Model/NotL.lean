/-
Cluster `obs`: NotL — the deep-embedded language into which harness/translate/notl.py
translates the SOURCE TEXT of the notifier reference counting

  traits/observation/_trait_event_notifier.py    TraitEventNotifier.add_to / remove_from / equals
  traits/observation/_observer_change_notifier.py ObserverChangeNotifier.add_to / remove_from / equals
  traits/observation/_observer_graph.py           ObserverGraph.__eq__ / __hash__

and its total interpreter.  A method body is a statement over ONE notifier list
(`notifiers = observable._notifiers(True)`), the notifier `self` and the loop variable
(`other`), with at most one `for other in notifiers[:] / notifiers: … else: …` loop (not
nested).  Reference counts are integers here (the source can make one negative before it
raises); `equals` is a parameter of the interpreter, tied to the source separately by the
comparison table (`EqRow`) below.

Identity assumptions (runtime, trusted): the objects in a notifier list are pairwise distinct
objects and neither class defines `__eq__`, so `notifiers.remove(other)` removes exactly the
object `other` is bound to (position `i` of the list the loop is at).
-/
import TraitsVerif.Model.Hooks
namespace TraitsVerif.Model.NotL
open TraitsVerif TraitsVerif.Model.Obs

/-! ### syntax -/

inductive NEx where
  | rcOther                  -- `other._ref_count`
  | rcSelf                   -- `self._ref_count`
  | int (n : Int)
  | equalsOther              -- `self.equals(other)`
  | eq (a b : NEx)
  | ne (a b : NEx)
  | lt (a b : NEx)
  deriving Repr

inductive NSt where
  | skip
  | seq (a b : NSt)
  | ifS (c : NEx) (t e : NSt)
  | addRcOther (d : Int)     -- `other._ref_count += d`  (`-= d` as `+= -d`)
  | addRcSelf (d : Int)      -- `self._ref_count += d`
  | removeOther              -- `notifiers.remove(other)`
  | appendSelf               -- `notifiers.append(self)`
  | raise (e : Exc)
  | brk                      -- `break`
  | forOther (copy : Bool) (body orelse : NSt)   -- `for other in notifiers[:] / notifiers: body else: orelse`
  deriving Repr

/-- the comparison operators of an `equals` / `__eq__` conjunction -/
inductive CmpOp where
  | is | eq | setEq
  deriving DecidableEq, Repr

/-- one conjunct `self.<field> <op> other.<field>` (`type` = `type(self) is type(other)`;
a trailing `()` on both sides — dereferencing a weak reference — is dropped) -/
structure EqRow where
  field : String
  op : CmpOp
  deriving DecidableEq, Repr

/-! ### values and state -/

/-- a notifier object: its key and its integer reference count (0 for a maintainer) -/
structure INot where
  key : NKey
  rc : Int

def toI : Notifier → INot
  | .user k rc => ⟨.user k, rc⟩
  | .maint mk g k => ⟨.maint mk g k, 0⟩

def ofI : INot → Notifier
  | ⟨.user k, rc⟩ => .user k rc.toNat
  | ⟨.maint mk g k, _⟩ => .maint mk g k

structure NSto where
  ns : List INot
  self : INot
  /-- position of `self` in the list once it has been appended -/
  selfAt : Option Nat
  /-- the loop variable: its position in the list (none once removed) and the object -/
  other : Option (Option Nat × INot)

inductive NFlow where
  | next | brk | raised (e : Exc) | stuck
  deriving DecidableEq, Repr

inductive NVal where
  | int (n : Int) | bool (b : Bool)

def evalN (eqv : NKey → NKey → Bool) (st : NSto) : NEx → Option NVal
  | .rcOther => st.other.map (fun o => .int o.2.rc)
  | .rcSelf => some (.int st.self.rc)
  | .int n => some (.int n)
  | .equalsOther => st.other.map (fun o => .bool (eqv st.self.key o.2.key))
  | .eq a b => match evalN eqv st a, evalN eqv st b with
    | some (.int x), some (.int y) => some (.bool (x == y))
    | _, _ => none
  | .ne a b => match evalN eqv st a, evalN eqv st b with
    | some (.int x), some (.int y) => some (.bool (x != y))
    | _, _ => none
  | .lt a b => match evalN eqv st a, evalN eqv st b with
    | some (.int x), some (.int y) => some (.bool (decide (x < y)))
    | _, _ => none

/-- loop-free statements -/
def execB (eqv : NKey → NKey → Bool) : NSt → NSto → NSto × NFlow
  | .skip, st => (st, .next)
  | .seq a b, st =>
    match execB eqv a st with
    | (st', .next) => execB eqv b st'
    | r => r
  | .ifS c t e, st =>
    match evalN eqv st c with
    | some (.bool true) => execB eqv t st
    | some (.bool false) => execB eqv e st
    | _ => (st, .stuck)
  | .addRcOther d, st =>
    match st.other with
    | some (some i, o) =>
      ({ st with ns := st.ns.set i { o with rc := o.rc + d }, other := some (some i, { o with rc := o.rc + d }) }, .next)
    | some (none, o) => ({ st with other := some (none, { o with rc := o.rc + d }) }, .next)
    | none => (st, .stuck)
  | .addRcSelf d, st =>
    match st.selfAt with
    | some i => ({ st with ns := st.ns.set i { st.self with rc := st.self.rc + d },
                           self := { st.self with rc := st.self.rc + d } }, .next)
    | none => ({ st with self := { st.self with rc := st.self.rc + d } }, .next)
  | .removeOther, st =>
    match st.other with
    | some (some i, o) => ({ st with ns := st.ns.eraseIdx i, other := some (none, o) }, .next)
    | _ => (st, .stuck)
  | .appendSelf, st => ({ st with ns := st.ns ++ [st.self], selfAt := some st.ns.length }, .next)
  | .raise e, st => (st, .raised e)
  | .brk, st => (st, .brk)
  | .forOther _ _ _, st => (st, .stuck)

/-- the iterations of `for other in …`, over the objects the list held when the loop started;
`i` = position of the next one.  An iteration that falls through must not have changed the
length of the list (else stuck: the positions would no longer be the objects'). -/
def loop (eqv : NKey → NKey → Bool) (body : NSt) : List INot → Nat → NSto → NSto × NFlow
  | [], _, st => (st, .next)
  | o :: rest, i, st =>
    match execB eqv body { st with other := some (some i, o) } with
    | (st', .next) => if st'.ns.length = st.ns.length then loop eqv body rest (i + 1) st' else (st', .stuck)
    | r => r

/-- a method body -/
def execT (eqv : NKey → NKey → Bool) : NSt → NSto → NSto × NFlow
  | .seq a b, st =>
    match execT eqv a st with
    | (st', .next) => execT eqv b st'
    | r => r
  | .forOther _ body orelse, st =>
    match loop eqv body st.ns 0 st with
    | (st', .next) => execB eqv orelse st'
    | (st', .brk) => (st', .next)
    | r => r
  | s, st => execB eqv s st

/-- `self.<method>(observable)` on the notifier list `ns`: the list afterwards (reference counts
as naturals) and the exception raised, if any; `none` = stuck. -/
def runMethod (eqv : NKey → NKey → Bool) (body : NSt) (self : NKey) (ns : List Notifier) :
    Option (List Notifier × Option Exc) :=
  match execT eqv body ⟨ns.map toI, ⟨self, 0⟩, none, none⟩ with
  | (st, .next) => some (st.ns.map ofI, none)
  | (st, .raised e) => some (st.ns.map ofI, some e)
  | _ => none

/-! ### the `equals` / `__eq__` conjunctions as data -/

/-- how the model decides one conjunct on two notifier keys.  `eqo` is `a == b` of two DISTINCT
targets (a class may define `__eq__`): a row that compares targets with `==` instead of `is`
makes the interpretation depend on it.  Handlers and dispatchers that compare equal (`==`: e.g. two
bound-method objects of the same method) are ONE identifier in the model (trusted; harness: equal bound
methods get one handler key), so a row comparing them with `is` has no reading (`none`). -/
def rowHolds (eqo : Id → Id → Bool) (r : EqRow) : NKey → NKey → Option Bool
  | .user k, .user k' =>
    if r.field = "type" then some true
    else if r.field = "handler" then (if r.op = .eq then some (k.handler == k'.handler) else none)
    else if r.field = "target" then
      (match r.op with
       | .is => some (k.target == k'.target)
       | .eq => some (k.target == k'.target || eqo k.target k'.target)
       | .setEq => none)
    else if r.field = "dispatcher" then (if r.op = .eq then some true else none)
    else none
  | .maint mk g k, .maint mk' g' k' =>
    if r.field = "type" then some true
    else if r.field = "observer_handler" then (if r.op = .setEq then none else some (mk == mk'))
    else if r.field = "graph" then (if r.op = .eq then some (Graph.beq g g') else none)
    else if r.field = "handler" then (if r.op = .eq then some (k.handler == k'.handler) else none)
    else if r.field = "target" then
      (match r.op with
       | .is => some (k.target == k'.target)
       | .eq => some (k.target == k'.target || eqo k.target k'.target)
       | .setEq => none)
    else if r.field = "dispatcher" then (if r.op = .eq then some true else none)
    else none
  | _, _ => if r.field = "type" then some false else some false

/-- the conjunction, left to right (`none` = a row the model has no reading for) -/
def rowsHold (eqo : Id → Id → Bool) : List EqRow → NKey → NKey → Option Bool
  | [], _, _ => some true
  | r :: rs, a, b =>
    match rowHolds eqo r a b, rowsHold eqo rs a b with
    | some x, some y => some (x && y)
    | _, _ => none

/-- the fields a notifier class must compare for its `equals` to be the model's -/
def hasField (rows : List EqRow) (f : String) : Bool := rows.any (fun r => r.field == f)


/-! ### `ObserverGraph.__eq__` read from its rows -/

/-- how the children of two graphs are compared -/
inductive ChildCmp where
  | ignored | asSets | asLists
  deriving DecidableEq, Repr

/-- the reading of the rows of `ObserverGraph.__eq__`: is the node compared (`==`), and how are the children -/
structure GEq where
  node : Bool
  children : ChildCmp
  deriving DecidableEq, Repr

def decodeGraphRows : List EqRow → Option GEq
  | [] => some ⟨false, .ignored⟩
  | r :: rs =>
    match decodeGraphRows rs with
    | none => none
    | some m =>
      if r.field = "type" then (if r.op = .is then some m else none)
      else if r.field = "node" then (if r.op = .eq && !m.node then some { m with node := true } else none)
      else if r.field = "children" then
        (match r.op, m.children with
         | .setEq, .ignored => some { m with children := .asSets }
         | .eq, .ignored => some { m with children := .asLists }
         | _, _ => none)
      else none

/-! equality of graphs as the rows say (every recursive call is on a child of the FIRST argument, as in
`Graph.beq`) -/
mutual
def geq (m : GEq) : Graph → Graph → Bool
  | .node o cs, .node o' cs' =>
    (!m.node || o == o') &&
    (match m.children with
     | .ignored => true
     | .asSets => geqAllAny m cs cs' && cs'.all (fun c' => geqAnyL m cs c')
     | .asLists => geqList m cs cs')
def geqAllAny (m : GEq) : List Graph → List Graph → Bool
  | [], _ => true
  | c :: cs, cs' => cs'.any (fun c' => geq m c c') && geqAllAny m cs cs'
def geqAnyL (m : GEq) : List Graph → Graph → Bool
  | [], _ => false
  | c :: cs, c' => geq m c c' || geqAnyL m cs c'
def geqList (m : GEq) : List Graph → List Graph → Bool
  | [], [] => true
  | c :: cs, c' :: cs' => geq m c c' && geqList m cs cs'
  | _, _ => false
end

end TraitsVerif.Model.NotL
