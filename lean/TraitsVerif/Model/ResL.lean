/-
ResL — a small deep-embedded imperative language for the *name-resolution
code* of traits (cluster `resolve`, property C13), with a total interpreter.

The translators
  harness/translate/resolve_c.py   (traits/ctraits.c: get_prefix_trait,
      has_traits_setattro, has_traits_getattro, get_trait, setattr_python,
      setattr_disallow, setattr_readonly, setattr_constant, getattr_event,
      getattr_disallow, getattr_constant and the error helpers they call)
  harness/translate/resolve_py.py  (traits/has_traits.py: __prefix_trait__,
      add_trait, remove_trait, trait, base_trait)
turn the **source text** of those functions into terms of `Fun` below
(Generated/ResolveC.lean, Generated/ResolvePy.lean, regenerated on every run).
Props/C13.lean proves that the hand-written functions of Model/Resolve.lean are
equal to the interpretation of those terms for all inputs.

What the interpreter fixes (the trusted reading of the C API / Python
primitives, see `prim`):
  * `dict_getitem` / `PyDict_GetItem` / `PyDict_SetItem` / `PyDict_DelItem` /
    `d[k]`, `k in d`, `del d[k]` act on the four dictionaries of the model
    (`obj->itrait_dict`, `obj->ctrait_dict`, `obj->obj_dict`,
    `__prefix_traits__`), with write-through to the world;
  * `obj->itrait_dict` / `obj->obj_dict` read as NULL when the ghost flags
    `nullI` / `nullO` say so (only possible while the map is empty): the
    equality theorems quantify over the flags, i.e. they *prove* that the code
    treats a NULL and an empty dictionary alike;
  * `has_traits_setattro(obj, trait_added, name)` / `self.trait_added = name`
    is `fireTraitAdded` (assumption of the cluster: `trait_added` keeps its
    HasTraits declaration and only the listeners in `Obj.hooks` are attached);
  * `trait->getattr` / `trait->setattr` are `getattrKind` / `setattrKind`;
  * `trait->notifiers` is NULL (no notifiers in this cluster), reference
    counting and `assert` are dropped by the reader;
  * names are always `str` (`PyUnicode_Check(name)` is 1).
Calls of translated functions are interpreted by running the callee's generated
program (function environment `K`, built in strata by Lemmas/ResolveSource).

Core Lean only; structural recursion; no `partial`.
-/
import TraitsVerif.Model.Resolve
namespace TraitsVerif.Model.ResL
open TraitsVerif TraitsVerif.Model.Resolve

/-- The four dictionaries + the one dictionary a function may allocate. -/
inductive DictId where
  | I | C | O | P | fresh
  deriving DecidableEq, Repr, Inhabited

/-- Runtime values. -/
inductive V where
  | null                         -- C NULL / "an exception is pending"
  | none                         -- Py_None
  | int (n : Int)
  | bool (b : Bool)
  | name (n : Name)              -- str
  | val (v : Val)                -- attribute values (`Undefined` = `.val .undef`)
  | trait (t : Trait)
  | dict (d : DictId)
  | names (l : List Name)        -- `prefix_traits["*"]`
  | exc (e : Exc)                -- exception classes
  | obj                          -- the HasTraits object
  | traitAdded                   -- the interned name `trait_added` (C global)
  | ghost                        -- a value the model does not look at
  | stuck                        -- the interpreter does not know (never equal to a model result)
  deriving DecidableEq, Repr, Inhabited

/-- Local variables of the translated functions (closed list; the readers fail
closed on any other identifier). -/
inductive Var where
  | obj | name | value | is_set | instance_ | trait | itrait | dict | result | rc
  | itrait_dict | notifiers | inotifiers | item | traito | traitd | n | i | args | fmt
  | self | prefix_traits | pfx | cls | handlers | old_trait | handler | mode | force | copy
  | old_notifiers | tnotifiers | onotifiers | delegate | temp_delegate | daname | daname2
  -- Python parameters / locals, numbered by the reader (renames are invisible)
  | p0 | p1 | p2 | p3 | p4 | l0 | l1 | l2 | l3 | l4 | l5 | l6 | l7
  deriving DecidableEq, Repr, Inhabited

inductive Fld where
  | itrait_dict | ctrait_dict | obj_dict | notifiers | default_value | getattr | setattr
  | prefix_traits | pydict | type | handler | tp_name | delegate_attr_name | delegate_name | other
  deriving DecidableEq, Repr, Inhabited

/-- Functions: C API, Python builtins/operators, translated functions. -/
inductive Fn where
  -- operators
  | eq | ne | lt | le | gt | ge
  -- C API
  | dict_getitem | PyDict_GetItem | PyDict_SetItem | PyDict_DelItem | PyDict_New
  | PyObject_GenericGetAttr | PyObject_GenericSetAttr | PyErr_ExceptionMatches | PyErr_Clear
  | PyErr_Format | PyErr_SetObject | PyUnicode_Check | PyObject_CallMethod | PyType_GenericAlloc
  | Py_TYPE | trait_clone_of | trait_getattr | trait_setattr
  -- translated C functions
  | get_trait | get_prefix_trait | has_traits_setattro | has_traits_getattro | has_traits_trait
  | setattr_python | setattr_disallow | setattr_readonly | setattr_constant
  | getattr_event | getattr_disallow | getattr_constant
  | invalid_attribute_error | unknown_attribute_error | set_readonly_error | delete_readonly_error
  | set_disallow_error
  -- Python
  | slice_to | slice_from | len | getitem | setitem | delitem | contains | clone_trait
  | m_trait | m_instance_traits | m_prefix_trait | setattr_self | m_add_trait | m_remove_trait
  | unknown (text : String)
  deriving DecidableEq, Repr, Inhabited

inductive Expr where
  | lit (v : V)
  | var (x : Var)
  | fld (e : Expr) (f : Fld)
  | asg (x : Var) (e : Expr)                 -- `(x = e)` as an expression
  | asgf (e : Expr) (f : Fld) (rhs : Expr)   -- `e->f = rhs`
  | and (a b : Expr)
  | or (a b : Expr)
  | not (a : Expr)
  | call (f : Fn) (args : List Expr)
  deriving Repr, Inhabited

inductive Stmt where
  | expr (e : Expr)
  | ite (c : Expr) (t e : List Stmt)
  | ret (e : Expr)
  | raise (x : Exc)
  | forIn (x : Var) (it : Expr) (body : List Stmt)
  | ghost (n : Nat)                -- a statement outside the model whose text is the pinned one: no-op
  | opaque (text : String)         -- a statement the reader does not understand: stuck
  deriving Repr, Inhabited

structure Fun where
  params : List Var
  body : List Stmt
  py : Bool                        -- Python: a NULL value propagates as an exception
  deriving Repr, Inhabited

/-- Interpreter state. -/
structure St where
  w : World
  oi : Nat
  o : Obj
  c : Cls
  nullI : Bool := false            -- `obj->itrait_dict == NULL`
  nullO : Bool := false            -- `obj->obj_dict == NULL`
  fresh : Option DictId := none    -- where the `PyDict_New()` dictionary was attached
  err : Option Exc := none         -- the error indicator
  env : List (Var × V) := []
  deriving Repr, Inhabited

inductive Flow where
  | next
  | ret (v : V)
  deriving DecidableEq, Repr, Inhabited

def envGet : List (Var × V) → Var → V
  | [], _ => .stuck
  | (y, v) :: r, x => if y = x then v else envGet r x

def St.get (st : St) (x : Var) : V := envGet st.env x
def St.set (st : St) (x : Var) (v : V) : St := { st with env := (x, v) :: st.env }

def truthy : V → Bool
  | .null | .none | .stuck => false
  | .int n => n ≠ 0
  | .bool b => b
  | .name n => !n.isEmpty
  | .names l => !l.isEmpty
  | _ => true

def cmpInt (f : Int → Int → Bool) : List V → V
  | [.int a, .int b] => .bool (f a b)
  | _ => .stuck

/-- `obj.__dict__ := d`, written through to the world. -/
def St.putDict (st : St) (d : Map Val) : St :=
  { st with o := { st.o with dict := d }, w := setDict st.w st.oi d, nullO := false }

def St.putObj (st : St) (o' : Obj) : St :=
  { st with o := o', w := { st.w with objs := st.w.objs.set st.oi o' } }

def St.putITraits (st : St) (m : Map Trait) : St :=
  { (st.putObj { st.o with itraits := m }) with nullI := false }

/-- `obj.trait_added = k`: the listeners may add instance traits (which creates
the instance-trait dictionary if there was none). -/
def St.fire (st : St) (k : Name) : St :=
  { (st.putObj (fireTraitAdded st.o k)) with nullI := st.nullI && (fireTraitAdded st.o k).itraits.isEmpty }

def St.putCTraits (st : St) (m : Map Trait) : St :=
  { st with c := { st.c with ctraits := m },
            w := { st.w with classes := st.w.classes.set st.o.cls { st.c with ctraits := m } } }

def St.resolveDict (st : St) : DictId → Option DictId
  | .fresh => st.fresh
  | d => some d

def kindName : Kind → Name
  | .trait => "trait".toList
  | .python => "python".toList
  | .event => "event".toList
  | .delegate => "delegate".toList
  | .disallow => "disallow".toList
  | .readonly => "trait".toList      -- ReadOnly / Constant / generic report "trait" / "constant" / "python":
  | .constant => "constant".toList   -- only the comparison with "delegate" is used
  | .generic => "python".toList

def sliceTo (n : Name) (k : Int) : Name :=
  if k ≥ 0 then n.take k.toNat else n.take (n.length - (-k).toNat)

def sliceFrom (n : Name) (k : Int) : Name :=
  if k ≥ 0 then n.drop k.toNat else n.drop (n.length - (-k).toNat)

def fail (st : St) (e : Exc) : St × V := ({ st with err := some e }, .null)
def failInt (st : St) (e : Exc) : St × V := ({ st with err := some e }, .int (-1))

/-- `d[k]` for reading: NULL when absent (C) — the Python wrapper turns that into KeyError. -/
def dictGet (st : St) (d : DictId) (k : Name) : V :=
  match st.resolveDict d with
  | some .I => match st.o.itraits.get k with | some t => .trait t | none => .null
  | some .C => match st.c.ctraits.get k with | some t => .trait t | none => .null
  | some .O => match st.o.dict.get k with | some v => .val v | none => .null
  | some .P =>
    if k = ['*'] then .names (st.c.prefixes.map (·.1))
    else match Map.get st.c.prefixes k with | some t => .trait t | none => .null
  | _ => .stuck

def dictSet (st : St) (d : DictId) (k : Name) (v : V) : St × V :=
  match st.resolveDict d, v with
  | some .I, .trait t => (st.putITraits (st.o.itraits.set k t), .int 0)
  | some .C, .trait t => (st.putCTraits (st.c.ctraits.set k t), .int 0)
  | some .O, .val x => (st.putDict (st.o.dict.set k x), .int 0)
  | _, _ => (st, .stuck)

def dictDel (st : St) (d : DictId) (k : Name) : St × V :=
  match st.resolveDict d with
  | some .I =>
    match st.o.itraits.get k with
    | some _ => (st.putITraits (st.o.itraits.erase k), .int 0)
    | none => failInt st .keyError
  | some .O =>
    match st.o.dict.get k with
    | some _ => (st.putDict (st.o.dict.erase k), .int 0)
    | none => failInt st .keyError
  | _ => (st, .stuck)

/-- Everything the interpreter needs from outside: the model's `Env` and the
function environment for *translated* functions. -/
structure Ctx where
  E : Env
  user : Fn → List V → St → St × V

/-- Semantics of the primitives (C API, operators, Python builtins).  Anything
not listed is handed to `Γ.user`. -/
def prim (Γ : Ctx) (f : Fn) (args : List V) (st : St) : St × V :=
  match f, args with
  | .eq, [a, b] => (st, .bool (a == b))
  | .ne, [a, b] => (st, .bool (a != b))
  | .lt, _ => (st, cmpInt (· < ·) args)
  | .le, _ => (st, cmpInt (· ≤ ·) args)
  | .gt, _ => (st, cmpInt (· > ·) args)
  | .ge, _ => (st, cmpInt (· ≥ ·) args)
  | .dict_getitem, [.dict d, .name k] => (st, dictGet st d k)
  | .PyDict_GetItem, [.dict d, .name k] => (st, dictGet st d k)
  | .PyDict_SetItem, [.dict d, .name k, v] => dictSet st d k v
  | .PyDict_DelItem, [.dict d, .name k] => dictDel st d k
  | .PyDict_New, [] => (st, .dict .fresh)
  | .PyObject_GenericGetAttr, [.obj, .name k] =>
    match genericGet Γ.E st.o.dict k with
    | .ok v => (st, .val v)
    | .error e => fail st e
  | .PyObject_GenericSetAttr, [.obj, .name k, v] =>
    match (match v with | .val x => some (some x) | .null => some Option.none | _ => Option.none) with
    | some value =>
      match setattrPython st.o.dict k value with
      | .ok d => (st.putDict d, .int 0)
      | .error e => failInt st e
    | none => (st, .stuck)
  | .PyErr_ExceptionMatches, [.exc e] => (st, .bool (st.err == some e))
  | .PyErr_Clear, [] => ({ st with err := Option.none }, .ghost)
  | .PyErr_Format, .exc e :: _ => fail st e
  | .PyErr_SetObject, [.exc e, _] => ({ st with err := some e }, .ghost)
  | .PyUnicode_Check, [.name _] => (st, .int 1)
  | .PyObject_CallMethod, [.obj, .name m, .name _, .name k, .int b] =>
    if m = ['_', '_', 'p', 'r', 'e', 'f', 'i', 'x', '_', 't', 'r', 'a', 'i', 't', '_', '_'] then Γ.user .m_prefix_trait [.obj, .name k, .int b] st else (st, .stuck)
  | .PyType_GenericAlloc, _ => (st, .ghost)
  | .Py_TYPE, _ => (st, .ghost)
  | .trait_clone_of, [.trait t] => (st, .trait t)
  | .clone_trait, [.trait t] => (st, .trait t)
  | .trait_getattr, [.trait t, .obj, .name k] =>
    match getattrKind Γ.E t st.o.dict k with
    | .ok (v, d) => (st.putDict d, .val v)
    | .error e => fail st e
  | .trait_setattr, [.trait t, .trait _, .obj, .name k, v] =>
    match (match v with | .val x => some (some x) | .null => some Option.none | _ => Option.none) with
    | some value =>
      match setattrKind Γ.E t st.o.dict k value with
      | .ok d => (st.putDict d, .int 0)
      | .error e => failInt st e
    | none => (st, .stuck)
  -- `has_traits_setattro(obj, trait_added, name)` / `self.trait_added = name`
  | .has_traits_setattro, [.obj, .traitAdded, .name k] => (st.fire k, .int 0)
  | .setattr_self, [.traitAdded, .name k] => (st.fire k, .none)
  -- Python
  | .slice_to, [.name n, .int k] => (st, .name (sliceTo n k))
  | .slice_from, [.name n, .int k] => (st, .name (sliceFrom n k))
  | .len, [.name n] => (st, .int n.length)
  | .getitem, [.dict d, .name k] =>
    match dictGet st d k with
    | .null => fail st .keyError
    | v => (st, v)
  | .setitem, [.dict d, .name k, v] => match dictSet st d k v with | (st', .int _) => (st', .none) | r => r
  | .delitem, [.dict d, .name k] => match dictDel st d k with | (st', .int 0) => (st', .none) | (st', _) => (st', .null)
  | .contains, [.dict d, .name k] => (st, match dictGet st d k with | .null => .bool false | .stuck => .stuck | _ => .bool true)
  | .m_instance_traits, [.obj] => ({ st with nullI := false }, .dict .I)
  | f, args => Γ.user f args st

/-! ### The interpreter -/

def fldGet (st : St) (v : V) (f : Fld) : V :=
  match v, f with
  | .obj, .itrait_dict => if st.nullI then .null else .dict .I
  | .obj, .ctrait_dict => .dict .C
  | .obj, .obj_dict => if st.nullO then .null else .dict .O
  | .obj, .pydict => .dict .O                       -- `self.__dict__` creates the dictionary
  | .obj, .prefix_traits => .dict .P
  | .trait _, .notifiers => .null
  | .trait t, .default_value => .val t.dflt
  | .trait t, .type => .name (kindName t.kind)
  | .trait _, .obj_dict => .ghost
  | .ghost, _ => .ghost
  | _, _ => .stuck

def fldSet (st : St) (v : V) (f : Fld) (rhs : V) : St × V :=
  match v, f, rhs with
  -- the object's pointer is overwritten: whatever dictionary was there before is gone
  | .obj, .itrait_dict, .dict .fresh => ({ (st.putITraits []) with fresh := some .I }, rhs)
  | .obj, .obj_dict, .dict .fresh => ({ (st.putDict []) with fresh := some .O }, rhs)
  | .trait _, .obj_dict, _ => (st, rhs)             -- metadata dictionary: not modelled
  | .ghost, _, _ => (st, rhs)
  | _, _, _ => (st, .stuck)

mutual
def evalE (Γ : Ctx) : Expr → St → St × V
  | .lit v, st => (st, v)
  | .var x, st => (st, st.get x)
  | .fld e f, st => match evalE Γ e st with | (st', v) => (st', fldGet st' v f)
  | .asg x e, st => match evalE Γ e st with | (st', v) => (st'.set x v, v)
  | .asgf e f rhs, st =>
    match evalE Γ rhs st with
    | (st', r) => match evalE Γ e st' with | (st'', v) => fldSet st'' v f r
  | .and a b, st => match evalE Γ a st with | (st', v) => if truthy v then evalE Γ b st' else (st', v)
  | .or a b, st => match evalE Γ a st with | (st', v) => if truthy v then (st', v) else evalE Γ b st'
  | .not a, st => match evalE Γ a st with | (st', v) => (st', .bool (!truthy v))
  | .call f args, st => match evalArgs Γ args st with | (st', vs) => prim Γ f vs st'
def evalArgs (Γ : Ctx) : List Expr → St → St × List V
  | [], st => (st, [])
  | e :: es, st =>
    match evalE Γ e st with
    | (st', v) => match evalArgs Γ es st' with | (st'', vs) => (st'', v :: vs)
end

/-- `for x in items: body` with the body's meaning given as a function. -/
def forLoop (body : St → St × Flow) (x : Var) : List Name → St → St × Flow
  | [], st => (st, .next)
  | n :: ns, st =>
    match body (st.set x (.name n)) with
    | (st', .next) => forLoop body x ns st'
    | r => r

mutual
def exec (Γ : Ctx) (py : Bool) : Stmt → St → St × Flow
  | .expr e, st =>
    match evalE Γ e st with
    | (st', v) => if py && v == .null then (st', .ret .null) else (st', .next)
  | .ite c t e, st =>
    match evalE Γ c st with
    | (st', v) =>
      if py && v == .null then (st', .ret .null)
      else if truthy v then execs Γ py t st' else execs Γ py e st'
  | .ret e, st => match evalE Γ e st with | (st', v) => (st', .ret v)
  | .raise x, st => ({ st with err := some x }, .ret .null)
  | .forIn x it body, st =>
    match evalE Γ it st with
    | (st', .names l) => forLoop (fun s => execs Γ py body s) x l st'
    | (st', _) => (st', .ret .stuck)
  | .ghost _, st => (st, .next)
  | .opaque _, st => (st, .ret .stuck)
def execs (Γ : Ctx) (py : Bool) : List Stmt → St → St × Flow
  | [], st => (st, .next)
  | s :: ss, st =>
    match exec Γ py s st with
    | (st', .next) => execs Γ py ss st'
    | r => r
end

def bind : List Var → List V → List (Var × V)
  | x :: xs, v :: vs => (x, v) :: bind xs vs
  | _, _ => []

/-- Call a translated function: fresh frame, run, restore the caller's frame.
Falling off the end: `None` in Python, a value nobody looks at in C (`void`). -/
def runFun (Γ : Ctx) (fn : Fun) (args : List V) (st : St) : St × V :=
  match execs Γ fn.py fn.body { st with env := bind fn.params args } with
  | (st', .ret v) => ({ st' with env := st.env }, v)
  | (st', .next) => ({ st' with env := st.env }, if fn.py then .none else .ghost)

end TraitsVerif.Model.ResL
