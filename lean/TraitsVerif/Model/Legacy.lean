/-
Model of the legacy extended-name listener machinery for the fragment shared
with `observe` (property C16):

  traits/traits_listener.py   ListenerItem.register        331-438  (as of /repo 0c9dae1; the
                                `except DelegationError` fallback added there only concerns
                                delegate traits, which the fragment does not contain)
                              ListenerItem.unregister      440-453
                              handle_simple                455-459
                              handle_list / _items         478-493
                              handle_dict / _items         503-534
                              _register_simple             563-630
                              _register_list               632-738
                              _register_dict               749-835
                              ListenerParser.parse_item    1127-1231 (only: the
                                first item carries the handler type, every
                                later item is ANY_LISTENER; `.`/`:` = notify)
  traits/has_traits.py        _on_trait_change             2192-2265 (add with
                                `equals` de-duplication, remove first match)
                              on_trait_change              2598-2641 (extended
                                branch: register(self) / unregister(self))
  traits/ctraits.c            call_notifiers               2260-2330 (the list
                                of notifiers is copied before it is called)

Heap: objects with a final scalar (`value`, `aux`; their contents are not
modelled, a probe is "the scalar changed"), `child : Instance`,
`kids : List(Instance)`, `byname : Dict(_, Instance)`, `group : Set(Instance)`.  Every object a container change
adds is freshly allocated (`Heap.next`) or was in that same container before the change
(reverse / sort / rotation, reassignments that carry objects over): every object stays
referenced from at most one place.

Source tie: `register`, `unregister`, `linkHooks` / `finalHooks` and the handler scripts of
`mutate` are proved equal to the interpretation (`Model/LisL.lean`) of the translated source
(`Generated/LegacyProg.lean`, harness/translate/legacysrc.py): Props/C16.lean
`C16_register_is_source`, `C16_handle_is_source`, `C16_handler_table`, `C16_guards_are_source`,
`C16_deferred_is_source`, `C16_dst_table`, `C16_anytrait_is_source`; `Name` / `typeOf` (what the
parser makes of a name string) are tied to the translated `ListenerParser` by
`C16_parser_is_source` (`Model/ParL.lean`), `ListenerGroup` by `C16_group_is_source`.

Set links (`group`): `_register_set = _register_list`, `TraitSetEvent.removed / added` duck-type
`TraitListEvent`; detached containers (`Op.stray`).

Not modelled (outside the common fragment): wildcards / metadata / `?` / `*`
names, ListenerGroup, DST handlers (1- and 2-argument signatures, `handle_dst`,
`handle_error`), `priority=True`, dispatch other than "same",
`dispose()` muting a method wrapper that is removed while a snapshot holding it
is being called (cannot happen on trees: a handler never removes a notifier of
the object whose notifiers are being called).

Core Lean only.
-/
namespace TraitsVerif.Model.Legacy

/- Object identities are allocation ordinals (`Nat`). -/

/-- Link attributes; the container kind is a function of the attribute
(`trait.handler.default_value_type`, traits_listener.py:421-426). -/
inductive Attr where
  | child | kids | byname | group
  deriving DecidableEq, Repr

/-- Final scalar attributes. -/
inductive Final where
  | value | aux
  deriving DecidableEq, Repr

/-- The (instance) traits on which notifiers are placed. -/
inductive Trait where
  | link (a : Attr)      -- `child`, `kids`, `byname`
  | items (a : Attr)     -- `kids_items`, `byname_items`
  | final (f : Final)    -- `value`, `aux`
  deriving DecidableEq, Repr

/-- What a notifier wrapper refers to: the user's handler, or the bound methods
`handle_simple / handle_list(_items) / handle_dict(_items)` of `ListenerItem` number `k`
(which of them follows from the trait it sits on).  Equality is
`TraitChangeNotifyWrapper.equals` (trait_notifiers.py:489-498). -/
inductive HRef where
  | user
  | tl (k : Nat)
  deriving DecidableEq, Repr

/-- `ListenerNotifyWrapper.type` for the signatures in the fragment:
0 arguments = ANY_LISTENER, 3 or 4 arguments = SRC_LISTENER (traits_listener.py:55-61). -/
inductive LType where
  | any | src
  deriving DecidableEq, Repr

structure Obj where
  child : Option Nat := none
  kids : List Nat := []
  byname : List (Nat × Nat) := []
  /-- `group : Set(Instance)`: the members in insertion order (a set has no order; nothing
  observable depends on it: the driver prints `active` sorted, calls per object) -/
  group : List Nat := []
  deriving Repr

structure Heap where
  obj : Nat → Obj
  /-- ids `≥ next` have not been allocated -/
  next : Nat

/-- A single object (the root, id 0) with default-valued traits. -/
def Heap.init : Heap := { obj := fun _ => {}, next := 1 }

def root : Nat := 0

/-- The objects an attribute refers to: `getattr(o, a)` seen as the sequence the
listener iterates over (`[v]` unless `None`; `for obj in list`; `dict.values()`). -/
def targets (h : Heap) (a : Attr) (o : Nat) : List Nat :=
  match a with
  | .child => (h.obj o).child.toList
  | .kids => (h.obj o).kids
  | .byname => (h.obj o).byname.map (·.2)
  | .group => (h.obj o).group

def Heap.setObj (h : Heap) (o : Nat) (x : Obj) : Heap :=
  { h with obj := fun i => if i = o then x else h.obj i }

def Heap.bump (h : Heap) (n : Nat) : Heap := { h with next := h.next + n }

def freshIds (h : Heap) (n : Nat) : List Nat := (List.range n).map (h.next + ·)

/-- One link of an extended name: attribute and connector (`.` = notify). -/
structure Link where
  attr : Attr
  notify : Bool
  deriving DecidableEq, Repr

/-- An extended name of the fragment: `l₀ c₀ l₁ c₁ … final`, registered with a
handler of type `htype`. -/
structure Name where
  links : List Link
  final : Final
  htype : LType
  /-- `on_trait_change(..., deferred=True)`; every `@on_trait_change`-decorated method is
  registered this way (has_traits.py `_init_trait_listeners`).  Only the FIRST
  `ListenerItem` is deferred (parse_item passes `deferred=False` down).  Carried for the
  line protocol; see `registerTop` for why it does not change the model's behaviour. -/
  deferred : Bool := false
  deriving Repr

/-- `ListenerItem.type` of item `k` (parse_item: only the first item gets the
handler's type, "bug-for-bug compatibility", traits_listener.py:1196-1203). -/
def typeOf (ty0 : LType) (k : Nat) : LType := if k = 0 then ty0 else .any

def isContainer : Attr → Bool
  | .child => false
  | _ => true

/-- The notifiers `_register_simple / _register_list / _register_dict` attach to
(or detach from) one object for a non-final item, in call order. -/
def linkHooks (ty : LType) (k : Nat) (l : Link) : List (Trait × HRef) :=
  (if l.notify then
      -- `if self.notify:` … `object._on_trait_change(handler, name, …)`
      (Trait.link l.attr, HRef.user) ::
        -- `elif self.type == ANY_LISTENER:` … `name + "_items"`
        (if isContainer l.attr && decide (ty = .any) then [(Trait.items l.attr, HRef.user)] else [])
    else [])
  ++ (Trait.link l.attr, HRef.tl k) ::
     (if isContainer l.attr then [(Trait.items l.attr, HRef.tl k)] else [])

/-- The final item: `object._on_trait_change(handler, name, …)` (lines 567-579). -/
def finalHooks (f : Final) : List (Trait × HRef) := [(Trait.final f, HRef.user)]

/-- All notifiers item `k` of the chain places on one object. -/
def itemHooks (N : Name) (k : Nat) : List (Trait × HRef) :=
  match N.links[k]? with
  | some l => linkHooks (typeOf N.htype k) k l
  | none => if k = N.links.length then finalHooks N.final else []

/-- Listener state: the `active` table of every `ListenerItem` (by item index)
and the notifier lists of every object (flattened over its traits; the list of
one trait is the sub-sequence with that trait). -/
structure LState where
  active : Nat → List Nat
  hooks : Nat → List (Trait × HRef)

def LState.empty : LState := { active := fun _ => [], hooks := fun _ => [] }

/-- `self.active[new] = …` -/
def LState.addActive (s : LState) (k : Nat) (o : Nat) : LState :=
  { s with active := fun m => if m = k then (if o ∈ s.active k then s.active k else s.active k ++ [o]) else s.active m }

/-- `self.active.pop(old, None)` -/
def LState.popActive (s : LState) (k : Nat) (o : Nat) : LState :=
  { s with active := fun m => if m = k then (s.active k).filter (· ≠ o) else s.active m }

/-- `_on_trait_change(handler, name)`: append unless an `equals` notifier is there. -/
def LState.addHook (s : LState) (o : Nat) (p : Trait × HRef) : LState :=
  { s with hooks := fun i => if i = o then (if p ∈ s.hooks o then s.hooks o else s.hooks o ++ [p]) else s.hooks i }

/-- `_on_trait_change(handler, name, remove=True)`: delete the first `equals` notifier. -/
def LState.delHook (s : LState) (o : Nat) (p : Trait × HRef) : LState :=
  { s with hooks := fun i => if i = o then (s.hooks o).erase p else s.hooks i }

def LState.addHooks (s : LState) (o : Nat) (ps : List (Trait × HRef)) : LState :=
  ps.foldl (fun s p => s.addHook o p) s

def LState.delHooks (s : LState) (o : Nat) (ps : List (Trait × HRef)) : LState :=
  ps.foldl (fun s p => s.delHook o p) s

/-- `ListenerItem.register(new)` for item `k`, `ls` = the links from item `k` on.
`targets` already drops `None`. -/
def register (h : Heap) (ty0 : LType) (fin : Final) : Nat → List Link → Nat → LState → LState
  | k, [], o, s =>
    -- `new in self.active` ⇒ return
    if o ∈ s.active k then s
    else (s.addActive k o).addHooks o (finalHooks fin)
  | k, l :: rest, o, s =>
    if o ∈ s.active k then s
    else
      let s1 := (s.addActive k o).addHooks o (linkHooks (typeOf ty0 k) k l)
      -- `next.register(getattr(object, name))` / `for obj in getattr(object, name): register(obj)`
      (targets h l.attr o).foldl (fun s c => register h ty0 fin (k + 1) rest c s) s1

/-- `ListenerItem.unregister(old)`. -/
def unregister (h : Heap) (ty0 : LType) (fin : Final) : Nat → List Link → Nat → LState → LState
  | k, [], o, s =>
    -- `active = self.active.pop(old, None); if active is not None:`
    if o ∈ s.active k then (s.popActive k o).delHooks o (finalHooks fin) else s
  | k, l :: rest, o, s =>
    if o ∈ s.active k then
      let s1 := (s.popActive k o).delHooks o (linkHooks (typeOf ty0 k) k l)
      -- `next.unregister(getattr(object, name))`: the CURRENT value(s)
      (targets h l.attr o).foldl (fun s c => unregister h ty0 fin (k + 1) rest c s) s1
    else s

/-- `listener.register(self)` for the whole name (has_traits.py `on_trait_change`, add
branch).  `deferred=True` only concerns the first item: `_register_simple`,
`_register_list` and `_register_dict` skip the walk into the current value(s) iff the
item is deferred AND the attribute is not yet in `object.__dict__`
(traits_listener.py:616, 726, 824 as of /repo 0c9dae1; before that fix lists and dicts
were skipped whenever the item was deferred — finding F87).  An attribute that is not
in `__dict__` still has its default — `None`, `[]`, `{}` for the traits of the fragment —
so the skipped walk would have visited nothing: in this model (which does not record
materialisation) a deferred registration is the same function as a plain one. -/
def registerTop (h : Heap) (N : Name) (s : LState) : LState :=
  register h N.htype N.final 0 N.links root s

/-- What an intermediate handler does, step by step. -/
inductive Act where
  | unreg (x : Nat)
  | reg (x : Nat)
  deriving DecidableEq, Repr

/-- Run the un/re-registrations of a `handle_*` method of item `k - 1`
(`self.next` is item `k`, `ls` its links). -/
def runScript (h : Heap) (ty0 : LType) (fin : Final) (k : Nat) (ls : List Link) :
    List Act → LState → LState
  | [], s => s
  | .unreg x :: sc, s => runScript h ty0 fin k ls sc (unregister h ty0 fin k ls x s)
  | .reg x :: sc, s => runScript h ty0 fin k ls sc (register h ty0 fin k ls x s)

/-- A delivered call of the user's handler: `(object, trait name)`. -/
abbrev Call := Nat × Trait

/-- The notifiers of trait `t` of object `o`, in list order (the copy taken by
`call_notifiers`). -/
def snapshot (s : LState) (o : Nat) (t : Trait) : List HRef :=
  ((s.hooks o).filter (fun p => p.1 = t)).map (·.2)

/-- Call one notifier.  `user` → the handler is called with `(o, t, …)`;
`tl k` → `handle_simple/list/dict(_items)` of item `k` runs `script` on item `k+1`. -/
def callOne (h : Heap) (N : Name) (o : Nat) (t : Trait) (script : List Act)
    (acc : LState × List Call) (r : HRef) : LState × List Call :=
  match r with
  | .user => (acc.1, acc.2 ++ [(o, t)])
  | .tl k => (runScript h N.htype N.final (k + 1) (N.links.drop (k + 1)) script acc.1, acc.2)

/-- A trait change event on `(o, t)` in heap `h` (already updated). -/
def dispatch (h : Heap) (N : Name) (o : Nat) (t : Trait) (script : List Act) (s : LState) :
    LState × List Call :=
  (snapshot s o t).foldl (callOne h N o t script) (s, [])

/-- The operations of a history (every inserted object is fresh). -/
inductive Op where
  | setChild (o : Nat) (fresh : Bool)          -- o.child = N() / None
  | setKids (o : Nat) (n : Nat)                -- o.kids = [N() …]
  | splice (o : Nat) (i j n : Nat)             -- o.kids[i:j] = [N() …]  (append/insert/del/clear are instances)
  | setDict (o : Nat) (keys : List Nat)        -- o.byname = {k: N() …}
  | dictSet (o : Nat) (key : Nat)             -- o.byname[k] = N()  (also setdefault on a missing key)
  | dictUpdate (o : Nat) (keys : List Nat)    -- o.byname.update({k: N() …}) / o.byname |= {…}
  | dictDel (o : Nat) (key : Nat)              -- del o.byname[k]
  | dictClear (o : Nat)                        -- o.byname.clear()
  | rearrange (o d p n : Nat) (inplace : Bool)
      -- the list keeps `permute p (kids[d:])` and gains n fresh objects at the end:
      -- in place (`kids.reverse()`, `kids.sort(...)`, `kids[:] = …`) or by reassignment
      -- (`o.kids = o.kids[1:] + [N()]`, `o.kids = list(reversed(o.kids))`)
  | dictCarry (o d : Nat)                     -- o.byname = dict(reversed(list(o.byname.items())[d:]))
  | setGroup (o : Nat) (n : Nat)               -- o.group = {N() …}
  | gsplice (o : Nat) (i j n : Nat)
      -- ONE TraitSetEvent: the members at positions i..j-1 (insertion order) leave, n fresh ones arrive:
      -- add / remove / discard / pop / clear / `-=` / `|=` / `^=` (symmetric_difference_update) are instances
  | stray (n : Nat)
      -- n fresh objects are put into a DETACHED container (a list / dict / set the caller still
      -- holds after the link was reassigned): they are allocated and referenced from nowhere in
      -- the graph; a detached container sends no `<name>_items` event
      -- (TraitListObject / TraitDictObject / TraitSetObject.notifier: `getattr(object, self.name) is not self`)
  | probe (o : Nat) (f : Final)                -- o.value += 1
  | reg                                       -- root.on_trait_change(handler, name)
  | unreg                                     -- root.on_trait_change(handler, name, remove=True)
  deriving Repr

/-- A heap mutation as the listener sees it. -/
structure Mut where
  h' : Heap
  o : Nat
  trait : Trait
  script : List Act
  /-- whether a trait change notification is sent at all -/
  fires : Bool

def unregAll (xs : List Nat) : List Act := xs.map .unreg
def regAll (xs : List Nat) : List Act := xs.map .reg

def dedupKeys : List Nat → List Nat
  | [] => []
  | k :: ks => k :: (dedupKeys ks).filter (· ≠ k)

/-- `TraitDict.update` (trait_dict_object.py:244-273; `__ior__` goes through it) on
the association list: existing keys are overwritten in place and reported in
`changed` (with the OLD value), new keys are appended and reported in `added`.
Returns (new items, added values, changed (old, new) pairs), in argument order. -/
def dictUpd : List (Nat × Nat) → List (Nat × Nat) → List (Nat × Nat) × List Nat × List (Nat × Nat)
  | d, [] => (d, [], [])
  | d, (k, v) :: kvs =>
    match d.find? (·.1 = k) with
    | some e =>
      let r := dictUpd (d.map (fun e => if e.1 = k then (k, v) else e)) kvs
      (r.1, r.2.1, (e.2, v) :: r.2.2)
    | none =>
      let r := dictUpd (d ++ [(k, v)]) kvs
      (r.1, v :: r.2.1, r.2.2)

/-- The reorderings of a list used by `Op.rearrange`: identity, reversal, rotation. -/
def permute (p : Nat) (l : List Nat) : List Nat :=
  match p with
  | 0 => l
  | 1 => l.reverse
  | _ => l.drop 1 ++ l.take 1

/-- The heap change, the trait that fires and what its `handle_*` methods do.
`none` = the operation is not applicable (skipped on both sides). -/
def mutate (h : Heap) : Op → Option Mut
  | .setChild o fresh =>
    if o < h.next then
      let olds := targets h .child o
      let news := if fresh then [h.next] else []
      let h' := (h.setObj o { h.obj o with child := news.head? }).bump news.length
      -- handle_simple: next.unregister(old); next.register(new)
      some ⟨h', o, .link .child, unregAll olds ++ regAll news, !(olds.isEmpty && news.isEmpty)⟩
    else none
  | .setKids o n =>
    if o < h.next then
      let olds := targets h .kids o
      let news := freshIds h n
      let h' := (h.setObj o { h.obj o with kids := news }).bump n
      -- handle_list(old, new)
      some ⟨h', o, .link .kids, unregAll olds ++ regAll news, !(olds.isEmpty && news.isEmpty)⟩
    else none
  | .splice o i j n =>
    if o < h.next ∧ i ≤ j ∧ j ≤ (h.obj o).kids.length then
      let kids := (h.obj o).kids
      let olds := (kids.drop i).take (j - i)
      let news := freshIds h n
      let h' := (h.setObj o { h.obj o with kids := kids.take i ++ news ++ kids.drop j }).bump n
      -- handle_list_items: handle_list(event.removed, event.added)
      some ⟨h', o, .items .kids, unregAll olds ++ regAll news, !(olds.isEmpty && news.isEmpty)⟩
    else none
  | .setDict o keys =>
    if o < h.next then
      let keys := dedupKeys keys
      let olds := targets h .byname o
      let news := freshIds h keys.length
      let h' := (h.setObj o { h.obj o with byname := keys.zip news }).bump keys.length
      -- handle_dict(old, new)
      some ⟨h', o, .link .byname, unregAll olds ++ regAll news, !(olds.isEmpty && news.isEmpty)⟩
    else none
  | .dictSet o key =>
    -- TraitDict.__setitem__ (trait_dict_object.py:159-182): an existing key gives
    -- `changed = {key: old}`, a new key `added = {key: value}`
    if o < h.next then
      let new := h.next
      match (h.obj o).byname.find? (·.1 = key) with
      | some (_, old) =>
        let d' := (h.obj o).byname.map (fun e => if e.1 = key then (key, new) else e)
        let h' := (h.setObj o { h.obj o with byname := d' }).bump 1
        -- handle_dict_items: handle_dict({}, {}); for changed: unregister(old); register(dict[key])
        some ⟨h', o, .items .byname, [.unreg old, .reg new], true⟩
      | none =>
        let h' := (h.setObj o { h.obj o with byname := (h.obj o).byname ++ [(key, new)] }).bump 1
        -- handle_dict_items: handle_dict(removed = {}, added = {key: new})
        some ⟨h', o, .items .byname, [.reg new], true⟩
    else none
  | .dictUpdate o keys =>
    if o < h.next then
      let keys := dedupKeys keys
      let news := freshIds h keys.length
      let r := dictUpd (h.obj o).byname (keys.zip news)
      let h' := (h.setObj o { h.obj o with byname := r.1 }).bump keys.length
      -- ONE event (removed = {}, added, changed).  handle_dict_items:
      --   handle_dict({}, added): register every added value; then for changed:
      --   unregister(old value); register(dict[key])
      some ⟨h', o, .items .byname,
            regAll r.2.1 ++ r.2.2.flatMap (fun c => [.unreg c.1, .reg c.2]), !keys.isEmpty⟩
    else none
  | .dictDel o key =>
    if o < h.next then
      match (h.obj o).byname.find? (·.1 = key) with
      | some (_, old) =>
        let h' := h.setObj o { h.obj o with byname := (h.obj o).byname.filter (·.1 ≠ key) }
        some ⟨h', o, .items .byname, [.unreg old], true⟩
      | none => none
    else none
  | .dictClear o =>
    if o < h.next then
      let olds := targets h .byname o
      let h' := h.setObj o { h.obj o with byname := [] }
      some ⟨h', o, .items .byname, unregAll olds, !olds.isEmpty⟩
    else none
  | .rearrange o d p n inplace =>
    if o < h.next then
      let kids := (h.obj o).kids
      let news := permute p (kids.drop d) ++ freshIds h n
      let h' := (h.setObj o { h.obj o with kids := news }).bump n
      -- in place: TraitList.reverse / sort / __setitem__(slice(None)) notify (0, removed = all the old
      --   items, added = all the new items) unless both are empty (trait_list_object.py:347, 473, 497);
      -- reassignment: the `kids` trait fires iff `old != new` (comparison_mode equality; `==` of the
      --   items is identity).  Either way handle_list(old items, new items):
      --   unregister every old item, THEN register every new item
      some ⟨h', o, if inplace then .items .kids else .link .kids, unregAll kids ++ regAll news,
            if inplace then !(kids.isEmpty && news.isEmpty) else decide (kids ≠ news)⟩
    else none
  | .dictCarry o d =>
    if o < h.next then
      let dct := (h.obj o).byname
      let d' := (dct.drop d).reverse
      let h' := h.setObj o { h.obj o with byname := d' }
      -- dict `!=` ignores order: the trait fires iff an entry was dropped.  handle_dict(old, new)
      some ⟨h', o, .link .byname, unregAll (dct.map (·.2)) ++ regAll (d'.map (·.2)),
            decide (0 < min d dct.length)⟩
    else none
  | .setGroup o n =>
    if o < h.next then
      let olds := targets h .group o
      let news := freshIds h n
      let h' := (h.setObj o { h.obj o with group := news }).bump n
      -- _register_set = _register_list: handle_list(old, new)
      some ⟨h', o, .link .group, unregAll olds ++ regAll news, !(olds.isEmpty && news.isEmpty)⟩
    else none
  | .gsplice o i j n =>
    if o < h.next ∧ i ≤ j ∧ j ≤ (h.obj o).group.length then
      let g := (h.obj o).group
      let olds := (g.drop i).take (j - i)
      let news := freshIds h n
      let h' := (h.setObj o { h.obj o with group := g.take i ++ news ++ g.drop j }).bump n
      -- handle_list_items: handle_list(event.removed, event.added) (TraitSetEvent duck-types TraitListEvent)
      some ⟨h', o, .items .group, unregAll olds ++ regAll news, !(olds.isEmpty && news.isEmpty)⟩
    else none
  | .stray n =>
    some ⟨(h.setObj root (h.obj root)).bump n, root, .link .child, [], false⟩
  | .probe o f =>
    if o < h.next then some ⟨h, o, .final f, [], true⟩ else none
  | .reg => none
  | .unreg => none

/-- Whole state of a run. -/
structure St where
  h : Heap
  s : LState
  registered : Bool

def St.init : St := { h := Heap.init, s := LState.empty, registered := false }

/-- One step of a history: new state, `applied?`, and the calls of the user's
legacy handler. -/
def step (N : Name) (st : St) (op : Op) : St × Bool × List Call :=
  match op with
  | .reg =>
    -- has_traits.py:2617-2641 (a second registration of the same handler is a no-op)
    if st.registered then (st, false, [])
    else ({ st with s := registerTop st.h N st.s, registered := true }, true, [])
  | .unreg =>
    -- has_traits.py:2601-2615  `wrapper.listener.unregister(self)`
    if st.registered then
      ({ st with s := unregister st.h N.htype N.final 0 N.links root st.s, registered := false }, true, [])
    else (st, false, [])
  | op =>
    match mutate st.h op with
    | none => (st, false, [])
    | some m =>
      if m.fires then
        let (s', calls) := dispatch m.h' N m.o m.trait m.script st.s
        ({ st with h := m.h', s := s' }, true, calls)
      else ({ st with h := m.h' }, true, [])

def run (N : Name) : St → List Op → St
  | st, [] => st
  | st, op :: ops => run N (step N st op).1 ops

def Op.isReg : Op → Bool
  | .reg => true
  | _ => false

/-! ### Specification side: reachability along the name (what `observe` promises) -/

/-- Objects at depth `k + j` below `o` when `o` sits at depth `k` of the name
(from scratch in heap `h`). -/
def descFrom (h : Heap) (links : List Link) (k : Nat) (o : Nat) : Nat → List Nat
  | 0 => [o]
  | j + 1 =>
    match links[k + j]? with
    | none => []
    | some l => (descFrom h links k o j).flatMap (targets h l.attr)

/-- Objects at depth `m` along the name from the root. -/
def reach (h : Heap) (links : List Link) (m : Nat) : List Nat := descFrom h links 0 root m

/-- Is `o` reachable at the depth of a notifying (`.`) link over attribute `a`? -/
def reportsAt (N : Name) (h : Heap) (o : Nat) (a : Attr) : Bool :=
  (List.range N.links.length).any (fun k =>
    match N.links[k]? with
    | some l => decide (l.attr = a) && l.notify && decide (o ∈ reach h N.links k)
    | none => false)

/-- The calls an `observe` handler registered for the corresponding expression
must receive for a change of trait `t` of object `o`, evaluated in the heap
before the change (C08's `reach`, specialised to chains on trees): the final
attribute of a reachable object; a notifying (`.`) link of an object reachable
at that depth. -/
def specCalls (N : Name) (h : Heap) (registered : Bool) (o : Nat) (t : Trait) : List Call :=
  if registered &&
      (match t with
       | .final f => decide (f = N.final) && decide (o ∈ reach h N.links N.links.length)
       | .link a => reportsAt N h o a
       | .items a => reportsAt N h o a)
  then [(o, t)] else []

/-- `specCalls` for an operation of a history. -/
def specStep (N : Name) (st : St) (op : Op) : List Call :=
  match mutate st.h op with
  | none => []
  | some m => if m.fires then specCalls N st.h st.registered m.o m.trait else []

/-- Tree-shaped heaps: every object is referenced from at most one place, and
because every insertion uses a freshly allocated object, references go from
older to younger objects. -/
structure TreeShaped (h : Heap) : Prop where
  up : ∀ o a c, c ∈ targets h a o → o < c
  uniq : ∀ c o₁ a₁ o₂ a₂, c ∈ targets h a₁ o₁ → c ∈ targets h a₂ o₂ → o₁ = o₂ ∧ a₁ = a₂
  nodup : ∀ o a, (targets h a o).Nodup
  bound : ∀ o a c, c ∈ targets h a o → c < h.next
  empty : ∀ o a, h.next ≤ o → targets h a o = []
  pos : 0 < h.next
  /-- a dict has no duplicate keys -/
  keys : ∀ o, ((h.obj o).byname.map (·.1)).Nodup

end TraitsVerif.Model.Legacy
