/-
Model of `TraitListObject` (traits/trait_list_object.py:571-902) and of
`List.validate` (traits/trait_types.py:2622-2639): the length guard each
override passes to `_validate_length`, then the `TraitList` method.
-/
import TraitsVerif.Model.TraitList
namespace TraitsVerif.Model
open TraitsVerif TraitsVerif.Py
variable {α : Type}

/-- `minlen` / `maxlen` of the `List` trait (`maxlen` defaults to `sys.maxsize`). -/
structure LenCfg where
  minlen : Nat
  maxlen : Nat
  deriving Repr, DecidableEq

/-- `trait.minlen <= new_length <= trait.maxlen` -/
def LenCfg.ok (c : LenCfg) (n : Int) : Bool := decide ((c.minlen : Int) ≤ n ∧ n ≤ (c.maxlen : Int))

/-- The argument each override hands to `_validate_length` (`none` = the
override does not check the length), or the exception raised while computing it.
Transcribed per method, lines 627-806. -/
def guardLen (l : List α) : Op α → Except Exc (Option Int)
  | .setIdx _ _ => .ok none                                   -- integer key: no check
  | .setSlice s xs =>
    if s.step = none ∨ s.step = some 1 then
      match Py.getSlice l s with                              -- len(self[key])
      | .error e => .error e
      | .ok r => .ok (some ((l.length : Int) - r.length + xs.length))
    else
      match Py.getSlice l s with
      | .error e => .error e
      | .ok r => if xs.length ≠ r.length then .error .valueError else .ok none
  | .delIdx _ => .ok (some (max ((l.length : Int) - 1) 0))    -- removed_count = 1
  | .delSlice s =>
    match Py.getSlice l s with
    | .error e => .error e
    | .ok r => .ok (some (max ((l.length : Int) - r.length) 0))
  | .append _ => .ok (some ((l.length : Int) + 1))
  | .extend xs => .ok (some ((l.length : Int) + xs.length))
  | .iadd xs => .ok (some ((l.length : Int) + xs.length))
  | .imul n => .ok (some (max 0 ((l.length : Int) * n)))
  | .insert _ _ => .ok (some ((l.length : Int) + 1))
  | .pop _ => .ok (some (max ((l.length : Int) - 1) 0))
  | .remove _ => .ok (some (max ((l.length : Int) - 1) 0))
  | .clear => .ok (some 0)
  | .reverse => .ok none                                      -- inherited from TraitList
  | .sort _ => .ok none

/-- One `TraitListObject` method call. -/
def TraitListObject.step (c : LenCfg) (E : Env α) (l : List α) (op : Op α) : Except Exc (Out α) :=
  match guardLen l op with
  | .error e => .error e
  | .ok none => TraitList.step E l op
  | .ok (some n) => if c.ok n then TraitList.step E l op else .error .traitError

/-- Whole-value assignment `obj.x = value` for a `list` value: `List.validate`
(length check) followed by `TraitListObject.__init__` (length check, then every
item through the item validator). -/
def TraitListObject.assign (c : LenCfg) (E : Env α) (xs : List α) : Except Exc (List α) :=
  if c.ok xs.length then valAll E.v 0 xs else .error .traitError

/-- Operations on the trait value: a mutator call, or assignment of a new list. -/
inductive TOp (α : Type) where
  | call (op : Op α)
  | assign (xs : List α)

/-- Result of one step on the trait: new contents (and, for a call, its output). -/
def TraitListObject.tstep (c : LenCfg) (E : Env α) (l : List α) : TOp α → Except Exc (Out α)
  | .call op => TraitListObject.step c E l op
  | .assign xs => (TraitListObject.assign c E xs).map (fun l' => { items := l' })

def TraitListObject.run (c : LenCfg) (E : Env α) : List α → List (TOp α) → List (Except Exc (Out α))
  | _, [] => []
  | l, op :: ops =>
    match TraitListObject.tstep c E l op with
    | .error e => .error e :: TraitListObject.run c E l ops
    | .ok o => .ok o :: TraitListObject.run c E o.items ops

end TraitsVerif.Model
