/-
Reference ledger for the attribute core of `traits/ctraits.c` (pinned tree).

One `HasTraits` object, standard value traits (`TraitKind.trait`:
`getattr_trait` / `setattr_trait`).  The state is what *holds references*:
the slots of `obj.__dict__` (one reference to the key object, one to the value)
plus `stray`, the reference-count changes the code performs that correspond to
no slot (a correct core never has any; since f934ab1 no modelled path writes it,
the field stays so that a regression has somewhere to show).  Transcribed, statement by statement:

  `setattr_trait`      ctraits.c:2373-2553   (assignment and deletion branch)
  `getattr_trait`      ctraits.c:1953-2012
  `has_traits_getattro` dict short-cut, ctraits.c:845-858
  `call_notifiers`     ctraits.c:2259-2329   (as one callback: it owns no reference
                                             after it returns, whatever it returns)

Callbacks are parameters (DESIGN §4): the validator, the default-value factory,
`post_setattr`, the notifier call, and - because attribute names may be
instances of `str` subclasses with their own `__hash__` - whether the n-th
operation on `obj.__dict__` inside one call can hash the key.
Core Lean only; every function is total.
-/
import TraitsVerif.Py.Basic
namespace TraitsVerif.Model.RefLedger
open TraitsVerif

abbrev Id := Nat

/-- `Uninitialized` (passed as `old` by `getattr_trait`). -/
def uninit : Id := 0

/-- The flags and NULL-tests of the trait that `setattr_trait` looks at. -/
structure TraitCfg where
  /-- `traitd->validate != NULL` -/
  hasValidate : Bool := true
  /-- `TRAIT_SETATTR_ORIGINAL_VALUE` -/
  origValue : Bool := false
  /-- `TRAIT_POST_SETATTR_ORIGINAL_VALUE` -/
  postOrig : Bool := false
  /-- `traitd->post_setattr != NULL` -/
  hasPost : Bool := false
  /-- `TRAIT_COMPARISON_MODE_NONE` -/
  cmpNone : Bool := false
  deriving DecidableEq, Repr, Inhabited

/-- One entry of `obj.__dict__`: the key *object* the dict kept and the value. -/
structure Slot where
  name : String
  key : Id
  val : Id
  deriving DecidableEq, Repr

structure St where
  dict : List Slot := []
  /-- net reference-count changes that no slot accounts for -/
  stray : List (Id × Int) := []
  /-- `has_notifiers(tnotifiers, onotifiers)`: some list is non-empty -/
  hasNotifiers : Bool := false
  /-- `(tnotifiers != NULL) || (onotifiers != NULL)`: some list exists -/
  listsExist : Bool := false
  /-- `obj->flags & HASTRAITS_NO_NOTIFY` -/
  noNotify : Bool := false
  deriving DecidableEq, Repr, Inhabited

structure Env where
  /-- `traitd->validate(traitd, obj, name, value)`; returns a new reference -/
  validate : Callback Id Id
  /-- `default_value_for(trait, obj, name)`; returns a new reference -/
  dflt : Callback Unit Id
  /-- `post_setattr(traitd, obj, name, value)` -/
  post : Callback Id Unit
  /-- `call_notifiers(tn, on, obj, name, old, new)`: error = a raw exception came back -/
  notify : Callback (Id × Id) Unit
  /-- the n-th operation on `obj.__dict__` within the call can hash the key -/
  hashOk : Nat → Bool

/-- The exception a failing `__hash__` raises in the harness. -/
def hashExc : Exc := .runtimeError

/-! ## `obj.__dict__` -/

def lookup (d : List Slot) (name : String) : Option Id :=
  match d.find? (fun e => e.name = name) with
  | some e => some e.val
  | none => none

/-- `PyDict_SetItem(dict, name, v)`: an existing entry keeps its key object. -/
def dictSet : List Slot → String → Id → Id → List Slot
  | [], name, key, v => [⟨name, key, v⟩]
  | e :: es, name, key, v =>
    if e.name = name then ⟨e.name, e.key, v⟩ :: es else e :: dictSet es name key v

/-- `PyDict_DelItem(dict, name)`. -/
def dictDel : List Slot → String → List Slot
  | [], _ => []
  | e :: es, name => if e.name = name then es else e :: dictDel es name

/-- References `obj.__dict__` holds to object `id` (as key or as value). -/
def heldBy (d : List Slot) (id : Id) : Nat :=
  (d.filter (fun e => e.val = id)).length + (d.filter (fun e => e.key = id)).length

def held (s : St) (id : Id) : Nat := heldBy s.dict id

def strayOf (s : St) (id : Id) : Int :=
  (s.stray.filter (fun p => p.1 = id)).foldl (fun a p => a + p.2) 0

/-- What `sys.getrefcount(id) - baseline(id)` must read. -/
def refs (s : St) (id : Id) : Int := (held s id : Int) + strayOf s id

/-! ## The tail shared by every path: `post_setattr`, then the notifiers

Once the value is in the dict neither call changes what the dict holds; only
the exception (if any) matters (ctraits.c:1989-2005, 2525-2536, 2427-2435). -/
def afterStore (E : Env) (c : TraitCfg) (hasNotifiers : Bool) (p : Nat) (postArg : Id)
    (n : Nat) (old new : Id) : Option Exc :=
  match (if c.hasPost then E.post p postArg else .ok ()) with
  | .error e => some e
  | .ok _ =>
    match (if hasNotifiers then E.notify n (old, new) else .ok ()) with
    | .error e => some e
    | .ok _ => none

/-! ## `getattr_trait` (ctraits.c:1953-2012)

Called with the dict-operation ordinal `d` and the `post` / `notify` ordinals.
Returns the exception (if any), the materialised default and the state. -/
def getattrTrait (E : Env) (c : TraitCfg) (s : St) (name : String) (key : Id) (d p n : Nat) :
    Option Exc × Option Id × St :=
  -- :1979 result = default_value_for(trait, obj, name);
  match E.dflt 0 () with
  | .error e => (some e, none, s)
  | .ok result =>
    -- :1983 rc = PyDict_SetItem(dict, name, result);  (error: Py_DECREF(result))
    if !E.hashOk d then (some hashExc, none, s)
    else
      -- :1989-2005 post_setattr, then notifiers with old = Uninitialized; `goto error` keeps the slot
      let r := afterStore E c s.hasNotifiers p result n uninit result
      (r, if r.isNone then some result else none, { s with dict := dictSet s.dict name key result })

/-! ## `setattr_trait`, assignment branch (ctraits.c:2447-2552) -/

/-- The value `setattr_trait` stores: the original one under
`TRAIT_SETATTR_ORIGINAL_VALUE`, else what the validator returned (:2478-2479). -/
def storedOf (c : TraitCfg) (v value : Id) : Id := if c.origValue then v else value

/-- :2372, 2505-2507  `changed = flags & COMPARISON_MODE_NONE; if (!changed) changed = (old_value != value);`
(the second statement only runs when `old_value` was fetched). -/
def changedOf (c : TraitCfg) (old : Option Id) (value : Id) : Bool :=
  c.cmpNone || (match old with | some o => o != value | none => false)

/-- From `PyDict_SetItem(dict, name, new_value)` (:2510) to the end. -/
def setFinish (E : Env) (c : TraitCfg) (s : St) (name : String) (key v value : Id)
    (old : Option Id) (d p : Nat) : Option Exc × St :=
  if !E.hashOk d then
    -- PyDict_SetItem failed:  Py_XDECREF(old_value); Py_DECREF(value); return -1;
    -- (the `Py_DECREF(name)` that used to stand here - `name` is borrowed - was removed by f934ab1)
    (some hashExc, s)
  else
    -- :2523-2537
    (if changedOf c old value then
        afterStore E c s.hasNotifiers p (if c.postOrig then v else value) 0 (old.getD uninit) (storedOf c v value)
      else none,
     { s with dict := dictSet s.dict name key (storedOf c v value) })

def setattrTrait (E : Env) (c : TraitCfg) (s : St) (name : String) (key v : Id) : Option Exc × St :=
  -- :2450-2459   (the harness never assigns `Undefined`)
  match (if c.hasValidate then E.validate 0 v else .ok v) with
  | .error e => (some e, s)
  | .ok value =>
    -- :2482-2485
    if c.hasPost || s.hasNotifiers then
      -- :2486 old_value = PyDict_GetItem(dict, name);   a failing hash is swallowed: NULL
      match (if E.hashOk 0 then lookup s.dict name else none) with
      | some old => setFinish E c s name key v value (some old) 1 0
      | none =>
        -- :2488-2497 (traitd == traito)  old_value = default_value_for(...)
        match E.dflt 0 () with
        | .error e => (some e, s)
        | .ok old =>
          -- :2498-2503 rc = PyDict_SetItem(dict, name, old_value);
          if !E.hashOk 1 then (some hashExc, s)
          else
            let s1 := { s with dict := dictSet s.dict name key old }
            -- :2504-2511 post_setattr(traitd, obj, name, old_value)
            match (if c.hasPost then E.post 0 old else .ok ()) with
            | .error e => (some e, s1)
            | .ok _ => setFinish E c s1 name key v value (some old) 2 (if c.hasPost then 1 else 0)
    else setFinish E c s name key v value none 0 0

/-! ## `setattr_trait`, deletion branch (ctraits.c:2391-2445) -/

def delattrTrait (E : Env) (c : TraitCfg) (s : St) (name : String) (key : Id) : Option Exc × St :=
  -- :2400-2403
  match lookup s.dict name with
  | none => (none, s)
  | some old =>
    -- :2405-2409
    let s1 := { s with dict := dictDel s.dict name }
    -- :2412-2415
    if !s.noNotify && s.listsExist then
      -- :2416 value = traito->getattr(traito, obj, name);
      match getattrTrait E c s1 name key 0 0 0 with
      | (some e, _, s2) => (some e, s2)
      | (none, none, s2) => (none, s2)
      | (none, some value, s2) =>
        -- :2422-2436
        (if c.cmpNone || old != value then afterStore E c s.hasNotifiers 1 value 1 old value else none, s2)
    else (none, s1)

/-! ## Reading (`has_traits_getattro`, ctraits.c:836-884) -/

def getattr (E : Env) (c : TraitCfg) (s : St) (name : String) (key : Id) : Option Exc × St :=
  match lookup s.dict name with
  | some _ => (none, s)           -- :852-856 value found in the dict: returned with its own new reference
  | none =>
    match getattrTrait E c s name key 0 0 0 with
    | (e, _, s') => (e, s')

inductive Op where
  | set (name : String) (key v : Id)
  | del (name : String) (key : Id)
  | get (name : String) (key : Id)
  deriving Repr

def step (E : Env) (c : TraitCfg) (s : St) : Op → Option Exc × St
  | .set name key v => setattrTrait E c s name key v
  | .del name key => delattrTrait E c s name key
  | .get name key => getattr E c s name key

/-! ## `validate_trait_tuple_check` (ctraits.c: the element-wise tuple validator)

A validator that builds a NEW result.  The ledger here is the list of
reference-count events on the ITEM objects: the new reference every element
validator hands back, the `Py_INCREF`s / `Py_DECREF`s of the function itself,
and - when the partly built tuple is dropped on failure - the release of
every slot filled so far.  `PyTuple_SET_ITEM` steals: it is no event. -/

inductive Ev where
  | inc (id : Id)
  | dec (id : Id)
  deriving DecidableEq, Repr

/-- Net reference-count change of object `id` over a list of events. -/
def net (evs : List Ev) (id : Id) : Int :=
  ((evs.filter (· = .inc id)).length : Int) - ((evs.filter (· = .dec id)).length : Int)

/-- Outcome: `none` = validation failed (NULL); `some none` = the value tuple
itself is returned (with its own new reference); `some (some l)` = a new tuple
with items `l`. -/
structure TupleOut where
  result : Option (Option (List Id))
  exc : Option Exc := none
  evs : List Ev
  deriving Repr

/-- The loop, from index `i` with `bs` the items still to do and `t` the new
tuple if one has been started (its filled slots, in order).  `ev i b` is the
element validator of position `i` (`itrait->validate`, or the plain
`Py_INCREF` when the element trait has none): it returns a NEW reference. -/
def tupleLoop (ev : Nat → Id → Except Exc Id) (value : List Id) :
    Nat → List Id → Option (List Id) → List Ev → TupleOut
  | _, [], t, evs => ⟨some t, none, evs⟩
  | i, b :: bs, t, evs =>
    match ev i b with
    | .error e =>
      -- aitem == NULL:  Py_XDECREF(tuple); return NULL;   (a TraitError is cleared, anything else propagates)
      ⟨none, some e, evs ++ (t.getD []).map .dec⟩
    | .ok a =>
      let evs1 := evs ++ [.inc a]
      match t with
      | some l =>
        -- PyTuple_SET_ITEM(tuple, i, aitem);
        tupleLoop ev value (i + 1) bs (some (l ++ [a])) evs1
      | none =>
        if a ≠ b then
          -- tuple = PyTuple_New(n); for j < i: bitem = value[j]; Py_INCREF(bitem); SET_ITEM(tuple, j, bitem);
          -- SET_ITEM(tuple, i, aitem);
          tupleLoop ev value (i + 1) bs (some (value.take i ++ [a])) (evs1 ++ (value.take i).map .inc)
        else
          -- Py_DECREF(aitem);
          tupleLoop ev value (i + 1) bs none (evs1 ++ [.dec a])

def tupleCheck (ev : Nat → Id → Except Exc Id) (value : List Id) : TupleOut :=
  tupleLoop ev value 0 value none []

/-! ## `call_notifiers`: dispatch from a private snapshot (ctraits.c:2293-2329)

"Notifier lists are copied in order to prevent run-time modifications": the
trait-level list and the object-level (anytrait) list are concatenated into a
NEW list before the first call; the loop runs over that list.  Handlers may
do anything to the live lists meanwhile. -/

/-- What a handler does to the live notifier lists while it is being called. -/
inductive HAct where
  | nothing
  | removeSelf
  | remove (h : Id)
  /-- register a new handler `h` on the trait (`onTrait`) or on the object -/
  | add (h : Id) (onTrait : Bool)
  deriving DecidableEq, Repr

/-- The live lists: `tnotifiers` of the trait, `onotifiers` of the object. -/
structure Lists where
  t : List Id
  o : List Id
  deriving DecidableEq, Repr

def Lists.apply (l : Lists) (self : Id) : HAct → Lists
  | .nothing => l
  | .removeSelf => ⟨l.t.erase self, l.o.erase self⟩
  | .remove h => ⟨l.t.erase h, l.o.erase h⟩
  | .add h onTrait => if onTrait then ⟨l.t ++ [h], l.o⟩ else ⟨l.t, l.o ++ [h]⟩

/-- The loop over the snapshot: every entry is called, and its action applied to the live lists. -/
def dispatchLoop (act : Id → HAct) : List Id → Lists → List Id × Lists
  | [], l => ([], l)
  | h :: rest, l =>
    let r := dispatchLoop act rest (l.apply h (act h))
    (h :: r.1, r.2)

/-- One notification: snapshot = `tnotifiers ++ onotifiers` at the start. -/
def dispatch (act : Id → HAct) (l : Lists) : List Id × Lists := dispatchLoop act (l.t ++ l.o) l

end TraitsVerif.Model.RefLedger
