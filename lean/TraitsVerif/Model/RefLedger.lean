/-
Reference ledger for the attribute core of `traits/ctraits.c` (pinned tree).

One `HasTraits` object, standard value traits (`TraitKind.trait`:
`getattr_trait` / `setattr_trait`).  The state is what *holds references*:
the slots of `obj.__dict__` (one reference to the key object, one to the value)
plus `stray`, the reference-count changes the code performs that correspond to
no slot (a correct core never has any; since f934ab1 no modelled path writes it,
the field stays so that a regression has somewhere to show).  Transcribed, statement by statement:

  `setattr_trait`      ctraits.c:2373-2553   (assignment and deletion branch)
  `getattr_trait`      ctraits.c:1953-2012
  `has_traits_getattro` dict short-cut, ctraits.c:845-858
  `call_notifiers`     ctraits.c:2259-2329   (as one callback: it owns no reference
                                             after it returns, whatever it returns)

Callbacks are parameters (DESIGN §4): the validator, the default-value factory,
`post_setattr`, the notifier call, and - because attribute names may be
instances of `str` subclasses with their own `__hash__` - whether the n-th
operation on `obj.__dict__` inside one call can hash the key.
Core Lean only; every function is total.
-/
import TraitsVerif.Py.Basic
namespace TraitsVerif.Model.RefLedger
open TraitsVerif

abbrev Id := Nat

/-- `Uninitialized` (passed as `old` by `getattr_trait`). -/
def uninit : Id := 0

/-- The flags and NULL-tests of the trait that `setattr_trait` looks at. -/
structure TraitCfg where
  /-- `traitd->validate != NULL` -/
  hasValidate : Bool := true
  /-- `TRAIT_SETATTR_ORIGINAL_VALUE` -/
  origValue : Bool := false
  /-- `TRAIT_POST_SETATTR_ORIGINAL_VALUE` -/
  postOrig : Bool := false
  /-- `traitd->post_setattr != NULL` -/
  hasPost : Bool := false
  /-- `TRAIT_COMPARISON_MODE_NONE` -/
  cmpNone : Bool := false
  deriving DecidableEq, Repr, Inhabited

/-- One entry of `obj.__dict__`: the key *object* the dict kept and the value. -/
structure Slot where
  name : String
  key : Id
  val : Id
  deriving DecidableEq, Repr

structure St where
  dict : List Slot := []
  /-- net reference-count changes that no slot accounts for -/
  stray : List (Id × Int) := []
  /-- `has_notifiers(tnotifiers, onotifiers)`: some list is non-empty -/
  hasNotifiers : Bool := false
  /-- `(tnotifiers != NULL) || (onotifiers != NULL)`: some list exists -/
  listsExist : Bool := false
  /-- `obj->flags & HASTRAITS_NO_NOTIFY` -/
  noNotify : Bool := false
  deriving DecidableEq, Repr, Inhabited

structure Env where
  /-- `traitd->validate(traitd, obj, name, value)`; returns a new reference -/
  validate : Callback Id Id
  /-- `default_value_for(trait, obj, name)`; returns a new reference -/
  dflt : Callback Unit Id
  /-- `post_setattr(traitd, obj, name, value)` -/
  post : Callback Id Unit
  /-- `call_notifiers(tn, on, obj, name, old, new)`: error = a raw exception came back -/
  notify : Callback (Id × Id) Unit
  /-- the n-th operation on `obj.__dict__` within the call can hash the key -/
  hashOk : Nat → Bool

/-- The exception a failing `__hash__` raises in the harness. -/
def hashExc : Exc := .runtimeError

/-! ## `obj.__dict__` -/

def lookup (d : List Slot) (name : String) : Option Id :=
  match d.find? (fun e => e.name = name) with
  | some e => some e.val
  | none => none

/-- `PyDict_SetItem(dict, name, v)`: an existing entry keeps its key object. -/
def dictSet : List Slot → String → Id → Id → List Slot
  | [], name, key, v => [⟨name, key, v⟩]
  | e :: es, name, key, v =>
    if e.name = name then ⟨e.name, e.key, v⟩ :: es else e :: dictSet es name key v

/-- `PyDict_DelItem(dict, name)`. -/
def dictDel : List Slot → String → List Slot
  | [], _ => []
  | e :: es, name => if e.name = name then es else e :: dictDel es name

/-- References `obj.__dict__` holds to object `id` (as key or as value). -/
def heldBy (d : List Slot) (id : Id) : Nat :=
  (d.filter (fun e => e.val = id)).length + (d.filter (fun e => e.key = id)).length

def held (s : St) (id : Id) : Nat := heldBy s.dict id

def strayOf (s : St) (id : Id) : Int :=
  (s.stray.filter (fun p => p.1 = id)).foldl (fun a p => a + p.2) 0

/-- What `sys.getrefcount(id) - baseline(id)` must read. -/
def refs (s : St) (id : Id) : Int := (held s id : Int) + strayOf s id

/-! ## The tail shared by every path: `post_setattr`, then the notifiers

Once the value is in the dict neither call changes what the dict holds; only
the exception (if any) matters (ctraits.c:1989-2005, 2525-2536, 2427-2435). -/
def afterStore (E : Env) (c : TraitCfg) (hasNotifiers : Bool) (p : Nat) (postArg : Id)
    (n : Nat) (old new : Id) : Option Exc :=
  match (if c.hasPost then E.post p postArg else .ok ()) with
  | .error e => some e
  | .ok _ =>
    match (if hasNotifiers then E.notify n (old, new) else .ok ()) with
    | .error e => some e
    | .ok _ => none

/-! ## `getattr_trait` (ctraits.c:1953-2012)

Called with the dict-operation ordinal `d` and the `post` / `notify` ordinals.
Returns the exception (if any), the materialised default and the state. -/
def getattrTrait (E : Env) (c : TraitCfg) (s : St) (name : String) (key : Id) (d p n : Nat) :
    Option Exc × Option Id × St :=
  -- :1979 result = default_value_for(trait, obj, name);
  match E.dflt 0 () with
  | .error e => (some e, none, s)
  | .ok result =>
    -- :1983 rc = PyDict_SetItem(dict, name, result);  (error: Py_DECREF(result))
    if !E.hashOk d then (some hashExc, none, s)
    else
      -- :1989-2005 post_setattr, then notifiers with old = Uninitialized; `goto error` keeps the slot
      let r := afterStore E c s.hasNotifiers p result n uninit result
      (r, if r.isNone then some result else none, { s with dict := dictSet s.dict name key result })

/-! ## `setattr_trait`, assignment branch (ctraits.c:2447-2552) -/

/-- The value `setattr_trait` stores: the original one under
`TRAIT_SETATTR_ORIGINAL_VALUE`, else what the validator returned (:2478-2479). -/
def storedOf (c : TraitCfg) (v value : Id) : Id := if c.origValue then v else value

/-- :2372, 2505-2507  `changed = flags & COMPARISON_MODE_NONE; if (!changed) changed = (old_value != value);`
(the second statement only runs when `old_value` was fetched). -/
def changedOf (c : TraitCfg) (old : Option Id) (value : Id) : Bool :=
  c.cmpNone || (match old with | some o => o != value | none => false)

/-- From `PyDict_SetItem(dict, name, new_value)` (:2510) to the end. -/
def setFinish (E : Env) (c : TraitCfg) (s : St) (name : String) (key v value : Id)
    (old : Option Id) (d p : Nat) : Option Exc × St :=
  if !E.hashOk d then
    -- PyDict_SetItem failed:  Py_XDECREF(old_value); Py_DECREF(value); return -1;
    -- (the `Py_DECREF(name)` that used to stand here - `name` is borrowed - was removed by f934ab1)
    (some hashExc, s)
  else
    -- :2523-2537
    (if changedOf c old value then
        afterStore E c s.hasNotifiers p (if c.postOrig then v else value) 0 (old.getD uninit) (storedOf c v value)
      else none,
     { s with dict := dictSet s.dict name key (storedOf c v value) })

def setattrTrait (E : Env) (c : TraitCfg) (s : St) (name : String) (key v : Id) : Option Exc × St :=
  -- :2450-2459   (the harness never assigns `Undefined`)
  match (if c.hasValidate then E.validate 0 v else .ok v) with
  | .error e => (some e, s)
  | .ok value =>
    -- :2482-2485
    if c.hasPost || s.hasNotifiers then
      -- :2486 old_value = PyDict_GetItem(dict, name);   a failing hash is swallowed: NULL
      match (if E.hashOk 0 then lookup s.dict name else none) with
      | some old => setFinish E c s name key v value (some old) 1 0
      | none =>
        -- :2488-2497 (traitd == traito)  old_value = default_value_for(...)
        match E.dflt 0 () with
        | .error e => (some e, s)
        | .ok old =>
          -- :2498-2503 rc = PyDict_SetItem(dict, name, old_value);
          if !E.hashOk 1 then (some hashExc, s)
          else
            let s1 := { s with dict := dictSet s.dict name key old }
            -- :2504-2511 post_setattr(traitd, obj, name, old_value)
            match (if c.hasPost then E.post 0 old else .ok ()) with
            | .error e => (some e, s1)
            | .ok _ => setFinish E c s1 name key v value (some old) 2 (if c.hasPost then 1 else 0)
    else setFinish E c s name key v value none 0 0

/-! ## `setattr_trait`, deletion branch (ctraits.c:2391-2445) -/

def delattrTrait (E : Env) (c : TraitCfg) (s : St) (name : String) (key : Id) : Option Exc × St :=
  -- :2400-2403
  match lookup s.dict name with
  | none => (none, s)
  | some old =>
    -- :2405-2409
    let s1 := { s with dict := dictDel s.dict name }
    -- :2412-2415
    if !s.noNotify && s.listsExist then
      -- :2416 value = traito->getattr(traito, obj, name);
      match getattrTrait E c s1 name key 0 0 0 with
      | (some e, _, s2) => (some e, s2)
      | (none, none, s2) => (none, s2)
      | (none, some value, s2) =>
        -- :2422-2436
        (if c.cmpNone || old != value then afterStore E c s.hasNotifiers 1 value 1 old value else none, s2)
    else (none, s1)

/-! ## Reading (`has_traits_getattro`, ctraits.c:836-884) -/

def getattr (E : Env) (c : TraitCfg) (s : St) (name : String) (key : Id) : Option Exc × St :=
  match lookup s.dict name with
  | some _ => (none, s)           -- :852-856 value found in the dict: returned with its own new reference
  | none =>
    match getattrTrait E c s name key 0 0 0 with
    | (e, _, s') => (e, s')

inductive Op where
  | set (name : String) (key v : Id)
  | del (name : String) (key : Id)
  | get (name : String) (key : Id)
  deriving Repr

def step (E : Env) (c : TraitCfg) (s : St) : Op → Option Exc × St
  | .set name key v => setattrTrait E c s name key v
  | .del name key => delattrTrait E c s name key
  | .get name key => getattr E c s name key

/-! ## `validate_trait_tuple_check` (ctraits.c: the element-wise tuple validator)

A validator that builds a NEW result.  The ledger here is the list of
reference-count events on the ITEM objects: the new reference every element
validator hands back, the `Py_INCREF`s / `Py_DECREF`s of the function itself,
and - when the partly built tuple is dropped on failure - the release of
every slot filled so far.  `PyTuple_SET_ITEM` steals: it is no event. -/

inductive Ev where
  | inc (id : Id)
  | dec (id : Id)
  deriving DecidableEq, Repr

/-- Net reference-count change of object `id` over a list of events. -/
def net (evs : List Ev) (id : Id) : Int :=
  ((evs.filter (· = .inc id)).length : Int) - ((evs.filter (· = .dec id)).length : Int)

/-- Outcome: `none` = validation failed (NULL); `some none` = the value tuple
itself is returned (with its own new reference); `some (some l)` = a new tuple
with items `l`. -/
structure TupleOut where
  result : Option (Option (List Id))
  exc : Option Exc := none
  evs : List Ev
  deriving Repr

/-- The loop, from index `i` with `bs` the items still to do and `t` the new
tuple if one has been started (its filled slots, in order).  `ev i b` is the
element validator of position `i` (`itrait->validate`, or the plain
`Py_INCREF` when the element trait has none): it returns a NEW reference. -/
def tupleLoop (ev : Nat → Id → Except Exc Id) (value : List Id) :
    Nat → List Id → Option (List Id) → List Ev → TupleOut
  | _, [], t, evs => ⟨some t, none, evs⟩
  | i, b :: bs, t, evs =>
    match ev i b with
    | .error e =>
      -- aitem == NULL:  Py_XDECREF(tuple); return NULL;   (a TraitError is cleared, anything else propagates)
      ⟨none, some e, evs ++ (t.getD []).map .dec⟩
    | .ok a =>
      let evs1 := evs ++ [.inc a]
      match t with
      | some l =>
        -- PyTuple_SET_ITEM(tuple, i, aitem);
        tupleLoop ev value (i + 1) bs (some (l ++ [a])) evs1
      | none =>
        if a ≠ b then
          -- tuple = PyTuple_New(n); for j < i: bitem = value[j]; Py_INCREF(bitem); SET_ITEM(tuple, j, bitem);
          -- SET_ITEM(tuple, i, aitem);
          tupleLoop ev value (i + 1) bs (some (value.take i ++ [a])) (evs1 ++ (value.take i).map .inc)
        else
          -- Py_DECREF(aitem);
          tupleLoop ev value (i + 1) bs none (evs1 ++ [.dec a])

def tupleCheck (ev : Nat → Id → Except Exc Id) (value : List Id) : TupleOut :=
  tupleLoop ev value 0 value none []

/-! ## `call_notifiers`: dispatch from a private snapshot (ctraits.c:2293-2329)

"Notifier lists are copied in order to prevent run-time modifications": the
trait-level list and the object-level (anytrait) list are concatenated into a
NEW list before the first call; the loop runs over that list.  Handlers may
do anything to the live lists meanwhile. -/

/-- What a handler does to the live notifier lists while it is being called. -/
inductive HAct where
  | nothing
  | removeSelf
  | remove (h : Id)
  /-- register a new handler `h` on the trait (`onTrait`) or on the object -/
  | add (h : Id) (onTrait : Bool)
  deriving DecidableEq, Repr

/-- The live lists: `tnotifiers` of the trait, `onotifiers` of the object. -/
structure Lists where
  t : List Id
  o : List Id
  deriving DecidableEq, Repr

def Lists.apply (l : Lists) (self : Id) : HAct → Lists
  | .nothing => l
  | .removeSelf => ⟨l.t.erase self, l.o.erase self⟩
  | .remove h => ⟨l.t.erase h, l.o.erase h⟩
  | .add h onTrait => if onTrait then ⟨l.t ++ [h], l.o⟩ else ⟨l.t, l.o ++ [h]⟩

/-- The loop over the snapshot: every entry is called, and its action applied to the live lists. -/
def dispatchLoop (act : Id → HAct) : List Id → Lists → List Id × Lists
  | [], l => ([], l)
  | h :: rest, l =>
    let r := dispatchLoop act rest (l.apply h (act h))
    (h :: r.1, r.2)

/-- One notification: snapshot = `tnotifiers ++ onotifiers` at the start. -/
def dispatch (act : Id → HAct) (l : Lists) : List Id × Lists := dispatchLoop act (l.t ++ l.o) l

/-! ## `_warn_on_attribute_error` (ctraits.c:1823-1867): a default computation that fails

`default_value_for` calls it with the result of the user's callable (a
`_name_default` method, an `Instance` factory, a callable default, the
validator applied to a computed default).  When the call failed with an
`AttributeError`, a `UserWarning` is issued; the warnings filter may turn that
warning into an exception, which then gets the `AttributeError` as `__cause__`.
The ledger follows the references to THE EXCEPTION OBJECT raised by the user's
code, statement by statement. -/
namespace Warn

/-- The action of the warnings filter that matches the `UserWarning`. -/
inductive Mode where
  | dflt | error | ignore | always
deriving DecidableEq, Repr

/-- `error`: `PyErr_WarnEx` returns -1 with the warning set as an exception. -/
def Mode.raises : Mode → Bool
  | .error => true
  | _ => false

/-- The warning is shown / recorded (once per location, a fresh location here). -/
def Mode.shows : Mode → Bool
  | .dflt => true
  | .always => true
  | _ => false

/-- Who owns references to the exception object. -/
structure Ledger where
  /-- the thread's error indicator -/
  indicator : Int
  /-- `_warn_on_attribute_error` itself -/
  own : Int
  /-- the `__cause__` slot of the `UserWarning` (which the error indicator owns) -/
  cause : Int
  warned : Bool
  warningRaised : Bool
deriving DecidableEq, Repr

/-- Called with `result == NULL`, the exception set.  `attrErr`: it matches `AttributeError`. -/
def warnOnAttributeError (attrErr : Bool) (m : Mode) : Ledger :=
  let l0 : Ledger := { indicator := 1, own := 0, cause := 0, warned := false, warningRaised := false }
  if !attrErr then l0
  else
    -- PyErr_Fetch: the indicator's reference is now ours
    let l1 : Ledger := { l0 with indicator := l0.indicator - 1, own := l0.own + 1 }
    if m.raises then
      -- PyErr_NormalizeException / PyException_SetTraceback: no change for the exception object;
      -- PyErr_Fetch(warning); PyException_SetCause(warn_value, exc_value) STEALS our reference;
      -- PyErr_Restore(warning); the clean-up releases exc_type and exc_traceback only
      { l1 with own := l1.own - 1, cause := l1.cause + 1, warningRaised := true }
    else
      -- PyErr_Restore(exc_type, exc_value, exc_traceback) steals our reference for the indicator
      { l1 with own := l1.own - 1, indicator := l1.indicator + 1, warned := m.shows }

/-- How the value was asked for. -/
inductive Access where
  | getattr | hasattr | getattr3 | traitGet | defaultValueFor | setattrNotify
deriving DecidableEq, Repr

/-- `hasattr`, three-argument `getattr` and `trait_get` clear an `AttributeError`. -/
def Access.swallowsAttributeError : Access → Bool
  | .hasattr => true
  | .getattr3 => true
  | .traitGet => true
  | _ => false

inductive Out where
  | orig | warning | swallowed
deriving DecidableEq, Repr

/-- What the caller observes: what came out, whether its `__cause__` is the exception object, whether a warning
was recorded, the references to the exception object held by what came out, and the references left over once
that has been released (what `_warn_on_attribute_error` still "owns": zero for a neutral function). -/
structure Seen where
  out : Out
  cause : Bool
  warned : Bool
  held : Int
  after : Int
deriving DecidableEq, Repr

def observe (attrErr : Bool) (m : Mode) (a : Access) : Seen :=
  let l := warnOnAttributeError attrErr m
  if l.warningRaised then
    { out := .warning, cause := l.cause == 1, warned := l.warned, held := l.cause, after := l.own }
  else if attrErr && a.swallowsAttributeError then
    { out := .swallowed, cause := false, warned := l.warned, held := 0, after := l.own }
  else
    { out := .orig, cause := false, warned := l.warned, held := l.indicator, after := l.own }

end Warn

/-! ## Raw `CTrait` API: who owns the objects a trait's fields point to

A machine of three events - `incref o`, `decref o`, `store slot value` - over
a flat array of reference-holding slots (slot `6·t + f`: field `f` of trait `t`,
fields in the order `py_post_setattr, py_validate, default_value,
delegate_name, delegate_prefix, handler`) and a reference count per object
(only the references OWNED BY TRAIT FIELDS AND BY THE RUNNING C FUNCTION are
counted; what the caller holds is a constant on top).  Tree of 86511b4: every
entry point stores the new value before it releases the old one (F79, d96fc77)
and releases what it overwrites (F79b, 86511b4).  Every C entry point is
the event list it performs, in source order, so that ALIASED arguments
(`t.clone(t)`, the object a field already holds) need no special case.
Foreign code (finalizers, weak-reference callbacks) can run right after every
`decref`: those states are the CHECKPOINTS.  The safety invariant is that at
every checkpoint and at the end every pointer is backed by a reference. -/
namespace Raw

inductive Ev where
  | incref (o : Nat)
  | decref (o : Nat)
  | store (i : Nat) (v : Option Nat)
deriving Repr

structure MS where
  ptr : List (Option Nat)
  rc : Nat → Int

/-- Number of slots that point to `o`. -/
def MS.held (s : MS) (o : Nat) : Nat := s.ptr.count (some o)

/-- Contents of slot `i` (`none`: NULL / `None`). -/
def MS.at (s : MS) (i : Nat) : Option Nat := s.ptr.getD i none

def bump (rc : Nat → Int) (o : Nat) (d : Int) : Nat → Int := fun x => if x = o then rc x + d else rc x

def ev (s : MS) : Ev → MS
  | .incref o => { s with rc := bump s.rc o 1 }
  | .decref o => { s with rc := bump s.rc o (-1) }
  | .store i v => { s with ptr := s.ptr.set i v }

def run (evs : List Ev) (s : MS) : MS := evs.foldl ev s

/-- The states in which foreign code can run: right after each `decref`. -/
def checkpoints : List Ev → MS → List MS
  | [], _ => []
  | .decref o :: es, s => ev s (.decref o) :: checkpoints es (ev s (.decref o))
  | e :: es, s => checkpoints es (ev s e)

/-- Every pointer is backed by a reference. -/
def MS.Inv (s : MS) : Prop := ∀ o, (s.held o : Int) ≤ s.rc o

def Safe (evs : List Ev) (s : MS) : Prop := (∀ c ∈ checkpoints evs s, c.Inv) ∧ (run evs s).Inv

def incs (vs : List (Option Nat)) : List Ev := vs.filterMap (fun v => v.map Ev.incref)
def decs (vs : List (Option Nat)) : List Ev := vs.filterMap (fun v => v.map Ev.decref)
def stores (ws : List (Nat × Option Nat)) : List Ev := ws.map (fun w => Ev.store w.1 w.2)

inductive Op where
  /-- `set_value` (handler, post_setattr, `__dict__`), `_trait_set_default_value` and (since d96fc77)
  `_trait_set_validate`: INCREF new; store; XDECREF old. -/
  | set (i new : Nat)
  /-- `Py_CLEAR(field)` (`trait_clear`). -/
  | clear (i : Nat)
  /-- `_trait_set_property` (since 86511b4): remember the old contents; the stores; the INCREFs; XDECREF of what
  was remembered. -/
  | put (ws : List (Nat × Option Nat))
  /-- `trait_clone` (since 86511b4): remember the target's contents; `trait->f = source->f; …`;
  `Py_XINCREF(trait->f); …`; XDECREF of what was remembered. -/
  | copy (dst src : List Nat)
  /-- `t.__setstate__(s.__getstate__())`: the state tuple holds a reference to every value while
  `_trait_setstate` remembers the old contents, stores, INCREFs and releases the old contents; then the tuple
  goes away. -/
  | restate (dst src : List Nat)
  /-- a field set again from its own getter (`t.handler = t.handler`). -/
  | reset (i : Nat)
  /-- getters: a new reference each, released by the caller. -/
  | read (is : List Nat)

/-- The event list of `put`: `olds` are the contents of the written slots BEFORE the call. -/
def putEvents (s : MS) (ws : List (Nat × Option Nat)) : List Ev :=
  stores ws ++ incs (ws.map (·.2)) ++ decs (ws.map (fun w => s.at w.1))

def compile (s : MS) : Op → List Ev
  | .set i new => [.incref new, .store i (some new)] ++ decs [s.at i]
  | .clear i => [.store i none] ++ decs [s.at i]
  | .put ws => putEvents s ws
  | .copy dst src => putEvents s (dst.zip (src.map s.at))
  | .restate dst src =>
    incs (src.map s.at) ++ putEvents s (dst.zip (src.map s.at)) ++ decs (src.map s.at)
  | .reset i =>
    match s.at i with
    | none => []
    | some o => [.incref o, .incref o, .store i (some o), .decref o, .decref o]
  | .read is => incs (is.map s.at) ++ decs (is.map s.at)

/-- The slots an operation writes are pairwise different (they are different fields of one trait). -/
def Op.WF : Op → Prop
  | .put ws => (ws.map (·.1)).Nodup
  | .copy dst src => dst.Nodup ∧ dst.length = src.length
  | .restate dst src => dst.Nodup ∧ dst.length = src.length
  | _ => True

/-- The slots an operation writes exist. -/
def Op.InRange (s : MS) : Op → Prop
  | .set i _ => i < s.ptr.length
  | .clear i => i < s.ptr.length
  | .put ws => ∀ w ∈ ws, w.1 < s.ptr.length
  | .copy dst _ => ∀ i ∈ dst, i < s.ptr.length
  | .restate dst _ => ∀ i ∈ dst, i < s.ptr.length
  | _ => True

/-- References to `o` that no slot accounts for (held by the caller, or leaked). -/
def MS.slack (s : MS) (o : Nat) : Int := s.rc o - (s.held o : Int)

/-- One API call: the checkpoint states and the state afterwards. -/
def step (s : MS) (op : Op) : List MS × MS := (checkpoints (compile s op) s, run (compile s op) s)

/-- Objects that were dying (count zero or less) at a checkpoint while a slot still pointed to them. -/
def visibleDying (cs : List MS) (objs : List Nat) : List Nat :=
  objs.filter (fun o => cs.any (fun c => decide (c.rc o ≤ 0) && decide (0 < c.held o)))

end Raw

end TraitsVerif.Model.RefLedger
