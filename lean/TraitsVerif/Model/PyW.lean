/-
PyW — the subset of Python in which the notifier wrappers of traits/trait_notifiers.py and
traits/observation/{_trait_event_notifier,_has_traits_helpers}.py are written, deep-embedded, with a big-step
interpreter.  `harness/translate/pywrap.py` translates the source text (Python `ast`, locals numbered, fails closed)
of

  _change_accepted · ctrait_prevent_event · AbstractStaticChangeNotifyWrapper.__call__ ·
  TraitChangeNotifyWrapper.{__call__, dispatch, _dispatch_change_event, _notify_function_listener,
  _notify_method_listener} · TraitEventNotifier.__call__

into `Generated/WrapProg.lean`; `Props/C02.lean` (`C02_wrappers_are_source`) proves `Model/Wrappers.lean`'s filters
and `Model.Attr.callWrapper` equal to the interpretation.

The interpreter fixes: truthiness, `and`, `is`, early `return`, `try / except Exception / else` (the handler body
runs with the exception pending; falling off its end clears it), and the meaning of the calls the wrappers make
(`callFn`): the user handler (`E.handler`, logged, may unregister the wrapper), `==` / `!=` of user values (tables
`E.cmp`, may raise), `object._trait(name, 2)` (creates the instance trait), the exception-handler stacks (their
re-raise flag), the event tracers (None), weak references (alive: the model has no dead listeners).
-/
import TraitsVerif.Model.SetAttr
namespace TraitsVerif.Model.PyW
open TraitsVerif TraitsVerif.Model.Attr

/-- One component of the argument tuple a handler receives. -/
inductive Sel where
  | obj | name | old | new
  deriving DecidableEq, Repr

inductive Val where
  | stuck | none
  | bool (b : Bool)
  | int (n : Int)
  /-- a user value (by identity) -/
  | id (i : Id)
  | object | name | self | trait | args | event | handler | weak | exc
  /-- the handler passed to `equals` -/
  | cand
  /-- a method name -/
  | nameV (k : Nat)
  /-- `type(x)` / `MethodType`: is it the bound-method type? -/
  | ty (isMethod : Bool)
  /-- the argument tuple built for the user's handler: the selected components of (object, name, old, new) -/
  | tuple (sels : List Sel) (old new : Id)
  /-- `handler.__func__` -/
  | funcOf
  /-- `type(self)._notify_method_listener` (true) / `_notify_function_listener` (false) -/
  | listenerRef (method : Bool)
  /-- `self.argument_transforms[n]` -/
  | xformV (n : Int)
  /-- the notifier list `owner` / the `target` object / a bound method of the wrapper passed as a callback -/
  | ownerList | target | callback
  deriving DecidableEq, Repr

inductive Glob where
  | Uninitialized | pre_tracer | post_tracer | MethodType | other (s : String)
  deriving DecidableEq, Repr

inductive Attr where
  | type | comparison_mode | old | new | object | name | handler | notify_listener | dunder_self | dunder_name
  | dunder_func | owner | argument_transform | listener_deleted
  | other (s : String)
  deriving DecidableEq, Repr

/-- The callee shapes the wrappers use. -/
inductive Fn where
  | change_accepted          -- `_change_accepted(object, name, old, new)`
  | bool                     -- `bool(x)`
  | getattr                  -- `getattr(obj, self.name)`
  | handle_exception_legacy  -- trait_notifiers.handle_exception(object, name, old, new)
  | handle_exception_observe -- observation.exception_handling.handle_exception(event)
  | object_trait             -- `object._trait(name, 2)`
  | event_trait              -- `event.object.trait(event.name)`
  | argument_transform       -- `self.argument_transform(object, name, old, new)`
  | user_handler             -- `self.handler(*args)` / `handler(*args)` / `self.dispatcher(handler, event)`
  | dispatch                 -- `self.dispatch(handler, *args)`
  | dispatch_change_event    -- `self._dispatch_change_event(object, name, old, new, handler)`
  | notify_listener          -- `self.notify_listener(self, object, name, old, new)`
  | weak_deref               -- `ref()` of a weak reference: `self.target()`, `self.handler()`, `obj_weak_ref()`
  | event_factory            -- `self.event_factory(*args, **kwargs)`
  | prevent_event            -- `self.prevent_event(event)`
  | tracer                   -- `_pre_change_event_tracer(...)` / `_post_change_event_tracer(...)`
  | type_of                  -- `type(x)`
  | owner_deref              -- `self.object()`: the listener object of a method wrapper (None when dead)
  | owner_remove             -- `self.owner.remove(self)`: the wrapper takes itself out of the notifier list
  | argcount                 -- `f.__code__.co_argcount`
  | weakref_new              -- `weakref.ref(obj, callback)`
  deriving DecidableEq, Repr

inductive Expr where
  | loc (i : Nat)
  | noneLit
  | boolLit (b : Bool)
  | intLit (n : Int)
  | glob (g : Glob)
  /-- `Enum.member` (its value) / `Enum.member.name` (names are unique, so the value stands for it) -/
  | enumMember (tbl : List (String × Int)) (m : String)
  | attr (e : Expr) (a : Attr)
  | isE (a b : Expr) | isNot (a b : Expr) | eq (a b : Expr) | ne (a b : Expr)
  | and (a b : Expr) | not (a : Expr)
  | call (f : Fn) (args : List Expr)
  | sub (a b : Expr) | gt (a b : Expr)
  /-- `type(self)._notify_method_listener` / `._notify_function_listener` -/
  | listenerRef (method : Bool)
  /-- `self.argument_transforms[e]` -/
  | xformAt (e : Expr)
  deriving Repr

inductive Stmt where
  | pass
  | seq (a b : Stmt)
  | assign (i : Nat) (e : Expr)
  | expr (e : Expr)
  | ifS (c : Expr) (t e : Stmt)
  | ret (e : Expr)
  /-- `try: b  except Exception [as v]: h  else: o` -/
  | tryS (b : Stmt) (v : Option Nat) (h o : Stmt)
  /-- `self.a = self.b = … = e` (`n` wrapper attributes; the model keeps no wrapper fields) -/
  | setSelf (attrs : List Attr) (e : Expr)
  /-- `raise TraitNotificationError(…)` -/
  | raiseNotification
  deriving Repr

structure Func where
  nparams : Nat
  body : Stmt
  deriving Repr

/-- A handler as `on_trait_change(handler, …)` / `equals(handler)` receives it. -/
inductive Cand where
  /-- the wrapper itself -/
  | self
  /-- a plain function (by identity) -/
  | func (f : Id)
  /-- a bound method `owner.name` (`owner = none`: `__self__` is None) -/
  | method (owner : Option Id) (name : Nat)
  deriving DecidableEq, Repr

/-- What the interpreter is run with: the environment, the trait, the wrapper being called (its notifier-list
entry and the list it sits in) and the change it is called with. -/
structure WC where
  E : Env
  t : TraitCore
  n : Notifier
  loc : Loc
  old : Id
  new : Id
  /-- `self.name`: the method name of a method wrapper, None for a function wrapper -/
  wrapName : Option Nat := none
  /-- what the weak reference `self.object` of a method wrapper refers to (None: the listener is gone) -/
  wrapOwner : Option Id := none
  /-- `self.handler` of a function wrapper -/
  wrapFn : Id := 0
  /-- the handler `equals` is asked about -/
  cand : Cand := .func 0
  /-- `self.argument_transform`: the entry of `argument_transforms` chosen in `__init__` for the handler's arity -/
  xform : List Sel := [.obj, .name, .old, .new]
  /-- does the weak reference to the owner of a method wrapper still refer to something? -/
  ownerAlive : Bool := true
  /-- `co_argcount` of the function underlying the handler given to `init` (`self` included for a method) -/
  candArgc : Nat := 4

structure MS where
  vars : Nat → Val
  s : OSt
  /-- the exception being handled (inside an `except` block) -/
  cur : Option Exc := none
  /-- the wrapper attributes assigned so far (`self.a = …`), oldest first -/
  attrs : List (Attr × Val) := []

inductive Flow where
  | next
  | returned (v : Val)
  | raised (e : Exc)

def truthy : Val → Bool
  | .none => false
  | .bool b => b
  | .int n => decide (n ≠ 0)
  | .stuck => false
  | _ => true

def setVar (vars : Nat → Val) (i : Nat) (v : Val) : Nat → Val :=
  fun j => if j = i then v else vars j

def bindArgs : Nat → List Val → Nat → Val
  | _, [] => fun _ => .stuck
  | k, v :: vs => fun j => if j = k then v else bindArgs (k + 1) vs j

/-- Result of evaluating an expression: a value or a raised exception. -/
abbrev R := Except Exc Val × MS

def triVal (ms : MS) : Tri → R
  | .yes => (.ok (.bool true), ms)
  | .no => (.ok (.bool false), ms)
  | .raises => (.error .other, ms)

def getGlob : Glob → Val
  | .Uninitialized => .id uninit
  | .pre_tracer => .none
  | .post_tracer => .none
  | .MethodType => .ty true
  | .other _ => .stuck

def getAttr (C : WC) : Val → Attr → Val
  | .trait, .type => .int (C.t.kind.toNat : Nat)
  | .trait, .comparison_mode => .int (comparisonModeInt C.t.flags : Nat)
  | .event, .old => .id C.old
  | .event, .new => .id C.new
  | .event, .object => .object
  | .event, .name => .name
  | .self, .handler => .handler
  | .self, .listener_deleted => .callback
  | .cand, .dunder_func => (match C.cand with | .method _ _ => .funcOf | _ => .stuck)
  | .self, .object => .weak
  | .self, .name => (match C.wrapName with | some k => .nameV k | none => .none)
  | .cand, .dunder_self => (match C.cand with | .method (some o) _ => .id o | .method none _ => .none | _ => .stuck)
  | .cand, .dunder_name => (match C.cand with | .method _ k => .nameV k | _ => .stuck)
  | _, _ => .stuck

/-- The user's handler is called with the change: logged, may raise, may unregister the wrapper. -/
def invoke (C : WC) (ms : MS) : R :=
  let s := ms.s
  let ord := s.ctx.log.length
  let s1 : OSt := { s with ctx := { s.ctx with log := s.ctx.log ++ [⟨s.self, C.n.h, C.old, C.new⟩] } }
  match C.E.handler C.n.h ord (C.old, C.new) with
  | .ok .stay => (.ok .none, { ms with s := s1 })
  | .ok .removeSelf => (.ok .none, { ms with s := if C.n.kind = .static then s1 else s1.removeSelf C.n C.loc })
  | .error e => (.error e, { ms with s := s1 })

def callFn (C : WC) : Fn → List Val → MS → R
  | .change_accepted, [.object, .name, .id o, .id n], ms =>
    (.ok (.bool (changeAccepted C.E.cmp C.t.kind C.t.flags o n)),
     { ms with s := if o = uninit then ms.s else ms.s.ensureItrait })
  | .bool, [.bool b], ms => (.ok (.bool b), ms)
  | .getattr, [.object, .nameV _], ms => (.ok .handler, ms)
  | .handle_exception_legacy, [.object, .name, .id _, .id _], ms =>
    (match ms.cur with
     | some e => if C.E.reraiseLegacy then (.error e, ms) else (.ok .none, ms)
     | none => (.ok .stuck, ms))
  | .handle_exception_observe, [.event], ms =>
    (match ms.cur with
     | some e => if C.E.reraiseObserve then (.error e, ms) else (.ok .none, ms)
     | none => (.ok .stuck, ms))
  | .object_trait, [.object, .name, .int 2], ms => (.ok .trait, { ms with s := ms.s.ensureItrait })
  | .event_trait, [.object, .name], ms => (.ok .trait, ms)
  | .argument_transform, [.object, .name, .id o, .id n], ms =>
    (.ok (.tuple C.xform o n), ms)
  | .user_handler, [.tuple _ _ _], ms => invoke C ms
  | .user_handler, [.handler, .event], ms => invoke C ms
  | .dispatch, [.handler, .tuple _ _ _], ms => invoke C ms
  -- `self._dispatch_change_event(object, name, old, new, handler)`: tied to its own text by `dispatch_change_event_is_source`
  | .dispatch_change_event, [.object, .name, .id _, .id _, .handler], ms =>
    (match invoke C ms with
     | (.error e, ms1) => if C.E.reraiseLegacy then (.error e, ms1) else (.ok .none, ms1)
     | r => r)
  -- `self.notify_listener(self, object, name, old, new)`: `_notify_function_listener`, tied by `notify_function_is_source`
  | .notify_listener, [.self, .object, .name, .id o, .id n], ms =>
    (match callWrapper C.E C.t C.n C.loc o n ms.s with
     | (none, s) => (.ok .none, { ms with s := s })
     | (some e, s) => (.error e, { ms with s := s }))
  | .type_of, [.cand], ms => (.ok (.ty (match C.cand with | .method _ _ => true | _ => false)), ms)
  | .type_of, [.self], ms => (.ok (.ty false), ms)
  | .owner_deref, [.self], ms => (.ok (match C.wrapOwner with | some o => .id o | none => .none), ms)
  | .weak_deref, [.weak], ms => (.ok (if C.ownerAlive then .object else .none), ms)
  | .argcount, [.funcOf], ms => (.ok (.int C.candArgc), ms)
  | .argcount, [.cand], ms => (.ok (.int C.candArgc), ms)
  | .weakref_new, [.id _, .callback], ms => (.ok .weak, ms)
  | .weakref_new, [.target, .callback], ms => (.ok .weak, ms)
  | .owner_remove, [.self], ms => (.ok .none, { ms with s := ms.s.removeSelf C.n C.loc })
  | .weak_deref, [.handler], ms => (.ok .handler, ms)
  | .weak_deref, [.self], ms => (.ok .object, ms)
  | .event_factory, _, ms => (.ok .event, ms)
  | .prevent_event, [.event], ms => (.ok (.bool (preventEvent C.E.cmp C.t.kind C.t.flags C.old C.new)), ms)
  | _, _, ms => (.ok .stuck, ms)

mutual
def eval (C : WC) : Expr → MS → R
  | .loc i, ms => (.ok (ms.vars i), ms)
  | .noneLit, ms => (.ok .none, ms)
  | .boolLit b, ms => (.ok (.bool b), ms)
  | .intLit n, ms => (.ok (.int n), ms)
  | .glob g, ms => (.ok (getGlob g), ms)
  | .enumMember tbl m, ms => (.ok (match tbl.lookup m with | some v => .int v | none => .stuck), ms)
  | .attr e a, ms =>
    (match eval C e ms with
     | (.ok v, ms1) => (.ok (getAttr C v a), ms1)
     | r => r)
  | .isE a b, ms =>
    (match eval C a ms with
     | (.ok v, ms1) =>
       (match eval C b ms1 with
        | (.ok w, ms2) => (.ok (if v = .stuck ∨ w = .stuck then .stuck else .bool (decide (v = w))), ms2)
        | r => r)
     | r => r)
  | .isNot a b, ms =>
    (match eval C a ms with
     | (.ok v, ms1) =>
       (match eval C b ms1 with
        | (.ok w, ms2) => (.ok (if v = .stuck ∨ w = .stuck then .stuck else .bool (decide (v ≠ w))), ms2)
        | r => r)
     | r => r)
  | .eq a b, ms =>
    (match eval C a ms with
     | (.ok v, ms1) =>
       (match eval C b ms1 with
        | (.ok w, ms2) =>
          (match v, w with
           | .id x, .id y => triVal ms2 (C.E.cmp.eqv x y)
           | .int x, .int y => (.ok (.bool (decide (x = y))), ms2)
           | .nameV x, .nameV y => (.ok (.bool (decide (x = y))), ms2)
           | .nameV _, .none => (.ok (.bool false), ms2)
           -- `handler == self.handler`: callables compare by identity
           | .cand, .handler => (.ok (.bool (decide (C.cand = .func C.wrapFn))), ms2)
           | .self, .handler => (.ok (.bool false), ms2)
           | _, _ => (.ok .stuck, ms2))
        | r => r)
     | r => r)
  | .ne a b, ms =>
    (match eval C a ms with
     | (.ok v, ms1) =>
       (match eval C b ms1 with
        | (.ok w, ms2) =>
          (match v, w with
           | .id x, .id y => triVal ms2 (C.E.cmp.neq x y)
           | .int x, .int y => (.ok (.bool (decide (x ≠ y))), ms2)
           | _, _ => (.ok .stuck, ms2))
        | r => r)
     | r => r)
  | .and a b, ms =>
    (match eval C a ms with
     | (.ok v, ms1) => if v = .stuck then (.ok .stuck, ms1) else if truthy v then eval C b ms1 else (.ok v, ms1)
     | r => r)
  | .not a, ms =>
    (match eval C a ms with
     | (.ok v, ms1) => (.ok (if v = .stuck then .stuck else .bool (!truthy v)), ms1)
     | r => r)
  | .sub a b, ms =>
    (match eval C a ms with
     | (.ok (.int x), ms1) =>
       (match eval C b ms1 with
        | (.ok (.int y), ms2) => (.ok (.int (x - y)), ms2)
        | (.ok _, ms2) => (.ok .stuck, ms2)
        | r => r)
     | (.ok _, ms1) => (.ok .stuck, ms1)
     | r => r)
  | .gt a b, ms =>
    (match eval C a ms with
     | (.ok (.int x), ms1) =>
       (match eval C b ms1 with
        | (.ok (.int y), ms2) => (.ok (.bool (decide (x > y))), ms2)
        | (.ok _, ms2) => (.ok .stuck, ms2)
        | r => r)
     | (.ok _, ms1) => (.ok .stuck, ms1)
     | r => r)
  | .listenerRef b, ms => (.ok (.listenerRef b), ms)
  | .xformAt e, ms =>
    (match eval C e ms with
     | (.ok (.int n), ms1) => (.ok (if 0 ≤ n ∧ n ≤ 4 then .xformV n else .stuck), ms1)
     | (.ok _, ms1) => (.ok .stuck, ms1)
     | r => r)
  | .call f args, ms =>
    (match evalArgs C args ms with
     | (.ok vs, ms1) => callFn C f vs ms1
     | (.error e, ms1) => (.error e, ms1))
def evalArgs (C : WC) : List Expr → MS → Except Exc (List Val) × MS
  | [], ms => (.ok [], ms)
  | e :: es, ms =>
    (match eval C e ms with
     | (.ok v, ms1) =>
       (match evalArgs C es ms1 with
        | (.ok vs, ms2) => (.ok (v :: vs), ms2)
        | r => r)
     | (.error x, ms1) => (.error x, ms1))
end

def exec (C : WC) : Stmt → MS → MS × Flow
  | .pass, ms => (ms, .next)
  | .seq a b, ms =>
    (match exec C a ms with
     | (ms1, .next) => exec C b ms1
     | r => r)
  | .assign i e, ms =>
    (match eval C e ms with
     | (.ok v, ms1) => if v = .stuck then (ms1, .returned .stuck) else ({ ms1 with vars := setVar ms1.vars i v }, .next)
     | (.error x, ms1) => (ms1, .raised x))
  | .expr e, ms =>
    (match eval C e ms with
     | (.ok v, ms1) => if v = .stuck then (ms1, .returned .stuck) else (ms1, .next)
     | (.error x, ms1) => (ms1, .raised x))
  | .ifS c t e, ms =>
    (match eval C c ms with
     | (.ok v, ms1) => if v = .stuck then (ms1, .returned .stuck) else if truthy v then exec C t ms1 else exec C e ms1
     | (.error x, ms1) => (ms1, .raised x))
  | .ret e, ms =>
    (match eval C e ms with
     | (.ok v, ms1) => (ms1, .returned v)
     | (.error x, ms1) => (ms1, .raised x))
  | .setSelf as e, ms =>
    (match eval C e ms with
     | (.ok v, ms1) =>
       if v = .stuck then (ms1, .returned .stuck) else ({ ms1 with attrs := ms1.attrs ++ as.map (·, v) }, .next)
     | (.error x, ms1) => (ms1, .raised x))
  | .raiseNotification, ms => (ms, .raised .other)
  | .tryS b v h o, ms =>
    (match exec C b ms with
     | (ms1, .raised x) =>
       let ms2 : MS := { ms1 with cur := some x, vars := match v with | some i => setVar ms1.vars i .exc | none => ms1.vars }
       (match exec C h ms2 with
        | (ms3, .next) => ({ ms3 with cur := ms.cur }, .next)
        | (ms3, f) => ({ ms3 with cur := ms.cur }, f))
     | (ms1, .next) => exec C o ms1
     | r => r)

/-- A call as seen from outside: value returned / exception raised, and the object state. -/
def run (C : WC) (f : Func) (args : List Val) (s : OSt) : Except Exc Val × OSt :=
  if args.length ≠ f.nparams then (.ok .stuck, s) else
  match exec C f.body { vars := bindArgs 0 args, s := s } with
  | (ms, .returned v) => (.ok v, ms.s)
  | (ms, .next) => (.ok .none, ms.s)
  | (ms, .raised e) => (.error e, ms.s)

/-- `init`: what it returns / raises and the wrapper attributes it assigned. -/
def runInit (C : WC) (f : Func) (args : List Val) (s : OSt) : Except Exc Val × List (Attr × Val) :=
  if args.length ≠ f.nparams then (.ok .stuck, []) else
  match exec C f.body { vars := bindArgs 0 args, s := s } with
  | (ms, .returned v) => (.ok v, ms.attrs)
  | (ms, .next) => (.ok .none, ms.attrs)
  | (ms, .raised e) => (.error e, ms.attrs)

/-- How the model reports a wrapper call: a raw exception reaching `call_notifiers`, or none. -/
def ofWrapper : Option Exc × OSt → Except Exc Val × OSt
  | (none, s) => (.ok .none, s)
  | (some e, s) => (.error e, s)

end TraitsVerif.Model.PyW
