/-
Model of `HasTraits.sync_trait` and its two change handlers
(`traits/has_traits.py:2646-2807` of the pinned tree, i.e. the code *after* the
fixes 7706111 — extended-slice events propagate —, d1bf550 — the items handler
returns early when no partner is left — and the repair of F61 — the items
handler is registered with every `List` partner and removed with the last one).

* The `__sync_trait__` tables of all objects are one insertion-ordered list of
  `Edge`s: `⟨(o, n), (o', n')⟩` is the entry `(id(o'), n') ↦ (weakref(o'), n')`
  of `o.__sync_trait__[n]`.  The partners of `(o, n)`, in the order the dict
  iterates them, are the destinations of the edges with that source, in list
  order (a new key is appended; a deleted key leaves no trace).
* The lock tables `o.__sync_trait__[""]` are one list `locked` of
  (object, trait name) pairs.
* An object's traits hold `AVal`s: a scalar or a list.  Validators are
  parameters (`Env`): a callback per (object, trait name) for scalar traits,
  an item validator per (object, trait name) for `List` traits.
* A list trait is mutated through `Model.TraitList.step` (behind the length
  guard of `TraitListObject`, `Model.guardLen`), so the event a mutation emits
  is exactly property C05's normalised `Event`.
* Nested propagation (`setattr` on a partner runs the partner's own handlers,
  which run its partners' …) is the recursive function `cascade`.  Its first
  argument is the depth budget: CPython's recursion limit.  When it is
  exhausted a `RecursionError` (a `RuntimeError`) is raised, which the calling
  handler's bare `except: pass` swallows.  `C20_terminates` shows that the
  budget `budget w` is never exhausted: the result does not depend on it.
-/
import TraitsVerif.Model.TraitListObject
namespace TraitsVerif.Model.Sync
open TraitsVerif TraitsVerif.Py TraitsVerif.Model

abbrev Name := String

/-- (object id, trait name). -/
abbrev Pair := Nat × Name

/-- One partner entry: `dst.1`/`dst.2` registered in `src.1.__sync_trait__[src.2]`. -/
structure Edge where
  src : Pair
  dst : Pair
  deriving DecidableEq, Repr

/-- What a trait holds / what is assigned to it. -/
inductive AVal (α : Type) where
  | s (x : α)
  | l (xs : List α)
  deriving DecidableEq, Repr

/-- The heap the property talks about. -/
structure World (α : Type) where
  /-- current value of trait `p.2` of object `p.1` -/
  val : Pair → AVal α
  /-- calls of a recording `on_trait_change` handler on the trait itself -/
  nChg : Pair → Nat
  /-- calls of a recording handler on `name_items` -/
  nItems : Pair → Nat
  /-- all `__sync_trait__[name]` tables -/
  edges : List Edge
  /-- all `__sync_trait__[""]` tables -/
  locked : List Pair
  /-- the list traits on whose `name_items` event `_sync_trait_items_modified` is registered -/
  hooked : List Pair

/-- Parameters: which traits of which objects are `List` traits (`_is_list_trait`:
a property of the object's class and the name; the same name may be a `List`
trait on one object and not on another), the validators, `==` on items and `list.sort`. -/
structure Env (α : Type) where
  isList : Pair → Bool
  sv : Pair → Callback α α
  iv : Pair → Callback α α
  eq : α → α → Bool
  sort : Nat → List α → List α

variable {α : Type}

/-- The `TraitList` environment of the list held by `p`. -/
def Env.tl (E : Env α) (p : Pair) : Model.Env α := { v := E.iv p, eq := E.eq, sort := E.sort }

def upd {β : Type} (f : Pair → β) (p : Pair) (b : β) : Pair → β := fun r => if r = p then b else f r

/-- The list currently held by a list trait. -/
def World.list (w : World α) (p : Pair) : List α :=
  match w.val p with
  | .l xs => xs
  | .s _ => []

/-- `info[name].values()` in dict order: `[(weakref, alias), …]`. -/
def World.partners (w : World α) (p : Pair) : List Pair :=
  (w.edges.filter (fun e => e.src = p)).map (·.dst)

/-- `locked[name] = None` (has_traits.py:2758 / 2779). -/
def World.lock (w : World α) (p : Pair) : World α := { w with locked := p :: w.locked }

/-- `del locked[name]` (has_traits.py:2767 / 2792); a dict holds a key once. -/
def World.unlock (w : World α) (p : Pair) : World α := { w with locked := w.locked.filter (· ≠ p) }

/-- Validation done by `setattr(obj, name, value)`: a scalar trait validates
the value, a `List` trait builds a new `TraitListObject` from a list, validating
every item in order (`TraitList.__init__`); the wrong shape is a `TraitError`. -/
def validate (E : Env α) (p : Pair) : AVal α → Except Exc (AVal α)
  | .s x =>
    if E.isList p then .error .traitError
    else match E.sv p 0 x with
      | .error e => .error e
      | .ok y => .ok (.s y)
  | .l xs =>
    if E.isList p then
      match valAll (E.iv p) 0 xs with
      | .error e => .error e
      | .ok ys => .ok (.l ys)
    else .error .traitError

/-- One `setattr(obj, name, value)` as far as `obj` itself is concerned:
validate; if the stored value changes (`old != new`, ctraits `setattr_trait`),
store it and notify — the recording handler is counted, and the value the sync
handler `_sync_trait_modified(self, object, name, old, new)` will pass on is
returned. -/
def applyAssign [DecidableEq α] (E : Env α) (w : World α) (p : Pair) (v : AVal α) :
    Except Exc (World α × Option α × Option (AVal α)) :=
  match validate E p v with
  | .error e => .error e
  | .ok new =>
    if new = w.val p then .ok (w, none, none)
    else .ok ({ w with val := upd w.val p new, nChg := upd w.nChg p (w.nChg p + 1) }, none, some new)

/-- has_traits.py:2770-2788: what `_sync_trait_items_modified` does to a
partner's list for the event it received.
`index = event.index; if not isinstance(index, slice): index = slice(index, index + len(event.removed))`
`if event.added or index.step is None: partner[index] = event.added  else: del partner[index]`. -/
def eventOp (e : Event α) : Op α :=
  match e.index with
  | .idx n => .setSlice ⟨some n, some (n + e.removed.length), none⟩ e.added
  | .slc a b k =>
    if e.added.isEmpty then .delSlice ⟨some a, some b, some k⟩
    else .setSlice ⟨some a, some b, some k⟩ e.added

/-- A method call on the `TraitListObject` a `List` trait holds
(trait_list_object.py:627-806), for a `List` trait without `minlen`/`maxlen`:
each override first computes the argument of `_validate_length` — which raises
what `len(self[key])` raises, and the ValueError of an extended-slice assignment
of the wrong size, *before* any item is validated — then calls the `TraitList`
method. -/
def listStep (E : Model.Env α) (l : List α) (op : Op α) : Except Exc (Out α) :=
  match guardLen l op with
  | .error e => .error e
  | .ok _ => TraitList.step E l op

/-- One in-place mutation of the list held by `p`, as far as `p` itself is
concerned: the `TraitList` method, then — if it emitted an event — the
recording `name_items` handler, and the operation the sync handler will apply
to the partners, provided `_sync_trait_items_modified` is registered on
`name_items` (see `linkOne`).  `getattr(obj, name)[…]` on a non-list trait is a
TypeError. -/
def applyMutate (E : Env α) (w : World α) (p : Pair) (op : Op α) :
    Except Exc (World α × Option α × Option (Op α)) :=
  if E.isList p then
    match listStep (E.tl p) (w.list p) op with
    | .error e => .error e
    | .ok o =>
      match o.event with
      | none => .ok ({ w with val := upd w.val p (.l o.items) }, o.ret, none)
      | some e =>
        .ok ({ w with val := upd w.val p (.l o.items), nItems := upd w.nItems p (w.nItems p + 1) },
             o.ret, if p ∈ w.hooked then some (eventOp e) else none)
  else .error .typeError

/-- The body of the handler's loop for one partner `q`, `rec` being what
setting / mutating the partner's trait does:
`if object_name not in object._get_sync_trait_info()[""]: try: … except: pass`. -/
def visitPartner {π : Type} (rec : World α → Pair → π → Except Exc (World α × Option α)) (y : π)
    (acc : World α) (q : Pair) : World α :=
  if q ∈ acc.locked then acc
  else match rec acc q y with
    | .ok (acc', _) => acc'
    | .error _ => acc

/-- The shape shared by `_sync_trait_modified` (has_traits.py:2753-2767) and
`_sync_trait_items_modified` (2769-2792), with the change on `p` itself in
front (`apply`):

```
info = self.__sync_trait__
if name not in info: return
locked = info[""]; locked[name] = None
for object, object_name in info[name].values():
    object = object()
    if object_name not in object._get_sync_trait_info()[""]:
        try:    <set / mutate object.object_name>      -- runs the partner's own handlers: recursion
        except: pass
del locked[name]
```
-/
def cascade {π : Type} (apply : World α → Pair → π → Except Exc (World α × Option α × Option π)) :
    Nat → World α → Pair → π → Except Exc (World α × Option α)
  | 0, _, _, _ => .error .runtimeError
  | d + 1, w, p, x =>
    match apply w p x with
    | .error e => .error e
    | .ok (w1, r, none) => .ok (w1, r)
    | .ok (w1, r, some y) =>
      if (w1.partners p).isEmpty then .ok (w1, r)
      else .ok (((w1.partners p).foldl (visitPartner (cascade apply d) y) (w1.lock p)).unlock p, r)

/-- Enough depth for any propagation in `w` (see `C20_terminates`). -/
def World.budget (w : World α) : Nat := w.edges.length + 1

/-- Result of a command: the state it leaves, the value it returned (`pop`),
the exception that escaped. -/
structure Res (α : Type) where
  world : World α
  ret : Option α := none
  exc : Option Exc := none

def finish (w : World α) : Except Exc (World α × Option α) → Res α
  | .ok (w', r) => { world := w', ret := r }
  | .error e => { world := w, exc := some e }

/-- `setattr(obj, name, v)` on object `p.1`. -/
def World.assign [DecidableEq α] (E : Env α) (w : World α) (p : Pair) (v : AVal α) : Res α :=
  finish w (cascade (applyAssign E) w.budget w p v)

/-- `getattr(obj, name).<mutator>(…)` on object `p.1`. -/
def World.mutate (E : Env α) (w : World α) (p : Pair) (op : Op α) : Res α :=
  finish w (cascade (applyMutate E) w.budget w p op)

/-- has_traits.py:2731-2748 (with the repair of finding F61), one direction of
`sync_trait(…, remove=False)`:
```
if key not in dic:
    if len(dic) == 0:
        self._on_trait_change(self._sync_trait_modified, trait_name)
    if is_list:
        self._on_trait_change(self._sync_trait_items_modified, trait_name + "_items")
    dic[key] = value
    setattr(object, alias, getattr(self, trait_name))
```
`is_list` = both traits are `List` traits (2683).  `_sync_trait_modified` is
registered exactly while the table entry exists — or stays registered after a
partner died, when it returns at once — so it needs no state of its own;
`on_trait_change` does not register the same handler twice, so the items handler
is registered with every `List` partner, whichever partner came first.  The
entry and the handlers stay when the `setattr` raises. -/
def World.register (E : Env α) (w : World α) (p q : Pair) : World α :=
  { w with edges := w.edges ++ [(⟨p, q⟩ : Edge)],
           hooked := if E.isList p && E.isList q && !(decide (p ∈ w.hooked))
                     then p :: w.hooked else w.hooked }

def World.linkOne [DecidableEq α] (E : Env α) (w : World α) (p q : Pair) : Res α :=
  if (⟨p, q⟩ : Edge) ∈ w.edges then { world := w }
  else (w.register E p q).assign E q (w.val p)

/-- `self.sync_trait(p.2, object, q.2, mutual)`; the mutual half is
`object.sync_trait(alias, self, trait_name, False)` (has_traits.py:2742-2743),
not reached when the first half raised. -/
def World.link [DecidableEq α] (E : Env α) (w : World α) (p q : Pair) (both : Bool) : Res α :=
  let r := w.linkOne E p q
  match r.exc with
  | some _ => r
  | none => if both then r.world.linkOne E q p else r

/-- has_traits.py:2687-2717 (with the repair of finding F61):
`if key in dic: del dic[key]`; when it was the last key the table entry and
`_sync_trait_modified` go; the items handler goes when a `List` partner was
removed and no `List` partner is left
(`if is_list and not any(other()._is_list_trait(other_alias) for other, other_alias in dic.values())`),
whatever other partners remain; mutual = the same on the partner. -/
def World.unlinkOne (E : Env α) (w : World α) (p q : Pair) : World α :=
  if (⟨p, q⟩ : Edge) ∈ w.edges then
    let es := w.edges.filter (fun e => e ≠ (⟨p, q⟩ : Edge))
    { w with edges := es,
             hooked := if E.isList p && E.isList q &&
                          !(es.any (fun e => decide (e.src = p) && E.isList e.dst))
                       then w.hooked.filter (· ≠ p) else w.hooked }
  else w

def World.unlink (E : Env α) (w : World α) (p q : Pair) (both : Bool) : World α :=
  if both then (w.unlinkOne E p q).unlinkOne E q p else w.unlinkOne E p q

/-- Object `o` is garbage-collected: its own tables go with it, and the weakref
callbacks `_sync_trait_listener_deleted` (has_traits.py:2716-2723) delete its
entries from every other object's tables (the handlers stay registered). -/
def World.kill (w : World α) (o : Nat) : World α :=
  { w with edges := w.edges.filter (fun e => e.src.1 ≠ o ∧ e.dst.1 ≠ o),
           locked := w.locked.filter (fun p => p.1 ≠ o),
           hooked := w.hooked.filter (fun p => p.1 ≠ o) }

/-- The commands of a history. -/
inductive Cmd (α : Type) where
  | assign (p : Pair) (v : AVal α)
  | mutate (p : Pair) (op : Op α)
  | link (p q : Pair) (both : Bool)
  | unlink (p q : Pair) (both : Bool)
  | kill (o : Nat)

def World.step [DecidableEq α] (E : Env α) (w : World α) : Cmd α → Res α
  | .assign p v => w.assign E p v
  | .mutate p op => w.mutate E p op
  | .link p q m => w.link E p q m
  | .unlink p q m => { world := w.unlink E p q m }
  | .kill o => { world := w.kill o }

/-- A history; an exception leaves the state the failing command left. -/
def World.run [DecidableEq α] (E : Env α) : World α → List (Cmd α) → World α
  | w, [] => w
  | w, c :: cs => World.run E (w.step E c).world cs

/-- The order in which a propagation started on `p` (with `L` locked) reaches
traits, if every change goes through — a function of the link tables only. -/
def visit (es : List Edge) : Nat → List Pair → Pair → List Pair
  | 0, _, _ => []
  | d + 1, L, p =>
    p :: ((es.filter (fun e => e.src = p)).map (·.dst)).flatMap
      (fun q => if q ∈ p :: L then [] else visit es d (p :: L) q)

end TraitsVerif.Model.Sync
