/-
Cluster `obs`: notifier lists and the two `add_to` / `remove_from` pairs.

Mirrors traits/observation/_trait_event_notifier.py (reference-counted user
notifiers, lines 127-201, `equals` 203-221) and _observer_change_notifier.py
(maintainers: append / remove the first equal one, lines 98-128, `equals` 160-189).
-/
import TraitsVerif.Model.ObsGraph
namespace TraitsVerif.Model.Obs
open TraitsVerif

inductive Notifier where
  | user (k : HKey) (rc : Nat)                    -- TraitEventNotifier with `_ref_count`
  | maint (mk : MKind) (g : Graph) (k : HKey)     -- ObserverChangeNotifier
  deriving Repr

def Notifier.key : Notifier → NKey
  | .user k _ => .user k
  | .maint mk g k => .maint mk g k

/-- Notifier lists per observable, as an association list (an observable that
does not occur has no notifiers). -/
abbrev Hooks := List (Observable × List Notifier)

def Hooks.empty : Hooks := []

def Hooks.get : Hooks → Observable → List Notifier
  | [], _ => []
  | (o', l) :: H, o => if o' = o then l else Hooks.get H o

def Hooks.upd (H : Hooks) (o : Observable) (l : List Notifier) : Hooks :=
  (o, l) :: H.filter (fun p => p.1 != o)

/-- `TraitEventNotifier.add_to`: bump the first equal notifier, else append
with count 1 (the fresh notifier's own count is 0, so the RuntimeError arm of
line 155 is unreachable). -/
def userAdd (k : HKey) : List Notifier → List Notifier
  | [] => [.user k 1]
  | .user k' rc :: ns => if k == k' then .user k' (rc + 1) :: ns else .user k' rc :: userAdd k ns
  | n :: ns => n :: userAdd k ns

/-- `TraitEventNotifier.remove_from`: first equal notifier; count 1 → removed from
the list, else decremented; a count of 0 in the list would go negative →
RuntimeError (line 190); none equal → NotifierNotFound. -/
def userRemove (k : HKey) : List Notifier → Except Exc (List Notifier)
  | [] => .error .notifierNotFound
  | .user k' rc :: ns =>
    if k == k' then
      (if rc = 1 then .ok ns else if rc = 0 then .error .runtimeError else .ok (.user k' (rc - 1) :: ns))
    else (userRemove k ns).map (.user k' rc :: ·)
  | n :: ns => (userRemove k ns).map (n :: ·)

/-- `ObserverChangeNotifier.add_to`: append. -/
def maintAdd (mk : MKind) (g : Graph) (k : HKey) (ns : List Notifier) : List Notifier :=
  ns ++ [.maint mk g k]

/-- `ObserverChangeNotifier.remove_from`: remove the first equal one. -/
def maintRemove (mk : MKind) (g : Graph) (k : HKey) : List Notifier → Except Exc (List Notifier)
  | [] => .error .notifierNotFound
  | n :: ns =>
    if n.key.equals (.maint mk g k) then .ok ns
    else (maintRemove mk g k ns).map (n :: ·)

def addKey : NKey → List Notifier → List Notifier
  | .user k, ns => userAdd k ns
  | .maint mk g k, ns => maintAdd mk g k ns

def removeKey : NKey → List Notifier → Except Exc (List Notifier)
  | .user k, ns => userRemove k ns
  | .maint mk g k, ns => maintRemove mk g k ns

/-- `notifier.add_to(observable)`. -/
def addItem (it : Item) (H : Hooks) : Hooks := H.upd it.1 (addKey it.2 (H.get it.1))

/-- `notifier.remove_from(observable)`. -/
def removeItem (it : Item) (H : Hooks) : Except Exc Hooks :=
  match removeKey it.2 (H.get it.1) with
  | .error e => .error e
  | .ok l => .ok (H.upd it.1 l)

/-- One iteration of a step of `_AddOrRemoveNotifier`: act on the items in order,
appending each to `_processed` (most recent first) after it succeeded
(_observe.py:144-181). -/
def applyOwn (rm : Bool) : List Item → Hooks → List Item → Hooks × List Item × Option Exc
  | [], H, done => (H, done, none)
  | it :: its, H, done =>
    if rm then
      match removeItem it H with
      | .error e => (H, done, some e)
      | .ok H' => applyOwn rm its H' (it :: done)
    else applyOwn rm its (addItem it H) (it :: done)

/-- `while self._processed: notifier, observable = self._processed.pop(); …`
(_observe.py:96-103).  Undoing an addition calls `remove_from`, which cannot
fail on something that was just added; should it, the hooks are left as they are. -/
def undo (rm : Bool) : List Item → Hooks → Hooks
  | [], H => H
  | it :: its, H =>
    undo rm its (if rm then addItem it H else
      match removeItem it H with
      | .ok H' => H'
      | .error _ => H)

/-! Counting abstraction used by the specification. -/

/-- Number of registrations equal to `q` held at a notifier list: reference
counts of equal user notifiers, number of equal maintainers. -/
def cntList (q : NKey) : List Notifier → Nat
  | [] => 0
  | .user k rc :: ns => (if (NKey.user k).equals q then rc else 0) + cntList q ns
  | .maint mk g k :: ns => (if (NKey.maint mk g k).equals q then 1 else 0) + cntList q ns

def cnt (H : Hooks) (o : Observable) (q : NKey) : Nat := cntList q (H.get o)

/-- Number of items of a from-scratch list that sit at `o` and equal `q`. -/
def cntItems (l : List Item) (o : Observable) (q : NKey) : Nat :=
  l.countP (fun it => it.1 == o && it.2.equals q)

/-- SPECIFICATION.  Number of paths from `x` along `g`, in heap `h`, that end in a
*notifying* node at observable `o` — computed from scratch.  It is what the
reference count of the user notifier on `o` has to be (0 = absent). -/
def reach (h : Heap) (k : HKey) (g : Graph) (x : W) (o : Observable) : Nat :=
  cntItems (hookList h k true g x) o (.user k)

/-- A registration: handler key, graph, root object. -/
structure Reg where
  k : HKey
  g : Graph
  x : Id

/-- SPECIFICATION.  What all active registrations together owe at `(o, q)`. -/
def specCnt (h : Heap) (regs : List Reg) (o : Observable) (q : NKey) : Nat :=
  (regs.map (fun r => cntItems (hookList h r.k true r.g (some r.x)) o q)).sum

end TraitsVerif.Model.Obs
