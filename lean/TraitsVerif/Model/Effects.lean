/-
The order of effects inside a container mutator, and what that order buys.

A mutator of TraitList / TraitDict / TraitSet is, on each control-flow path, a
sequence of effects: calls of the user's validator (V), length guards or
explicit raises (G), the builtin mutation `super().xxx(...)` (M) and the
notification (N).  `Generated/Effects.lean` holds these sequences as read from
the source (harness/translate/effects.py).  This file defines the order
discipline ("all V/G, then M, then at most one N") and an abstract machine that
runs an effect sequence with an arbitrary failure point, so that atomicity
becomes a theorem about *every* sequence obeying the discipline rather than a
by-construction fact of a functional model.
-/
namespace TraitsVerif.Model.Effects

inductive Eff where
  | V | G | M | N | D
  deriving DecidableEq, Repr

def Eff.ofChar : Char → Option Eff
  | 'V' => some .V
  | 'G' => some .G
  | 'M' => some .M
  | 'N' => some .N
  | 'D' => some .D
  | _ => none

def parse (s : String) : Option (List Eff) := s.toList.mapM Eff.ofChar

/-- Phase automaton: 0 = still validating, 1 = mutated, 2 = notified.
V and G only in phase 0; M in phases 0-1; N only right after the mutation and
at most once; delegation to another mutator (D) is not allowed in a path. -/
def ordered : Nat → List Eff → Bool
  | _, [] => true
  | ph, .V :: es => ph == 0 && ordered 0 es
  | ph, .G :: es => ph == 0 && ordered 0 es
  | ph, .M :: es => decide (ph ≤ 1) && ordered 1 es
  | ph, .N :: es => ph == 1 && ordered 2 es
  | _, .D :: _ => false

/-- `ordered` for a path given as a string; unknown letters are not ordered. -/
def orderedStr (s : String) : Bool :=
  match parse s with
  | some es => ordered 0 es
  | none => false

/-- What the outside world can see of a container during one operation. -/
structure St where
  mutated : Bool := false
  notified : Nat := 0
  deriving DecidableEq, Repr

def apply : Eff → St → St
  | .M, s => { s with mutated := true }
  | .N, s => { s with notified := s.notified + 1 }
  | _, s => s

/-- Run the effects from index `i`; `fails j` says that the j-th effect raises
(a raising effect has no effect of its own: a validator that raises returns
nothing, and a builtin operation that raises leaves the container alone —
the latter is CPython's contract, trusted).  Result: final state and the index
of the effect that raised, if any. -/
def exec (fails : Nat → Bool) : Nat → List Eff → St → St × Option Nat
  | _, [], s => (s, none)
  | i, e :: es, s => if fails i then (s, some i) else exec fails (i + 1) es (apply e s)

end TraitsVerif.Model.Effects
