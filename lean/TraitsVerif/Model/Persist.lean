/-
Model of pickling, copying and cloning of `HasTraits` objects and of the
container objects they hold (pinned tree):

  traits/has_traits.py:1281-1360   `__getstate__`, `__reduce_ex__`, `__setstate__`
  traits/has_traits.py:1362-1460   `trait_get`, `trait_set`
  traits/has_traits.py:1527-1693   `copyable_trait_names`, `copy_traits`, `clone_traits`, `__deepcopy__`
  traits/trait_types.py:2621-2637  `List.validate`   (2882-2895 `Set.validate`, 3052-3066 `Dict.validate`)
  traits/trait_list_object.py:571-590, 808-862   `TraitListObject.__init__`, `__deepcopy__`,
                                   `__getstate__`, `__setstate__`, `_item_validator`
  traits/trait_dict_object.py:440-520, 561-594   the same for `TraitDictObject`
  traits/trait_set_object.py:472-520, 557-602    the same for `TraitSetObject`
  traits/ctraits.c:1953-2012, 2373-2553, 2872-2907   `getattr_trait`, `setattr_trait`, `setattr_readonly`
  CPython `copy.copy` / `copy.deepcopy` / `pickle` of `list`, `dict`, `set` and of objects
  with `__reduce_ex__` (modelled, see TRUSTED in harness/props/c14.py)

A value is a tree: immutable leaves and container nodes.  A node carries its
*identity* (`id`, for the no-sharing clauses) and its *binding*, i.e. the
`object` weak reference and the `trait` reference that make a `Trait*Object`
validate and notify.  Values of `Instance` traits are leaves `ref o g`
(object `o`, copied `g` times): the recursion of pickle / deepcopy through
other objects is the pickle / copy driver's and is not modelled here.

Leaf validators are a parameter (`Env.lv`), pure.  Core Lean only; total.
-/
import TraitsVerif.Py.Basic
namespace TraitsVerif.Model.Persist
open TraitsVerif

/-! ## Values -/

inductive Leaf where
  | none
  | undefined
  | int (n : Int)
  | str (s : String)
  /-- another `HasTraits` object `o`, in its `g`-th generation of copies -/
  | ref (o : Nat) (g : Nat)
  deriving DecidableEq, Repr, Inhabited

inductive Kind where
  | lst | dct | st
  deriving DecidableEq, Repr

/-- A leaf trait (`Int`, `Str`, `CInt`, ...) is a tag interpreted by `Env.lv`. -/
abbrev LeafTy := Nat

/-- What a trait accepts.  `cont .lst _ item lo hi` = `List(item, minlen=lo, maxlen=hi)`;
`cont .dct keyT item _ _` = `Dict(keyT, item)`; `cont .st keyT _ _ _` = `Set(keyT)`. -/
inductive Shape where
  | any
  | leafT (t : LeafTy)
  | cont (k : Kind) (keyT : LeafTy) (item : Shape) (lo hi : Nat)
  deriving DecidableEq, Repr, Inhabited

/-- The `object` / `trait` pair of a container object. -/
inductive Binding where
  /-- a builtin `list` / `dict` / `set` -/
  | plain
  /-- a `Trait*Object` after `__setstate__`: `object()` is None and `trait` is None.
  `__getstate__` keeps the validator attributes (`item_validator`, …), which are bound methods of
  the SOURCE container: `via = some (object, trait)` of that source when `copy.copy` kept the method
  itself, `none` after pickling (the method then belongs to an unpickled, ownerless twin). -/
  | detached (via : Option (Option Nat × Shape))
  /-- `Trait*Object(trait, None, name, …)`, what `__deepcopy__` builds -/
  | ownerless (sh : Shape)
  /-- `Trait*Object(trait, o, name, …)` -/
  | bound (o : Nat) (sh : Shape)
  deriving DecidableEq, Repr, Inhabited

inductive CVal where
  | leaf (a : Leaf)
  /-- lists use `kids`; dicts use `keys` and `kids` (same length); sets use `keys` -/
  | node (k : Kind) (id : Nat) (b : Binding) (keys : List Leaf) (kids : List CVal)
  deriving Repr, Inhabited

structure Env where
  /-- `item_trait.validate(object, name, value)` of a leaf trait: pure -/
  lv : LeafTy → Leaf → Except Exc Leaf

/-! ## Observations on values -/

mutual
/-- Identities of all container nodes (the mutable parts) of a value. -/
def ids : CVal → List Nat
  | .leaf _ => []
  | .node _ i _ _ kids => i :: idsL kids
def idsL : List CVal → List Nat
  | [] => []
  | v :: vs => ids v ++ idsL vs
end

mutual
/-- The value alone: identities and bindings forgotten (`==` of Python). -/
def strip : CVal → CVal
  | .leaf a => .leaf a
  | .node k _ _ keys kids => .node k 0 .plain keys (stripL kids)
def stripL : List CVal → List CVal
  | [] => []
  | v :: vs => strip v :: stripL vs
end

/-! ## Leaves under copying -/

/-- A copy (pickle, `copy.copy`, `copy.deepcopy`) of a leaf made when the
allocator stands at `n`: immutable values are themselves; a referenced object
is replaced by a NEW copy of it (generation `n + 1`: never handed out before). -/
def Leaf.copiedAt (n : Nat) : Leaf → Leaf
  | .ref o _ => .ref o (n + 1)
  | a => a

def valLeaves (E : Env) (t : LeafTy) : List Leaf → Except Exc (List Leaf)
  | [] => .ok []
  | a :: as =>
    match E.lv t a with
    | .error e => .error e
    | .ok a' =>
      match valLeaves E t as with
      | .error e => .error e
      | .ok as' => .ok (a' :: as')

/-! ## Assignment: `List.validate` / `Dict.validate` / `Set.validate` + `Trait*Object.__init__`

`validate E o sh n v` = `handler.validate(o, name, v)` for a trait of shape
`sh`; `n` is the next unused node identity.  A container trait type-checks the
value (a `Trait*Object` *is* a `list`/`dict`/`set`), checks the length, and
builds a NEW container object bound to `o`, validating every item with the
inner trait - so nested containers are re-built recursively. -/
mutual
def validate (E : Env) (o : Nat) (sh : Shape) (n : Nat) : CVal → Except Exc (CVal × Nat)
  | .leaf a =>
    match sh with
    | .any => .ok (.leaf a, n)
    | .leafT t =>
      match E.lv t a with
      | .error e => .error e
      | .ok a' => .ok (.leaf a', n)
    | .cont .. => .error .traitError
  | .node k i b keys kids =>
    match sh with
    | .any => .ok (.node k i b keys kids, n)
    | .leafT _ => .error .traitError
    | .cont k' kT iT lo hi =>
      -- trait_types.py:2629-2631  isinstance(value, list) and minlen <= len(value) <= maxlen
      if k ≠ k' then .error .traitError
      else if k = .lst ∧ ¬ (lo ≤ kids.length ∧ kids.length ≤ hi) then .error .traitError
      else
        match valLeaves E kT keys with
        | .error e => .error e
        | .ok keys' =>
          match validateL E o iT (n + 1) kids with
          | .error e => .error e
          | .ok (kids', n') => .ok (.node k n (.bound o (.cont k' kT iT lo hi)) keys' kids', n')
def validateL (E : Env) (o : Nat) (sh : Shape) (n : Nat) : List CVal → Except Exc (List CVal × Nat)
  | [] => .ok ([], n)
  | v :: vs =>
    match validate E o sh n v with
    | .error e => .error e
    | .ok (v', n1) =>
      match validateL E o sh n1 vs with
      | .error e => .error e
      | .ok (vs', n2) => .ok (v' :: vs', n2)
end

/-! ## Copies of a value -/

/-- Binding of the object `pickle.loads(pickle.dumps(x))` / `copy.copy(x)`
builds: `__getstate__` drops `object` and `trait`, `__setstate__` puts
`lambda: None` and `None` (trait_list_object.py:822-850 and siblings). -/
def Binding.afterSetstate : Binding → Binding
  | .plain => .plain
  | _ => .detached none

/-- The (object, trait) pair the container's item validators consult. -/
def Binding.rule : Binding → Option (Option Nat × Shape)
  | .plain => none
  | .detached via => via
  | .ownerless sh => some (none, sh)
  | .bound o sh => some (some o, sh)

/-- Binding of `copy.copy(x)`: `__setstate__` as above, but the validator
attributes are the very bound methods of `x`. -/
def Binding.afterCopy : Binding → Binding
  | .plain => .plain
  | b => .detached b.rule

mutual
/-- `pickle.loads(pickle.dumps(v))` of a value. -/
def pickleV (n : Nat) : CVal → CVal × Nat
  | .leaf a => (.leaf (a.copiedAt n), n + 1)
  | .node k _ b keys kids =>
    let r := pickleL (n + 1) kids
    (.node k n b.afterSetstate (keys.map (Leaf.copiedAt n)) r.1, r.2)
def pickleL (n : Nat) : List CVal → List CVal × Nat
  | [] => ([], n)
  | v :: vs =>
    let r := pickleV n v
    let rs := pickleL r.2 vs
    (r.1 :: rs.1, rs.2)
end

/-- `copy.copy(v)`: a new outer container (via `__reduce_ex__`, `__setstate__`)
filled with the same items.  A list / dict subclass is refilled through
`append` / `__setitem__`, i.e. through the validator attributes just restored -
the SOURCE's bound methods: while the source's owner is alive every item is
validated again, and container items are re-built (bound to that owner).
A set is refilled by `set.__init__`, without validation. -/
def shallowV (E : Env) (n : Nat) : CVal → Except Exc (CVal × Nat)
  | .leaf a => .ok (.leaf (a.copiedAt n), n + 1)
  | .node k _ b keys kids =>
    match k, b.rule with
    | .lst, some (some o, .cont _ _ iT _ _) =>
      match validateL E o iT (n + 1) kids with
      | .error e => .error e
      | .ok (kids', n') => .ok (.node k n b.afterCopy keys kids', n')
    | .dct, some (some o, .cont _ kT iT _ _) =>
      match valLeaves E kT keys with
      | .error e => .error e
      | .ok keys' =>
        match validateL E o iT (n + 1) kids with
        | .error e => .error e
        | .ok (kids', n') => .ok (.node k n b.afterCopy keys' kids', n')
    | _, _ => .ok (.node k n b.afterCopy keys kids, n + 1)

mutual
/-- `copy.deepcopy(v)`.  `Trait*Object.__deepcopy__` builds
`Trait*Object(self.trait, None, self.name, [deepcopy(x) …])`
(trait_list_object.py:810-820): an owner-less object with the same trait.  For
a detached object (`self.trait` is None after `__setstate__`) the copy is again
a detached object (`__init__` accepts `trait=None` since dd9f9de; before it
raised AttributeError - finding F71). -/
def deepcopyV (n : Nat) : CVal → Except Exc (CVal × Nat)
  | .leaf a => .ok (.leaf (a.copiedAt n), n + 1)
  | .node k _ b keys kids =>
    match deepcopyL (n + 1) kids with
    | .error e => .error e
    | .ok (kids', n') =>
      match b with
      | .plain => .ok (.node k n .plain (keys.map (Leaf.copiedAt n)) kids', n')
      | .detached _ => .ok (.node k n (.detached none) (keys.map (Leaf.copiedAt n)) kids', n')
      | .ownerless sh => .ok (.node k n (.ownerless sh) (keys.map (Leaf.copiedAt n)) kids', n')
      | .bound _ sh => .ok (.node k n (.ownerless sh) (keys.map (Leaf.copiedAt n)) kids', n')
def deepcopyL (n : Nat) : List CVal → Except Exc (List CVal × Nat)
  | [] => .ok ([], n)
  | v :: vs =>
    match deepcopyV n v with
    | .error e => .error e
    | .ok (v', n1) =>
      match deepcopyL n1 vs with
      | .error e => .error e
      | .ok (vs', n2) => .ok (v' :: vs', n2)
end

/-! ## Traits and objects -/

inductive TKind where
  | value | readonly | event | property
  deriving DecidableEq, Repr

inductive CopyMode where
  | ref | shallow | deep
  deriving DecidableEq, Repr

structure Decl where
  name : String
  shape : Shape
  kind : TKind := .value
  /-- `transient` metadata is True (events always are) -/
  transient : Bool := false
  /-- `copy` metadata -/
  copy : Option CopyMode := none
  /-- default value (a leaf, or a plain container that is wrapped on first read) -/
  dflt : CVal := .leaf .none
  /-- the default is DYNAMIC and not reproducible (`_name_default` handing out a serial number, a
  uuid, a timestamp): every computation gives a value never seen before -/
  dyn : Bool := false
  deriving Repr

/-- One declared trait of one object with its `__dict__` entry. -/
structure Slot where
  decl : Decl
  val : Option CVal := none
  deriving Repr

structure Obj where
  oid : Nat
  slots : List Slot
  deriving Repr

/-- A fresh instance (`cls.__new__(cls)`): empty `__dict__`. -/
def Obj.fresh (oid : Nat) (decls : List Decl) : Obj := ⟨oid, decls.map (fun d => ⟨d, none⟩)⟩

/-- The default value computed when the allocator stands at `n`: the static
template, or - for a dynamic default - a value that no earlier computation gave
(the serial number `n`). -/
def defaultOf (sl : Slot) (n : Nat) : CVal × Nat :=
  if sl.decl.dyn then (.leaf (.int n), n + 1) else (sl.decl.dflt, n)

/-- Reading a slot (`getattr`): the stored value, else the default, which
`getattr_trait` computes (for container defaults: a new bound container object;
for a dynamic default: by calling the factory, ONCE) and stores
(ctraits.c:1979-1986) - so every later read gives the same value. -/
def readSlot (E : Env) (o : Nat) (n : Nat) (sl : Slot) : CVal × Slot × Nat :=
  match sl.val with
  | some v => (v, sl, n)
  | none =>
    match validate E o sl.decl.shape (defaultOf sl n).2 (defaultOf sl n).1 with
    | .ok (v, n') => (v, { sl with val := some v }, n')
    | .error _ => ((defaultOf sl n).1, { sl with val := some (defaultOf sl n).1 }, (defaultOf sl n).2)

/-- Assignment to a slot (`setattr`), by trait kind. -/
def assignSlot (E : Env) (o : Nat) (n : Nat) (sl : Slot) (v : CVal) : Except Exc (Slot × Nat) :=
  match sl.decl.kind with
  | .event =>
    -- setattr_event: validate, notify, store nothing
    match validate E o sl.decl.shape n v with
    | .error e => .error e
    | .ok (_, n') => .ok (sl, n')
  | .readonly =>
    -- setattr_readonly (ctraits.c:2872-2907): only while the slot is unset or Undefined
    match sl.val with
    | some (.leaf .undefined) | none =>
      match validate E o sl.decl.shape n v with
      | .error e => .error e
      | .ok (v', n') => .ok ({ sl with val := some v' }, n')
    | some _ => .error .traitError
  | .value | .property =>
    match validate E o sl.decl.shape n v with
    | .error e => .error e
    | .ok (v', n') => .ok ({ sl with val := some v' }, n')

/-! ## `__getstate__` / `__setstate__` (has_traits.py:1281-1360) -/

/-- `trait_get(transient=is_none)`: every trait without `transient` metadata. -/
def Decl.persisted (d : Decl) : Bool := !d.transient && d.kind != .event

/-- `__getstate__`: read every persisted trait, in class order.  Returns the
state (aligned with the slots), the object (defaults now materialised) and the
next identity. -/
def getstateL (E : Env) (o : Nat) : Nat → List Slot → List (Option CVal) × List Slot × Nat
  | n, [] => ([], [], n)
  | n, sl :: sls =>
    if sl.decl.persisted then
      let r := readSlot E o n sl
      let rs := getstateL E o r.2.2 sls
      (some r.1 :: rs.1, r.2.1 :: rs.2.1, rs.2.2)
    else
      let rs := getstateL E o n sls
      (none :: rs.1, sl :: rs.2.1, rs.2.2)

/-- `pickle.dumps` then `pickle.loads` of the state dict's values. -/
def pickleState : Nat → List (Option CVal) → List (Option CVal) × Nat
  | n, [] => ([], n)
  | n, none :: xs => let r := pickleState n xs; (none :: r.1, r.2)
  | n, some v :: xs =>
    let r := pickleV n v
    let rs := pickleState r.2 xs
    (some r.1 :: rs.1, rs.2)

/-- `__setstate__`: `trait_set(**state)` on a fresh instance - every value goes
through assignment; the first exception aborts the restore. -/
def setstateL (E : Env) (o : Nat) : Nat → List Slot → List (Option CVal) → Except Exc (List Slot × Nat)
  | n, [], _ => .ok ([], n)
  | n, sl :: sls, [] => .ok (sl :: sls, n)
  | n, sl :: sls, none :: xs =>
    match setstateL E o n sls xs with
    | .error e => .error e
    | .ok (sls', n') => .ok (sl :: sls', n')
  | n, sl :: sls, some v :: xs =>
    match assignSlot E o n sl v with
    | .error e => .error e
    | .ok (sl', n1) =>
      match setstateL E o n1 sls xs with
      | .error e => .error e
      | .ok (sls', n') => .ok (sl' :: sls', n')

/-- Result of a copy operation: the copy, the original (defaults materialised
by the reads), the next identity. -/
structure Copied where
  copy : Obj
  orig : Obj
  next : Nat
  deriving Repr

/-- `pickle.loads(pickle.dumps(obj, protocol))` into a new object `o'`. -/
def pickleRoundTrip (E : Env) (s : Obj) (o' : Nat) (n : Nat) : Except Exc Copied :=
  let g := getstateL E s.oid n s.slots
  let p := pickleState g.2.2 g.1
  match setstateL E o' p.2 (s.slots.map (fun sl => ⟨sl.decl, none⟩)) p.1 with
  | .error e => .error e
  | .ok (sls, n') => .ok ⟨⟨o', sls⟩, ⟨s.oid, g.2.1⟩, n'⟩

/-- `copy.copy(obj)`: `__reduce_ex__` state, not copied, into `__setstate__`. -/
def copyCopy (E : Env) (s : Obj) (o' : Nat) (n : Nat) : Except Exc Copied :=
  let g := getstateL E s.oid n s.slots
  match setstateL E o' g.2.2 (s.slots.map (fun sl => ⟨sl.decl, none⟩)) g.1 with
  | .error e => .error e
  | .ok (sls, n') => .ok ⟨⟨o', sls⟩, ⟨s.oid, g.2.1⟩, n'⟩

/-! ## `copy_traits` / `clone_traits` / `__deepcopy__` (has_traits.py:1546-1693) -/

/-- `copyable_trait_names`: `transient is not True`. -/
def Decl.copyable (d : Decl) : Bool := !d.transient && d.kind != .event

/-- has_traits.py:1598-1610: the `copy` metadata wins, then the `copy` argument. -/
def effMode (md arg : Option CopyMode) : CopyMode :=
  match md with
  | some .shallow => .shallow
  | some .ref => .ref
  | some .deep => .deep
  | none =>
    match arg with
    | some .deep => .deep
    | some .shallow => .shallow
    | _ => .ref

/-- The second dispatch chain of `copy_traits`, in the loop over the DEFERRED
traits (delegates and properties, has_traits.py:1616-1630), transcribed branch
by branch like `effMode` from the first: `shallow`, then `ref` (a no-op), then
`deep or deep_copy`, then `shallow_copy`. -/
def effModeDeferred (md arg : Option CopyMode) : CopyMode :=
  if md = some .shallow then .shallow
  else if md = some .ref then .ref
  else if md = some .deep ∨ arg = some .deep then .deep
  else if arg = some .shallow then .shallow
  else .ref

/-- The value handed to `setattr(self, name, value)` for one trait. -/
def copyValue (E : Env) (mode : CopyMode) (n : Nat) (v : CVal) : Except Exc (CVal × Nat) :=
  match mode with
  | .ref => .ok (v, n)
  | .shallow => shallowV E n v
  | .deep => deepcopyV n v

/-- One iteration of the loop of `copy_traits`: any exception is swallowed by
the bare `except:` and the name is reported as unassignable (slot untouched).
`all` = `copy_traits(traits="all")`: transient traits are copied too. -/
def cloneSlot (E : Env) (oSrc oDst : Nat) (arg : Option CopyMode) (all : Bool) (n : Nat) (src : Slot) :
    Slot × Slot × Nat :=
  let dst : Slot := ⟨src.decl, none⟩
  if src.decl.copyable || (all && src.decl.kind != .event) then
    let r := readSlot E oSrc n src
    match copyValue E (effMode src.decl.copy arg) r.2.2 r.1 with
    | .error _ => (dst, r.2.1, r.2.2)
    | .ok (v, n1) =>
      match assignSlot E oDst n1 dst v with
      | .error _ => (dst, r.2.1, n1)
      | .ok (dst', n2) => (dst', r.2.1, n2)
  else (dst, src, n)

def cloneL (E : Env) (oSrc oDst : Nat) (arg : Option CopyMode) (all : Bool) :
    Nat → List Slot → List Slot × List Slot × Nat
  | n, [] => ([], [], n)
  | n, sl :: sls =>
    let r := cloneSlot E oSrc oDst arg all n sl
    let rs := cloneL E oSrc oDst arg all r.2.2 sls
    (r.1 :: rs.1, r.2.1 :: rs.2.1, rs.2.2)

/-- Does this iteration of the loop of `copy_traits` end in the bare `except:` - is the name appended to the
`unassignable` list the method returns? -/
def cloneSlotFails (E : Env) (oSrc oDst : Nat) (arg : Option CopyMode) (all : Bool) (n : Nat) (src : Slot) : Bool :=
  let dst : Slot := ⟨src.decl, none⟩
  if src.decl.copyable || (all && src.decl.kind != .event) then
    let r := readSlot E oSrc n src
    match copyValue E (effMode src.decl.copy arg) r.2.2 r.1 with
    | .error _ => true
    | .ok (v, n1) =>
      match assignSlot E oDst n1 dst v with
      | .error _ => true
      | .ok _ => false
  else false

/-- What `copy_traits` returns: the names it could not copy, in class order. -/
def cloneUnassignable (E : Env) (oSrc oDst : Nat) (arg : Option CopyMode) (all : Bool) : Nat → List Slot → List String
  | _, [] => []
  | n, sl :: sls =>
    (if cloneSlotFails E oSrc oDst arg all n sl then [sl.decl.name] else []) ++
      cloneUnassignable E oSrc oDst arg all (cloneSlot E oSrc oDst arg all n sl).2.2 sls

/-- `obj.clone_traits(copy=arg)`: `copy_traits` over the copyable names of the
source (`all = false`).  When no trait is copyable the list is empty and
`copy_traits` - which reads an empty list as "all" - is not called at all
(the `if len(traits) > 0` of the F72 repair), which is what `cloneL … false`
computes: every slot is skipped. -/
def cloneTraits (E : Env) (s : Obj) (o' : Nat) (arg : Option CopyMode) (n : Nat) : Copied :=
  let r := cloneL E s.oid o' arg false n s.slots
  ⟨⟨o', r.1⟩, ⟨s.oid, r.2.1⟩, r.2.2⟩

/-- `copy.deepcopy(obj)`: `__deepcopy__` calls `clone_traits` with
`copy=memo.get("traits_copy_mode", "deep")`, i.e. `'deep'` when `copy.deepcopy`
is the outermost call (has_traits.py:1686-1693, as repaired by 50c4e1f; before
it the default was None - "copy reference" - finding F70). -/
def deepcopyObj (E : Env) (s : Obj) (o' : Nat) (n : Nat) : Copied := cloneTraits E s o' (some .deep) n

/-! ## The copy mode below the top level (has_traits.py:1670-1693)

`clone_traits(copy=arg)` stores `arg` in the memo (`memo["traits_copy_mode"] =
copy`, whatever it is) and an object reached through a trait that is copied
deeply is cloned by its `__deepcopy__` with `copy=memo.get("traits_copy_mode",
"deep")`: the mode of the OUTER call, `'deep'` only when `copy.deepcopy` itself
is the outermost call. -/

inductive Outer where
  | clone (arg : Option CopyMode)
  | deepcopy
  | pickle
  deriving DecidableEq, Repr

/-- What becomes of a value: the same object, a shallow copy, a deep copy, or -
for a value that cannot be copied (a lock) when a copy is asked for - nothing
(the exception is swallowed by `copy_traits`, the trait stays at its default). -/
inductive Fate where
  | same | shallow | deep | lost
  deriving DecidableEq, Repr

def valueFate (m : CopyMode) (uncopyable : Bool) : Fate :=
  match m with
  | .ref => .same
  | .shallow => if uncopyable then .lost else .shallow
  | .deep => if uncopyable then .lost else .deep

/-- The `copy` argument of the outermost `clone_traits`. -/
def Outer.arg : Outer → Option CopyMode
  | .clone arg => arg
  | .deepcopy => some .deep
  | .pickle => some .deep

/-- The `copy` argument of the `clone_traits` call `__deepcopy__` makes for a nested object. -/
def nestedArg : Outer → Option CopyMode
  | .clone arg => arg          -- the memo holds the outer mode, None included
  | .deepcopy => some .deep
  | .pickle => some .deep

/-- Fate of the value of a trait (metadata `childMeta`) of an object held by a
trait (metadata `ownerMeta`) of the object being copied. -/
def nestedTraitFate (outer : Outer) (ownerMeta childMeta : Option CopyMode) (uncopyable : Bool) : Fate :=
  match outer with
  | .pickle => .deep
  | _ =>
    match effMode ownerMeta outer.arg with
    | .ref => .same          -- the child itself is shared
    | .shallow => .same      -- copy.copy(child): `__setstate__` re-assigns the very same values
    | .deep => valueFate (effMode childMeta (nestedArg outer)) uncopyable

/-- Fate of the value of a deferred trait (a read/write Property, a delegate
with a local value, a WeakRef) of the object being copied. -/
def deferredFate (outer : Outer) (md : Option CopyMode) (uncopyable : Bool) : Fate :=
  match outer with
  | .pickle => .deep
  | _ => valueFate (effModeDeferred md outer.arg) uncopyable

/-! ## Container mutation (what "live" means)

`addAt E n path key item v`: go down `path` (positions in `kids`) and add
`item` to the container found there - `append` for a list, `d[key] = item` for
a dict, `add(key)` for a set - the way that container object does it. -/

/-- `dict.__setitem__`: an existing key keeps its position and gets the new value. -/
def putKV : List Leaf → List CVal → Leaf → CVal → List Leaf × List CVal
  | k :: ks, v :: vs, key, item =>
    if k = key then (k :: ks, item :: vs)
    else let r := putKV ks vs key item; (k :: r.1, v :: r.2)
  | ks, vs, key, item => (ks ++ [key], vs ++ [item])

/-- `set.add`. -/
def addKey (keys : List Leaf) (key : Leaf) : List Leaf := if keys.contains key then keys else keys ++ [key]

/-- The builtin operation, on already validated arguments. -/
def rawAdd (k : Kind) (i : Nat) (b : Binding) (keys : List Leaf) (kids : List CVal) (key : Leaf) (item : CVal) : CVal :=
  match k with
  | .lst => .node k i b keys (kids ++ [item])
  | .dct => let r := putKV keys kids key item; .node k i b r.1 r.2
  | .st => .node k i b (addKey keys key) kids

/-- `_validate_length(len(self) + 1)` (trait_list_object.py:872-902): needs only `self.trait`. -/
def lengthOk (k : Kind) (b : Binding) (newLen : Nat) : Bool :=
  match k, b with
  | .lst, .ownerless (.cont _ _ _ _ hi) => newLen ≤ hi
  | .lst, .bound _ (.cont _ _ _ _ hi) => newLen ≤ hi
  | _, _ => true

/-- The node's own rule for a new item (`_item_validator` / `_key_validator` /
`_value_validator` / `_validator` of the three object classes): lists and dicts
validate only while `object()` is alive; sets validate whenever they have the
trait (trait_set_object.py:483-506). -/
def nodeAdd (E : Env) (n : Nat) (k : Kind) (i : Nat) (b : Binding) (keys : List Leaf) (kids : List CVal)
    (key : Leaf) (item : CVal) : Except Exc (CVal × Nat) :=
  if !lengthOk k b (kids.length + 1) then .error .traitError
  else
    match b.rule with
    | some (owner, .cont _ kT iT _ _) =>
      match k, owner with
      | .st, _ =>
        match E.lv kT key with
        | .error e => .error e
        | .ok key' => .ok (rawAdd k i b keys kids key' item, n)
      | .lst, some o =>
        match validate E o iT n item with
        | .error e => .error e
        | .ok (item', n') => .ok (rawAdd k i b keys kids key item', n')
      | .dct, some o =>
        match E.lv kT key with
        | .error e => .error e
        | .ok key' =>
          match validate E o iT n item with
          | .error e => .error e
          | .ok (item', n') => .ok (rawAdd k i b keys kids key' item', n')
      | _, none => .ok (rawAdd k i b keys kids key item, n)
    | _ => .ok (rawAdd k i b keys kids key item, n)

mutual
def addAt (E : Env) (n : Nat) (key : Leaf) (item : CVal) : List Nat → CVal → Except Exc (CVal × Nat)
  | _, .leaf _ => .error .typeError
  | [], .node k i b keys kids => nodeAdd E n k i b keys kids key item
  | p :: ps, .node k i b keys kids =>
    match addAtL E n key item p ps kids with
    | .error e => .error e
    | .ok (kids', n') => .ok (.node k i b keys kids', n')
def addAtL (E : Env) (n : Nat) (key : Leaf) (item : CVal) : Nat → List Nat → List CVal → Except Exc (List CVal × Nat)
  | _, _, [] => .error .indexError
  | 0, ps, v :: vs =>
    match addAt E n key item ps v with
    | .error e => .error e
    | .ok (v', n') => .ok (v' :: vs, n')
  | p + 1, ps, v :: vs =>
    match addAtL E n key item p ps vs with
    | .error e => .error e
    | .ok (vs', n') => .ok (v :: vs', n')
end

/-- Does adding to the container at `path` fire `<name>_items` on the owner?
Only the top-level container (`getattr(object, name) is self`,
trait_list_object.py:612-616) of a bound object. -/
def notifiesAt (path : List Nat) : CVal → Option Nat
  | .node _ _ (.bound o _) _ _ => if path.isEmpty then some o else none
  | _ => none

/-! ## Initialisation phase

`clone_traits` and `__setstate__` build the new object by a fixed sequence of
method calls (translated: `Generated.CopyChains.cloneTraitsCalls`,
`setstateCalls`); the values are put back by `copy_traits` / `trait_set`, and
`_trait_set_inited` marks the object as initialised.  A trait whose validator
looks at `object.traits_inited()` (`UUID(can_init=True)`, write-once traits)
sees the phase in which its value is put back; a rejection is swallowed by
`copy_traits` (the copy then computes a default of its own). -/

inductive SetupStep where
  | restore | setInited | other
deriving DecidableEq, Repr

def SetupStep.ofCall : String → SetupStep
  | "copy_traits" => .restore
  | "trait_set" => .restore
  | "_trait_set_inited" => .setInited
  | _ => .other

/-- `value = none`: nothing was stored - the copy will compute its own default. -/
structure Setup where
  inited : Bool
  value : Option Nat
deriving DecidableEq, Repr

/-- `accepts inited`: does the validator accept an assignment in that phase? -/
def setupStep (accepts : Bool → Bool) (v : Nat) (s : Setup) : SetupStep → Setup
  | .restore => if accepts s.inited then { s with value := some v } else s
  | .setInited => { s with inited := true }
  | .other => s

def runSetup (accepts : Bool → Bool) (v : Nat) (calls : List String) : Setup :=
  (calls.map SetupStep.ofCall).foldl (setupStep accepts v) { inited := false, value := none }

/-- `UUID(can_init=True)` and the like: assignable only while the object is being set up. -/
def initOnly (inited : Bool) : Bool := !inited

end TraitsVerif.Model.Persist
