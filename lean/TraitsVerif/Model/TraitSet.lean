/-
Model of `traits/trait_set_object.py` class `TraitSet` (lines 96-428 of the
pinned tree: `__init__`, `notify`, every mutator, `__deepcopy__`,
`__getstate__`/`__setstate__`), transcribed line by line.  A mutating method
becomes a function from the old members to
`Except Exc (new members × return value × optional notification)`; the
`super().xxx` calls are the `Py.PSet` operations; the item validator is a
parameter (`Callback`, DESIGN §4) whose ordinal is the number of earlier calls
within the operation, in the order the operand is iterated.
-/
import TraitsVerif.Py.Set
namespace TraitsVerif.Model.SetM
open TraitsVerif TraitsVerif.Py
open TraitsVerif.Py.PSet (insert erase union ofList inter diff symm popChoice Op)

variable {α : Type} [DecidableEq α]

/-- The two sets handed to `notify(removed, added)`. -/
structure SEvent (α : Type) where
  removed : PSet α
  added : PSet α
  deriving Repr, DecidableEq

/-- Result of a successful operation. -/
structure SOut (α : Type) where
  items : PSet α
  ret : Option α := none
  event : Option (SEvent α) := none
  deriving Repr, DecidableEq

/-- `if len(removed) > 0: self.notify(removed, set())`. -/
def notifyRemoved (items removed : PSet α) : SOut α :=
  if removed.length > 0 then { items := items, event := some ⟨removed, []⟩ } else { items := items }

/-- `if len(added) > 0: self.notify(set(), added)`. -/
def notifyAdded (items added : PSet α) : SOut α :=
  if added.length > 0 then { items := items, event := some ⟨[], added⟩ } else { items := items }

/-- The part `__ixor__` (for a set operand, :232-239) and
`symmetric_difference_update` (:369-373) share:
```
values = set(value)
removed = self.intersection(values)
raw_added = values.difference(removed)
validated_added = {self.item_validator(item) for item in raw_added}
added = validated_added.difference(self)
```
Only the items not already present are validated, and validated items that are
already present are dropped. -/
def symParts (v : Callback α α) (s : PSet α) (xs : List α) : Except Exc (PSet α × PSet α) :=
  let values := ofList xs
  let removed := inter s values
  let raw := diff values removed
  match valAll v 0 raw with
  | .error e => .error e
  | .ok ws =>
    let added := diff (ofList ws) s
    .ok (removed, added)

/-- One `TraitSet` method call on members `s`. -/
def TraitSet.step (v : Callback α α) (s : PSet α) : Op α → Except Exc (SOut α)
  | .iand isSet xs =>                                 -- :133-154
    -- old_set = self.copy(); retval = super().__iand__(value)
    -- (NotImplemented for a non-set operand: nothing changes, Python raises TypeError)
    if isSet then
      let new := inter s xs
      .ok (notifyRemoved new (diff s new))            -- removed = old_set.difference(self)
    else .error .typeError
  | .ior isSet xs =>                                  -- :156-186
    if isSet then
      -- value = {self.item_validator(item) for item in value}   (only for set/frozenset)
      match valAll v 0 xs with
      | .error e => .error e
      | .ok ys =>
        let new := union s (ofList ys)                -- super().__ior__(value)
        .ok (notifyAdded new (diff new s))            -- added = self.difference(old_set)
    else .error .typeError
  | .isub isSet xs =>                                 -- :188-209
    if isSet then
      let new := diff s xs
      .ok (notifyRemoved new (diff s new))
    else .error .typeError
  | .ixor isSet xs =>                                 -- :211-246
    if isSet then
      match symParts v s xs with
      | .error e => .error e
      | .ok (removed, added) =>
        let new := symm s (union added removed)       -- value = added | removed; super().__ixor__(value)
        if removed.isEmpty && added.isEmpty then .ok { items := new }
        else .ok { items := new, event := some ⟨removed, added⟩ }
    else .error .typeError
  | .add x =>                                         -- :248-263
    match v 0 x with
    | .error e => .error e
    | .ok y =>
      -- value_in_self = value in self; super().add(value); if not value_in_self: notify(set(), {value})
      if y ∈ s then .ok { items := insert s y }
      else .ok { items := insert s y, event := some ⟨[], [y]⟩ }
  | .clear =>                                         -- :265-271
    -- removed = set(self); super().clear(); if removed: self.notify(removed, set())
    let removed := ofList s
    if removed.isEmpty then .ok { items := [] }
    else .ok { items := [], event := some ⟨removed, []⟩ }
  | .discard x =>                                     -- :273-288
    if x ∈ s then .ok { items := erase s x, event := some ⟨[x], []⟩ }
    else .ok { items := erase s x }
  | .differenceUpdate args =>                         -- :290-304
    let new := args.foldl diff s
    .ok (notifyRemoved new (diff s new))
  | .intersectionUpdate args =>                       -- :306-320
    let new := args.foldl inter s
    .ok (notifyRemoved new (diff s new))
  | .pop hint =>                                      -- :322-340
    match popChoice s hint with
    | none => .error .keyError
    | some x => .ok { items := erase s x, ret := some x, event := some ⟨[x], []⟩ }
  | .remove x =>                                      -- :342-359
    -- super().remove(value) raises KeyError before anything is notified
    if x ∈ s then .ok { items := erase s x, event := some ⟨[x], []⟩ }
    else .error .keyError
  | .symmetricDifferenceUpdate xs =>                  -- :361-377
    match symParts v s xs with
    | .error e => .error e
    | .ok (removed, added) =>
      let new := symm s (union removed added)         -- super().symmetric_difference_update(removed | added)
      if removed.isEmpty && added.isEmpty then .ok { items := new }
      else .ok { items := new, event := some ⟨removed, added⟩ }
  | .update args =>                                   -- :379-394
    -- validated_values = {self.item_validator(item) for item in chain.from_iterable(args)}
    match valAll v 0 args.flatten with
    | .error e => .error e
    | .ok ys =>
      let added := diff (ofList ys) s                 -- validated_values.difference(self)
      .ok (notifyAdded (union s added) added)         -- super().update(added)

/-- `TraitSet(value, item_validator=v)` (:102-107). -/
def TraitSet.init (v : Callback α α) (xs : List α) : Except Exc (PSet α) :=
  match valAll v 0 xs with
  | .error e => .error e
  | .ok ys => .ok (ofList ys)

/-- The constructors as `TraitSet.init`, `TSOSelf` and the drivers assume them
(statement texts of `__new__` / `__init__` of `TraitSet` and `__init__` of
`TraitSetObject`, trait_set_object.py:96-107, 474-484): a validator / notifier
list is taken iff it `is not None`, and a `TraitSetObject` is linked to its owner
iff the owner `is not None` (an alive but falsy owner is an owner).
`Props/C07.lean` `C07_init_source` compares them with the working tree. -/
def setConstructorsAssumed : List (List String) :=
  [["def __new__(cls, *args, **kwargs)",
    "self = super().__new__(cls)",
    "self.item_validator = _validate_everything",
    "self.notifiers = []",
    "return self"],
   ["def __init__(self, value=(), *, item_validator=None, notifiers=None)",
    "if item_validator is not None: self.item_validator = item_validator",
    "super().__init__((self.item_validator(item) for item in value))",
    "if notifiers is not None: self.notifiers = notifiers"],
   ["def __init__(self, trait, object, name, value)",
    "self.trait = trait",
    "self.object = (lambda: None) if object is None else ref(object)",
    "self.name = name",
    "self.name_items = None",
    "if trait is not None and trait.has_items: self.name_items = name + '_items'",
    "super().__init__(value, item_validator=self._validator, notifiers=[self.notifier])"]]

/-! ### Copies -/

/-- A `TraitSet` object as far as copying is concerned. -/
structure TSObj (α N : Type) where
  items : PSet α
  validator : Callback α α
  notifiers : List N

inductive CopyKind where
  | copy      -- copy.copy(ts)
  | deepcopy  -- copy.deepcopy(ts)
  | pickle    -- pickle.loads(pickle.dumps(ts))
  deriving Repr, DecidableEq

/-- `copy.copy` and pickling go through `set.__reduce_ex__`:
`TraitSet(list(self))` is built with the default validator
(`_validate_everything`), then `__setstate__` installs the state returned by
`__getstate__` (:412-428: `__dict__` without `notifiers`, i.e. the
`item_validator`) and `notifiers = []`.
`__deepcopy__` (:398-410) calls
`TraitSet([deepcopy(x) for x in self], item_validator=deepcopy(self.item_validator), notifiers=[])`,
so the constructor runs the validator over the members again. -/
def TraitSet.copyOp {N : Type} (k : CopyKind) (o : TSObj α N) : Except Exc (TSObj α N) :=
  match k with
  | .copy | .pickle => .ok { items := ofList o.items, validator := o.validator, notifiers := [] }
  | .deepcopy =>
    match TraitSet.init o.validator o.items with
    | .error e => .error e
    | .ok items => .ok { items := items, validator := o.validator, notifiers := [] }

/-! ### The value of a `Set` trait: `TraitSetObject` -/

/-- The two attributes of `self` that `TraitSetObject._validator` reads.
`object`: `none` = no such attribute, `some alive` = a weakref to the owner
(alive or dead) or the `lambda: None` put there by `__init__(…, object=None, …)`
/ `__setstate__`.  `trait`: `none` = missing or `None` (after `__setstate__`),
`some validateIsNone` = a CTrait whose `item_trait.validate` is / is not `None`. -/
structure TSOSelf where
  object : Option Bool
  trait : Option Bool
  deriving Repr, DecidableEq

/-- `TraitSetObject._validator` (trait_set_object.py:486-523): validation is
skipped only when `self` has no `object` attribute or no trait (or the item
trait validates nothing); a dead or absent owner still validates, with
`object = None`.  `inner ownerPresent` is the inner trait's `validate`. -/
def TraitSetObject.validator (σ : TSOSelf) (inner : Bool → Callback α α) : Callback α α := fun n x =>
  match σ.object, σ.trait with
  | some alive, some validateIsNone => if validateIsNone then .ok x else inner alive n x
  | _, _ => .ok x

/-- The value of a `Set` trait on a live owner. -/
def TSOSelf.live : TSOSelf := ⟨some true, some false⟩
/-- `__deepcopy__` (:557-570): `TraitSetObject(self.trait, None, self.name, …)` keeps the trait, `object = lambda: None`. -/
def TSOSelf.afterDeepcopy (σ : TSOSelf) : TSOSelf := { σ with object := some false }
/-- The owner was garbage-collected: the weakref is dead. -/
def TSOSelf.orphaned (σ : TSOSelf) : TSOSelf := { σ with object := σ.object.map fun _ => false }
/-- `__setstate__` (:583-593, pickle and `copy.copy`): `object = lambda: None`, `trait = None`. -/
def TSOSelf.afterSetstate : TSOSelf := ⟨some false, none⟩

/-- A `TraitSetObject` as far as copying is concerned: its members, its own
attributes, and the attributes of the object whose bound `_validator` is its
`item_validator` (itself, except after `copy.copy`). -/
structure TSOObj (α : Type) where
  items : PSet α
  self : TSOSelf
  vself : TSOSelf

/-- `__deepcopy__` (:557-570) builds a new `TraitSetObject(self.trait, None, …)`,
whose constructor validates the members with the new object's validator;
`copy.copy` and pickling go through `__reduce_ex__` / `__getstate__` /
`__setstate__` (:572-602): the state keeps `item_validator` — the bound method
of the original for `copy.copy`, of a restored (trait-less) original after a
pickle round trip. -/
def TraitSetObject.copyOp (inner : Bool → Callback α α) (k : CopyKind) (o : TSOObj α) : Except Exc (TSOObj α) :=
  match k with
  | .deepcopy =>
    let σ' : TSOSelf := { object := some false, trait := o.self.trait }
    match TraitSet.init (TraitSetObject.validator σ' inner) o.items with
    | .error e => .error e
    | .ok items => .ok { items := items, self := σ', vself := σ' }
  | .copy => .ok { items := ofList o.items, self := .afterSetstate, vself := o.vself }
  | .pickle => .ok { items := ofList o.items, self := .afterSetstate, vself := .afterSetstate }

/-! ### Histories -/

def TraitSet.next (v : Callback α α) (s : PSet α) (op : Op α) : PSet α :=
  match TraitSet.step v s op with
  | .error _ => s
  | .ok o => o.items

def TraitSet.run (v : Callback α α) : PSet α → List (Op α) → List (Except Exc (SOut α))
  | _, [] => []
  | s, op :: ops => TraitSet.step v s op :: TraitSet.run v (TraitSet.next v s op) ops

/-- What the notifiers observe for one operation (every notifier is handed the
same `(removed, added)`; `set_event_factory` only wraps them). -/
def TraitSet.notification (v : Callback α α) (s : PSet α) (op : Op α) : Option (SEvent α) :=
  match TraitSet.step v s op with
  | .error _ => none
  | .ok o => o.event

/-! ### Specification vocabulary of property C07 -/

/-- The arguments an operation may *add* are validated the way the code
validates them; items that are only looked up or removed are used as given.
For `^=` / `symmetric_difference_update` the members already present (`removed`)
are toggled out without validation and only the others are validated. -/
def validateSetOp (v : Callback α α) (s : PSet α) : Op α → Except Exc (Op α)
  | .add x =>
    match v 0 x with
    | .error e => .error e
    | .ok y => .ok (.add y)
  | .update args =>
    match valAll v 0 args.flatten with
    | .error e => .error e
    | .ok ys => .ok (.update [ys])
  | .ior true xs =>
    match valAll v 0 xs with
    | .error e => .error e
    | .ok ys => .ok (.ior true ys)
  | .ixor true xs =>
    let removed := inter s (ofList xs)
    match valAll v 0 (diff (ofList xs) removed) with
    | .error e => .error e
    | .ok ws => .ok (.ixor true (removed ++ ws))
  | .symmetricDifferenceUpdate xs =>
    let removed := inter s (ofList xs)
    match valAll v 0 (diff (ofList xs) removed) with
    | .error e => .error e
    | .ok ws => .ok (.symmetricDifferenceUpdate (removed ++ ws))
  | op => .ok op

/-- What the builtin set `b` does on the arguments as `TraitSet` (in state `s`)
validates them. -/
def setReferenceOn (v : Callback α α) (s b : PSet α) (op : Op α) : Except Exc (PSet α × Option α) :=
  match validateSetOp v s op with
  | .error e => .error e
  | .ok op' => PSet.step b op'

def setReference (v : Callback α α) (s : PSet α) (op : Op α) : Except Exc (PSet α × Option α) :=
  setReferenceOn v s s op

def SOut.proj (o : SOut α) : PSet α × Option α := (o.items, o.ret)

/-- Same outcome up to the order in which members are stored: same exception
class, or same members and same return value. -/
def ResEquiv : Except Exc (PSet α × Option α) → Except Exc (PSet α × Option α) → Prop
  | .error e, .error e' => e = e'
  | .ok (a, r), .ok (b, r') => PSet.Equiv a b ∧ r = r'
  | _, _ => False

/-- Pointwise `ResEquiv` of two histories of the same length. -/
def ResEquivAll : List (Except Exc (PSet α × Option α)) → List (Except Exc (PSet α × Option α)) → Prop
  | [], [] => True
  | a :: as, b :: bs => ResEquiv a b ∧ ResEquivAll as bs
  | _, _ => False

/-- Refinement of one step. -/
def SetRefines (v : Callback α α) (s : PSet α) (op : Op α) : Prop :=
  ResEquiv ((TraitSet.step v s op).map SOut.proj) (setReference v s op)

/-- The items `^=` / `symmetric_difference_update` validate. -/
def symRaw (s : PSet α) (xs : List α) : List α := diff (ofList xs) (inter s (ofList xs))

/-- Finding F24: `^=` and `symmetric_difference_update` test containment on the
*raw* items, so an item that is a member only after validation is neither
removed nor added.  The refinement needs the validated new items to be absent. -/
def SymHyp (v : Callback α α) (s : PSet α) : Op α → Prop
  | .ixor true xs => ∀ ws, valAll v 0 (symRaw s xs) = .ok ws → ∀ y ∈ ws, y ∉ s
  | .symmetricDifferenceUpdate xs => ∀ ws, valAll v 0 (symRaw s xs) = .ok ws → ∀ y ∈ ws, y ∉ s
  | _ => True

/-- The delta law of C07. -/
structure Delta (pre post : PSet α) (e : SEvent α) : Prop where
  removed_sub : ∀ x ∈ e.removed, x ∈ pre
  added_new : ∀ x ∈ e.added, x ∉ pre
  post_eq : ∀ x, x ∈ post ↔ (x ∈ pre ∧ x ∉ e.removed) ∨ x ∈ e.added
  nonempty : e.removed ≠ [] ∨ e.added ≠ []

/-- `P pre op` holds at every step of the history started in `s`. -/
def SetAlongRun (v : Callback α α) (P : PSet α → Op α → Prop) : PSet α → List (Op α) → Prop
  | _, [] => True
  | s, op :: ops => P s op ∧ SetAlongRun v P (TraitSet.next v s op) ops

/-- The reference history: a builtin set `b` driven by the operations as the
`TraitSet` (whose state is `s`) validates them. -/
def setRefRun (v : Callback α α) : PSet α → PSet α → List (Op α) → List (Except Exc (PSet α × Option α))
  | _, _, [] => []
  | s, b, op :: ops =>
    setReferenceOn v s b op ::
      setRefRun v (TraitSet.next v s op)
        (match setReferenceOn v s b op with | .error _ => b | .ok r => r.1) ops

/-- `pop()` is given a member (or the set is empty): the harness passes the
member the real `set.pop()` returned. -/
def GoodHint (s : PSet α) : Op α → Prop
  | .pop hint => s = [] ∨ ∃ x, hint = some x ∧ x ∈ s
  | _ => True

/-- Everything property C07 says about one step. -/
structure SetStepSpec (v : Callback α α) (s : PSet α) (op : Op α) : Prop where
  atomic : ∀ e, TraitSet.step v s op = .error e →
    TraitSet.next v s op = s ∧ TraitSet.notification v s op = none
  wf : ∀ o, TraitSet.step v s op = .ok o → PSet.WF o.items
  delta : ∀ o e, TraitSet.step v s op = .ok o → o.event = some e → Delta s o.items e
  silent : ∀ o, TraitSet.step v s op = .ok o → PSet.Equiv o.items s → o.event = none
  one_event : ∀ o, TraitSet.step v s op = .ok o → ¬ PSet.Equiv o.items s → o.event.isSome = true
  refines : SymHyp v s op → SetRefines v s op

/-- `x` is an output of the validator (invariant of property C04). -/
def TraitSet.ValidOut (v : Callback α α) (x : α) : Prop := ∃ n y, v n y = .ok x

/-- Every member is accepted unchanged by the validator at every ordinal (what
an idempotent validator guarantees of its own outputs). -/
def FixedOn (v : Callback α α) (s : PSet α) : Prop := ∀ n, ∀ x ∈ s, v n x = .ok x

/-- The copy clause of C07 for one copy operation. -/
def CopyOK {N : Type} (k : CopyKind) (o : TSObj α N) : Prop :=
  ∃ o', TraitSet.copyOp k o = .ok o' ∧ PSet.Equiv o'.items o.items ∧ PSet.WF o'.items ∧
    o'.validator = o.validator ∧ o'.notifiers = [] ∧
    (∀ x e, o.validator 0 x = .error e → TraitSet.step o'.validator o'.items (.add x) = .error e)

/-- The copy clause at full strength (no hypothesis for `deepcopy`); the code
violates it for a validator that is not idempotent (finding F25), see
`Props/C07.lean` `C07_copy_full_fails`. -/
def C07CopyFull (α N : Type) [DecidableEq α] : Prop :=
  ∀ (k : CopyKind) (o : TSObj α N), PSet.WF o.items → CopyOK k o

/-- The refinement clause at full strength (no hypothesis for `^=`); the code
violates it (finding F24), see `C07_refines_full_fails`. -/
def C07RefinesFull (α : Type) [DecidableEq α] : Prop :=
  ∀ (v : Callback α α) (s : PSet α) (op : Op α), PSet.WF s → SetRefines v s op

/-- Methods of the builtin `set` that do not mutate the receiver. -/
def setNonMutators : List String :=
  ["__and__", "__class_getitem__", "__contains__", "__iter__", "__len__", "__or__", "__rand__",
   "__ror__", "__rsub__", "__rxor__", "__sub__", "__xor__", "copy", "difference", "intersection",
   "isdisjoint", "issubset", "issuperset", "symmetric_difference", "union"]

/-- The mutating methods `TraitSet.step` models (constructors of `Op`). -/
def setModelledMutators : List String :=
  ["__iand__", "__ior__", "__isub__", "__ixor__", "add", "clear", "difference_update", "discard",
   "intersection_update", "pop", "remove", "symmetric_difference_update", "update"]

end TraitsVerif.Model.SetM
