/-
C15 — what the last step of a compiled path is attached to on an object:
the meaning of the filter elements `+metadata_name` and `*`.

Mirrors
  /repo/traits/observation/_metadata_filter.py:35-37   MetadataFilter.__call__:
        `getattr(trait, self.metadata_name) is not None`
        (an undefined metadata attribute of a CTrait reads as None)
  /repo/traits/observation/_anytrait_filter.py:15-25    anytrait_filter: `True`
  /repo/traits/observation/_filtered_trait_observer.py:65-83, 104-112
        iter_observables / trait_added: the traits of the object for which
        `filter(name, ctrait)` holds, including traits added later
  /repo/traits/observation/_named_trait_observer.py     the trait with the given name

The value of a metadata attribute is abstracted to three classes — not
defined / None, defined and falsy (False, 0, ""), defined and truthy — because
that is all `is not None` (and the tempting wrong reading `bool(…)`) can see;
the harness supplies each trait's class per metadata name on the case line.
-/
import TraitsVerif.Model.DslCompile
namespace TraitsVerif.Model.Dsl

/-- `getattr(ctrait, metadata_name)` up to what a filter can distinguish -/
inductive MetaVal where
  | none      -- not defined, or defined as None
  | falsy     -- defined: False, 0, "", ()
  | truthy    -- defined: True, 1, "x", …
  deriving DecidableEq, Repr, Inhabited

/-- a trait of the observed object: its name and its metadata -/
structure TraitInfo where
  name : Name
  meta' : List (Name × MetaVal)
  deriving Repr, Inhabited

def TraitInfo.get (t : TraitInfo) (m : Name) : MetaVal :=
  match t.meta'.lookup m with
  | some v => v
  | none => .none

/-- `filter(name, ctrait)` -/
def Filter.matches : Filter → TraitInfo → Bool
  | .anytrait, _ => true                              -- _anytrait_filter.py:25
  | .metadata m, t => t.get m != .none                -- _metadata_filter.py:37  `is not None`

/-- the traits of an object with traits `ts` that an observer is attached to
(item observers are attached to containers, not to traits) -/
def Observer.targets : Observer → List TraitInfo → List Name
  | .named n _ _, ts => (ts.filter (fun t => t.name == n)).map (·.name)
  | .filtered _ f, ts => (ts.filter f.matches).map (·.name)
  | _, _ => []

/-- the traits of the leaf object that the last steps of the compiled paths are
attached to -/
def leafTargets (f : Forest) (ts : List TraitInfo) : List Name :=
  f.paths.flatMap (fun p => match p.getLast? with
    | some o => o.targets ts
    | none => [])

end TraitsVerif.Model.Dsl
