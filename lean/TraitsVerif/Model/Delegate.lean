/-
Model of deferred traits (`DelegatesTo`, `PrototypedFrom`) of the pinned tree:

  traits/trait_types.py   `Delegate.__init__`                          1158-1186   (`mkDelegate`)
  traits/ctraits.c        `delegate_attr_name_*`, `_trait_delegate`     4553-4638   (`attrName`)
  traits/has_traits.py    `get_delegate_pattern`                        252-262     (`delegatePattern`)
                          `_trait_delegate_name`                        3436-3447   (`traitDelegateName`)
                          `_init_trait_delegate_listener`               3365-3378   (`relink`, `mkObj`)
                          `_remove_trait_delegate_listener`             3380-3408   (`unlink`, `relink`)
  traits/ctraits.c        `has_traits_getattro` + `getattr_delegate`    836-884, 2018-2065   (`read`)
                          `setattr_delegate`                            2559-2650   (`walk`, `step`)
                          `setattr_trait` (assign and delete paths)     2373-2553   (`setPlain`, `delPlain`, …)
                          `setattr_python`                              2167-2220
                          `_has_traits_trait` (instance = -2)           1015-1087   (`baseOk`)
                          `call_notifiers`, `trait_property_changed`    2259-2329, 1093-1130 (`notify`)
  traits/traits_listener.py `ListenerItem.register/unregister/handle_simple` 331-454 (`hook`, abstracted)

A pool of objects; every object has a class (its `__prefix__`, its declared traits), the attribute
values stored in its `__dict__`, one delegate reference attribute `d`, and the forwarders of
`__listener_traits__` together with the object each one is currently hooked on
(`ListenerItem.active` of the `d:target` listener).

Names are `List Char` (the prefix rules are list operations).  Validators are a parameter
`validate : validator number → operation index → value → Except Exc value` (at most one validator
runs per operation, so the operation index is the call ordinal).
Assumption of the model (see harness/props/c11.py): every declared attribute is observed, so the
"has notifiers" branches of `setattr_trait` are always taken.  A value is an object identity (`Val`);
Python's `==` on values is the parameter `Env.eqv`, so the identity test of `setattr_trait` and the
equality test of `_change_accepted` are distinguished.
-/
import TraitsVerif.Py.Basic
namespace TraitsVerif.Model.Deleg
open TraitsVerif

abbrev Name := List Char
abbrev ObjId := Nat
abbrev Val := Int

/-! ### Naming rules -/

/-- `prefix_type` computed by `Delegate.__init__` (trait_types.py:1167-1176); the index into
`delegate_attr_name_handlers` (ctraits.c:4601-4603). -/
inductive PrefixType where
  | name         -- 0  delegate_attr_name_name
  | prefix       -- 1  delegate_attr_name_prefix
  | prefixName   -- 2  delegate_attr_name_prefix_name
  | className    -- 3  delegate_attr_name_class_name
  deriving DecidableEq, Repr

/-- What a deferring CTrait carries: the `_prefix` metadata read by `get_delegate_pattern`, and
`delegate_prefix`, `delegate_attr_name`, `TRAIT_MODIFY_DELEGATE` set by `_trait_delegate`. -/
structure DelegInfo where
  raw : Name            -- metadata `_prefix`: the prefix *as given* (trait_types.py:1165)
  stored : Name         -- `self.prefix`: trailing asterisk stripped (trait_types.py:1172,1184)
  ptype : PrefixType
  modify : Bool         -- DelegatesTo: true, PrototypedFrom: false
  deriving DecidableEq, Repr

/-- `Delegate.__init__(delegate, prefix, modify)` (trait_types.py:1158-1186). -/
def mkDelegate (pfx : Name) (modify : Bool) : DelegInfo :=
  if pfx = [] then ⟨pfx, pfx, .name, modify⟩
  else if pfx.getLast? ≠ some '*' then ⟨pfx, pfx, .prefix, modify⟩
  else
    let p := pfx.dropLast
    if p ≠ [] then ⟨pfx, p, .prefixName, modify⟩ else ⟨pfx, p, .className, modify⟩

/-- `trait->delegate_attr_name(trait, obj, name)` (ctraits.c:4553-4595).  `clsPfx` is
`type(obj).__prefix__`, `none` when the class does not define it (then the C code falls back to the
name itself, ctraits.c:4585-4590). -/
def attrName (d : DelegInfo) (clsPfx : Option Name) (n : Name) : Name :=
  match d.ptype with
  | .name => n
  | .prefix => d.stored
  | .prefixName => d.stored ++ n
  | .className => clsPfx.getD [] ++ n

/-- `get_delegate_pattern(name, trait)` (has_traits.py:252-262): the part after `" d:"`. -/
def delegatePattern (n : Name) (raw : Name) : Name :=
  if raw = [] then n
  else if raw.length > 1 ∧ raw.getLast? = some '*' then raw.dropLast ++ n
  else raw

/-- `_trait_delegate_name(name, pattern)` (has_traits.py:3436-3447), on the part after `" d:"`. -/
def traitDelegateName (clsPfx : Option Name) (n : Name) (pat : Name) : Name :=
  if pat.getLast? = some '*' then pat.dropLast ++ (clsPfx.getD [] ++ n) else pat

/-- The attribute of the delegate whose changes the forwarder of `n` listens to. -/
def listenedName (clsPfx : Option Name) (n : Name) (d : DelegInfo) : Name :=
  traitDelegateName clsPfx n (delegatePattern n d.raw)

/-- The attribute of the delegate that reads and writes of `n` go to. -/
abbrev targetName (clsPfx : Option Name) (n : Name) (d : DelegInfo) : Name := attrName d clsPfx n

/-! ### Classes, objects, pool -/

/-- `comparison_mode` metadata of a typed attribute (constants.py `ComparisonMode`, flags
`TRAIT_COMPARISON_MODE_*`, ctraits.c:133-144). -/
inductive Cmp where
  | none | identity | equality
  deriving DecidableEq, Repr

inductive TraitDef where
  | plain (vid : Nat) (dflt : Val) (cmp : Cmp)   -- typed attribute: validator number, constant default, comparison mode
  | defer (d : DelegInfo)
  | python                           -- undeclared name: the '' prefix trait of HasTraits (a Python attribute)
  deriving DecidableEq, Repr

structure Cls where
  pfx : Option Name                  -- `__prefix__`
  traits : List (Name × TraitDef)    -- declared attributes (distinct names)
  deriving Repr

/-- itrait_dict / ctrait_dict lookup, falling back to `get_prefix_trait` (ctraits.c:654-662). -/
def Cls.trait (c : Cls) (n : Name) : TraitDef := (c.traits.lookup n).getD .python

/-- The class's `__listener_traits__` (has_traits.py:493-500): its deferring attributes. -/
def Cls.deferNames (c : Cls) : List (Name × DelegInfo) :=
  c.traits.filterMap fun (n, td) => match td with | .defer d => some (n, d) | _ => none

/-- `class Sub(Base)`: the type attribute `__prefix__` is found through the MRO — both
`delegate_attr_name_class_name` (`PyObject_GetAttr` on the type, ctraits.c:4630-4650) and
`_trait_delegate_name` (`getattr(self.__class__, "__prefix__", "")`, has_traits.py:3440-3447) see an
inherited prefix unless the subclass restates it; class traits and `__listener_traits__` of the base are
inherited unless the subclass body redefines the name (has_traits.py:548-600). -/
def Cls.subclass (base : Cls) (ownPfx : Option Name) (own : List (Name × TraitDef)) : Cls :=
  { pfx := match ownPfx with
      | some q => some q
      | none => base.pfx,
    traits := base.traits.map (fun nt => (nt.1, (own.lookup nt.1).getD nt.2)) ++
      own.filter (fun nt => (base.traits.lookup nt.1).isNone) }

structure Obj where
  cls : Cls
  dict : Name → Option Val                 -- attribute values in `__dict__`
  deleg : Option ObjId                     -- `__dict__['d']`
  fwd : Name → Option (Option ObjId)       -- `__listener_traits__`: none = no forwarder; some h = hooked on h

structure Pool where
  size : Nat
  obj : ObjId → Obj

def Pool.upd (p : Pool) (o : ObjId) (f : Obj → Obj) : Pool :=
  { p with obj := fun j => if j = o then f (p.obj j) else p.obj j }

def Pool.setDict (p : Pool) (o : ObjId) (n : Name) (v : Option Val) : Pool :=
  p.upd o fun ob => { ob with dict := fun m => if m = n then v else ob.dict m }

def Pool.setFwd (p : Pool) (o : ObjId) (n : Name) (h : Option (Option ObjId)) : Pool :=
  p.upd o fun ob => { ob with fwd := fun m => if m = n then h else ob.fwd m }

def Pool.setDeleg (p : Pool) (o : ObjId) (t : Option ObjId) : Pool :=
  p.upd o fun ob => { ob with deleg := t }

/-- `Cls()`: `_init_trait_listeners` installs one forwarder per deferring attribute
(has_traits.py:3304-3310, 3365-3378); `d` is still None, so nothing is hooked. -/
def mkObj (c : Cls) : Obj :=
  { cls := c, dict := fun _ => none, deleg := none,
    fwd := fun n => match c.trait n with | .defer _ => some none | _ => none }

def emptyObj : Obj := mkObj ⟨none, []⟩

def mkPool (cs : List Cls) : Pool :=
  { size := cs.length, obj := fun i => match cs[i]? with | some c => mkObj c | none => emptyObj }

/-- Parameters: the validators, and Python's `==` on values.  A `Val` is an *object identity*; two
different values may be equal (`1`, `1.0`, `True`; two equal tuples). -/
structure Env where
  validate : Nat → Nat → Val → Except Exc Val
  eqv : Val → Val → Bool := fun a b => a == b

structure Event where
  obj : ObjId
  name : Name
  old : Val
  new : Val
  deriving DecidableEq, Repr

/-! ### Reading -/

/-- Fuel for walks whose only bound in the code is the interpreter's recursion limit (reads,
notification cascades): enough for every acyclic pool. -/
def Pool.fuel (p : Pool) : Nat := p.size + 1

/-- `has_traits_getattro` (ctraits.c:836-884) → `getattr_trait` / `getattr_python` /
`getattr_delegate` (ctraits.c:2018-2072).  The code recurses through `tp_getattro`, guarded by
`Py_EnterRecursiveCall` (fix ec4908f of finding F21): on a cyclic delegate graph it raises
RecursionError, a RuntimeError — fuel 0. -/
def read (p : Pool) : Nat → ObjId → Name → Except Exc Val
  | 0, _, _ => .error .runtimeError
  | f + 1, o, n =>
    match (p.obj o).dict n with
    | some v => .ok v                                   -- value in the object's dictionary
    | none =>
      match (p.obj o).cls.trait n with
      | .plain _ dflt _ => .ok dflt                     -- getattr_trait: the default value
      | .python => .error .attributeError               -- getattr_python
      | .defer d =>
        match (p.obj o).deleg with
        | none => .error .attributeError                -- tp_getattro of None
        | some x => read p f x (attrName d (p.obj o).cls.pfx n)

/-! ### The chain walks -/

/-- The loop of `setattr_delegate` (ctraits.c:2576-2649).  `pfx0` is the `__prefix__` of the class of
the object the assignment started on: the code passes the *original* `obj` to `delegate_attr_name`
at every level (ctraits.c:2602).  Returns the object, attribute name and (non-deferring) trait
reached.  Errors are DelegationError, a TraitError. -/
def walk (p : Pool) (pfx0 : Option Name) : Nat → ObjId → DelegInfo → Name → Except Exc (ObjId × Name × TraitDef)
  | 0, _, _, _ => .error .traitError                    -- delegation_recursion_error
  | f + 1, cur, d, da =>
    match (p.obj cur).deleg with
    | none => .error .traitError                        -- bad_delegate_error2
    | some x =>
      let da' := attrName d pfx0 da
      match (p.obj x).cls.trait da' with
      | .defer d' => walk p pfx0 f x d' da'
      | td => .ok (x, da', td)

/-- `_has_traits_trait(obj, name, -2)` = `base_trait` (ctraits.c:1015-1087) succeeds: used by
`ListenerItem.register` (traits_listener.py:389).  `pfx0` = `__prefix__` of the class of the object
`base_trait` is called on. -/
def baseOk (p : Pool) (pfx0 : Option Name) : Nat → ObjId → TraitDef → Name → Bool
  | _, _, .plain _ _ _, _ => true
  | _, _, .python, _ => true
  | 0, _, .defer _, _ => false                          -- delegation_recursion_error2
  | f + 1, cur, .defer d, da =>
    match (p.obj cur).deleg with
    | none => false                                     -- bad_delegate_error2
    | some x =>
      let da' := attrName d pfx0 da
      baseOk p pfx0 f x ((p.obj x).cls.trait da') da'

/-- Does `x.base_trait(t)` resolve?  (Since fix bead785 this only selects which trait supplies the
listener type; see `hook`.) -/
def hookOk (p : Pool) (x : ObjId) (t : Name) : Bool :=
  baseOk p (p.obj x).cls.pfx 99 x ((p.obj x).cls.trait t) t

/-! ### Notification -/

/-- The forwarders currently hooked on `(x, t)`: pairs (object, deferring attribute). -/
def forwarders (p : Pool) (x : ObjId) (t : Name) : List (ObjId × Name) :=
  (List.range p.size).flatMap fun o =>
    (p.obj o).cls.deferNames.filterMap fun (n, d) =>
      if (p.obj o).fwd n = some (some x) ∧ listenedName (p.obj o).cls.pfx n d = t then some (o, n) else none

/-- `call_notifiers` for attribute `t` of `x` with `(old, new)`: the handlers of `(x, t)` see the
event, and every forwarder hooked on `(x, t)` calls `trait_property_changed(n, old, new)` on its
object (has_traits.py:3371-3375), which is `call_notifiers` for `(o, n)` again. -/
def notify (p : Pool) : Nat → ObjId → Name → Val → Val → List Event
  | 0, _, _, _, _ => []
  | f + 1, x, t, a, b =>
    ⟨x, t, a, b⟩ :: (forwarders p x t).flatMap fun on => notify p f on.1 on.2 a b

/-! ### Operations -/

inductive Op where
  | set (o : ObjId) (n : Name) (v : Val)
  | del (o : ObjId) (n : Name)
  | swap (o : ObjId) (t : Option ObjId)
  | read (o : ObjId) (n : Name)
  deriving DecidableEq, Repr

structure StepOut where
  pool : Pool
  res : Except Exc (Option Val)
  events : List Event := []
  hookExc : Nat := 0          -- exceptions raised inside notification handlers (swallowed and logged)
  broken : Bool := false      -- the operation raised *after* it had changed the object (`del` of a prototyped value)

def fail (p : Pool) (e : Exc) : StepOut := { pool := p, res := .error e }

/-- Does `setattr_trait` call the notifiers?  `changed = flags & TRAIT_COMPARISON_MODE_NONE`, else the
identity test `old_value != value` (ctraits.c:2390, 2423-2425, 2516-2518), decided by the flags of
`traitd`, the trait that validates. -/
def cChanged (cmp : Cmp) (old new : Val) : Bool := cmp = .none || old ≠ new

/-- `_change_accepted(object, name, old, new)` (trait_notifiers.py:639-670; the same rule in
`ctrait_prevent_event`, observation/_has_traits_helpers.py:118-142) for an attribute of kind `trait`:
with comparison mode equality the wrapper drops the call when `old == new`.  For an attribute of kind
`delegate` the wrapper always accepts. -/
def accepted (E : Env) (cmp : Cmp) (old new : Val) : Bool :=
  match cmp with
  | .equality => !E.eqv old new
  | _ => true

/-- A typed attribute reports the change `(old, new)` — to its own handlers and to the forwarders hooked
on it, which sit behind the same wrapper. -/
def fires (E : Env) (cmp : Cmp) (old new : Val) : Bool := cChanged cmp old new && accepted E cmp old new

/-- `setattr_trait(trait, trait, x, t, v)` on a typed attribute (ctraits.c:2445-2553). -/
def setPlain (E : Env) (k : Nat) (p : Pool) (x : ObjId) (t : Name) (vid : Nat) (dflt : Val) (cmp : Cmp) (v : Val) :
    StepOut :=
  match E.validate vid k v with
  | .error e => fail p e
  | .ok w =>
    let old := ((p.obj x).dict t).getD dflt
    let p' := p.setDict x t (some w)
    { pool := p', res := .ok none, events := if fires E cmp old w then notify p' p'.fuel x t old w else [] }

/-- `setattr_python` with a value (ctraits.c:2174-2195). -/
def setPython (p : Pool) (x : ObjId) (t : Name) (v : Val) : StepOut :=
  { pool := p.setDict x t (some v), res := .ok none }

/-- `setattr_trait(trait, trait, x, t, NULL)` on a typed attribute (ctraits.c:2392-2443).  The value
found in the dictionary is the assigned one or the *materialised default*: every declared typed attribute
has been read at least once (assumption of the model: the harness reads every attribute after every
operation, and `getattr_trait` stores the default in `__dict__`), and the delete path re-reads —
re-materialises — it at once (ctraits.c:2417).  So `del` of a never-assigned attribute is silent except
under comparison mode none, where it reports `(default, default)`. -/
def delPlain (E : Env) (p : Pool) (x : ObjId) (t : Name) (dflt : Val) (cmp : Cmp) : StepOut :=
  let old := ((p.obj x).dict t).getD dflt
  let p' := p.setDict x t none
  { pool := p', res := .ok none, events := if fires E cmp old dflt then notify p' p'.fuel x t old dflt else [] }

/-- `setattr_python` deleting (ctraits.c:2197-2219). -/
def delPython (p : Pool) (x : ObjId) (t : Name) : StepOut :=
  match (p.obj x).dict t with
  | none => fail p .attributeError
  | some _ => { pool := p.setDict x t none, res := .ok none }

/-- `ListenerItem.register(new)` for the `d:target` listener of `(o, n)` (traits_listener.py:331-438):
the object the forwarder ends up hooked on, and whether registration raised.  `base_trait` (`hookOk`) is
tried first; when it raises DelegationError — the chain below the delegate is not complete, or longer
than the limit — the deferring trait itself supplies the listener type (traits_listener.py:391-394, fix
bead785 of finding F18), and both are simple traits here: registration on a delegate that is set always
succeeds.  (On the unrepaired tree the answer was `(none, true)` when `hookOk` is false.) -/
def hook (p : Pool) (o : ObjId) (_n : Name) (_d : DelegInfo) : Option ObjId × Bool :=
  match (p.obj o).deleg with
  | none => (none, false)
  | some x => (some x, false)

/-- `_remove_trait_delegate_listener(n, False)` (has_traits.py:3403-3408) after the local value of a
prototyped attribute was deleted: re-install the forwarder unless it is there.  When `base_trait`
raised inside `on_trait_change` the exception would propagate out of `del o.n` (it no longer can, see `hook`). -/
def relink (p : Pool) (o : ObjId) (n : Name) (d : DelegInfo) (evs : List Event) : StepOut :=
  match (p.obj o).fwd n with
  | some _ => { pool := p, res := .ok none, events := evs }
  | none =>
    match hook p o n d with
    | (_, true) => { pool := p, res := .error .traitError, events := evs, broken := true }
    | (h, false) => { pool := p.setFwd o n (some h), res := .ok none, events := evs }

/-- `_remove_trait_delegate_listener(n, True)` (has_traits.py:3385-3401). -/
def unlink (p : Pool) (o : ObjId) (n : Name) : Pool := p.setFwd o n none

/-- Assignment / deletion through a deferring attribute: `setattr_delegate` (ctraits.c:2559-2650). -/
def setDefer (E : Env) (k : Nat) (p : Pool) (o : ObjId) (n : Name) (d : DelegInfo) (v : Option Val) : StepOut :=
  match walk p (p.obj o).cls.pfx 100 o d n with
  | .error e => fail p e
  | .ok (x, t, td) =>
    if d.modify then
      -- traitd->setattr(traitd, traitd, delegate, daname, value)            (ctraits.c:2623-2626)
      match td, v with
      | .plain vid dflt cmp, some v => setPlain E k p x t vid dflt cmp v
      | .plain _ dflt cmp, none => delPlain E p x t dflt cmp
      | _, some v => setPython p x t v
      | _, none => delPython p x t
    else
      -- traitd->setattr(traito, traitd, obj, name, value), then _remove_trait_delegate_listener.
      -- The notifiers are those of `traito` (kind `delegate`: the wrappers accept every call); whether
      -- they are called is decided by the comparison flags of `traitd` and the identity test.
      match td, v with
      | .plain vid _ cmp, some v =>
        match E.validate vid k v with
        | .error e => fail p e
        | .ok w =>
          -- old value: the dictionary, else traito->getattr = getattr_delegate (ctraits.c:2481-2489)
          match read p p.fuel o n with
          | .error e => fail p e
          | .ok old =>
            let p1 := p.setDict o n (some w)
            { pool := unlink p1 o n, res := .ok none,
              events := if cChanged cmp old w then notify p1 p1.fuel o n old w else [] }
      | .plain _ _ cmp, none =>
        match (p.obj o).dict n with
        | none => relink p o n d []                                       -- ctraits.c:2401-2404
        | some old =>
          let p1 := p.setDict o n none
          match read p1 p1.fuel o n with                                  -- ctraits.c:2417
          | .error e => { pool := p1, res := .error e, broken := true }
          | .ok cur => relink p1 o n d (if cChanged cmp old cur then notify p1 p1.fuel o n old cur else [])
      | _, some v => { pool := unlink (p.setDict o n (some v)) o n, res := .ok none }
      | _, none =>
        match (p.obj o).dict n with
        | none => fail p .attributeError
        | some _ => relink (p.setDict o n none) o n d []

/-- Re-hook every forwarder of `o` after `o.d` changed: `handle_simple` (traits_listener.py:450-454),
one listener per deferring attribute that currently has a forwarder. -/
def rehook (p : Pool) (o : ObjId) : List (Name × DelegInfo) → Pool × Nat
  | [] => (p, 0)
  | (n, d) :: rest =>
    match (p.obj o).fwd n with
    | none => rehook p o rest
    | some _ =>
      let (h, bad) := hook p o n d
      let (p', k) := rehook (p.setFwd o n (some h)) o rest
      (p', k + (if bad then 1 else 0))

/-- `o.d = t` (an `Instance(HasTraits)` attribute; identity comparison, ctraits.c:2516-2518). -/
def swap (p : Pool) (o : ObjId) (t : Option ObjId) : StepOut :=
  if (p.obj o).deleg = t then { pool := p, res := .ok none }
  else
    let (p', k) := rehook (p.setDeleg o t) o (p.obj o).cls.deferNames
    { pool := p', res := .ok none, hookExc := k }

/-- One operation; `k` is its index in the history. -/
def step (E : Env) (k : Nat) (p : Pool) : Op → StepOut
  | .set o n v =>
    match (p.obj o).cls.trait n with
    | .plain vid dflt cmp => setPlain E k p o n vid dflt cmp v
    | .python => setPython p o n v
    | .defer d => setDefer E k p o n d (some v)
  | .del o n =>
    match (p.obj o).cls.trait n with
    | .plain _ dflt cmp => delPlain E p o n dflt cmp
    | .python => delPython p o n
    | .defer d => setDefer E k p o n d none
  | .swap o t => swap p o t
  | .read o n =>
    match read p p.fuel o n with
    | .error e => fail p e
    | .ok v => { pool := p, res := .ok (some v) }

/-- A history: the per-operation outputs. -/
def run (E : Env) : Nat → Pool → List Op → List StepOut
  | _, _, [] => []
  | k, p, op :: ops => let s := step E k p op; s :: run E (k + 1) s.pool ops

/-- The pool after a history. -/
def runPool (E : Env) : Nat → Pool → List Op → Pool
  | _, p, [] => p
  | k, p, op :: ops => runPool E (k + 1) (step E k p op).pool ops

/-! ### Copies restored through `__setstate__` -/

/-- The object `pickle.loads(pickle.dumps(ob))` / `copy.copy(ob)` yields (`HasTraits.__reduce_ex__`,
`__getstate__`, `__setstate__`, has_traits.py:1281-1360): `__getstate__` saves the plain values, the
delegate reference and the LOCAL values of deferring attributes (a linked attribute is not saved,
has_traits.py:1299-1314); `__setstate__` runs `_init_trait_listeners` — one forwarder per deferring
attribute — and then `trait_set(**state)`: assigning `d` hooks every forwarder on the delegate, assigning a
local value of a prototyped attribute stores it and removes that attribute's forwarder (`setattr_delegate`).
So the copy is the object a fresh instance with the same values and delegate would be: same class, dictionary
and delegate; a forwarder, hooked on the delegate, exactly for the deferring attributes without local value.
(Validators are assumed to accept the stored values they produced; handlers are not part of the state.) -/
def Obj.restored (ob : Obj) : Obj :=
  { ob with fwd := fun n =>
      match ob.cls.trait n with
      | .defer _ =>
        match ob.dict n with
        | some _ => none
        | none => some ob.deleg
      | _ => none }

/-- `which = none`: the whole pool is replaced by its pickle round trip (sharing preserved);
`which = some o`: object `o` is replaced by `copy.copy` of it (it keeps its delegate). -/
def Pool.restore (p : Pool) (which : Option ObjId) : Pool :=
  { p with obj := fun j => if which = none ∨ which = some j then (p.obj j).restored else p.obj j }

/-- Can the saved local value `v` of the deferring attribute `(j, n)` be assigned again on a copy?  The chain
below it must be complete, and the trait at its end must accept `v` — `E` holds the validators that run
during a restore (the real `Int` / `Range` traits of the harness; a value stored under another delegate, or
through an undeclared target, need not be acceptable to the current one). -/
def reassignable (E : Env) (p : Pool) (j : ObjId) (n : Name) (d : DelegInfo) (v : Val) : Bool :=
  match walk p (p.obj j).cls.pfx 100 j d n with
  | .error _ => false
  | .ok (_, _, .plain vid _ _) => (match E.validate vid 0 v with | .ok _ => true | .error _ => false)
  | .ok _ => true

/-- Does the copy raise?  `__setstate__` re-assigns every saved local value of a deferring attribute through
`setattr_delegate` (`trait_set(**state)`), which needs the complete chain below the attribute to find the
validating trait: with the delegate None (or the chain longer than the limit) it raises DelegationError and
the copy / unpickling fails (known finding: a state the object was in cannot be restored). -/
def Pool.restoreFails (E : Env) (p : Pool) (which : Option ObjId) : Bool :=
  (List.range p.size).any fun j =>
    (which == none || which == some j) &&
    (p.obj j).cls.deferNames.any fun nd =>
      match (p.obj j).dict nd.1 with
      | none => false
      | some v => !(reassignable E p j nd.1 nd.2 v)

/-! ### Clones: `copy.deepcopy` / `clone_traits` -/

/-- `new = cls.__new__(cls); new._init_trait_listeners()` followed by the first loop of `copy_traits`
(has_traits.py `clone_traits`, `copy_traits`): the plain values and the delegate reference are assigned, every
deferring attribute has its forwarder (hooked on the delegate), no deferring attribute has a local value yet. -/
def Obj.fresh (ob : Obj) : Obj :=
  { ob with
    dict := fun n => match ob.cls.trait n with | .defer _ => none | _ => ob.dict n,
    fwd := fun n => match ob.cls.trait n with | .defer _ => some ob.deleg | _ => none }

/-- Order in which `copy.deepcopy` of the list of all objects completes the clones: an object's delegate
(`d`, copy mode deep) is cloned — completely — while the object's plain traits are copied, before the
object's own deferring attributes are assigned. -/
def cloneVisit (p : Pool) : Nat → ObjId → List ObjId → List ObjId
  | 0, _, acc => acc
  | f + 1, o, acc =>
    if acc.contains o then acc
    else
      let acc' := match (p.obj o).deleg with
        | some x => cloneVisit p f x acc
        | none => acc
      if acc'.contains o then acc' else acc' ++ [o]

def cloneOrder (p : Pool) : List ObjId :=
  (List.range p.size).foldl (fun acc o => cloneVisit p (p.size + 1) o acc) []

/-- `setattr(clone, n, v)` on a deferring attribute while the clone is built: no handler is attached yet, so
`setattr_trait` neither reads the old value nor notifies; a failing assignment is swallowed by `copy_traits`. -/
def cloneAssign (E : Env) (q : Pool) (o : ObjId) (n : Name) (d : DelegInfo) (v : Val) : Pool :=
  if reassignable E q o n d v then
    match walk q (q.obj o).cls.pfx 100 o d n with
    | .error _ => q
    | .ok (x, t, _) => if d.modify then q.setDict x t (some v) else unlink (q.setDict o n (some v)) o n
  else q

/-- `copy.deepcopy` of the whole pool (`HasTraits.__deepcopy__` = `clone_traits(copy='deep')`).  The second
loop of `copy_traits` (has_traits.py:1614-1631) ASSIGNS to every deferring attribute of the clone the value
read through the original: `setattr(clone, name, getattr(original, name))`.  For a PrototypedFrom attribute
this is a local assignment — the clone's attribute holds a local value and has lost its forwarder although
the original was linked (known finding `clone-localises-linked-prototype`); for a DelegatesTo attribute it is
a write through the clone's chain (to its end, finding F20).  An attribute that cannot be read or assigned is
skipped ("unassignable").  Validators are assumed to accept the values they stored. -/
def Pool.cloneAll (E : Env) (p : Pool) : Pool :=
  let p0 : Pool := { p with obj := fun j => (p.obj j).fresh }
  (cloneOrder p).foldl (fun q o =>
    (p.obj o).cls.deferNames.foldl (fun q' nd =>
      match read p p.fuel o nd.1 with
      | .ok v => cloneAssign E q' o nd.1 nd.2 v
      | .error _ => q') q) p0

/-- Is `o` the delegate of another object?  (`copy.copy` of such an object is skipped by both drivers.) -/
def isDelegateOfOther (p : Pool) (o : ObjId) : Bool :=
  (List.range p.size).any fun j => j ≠ o && (p.obj j).deleg == some o

/-- Would `o.d = t` close a cycle in the delegate graph?  (Guard used by both drivers.) -/
def reaches (p : Pool) : Nat → ObjId → ObjId → Bool
  | 0, _, _ => false
  | f + 1, cur, o =>
    if cur = o then true
    else match (p.obj cur).deleg with
      | none => false
      | some x => reaches p f x o

def wouldCycle (p : Pool) (o : ObjId) (t : Option ObjId) : Bool :=
  match t with
  | none => false
  | some x => reaches p (p.size + 2) x o

end TraitsVerif.Model.Deleg
