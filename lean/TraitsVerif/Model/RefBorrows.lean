/-
"Stale borrow" events along one control-flow path of a C function, and the
checker (twin: `harness/translate/crefborrows.py` `stale`).

A value is FIELD-BORROWED when the function reads it from an object field of a
struct (`trait->py_validate`, `obj->obj_dict`, ...) or takes it out of a
container without a `Py_INCREF`: out of a field-borrowed tuple (the tuple is its
`parent`: an item of an immutable tuple lives as long as the tuple) or out of a
list / dict (no parent).  A call that can run arbitrary Python code (`acall`)
may release whatever such a pointer refers to - unless the value or one of its
ancestors is protected by a reference the function took itself (or, for the
entries of `CALLER_PROTECTS`, its caller).  Using it afterwards is a stale
borrow: the class of the use-after-free repaired in baa32de.
-/
namespace TraitsVerif.Model.RefBorrows

/-- * `fborrow parent` the value was acquired field-borrowed (item of tuple `parent`);
* `protect` `Py_INCREF` / `Py_XINCREF` of it; `unprotect` `Py_DECREF` / `Py_XDECREF` / `Py_CLEAR` of it;
* `acall` a call that can run arbitrary code returned (the value index of this event is ignored);
* `use` the value is passed to a call or macro, released, returned, dereferenced or called through. -/
inductive BEv
  | fborrow (parent : Option Nat) | protect | unprotect | acall | use
  deriving DecidableEq, Repr

structure BPath where
  fn : String
  ord : Nat
  evs : List (Nat × BEv)
  deriving Repr

/-- What is known of one tracked value. -/
structure Info where
  v : Nat
  parent : Option Nat
  prot : Nat
  stale : Bool
  deriving Repr

def find (t : List Info) (v : Nat) : Option Info := t.find? (·.v == v)

/-- Is `v` or one of its ancestors (up to `fuel` links) protected? -/
def protectedChain (t : List Info) : Nat → Nat → Bool
  | 0, _ => false
  | fuel + 1, v =>
    match find t v with
    | none => false
    | some i => i.prot > 0 || (match i.parent with
                               | some p => protectedChain t fuel p
                               | none => false)

def upd (t : List Info) (v : Nat) (f : Info → Info) : List Info :=
  t.map (fun i => if i.v == v then f i else i)

/-- One event: the table afterwards, and the value if this event is a stale use. -/
def stepB (t : List Info) (x : Nat × BEv) : List Info × Option Nat :=
  match x.2 with
  | .fborrow p => (⟨x.1, p, 0, false⟩ :: t.filter (·.v != x.1), none)
  | .protect => (upd t x.1 (fun i => { i with prot := i.prot + 1 }), none)
  | .unprotect => (upd t x.1 (fun i => { i with prot := i.prot - 1 }), none)
  | .acall => (t.map (fun i => if protectedChain t 4 i.v then i else { i with stale := true }), none)
  | .use => (t, match find t x.1 with
                | some i => if i.stale then some x.1 else none
                | none => none)

/-- The values used while stale, in path order (with repetitions). -/
def staleUses : List (Nat × BEv) → List Info → List Nat
  | [], _ => []
  | x :: rest, t =>
    let r := stepB t x
    match r.2 with
    | some v => v :: staleUses rest r.1
    | none => staleUses rest r.1

def staleBorrows (p : BPath) : List Nat := (staleUses p.evs []).eraseDups

/-- No stale use on the path, except of the values in `skip`. -/
def borrowOkExcept (skip : List Nat) (p : BPath) : Bool :=
  (staleUses p.evs []).all (fun v => skip.contains v)

def borrowOk (p : BPath) : Bool := borrowOkExcept [] p

end TraitsVerif.Model.RefBorrows
