/-
PyVRun — the translated `validate` methods of trait_types.py put together: the method
table (methods and the module function `_validate_int` are called by qualified name, with a
bound on the call depth), and `srcPy`: the method the handler of a trait type runs,
interpreted on its translated source text with the attributes the constructor stored.
-/
import TraitsVerif.Generated.PyValidators
namespace TraitsVerif.Model.PyVSrc
open TraitsVerif TraitsVerif.Py.Value TraitsVerif.Model.Val TraitsVerif.Generated.PyValidators

/-- Call the translated method `name`; calls nest at most `depth` deep. -/
def runL (E : Env) (cfg : String → PV) : Nat → String → List PV → MRes
  | 0, _, _ => .stuck
  | n + 1, name, args =>
    match table.lookup name with
    | some m => runMethod ⟨E, cfg, runL E cfg n⟩ m args
    | none => .stuck

/-- `handler.validate(object, name, v)` for the handler of trait type `t`, interpreted on
the translated source text (call depth 3: validate → float_validate → _validate_int). -/
def srcPy (E : Env) (t : TraitType) (v : Val) : Option Res :=
  match pyMethodOf t with
  | some name => toRes (runL E (selfCfgE E t) 3 name [.self_, .hobj, .name, .val v])
  | none => none

end TraitsVerif.Model.PyVSrc
