/-
Model of `traits/adaptation/adaptation_manager.py` (pinned tree):
  `mro_distance_to_protocol` (40-72), `provides_protocol` (75-91), `adapt` (95-143),
  `register_offer` (145-151), `supports_protocol` (178-186), `_adapt` (195-305),
  `_get_applicable_offers` (307-335), `_by_weight_then_from_protocol_specificity`
  (338-371); of the two CPython pieces `_adapt` leans on (`list.sort` on fewer than
  64 items = `count_run` + `binarysort` of Objects/listobject.c, and `heapq` as a
  priority queue); and of `validate_trait_adapt` (`traits/ctraits.c` 3904-3983)
  with the two `setattr_trait` flags used by `Supports` / `AdaptsTo`
  (`traits/trait_types.py` 3686-3737, `ctraits.c` 2445-2541).

Types are indices into a finite universe.  Everything CPython computes from the
class objects is *data*: `provides t p` = `issubclass(t, p)`, `supers t` =
`inspect.getmro(t)[1:]`.  An adapter factory is a parameter: a function of the
call ordinal within the `adapt` call, the offer, and the adaptee it is handed.
Core Lean only; every function is total.
-/
import TraitsVerif.Py.Basic
namespace TraitsVerif.Model.Adapt
open TraitsVerif

/-! ## Data -/

/-- An `AdaptationOffer` object.  `id` is the object identity (`offer not in path`
compares offers with the default `==`, i.e. identity); `key` stands for the string
`from_protocol_name` (`"module.__name__"`, adaptation_offer.py:133-154) under which
`register_offer` files the offer. -/
structure Offer where
  id : Nat
  frm : Nat
  to : Nat
  key : Nat := frm
  deriving DecidableEq, Repr, Inhabited

/-- The static inputs of one `adapt` call. -/
structure Cfg where
  /-- `issubclass(t, p)` (`provides_protocol`, :75-91). -/
  provides : Nat → Nat → Bool
  /-- `inspect.getmro(t)[1:]`. -/
  supers : Nat → List Nat
  /-- `self._adaptation_offers.values()` in dict (= first registration) order. -/
  groups : List (List Offer)

/-! ## `register_offer` (145-151) -/

/-- `offers = self._adaptation_offers.setdefault(offer.from_protocol_name, []);
offers.append(offer)` on an insertion-ordered dict. -/
def registerOffer (reg : List (Nat × List Offer)) (o : Offer) : List (Nat × List Offer) :=
  if reg.any (fun kv => kv.1 == o.key) then
    reg.map (fun kv => if kv.1 == o.key then (kv.1, kv.2 ++ [o]) else kv)
  else reg ++ [(o.key, [o])]

/-- The registry after a sequence of `register_offer` calls on a fresh manager. -/
def registry (os : List Offer) : List (Nat × List Offer) := os.foldl registerOffer []

/-- `.values()` of the registry. -/
def groupsOf (os : List Offer) : List (List Offer) := (registry os).map (·.2)

/-! ## `mro_distance_to_protocol` (40-72) -/

/-- The `for t in supertypes: if provides: distance += 1 else: break` loop. -/
def countWhile (p : Nat → Bool) : List Nat → Nat
  | [] => 0
  | t :: ts => if p t then countWhile p ts + 1 else 0

def dist (cfg : Cfg) (t p : Nat) : Option Nat :=
  if cfg.provides t p then some (countWhile (fun s => cfg.provides s p) (cfg.supers t))
  else none

/-! ## `_get_applicable_offers` (307-335) -/

/-- An edge `(mro_distance, offer)`. -/
abbrev Edge := Nat × Offer

/-- `offer in path` (identity). -/
def inPath (o : Offer) (path : List Offer) : Bool := path.any (fun p => p.id == o.id)

/-- Body of the outer `for` for one `(from_protocol_name, offers)` item: the
distance is computed once, from `offers[0].from_protocol` (:322-325). -/
def groupEdges (cfg : Cfg) (cur : Nat) (path : List Offer) (g : List Offer) : List Edge :=
  match g with
  | [] => []                       -- unreachable: a bucket is created non-empty
  | o0 :: _ =>
    match dist cfg cur o0.frm with
    | none => []
    | some d => (g.filter (fun o => !inPath o path)).map (fun o => (d, o))

def applicable (cfg : Cfg) (cur : Nat) (path : List Offer) : List Edge :=
  cfg.groups.flatMap (groupEdges cfg cur path)

/-! ## `_by_weight_then_from_protocol_specificity` (338-371) -/

/-- `cmp(e1, e2) < 0`: the only thing `list.sort` asks of a `cmp_to_key` key. -/
def edgeLt (cfg : Cfg) (e1 e2 : Edge) : Bool :=
  e1.1 < e2.1 ||
  (e1.1 == e2.1 && e1.2.frm != e2.2.frm && cfg.provides e1.2.frm e2.2.frm)

/-! ## CPython `list.sort` for fewer than 64 items (listobject.c, 3.12)

`minrun = n`, so the whole sort is: `count_run` on the front (a maximal
non-descending run, or a maximal strictly descending run which is reversed),
then `binarysort` inserts the remaining items one by one.  With the comparison
above — not a weak order — the result depends on exactly this probe sequence. -/

variable {α : Type}

/-- The `do … while (l < r)` binary search of `binarysort`: where `pivot` goes in
the sorted prefix `xs`.  The loop runs at most `r - l` times (the interval at
least halves), which is the fuel `bisect` supplies; recursion on the fuel keeps
the function structurally recursive (kernel-reducible). -/
def bisectGo (lt : α → α → Bool) (pivot : α) (xs : List α) : Nat → Nat → Nat → Nat
  | 0, l, _ => l
  | fuel + 1, l, r =>
    if l < r then
      let p := l + (r - l) / 2
      match xs[p]? with
      | none => l                  -- unreachable (p < r ≤ xs.length)
      | some x =>
        if lt pivot x then bisectGo lt pivot xs fuel l p else bisectGo lt pivot xs fuel (p + 1) r
    else l

def bisect (lt : α → α → Bool) (pivot : α) (xs : List α) (l r : Nat) : Nat :=
  bisectGo lt pivot xs (r - l) l r

def binInsert (lt : α → α → Bool) (xs : List α) (pivot : α) : List α :=
  let i := bisect lt pivot xs 0 xs.length
  xs.take i ++ pivot :: xs.drop i

/-- `count_run`, ascending branch: extend while `not (x < prev)`. -/
def runAsc (lt : α → α → Bool) (prev : α) : List α → List α × List α
  | [] => ([], [])
  | x :: xs =>
    if lt x prev then ([], x :: xs)
    else ((runAsc lt x xs).1.cons x, (runAsc lt x xs).2)

/-- `count_run`, descending branch: extend while `x < prev`. -/
def runDesc (lt : α → α → Bool) (prev : α) : List α → List α × List α
  | [] => ([], [])
  | x :: xs =>
    if lt x prev then ((runDesc lt x xs).1.cons x, (runDesc lt x xs).2)
    else ([], x :: xs)

def pySort (lt : α → α → Bool) : List α → List α
  | [] => []
  | [a] => [a]
  | a :: b :: rest =>
    if lt b a then
      (runDesc lt b rest).2.foldl (binInsert lt) (a :: b :: (runDesc lt b rest).1).reverse
    else
      (runAsc lt b rest).2.foldl (binInsert lt) (a :: b :: (runAsc lt b rest).1)

/-! ## The priority queue of `_adapt` -/

/-- `((n_adapters, mro_steps, counter), path, current_protocol)` (:241-254). -/
structure Entry where
  nAd : Nat
  mroSum : Nat
  cnt : Nat
  path : List Offer
  cur : Nat
  deriving Repr

/-- Tuple `<` on the weights (the counter is unique, so the comparison never
reaches `path`). -/
def keyLt (a b : Entry) : Bool :=
  a.nAd < b.nAd || (a.nAd == b.nAd && (a.mroSum < b.mroSum || (a.mroSum == b.mroSum && a.cnt < b.cnt)))

/-- `heappush` on the sorted-list representation of the heap
(`Lemmas.Adapt.heap_is_sorted_list`: with unique keys, popping the head of this
list is what any correct min-heap pops). -/
def qInsert (e : Entry) : List Entry → List Entry
  | [] => [e]
  | x :: xs => if keyLt e x then e :: x :: xs else x :: qInsert e xs

/-! ## Factories -/

/-- What `offer.factory(adapter)` does. -/
inductive FOut (α : Type) where
  | adapter (a : α)
  | none
  | raise (e : Exc)
  deriving DecidableEq, Repr

/-- A factory table: call ordinal within this `adapt` call, offer, adaptee. -/
abbrev Factory (α : Type) := Nat → Offer → α → FOut α

inductive Outcome where
  | ok | none | raise
  deriving DecidableEq, Repr

/-- One factory invocation as seen from outside: which offer, what came back. -/
structure CallRec where
  oid : Nat
  out : Outcome
  deriving DecidableEq, Repr

inductive WalkRes (α : Type) where
  | done (a : α)
  | failed
  | raised (e : Exc)
  deriving DecidableEq, Repr

/-- "Walk path and create adapters" (:279-291).  The trace is the list of factory
calls made so far in this `adapt` call; its length is the next call ordinal. -/
def walk (f : Factory α) : List Offer → α → List CallRec → WalkRes α × List CallRec
  | [], a, tr => (.done a, tr)
  | o :: os, a, tr =>
    match f tr.length o a with
    | .adapter a' => walk f os a' (tr ++ [⟨o.id, .ok⟩])
    | .none => (.failed, tr ++ [⟨o.id, .none⟩])
    | .raise e => (.raised e, tr ++ [⟨o.id, .raise⟩])

/-! ## `_adapt` (195-305) -/

structure St where
  queue : List Entry
  counter : Nat
  trace : List CallRec

inductive Res (α : Type) where
  | found (path : List Offer) (a : α)
  | raised (e : Exc)
  | notFound
  | outOfFuel
  deriving DecidableEq, Repr

/-- The `for mro_distance, offer in edges:` loop for the popped entry `w`
(:274-303).  `some r` = the function returned / raised. -/
def processEdges (cfg : Cfg) (f : Factory α) (adaptee : α) (target : Nat) (w : Entry) :
    List Edge → St → Option (Res α) × St
  | [], st => (none, st)
  | (d, o) :: es, st =>
    let newPath := w.path ++ [o]
    if cfg.provides o.to target then
      match walk f newPath adaptee st.trace with
      | (.done a, tr) => (some (.found newPath a), { st with trace := tr })
      | (.raised e, tr) => (some (.raised e), { st with trace := tr })
      | (.failed, tr) => processEdges cfg f adaptee target w es { st with trace := tr }
    else
      processEdges cfg f adaptee target w es
        { st with
          queue := qInsert ⟨w.nAd + 1, w.mroSum + d, st.counter, newPath, o.to⟩ st.queue
          counter := st.counter + 1 }

/-- `while len(offer_queue) > 0:` (:256-305), fuel-indexed. -/
def adaptLoop (cfg : Cfg) (f : Factory α) (adaptee : α) (target : Nat) :
    Nat → St → Res α × List CallRec
  | 0, st => (.outOfFuel, st.trace)
  | fuel + 1, st =>
    match st.queue with
    | [] => (.notFound, st.trace)
    | w :: rest =>
      let edges := pySort (edgeLt cfg) (applicable cfg w.cur w.path)
      match processEdges cfg f adaptee target w edges { st with queue := rest } with
      | (some r, st') => (r, st'.trace)
      | (none, st') => adaptLoop cfg f adaptee target fuel st'

/-- Number of offer-simple paths over `m` usable registry entries: `Σₖ m!/(m−k)!`. -/
def simplePaths : Nat → Nat
  | 0 => 1
  | m + 1 => 1 + (m + 1) * simplePaths m

def nOffers (cfg : Cfg) : Nat := cfg.groups.flatten.length

/-- Enough fuel (`Lemmas.Adapt.fuel_suffices`). -/
def fuelFor (cfg : Cfg) : Nat := simplePaths (nOffers cfg) + 1

def initSt (srcType : Nat) : St :=
  { queue := [⟨0, 0, 0, [], srcType⟩], counter := 1, trace := [] }

/-- `self._adapt(adaptee, to_protocol)`. -/
def adaptInner (cfg : Cfg) (f : Factory α) (srcType : Nat) (adaptee : α) (target : Nat) :
    Res α × List CallRec :=
  adaptLoop cfg f adaptee target (fuelFor cfg) (initSt srcType)

/-! ## `adapt` (95-143), `supports_protocol` (178-186) -/

inductive Out (α : Type) where
  | self                                   -- the adaptee, unchanged
  | adapted (path : List Offer) (a : α)    -- the adapter built along `path`
  | default                                -- the `default` argument
  | error (e : Exc)
  deriving DecidableEq, Repr

/-- `if result is None:` (:135-141). -/
def noneResult (hasDefault : Bool) : Out α :=
  if hasDefault then .default else .error .adaptationError

/-- `adapt(adaptee, to_protocol, default)`.  An adaptee whose type provides the protocol
is returned at once (:131-135) — whatever it is, `None` included; the `result is None`
test (:141) is about what `_adapt` found. -/
def adapt (cfg : Cfg) (f : Factory α) (srcType : Nat) (adaptee : α)
    (target : Nat) (hasDefault : Bool) : Out α × List CallRec :=
  if cfg.provides srcType target then (.self, [])
  else
    match adaptInner cfg f srcType adaptee target with
    | (.found p a, tr) => (.adapted p a, tr)
    | (.raised e, tr) => (.error e, tr)
    | (.notFound, tr) => (noneResult hasDefault, tr)
    | (.outOfFuel, tr) => (.error .other, tr)   -- unreachable: `fuel_suffices`

/-- `self.adapt(obj, protocol, _MISSING) is not _MISSING` (:192; the default is a private
sentinel); `.error` = the factory's exception. -/
def supportsProtocol (cfg : Cfg) (f : Factory α) (srcType : Nat) (adaptee : α)
    (target : Nat) : Except Exc Bool × List CallRec :=
  match adapt cfg f srcType adaptee target true with
  | (.self, tr) => (.ok true, tr)
  | (.adapted _ _, tr) => (.ok true, tr)
  | (.default, tr) => (.ok false, tr)
  | (.error e, tr) => (.error e, tr)

/-! ## `validate_trait_adapt` (ctraits.c 3904-3983) and the setattr flags -/

/-- What the validator hands back. -/
inductive VOut (α : Type) where
  | value                                  -- the assigned value itself
  | adapted (path : List Offer) (a : α)
  | default                                -- `default_value_for(trait, obj, name)`
  | error (e : Exc)
  deriving DecidableEq, Repr

/-- `mode` = `AdaptMap[adapt]` (0 'no', 1 'yes', 2 'default'); `isInst` =
`isinstance(value, klass)`; `ad` = the outcome of `adapt(value, klass, None)`. -/
def validateAdapt (mode : Nat) (allowNone : Bool) (valueIsNone : Bool) (isInst : Bool)
    (ad : Out α) : VOut α :=
  if valueIsNone then (if allowNone then .value else .error .traitError)       -- :3915-3927
  else if mode = 0 then (if isInst then .value else .error .traitError)        -- :3936-3948
  else
    match ad with                                                              -- :3951-3963
    | .error e => .error e
    | .self => .value
    | .adapted p a => .adapted p a
    | .default =>                                                              -- adapt gave None
      if isInst then .value                                                    -- :3966-3973
      else if mode = 1 then .error .traitError                                 -- :3977-3979
      else .default                                                            -- :3980-3982

/-- `validate_trait_instance` (ctraits.c): the fast validator `Instance.init_fast_validate`
(trait_types.py 3667-3683) installs when `adapt == 0`: `(instance, None, klass)` with
`allow_none`, `(instance, klass)` without. -/
def validateInstance (allowNone : Bool) (valueIsNone : Bool) (isInst : Bool) : VOut α :=
  -- `None` is valid exactly when the tuple has the `None` slot; it is never tested against the class
  if (allowNone && valueIsNone) || (!valueIsNone && isInst) then .value else .error .traitError

/-- The validator an `Instance` / `Supports` / `AdaptsTo` trait runs on assignment:
`init_fast_validate` picks `validate_trait_instance` for mode 0 and
`validate_trait_adapt` otherwise. -/
def validateTrait (mode : Nat) (allowNone : Bool) (valueIsNone : Bool) (isInst : Bool)
    (ad : Out α) : VOut α :=
  if mode = 0 then validateInstance allowNone valueIsNone isInst
  else validateAdapt mode allowNone valueIsNone isInst ad

/-- The `adapt` call `validate_trait_adapt` makes (none for `None` / mode 0). -/
def validateCalls (mode : Nat) (valueIsNone : Bool) : Bool := !valueIsNone && mode != 0

/-- What `setattr_trait` stores under `name` and what `Supports.post_setattr`
stores under `name_`: `orig` = `TRAIT_SETATTR_ORIGINAL_VALUE` (AdaptsTo),
`postOrig` = `TRAIT_POST_SETATTR_ORIGINAL_VALUE` (Supports). -/
def stored (orig : Bool) (v : VOut α) : VOut α := if orig then .value else v
def shadow (postOrig : Bool) (v : VOut α) : VOut α := if postOrig then .value else v

/-! ## Re-assignment: `setattr_trait` (ctraits.c 2445-2541) over a history

An adapting trait with a `post_setattr` (Supports, AdaptsTo) keeps two slots in the
instance dict: `name` and the shadow `name_`.  `post_setattr` runs only when
`changed`, and `changed = (old_value != value)` compares — by identity — the value
*stored* so far with the *validated* new value (:2516-2518). -/

structure Slots (β : Type) where
  stored : β
  shadow : Option β
  deriving DecidableEq, Repr

/-- One successful assignment.  `old` = the current slots, `none` when `name` is not in
the instance dict yet: then the trait's default value `dflt` is created, stored and
handed to `post_setattr` first (:2487-2509).  `same` is object identity; `original`
the assigned object, `validated` what the validator returned for it. -/
def assignSlots {β : Type} (orig postOrig : Bool) (same : β → β → Bool) (old : Option (Slots β))
    (dflt original validated : β) : Slots β :=
  let old' : Slots β :=
    match old with
    | some s => s
    | none => { stored := dflt, shadow := some dflt }
  let changed := !(same old'.stored validated)                       -- :2516-2518
  { stored := if orig then original else validated                   -- :2471, :2521
    shadow := if changed then some (if postOrig then original else validated)   -- :2534-2541
              else old'.shadow }

end TraitsVerif.Model.Adapt
