/-
Model of `traits/trait_dict_object.py` class `TraitDict` (lines 114-349 of the
pinned tree: `__init__`, `notify`, `__setitem__`, `__delitem__`, `__ior__`,
`clear`, `update`, `setdefault`, `pop`, `popitem`) and of
`traits/observation/_dict_change_event.py` `dict_event_factory` (lines 54-82),
transcribed line by line.  A mutating method becomes a function from the old
contents to `Except Exc (new contents × return value × optional notification)`;
the `super().xxx` calls are the `Py.Dict` operations; the key/value validators
are parameters (`Callback`, DESIGN §4): the ordinal of a call is the number of
earlier calls of the *same* validator within the operation.
-/
import TraitsVerif.Py.Dict
namespace TraitsVerif.Model.Map
open TraitsVerif TraitsVerif.Py
open TraitsVerif.Py.Dict (get? contains set erase update ofPairs Op Ret)

variable {K V : Type} [DecidableEq K]

/-- The three dicts handed to `notify(removed, added, changed)`. -/
structure Triple (K V : Type) where
  removed : Dict K V
  added : Dict K V
  changed : Dict K V
  deriving Repr, DecidableEq

/-- Result of a successful operation. -/
structure DOut (K V : Type) where
  items : Dict K V
  ret : Ret K V := .none
  event : Option (Triple K V) := none
  deriving Repr, DecidableEq

/-- `for key, value in items: validated_key = self.key_validator(key);
validated_value = self.value_validator(value)` — key first, then value, pair by
pair; the first failure aborts (trait_dict_object.py:217-219, 260-262, 138-139). -/
def valPairs (kv : Callback K K) (vv : Callback V V) : Nat → List (K × V) → Except Exc (List (K × V))
  | _, [] => .ok []
  | n, (k, v) :: ps =>
    match kv n k with
    | .error e => .error e
    | .ok k' =>
      match vv n v with
      | .error e => .error e
      | .ok v' =>
        match valPairs kv vv (n + 1) ps with
        | .error e => .error e
        | .ok ps' => .ok ((k', v') :: ps')

/-- Accumulators of the `update` / `__ior__` loop. -/
structure UpdAcc (K V : Type) where
  validated : Dict K V := []
  added : Dict K V := []
  changed : Dict K V := []

/-- Body of the loop at trait_dict_object.py:260-269 (`__ior__`: 217-226) on
already validated pairs; `d` is `self`, which the loop does not mutate:
```
if validated_key in self: changed[validated_key] = self[validated_key]
else:                     added[validated_key] = validated_value
validated_dict[validated_key] = validated_value
``` -/
def updLoop (d : Dict K V) : List (K × V) → UpdAcc K V → UpdAcc K V
  | [], acc => acc
  | (k, v) :: ps, acc =>
    match get? d k with
    | some old => updLoop d ps { acc with changed := set acc.changed k old, validated := set acc.validated k v }
    | none => updLoop d ps { acc with added := set acc.added k v, validated := set acc.validated k v }

/-- `update(other)` and `__ior__(other)` share everything but the return value. -/
def updateLike (kv : Callback K K) (vv : Callback V V) (d : Dict K V) (ps : List (K × V))
    (ret : Ret K V) : Except Exc (DOut K V) :=
  match valPairs kv vv 0 ps with
  | .error e => .error e
  | .ok ps' =>
    let acc := updLoop d ps' {}
    -- super().update(validated_dict)
    let d' := update d acc.validated
    -- if added or changed: self.notify(removed={}, added=added, changed=changed)
    if acc.added.isEmpty && acc.changed.isEmpty then .ok { items := d', ret := ret }
    else .ok { items := d', ret := ret, event := some ⟨[], acc.added, acc.changed⟩ }

/-- `__setitem__` body after validation (also the tail of `setdefault`),
trait_dict_object.py:174-182 / 291-300. -/
def storeValidated (d : Dict K V) (k' : K) (v' : V) (ret : Ret K V) : DOut K V :=
  match get? d k' with
  | some old => { items := set d k' v', ret := ret, event := some ⟨[], [], [(k', old)]⟩ }
  | none => { items := set d k' v', ret := ret, event := some ⟨[], [(k', v')], []⟩ }

/-- One `TraitDict` method call on contents `d`. -/
def TraitDict.step (kv : Callback K K) (vv : Callback V V) (d : Dict K V) : Op K V → Except Exc (DOut K V)
  | .setitem k v =>                                   -- :159-182
    match kv 0 k with
    | .error e => .error e
    | .ok k' =>
      match vv 0 v with
      | .error e => .error e
      | .ok v' => .ok (storeValidated d k' v' .none)
  | .delitem k =>                                     -- :184-200
    -- removed = {key: self[key]} if key in self else {};  super().__delitem__(key) raises KeyError
    match get? d k with
    | none => .error .keyError
    | some x => .ok { items := erase d k, event := some ⟨[(k, x)], [], []⟩ }
  | .ior ps => updateLike kv vv d ps .self            -- :203-233
  | .clear =>                                         -- :235-242
    if d.isEmpty then .ok { items := [] }
    else .ok { items := [], event := some ⟨d, [], []⟩ }
  | .update ps => updateLike kv vv d ps .none         -- :244-273
  | .setdefault k v =>                                -- :275-302
    -- if key in self: return self[key]       (containment of the RAW key)
    match get? d k with
    | some x => .ok { items := d, ret := .val x }
    | none =>
      match kv 0 k with
      | .error e => .error e
      | .ok k' =>
        match vv 0 v with
        | .error e => .error e
        | .ok v' => .ok (storeValidated d k' v' (.val v'))
  | .pop k =>                                         -- :304-330, value is Undefined
    match get? d k with
    | none => .error .keyError
    | some x => .ok { items := erase d k, ret := .val x, event := some ⟨[(k, x)], [], []⟩ }
  | .popDefault k dflt =>                             -- :304-330, default given
    -- should_notify = key in self
    match get? d k with
    | none => .ok { items := d, ret := .val dflt }
    | some x => .ok { items := erase d k, ret := .val x, event := some ⟨[(k, x)], [], []⟩ }
  | .popitem =>                                       -- :332-349
    match d.getLast? with
    | none => .error .keyError
    | some (k, x) => .ok { items := d.dropLast, ret := .pair k x, event := some ⟨[(k, x)], [], []⟩ }

/-- `TraitDict(value, key_validator=kv, value_validator=vv)` (:121-141). -/
def TraitDict.init (kv : Callback K K) (vv : Callback V V) (ps : List (K × V)) : Except Exc (Dict K V) :=
  match valPairs kv vv 0 ps with
  | .error e => .error e
  | .ok ps' => .ok (ofPairs ps')

/-- The constructors as `TraitDict.init` and the drivers assume them (statement
texts of `__new__` / `__init__` of `TraitDict` and `__init__` of
`TraitDictObject`, trait_dict_object.py:114-141, 440-452): a validator / notifier
list is taken iff it `is not None` (a falsy callable object or an empty list is
used as given), and a `TraitDictObject` is linked to its owner iff the owner
`is not None` (an alive but falsy owner is an owner).  `Props/C06.lean`
`C06_init_source` compares them with the texts read from the working tree. -/
def dictConstructorsAssumed : List (List String) :=
  [["def __new__(cls, *args, **kwargs)",
    "self = super().__new__(cls)",
    "self.key_validator = _validate_everything",
    "self.value_validator = _validate_everything",
    "self.notifiers = []",
    "return self"],
   ["def __init__(self, value=None, *, key_validator=None, value_validator=None, notifiers=None)",
    "if key_validator is not None: self.key_validator = key_validator",
    "if value_validator is not None: self.value_validator = value_validator",
    "if notifiers is None: notifiers = []",
    "self.notifiers = notifiers",
    "if value is None: value = {}",
    "items = value.items() if hasattr(value, 'keys') else value",
    "value = {self.key_validator(key): self.value_validator(value) for key, value in items}",
    "super().__init__(value)"],
   ["def __init__(self, trait, object, name, value)",
    "self.trait = trait",
    "self.object = (lambda: None) if object is None else ref(object)",
    "self.name = name",
    "self.name_items = None",
    "if trait is not None and trait.has_items: self.name_items = name + '_items'",
    "super().__init__(value, key_validator=self._key_validator, value_validator=self._value_validator, notifiers=[self.notifier])"]]

/-! ### Notifiers -/

/-- `for key in changed: added[key] = trait_dict[key]` (_dict_change_event.py:77-78);
`none` = the KeyError of `trait_dict[key]`. -/
def mergeAdded (post : Dict K V) : List (K × V) → Dict K V → Option (Dict K V)
  | [], a => some a
  | (k, _) :: cs, a =>
    match get? post k with
    | none => none
    | some v => mergeAdded post cs (set a k v)

/-- What `DictChangeEvent` carries. -/
structure DictChangeEvent (K V : Type) where
  removed : Dict K V
  added : Dict K V
  deriving Repr, DecidableEq

/-- `dict_event_factory(trait_dict, removed, added, changed)`
(_dict_change_event.py:54-82).  Returns the event and the three argument
objects *as the call leaves them* (they are shared with the notifiers called
later): `removed = removed.copy()` and `added = added.copy()` rebind the local
names, so the arguments are left untouched. -/
def dictEventFactory (post : Dict K V) (t : Triple K V) : Except Exc (DictChangeEvent K V × Triple K V) :=
  let removed := update t.removed t.changed          -- removed = removed.copy(); removed.update(changed)
  match mergeAdded post t.changed t.added with       -- added = added.copy(); for key in changed: ...
  | none => .error .keyError
  | some added => .ok (⟨removed, added⟩, t)

/-- The notifier kinds exercised: a plain notifier that only reads its
arguments, and an observer-style consumer that builds a `DictChangeEvent`. -/
inductive NotifierKind where
  | raw
  | observer
  deriving Repr, DecidableEq

/-- What one notifier was handed / built. -/
inductive Seen (K V : Type) where
  | raw (t : Triple K V)
  | event (e : DictChangeEvent K V)
  | failed (e : Exc)
  deriving Repr, DecidableEq

/-- `TraitDict.notify` (:143-155): every notifier in list order receives the
*same three dict objects*; `t` is their current contents, threaded through the
calls so that a mutation by one notifier is what the next one sees. -/
def notifyAll (post : Dict K V) : List NotifierKind → Triple K V → List (Seen K V)
  | [], _ => []
  | .raw :: ns, t => .raw t :: notifyAll post ns t
  | .observer :: ns, t =>
    match dictEventFactory post t with
    | .error e => [.failed e]
    | .ok (ev, t') => .event ev :: notifyAll post ns t'

/-! ### `dict_event_factory` as a program (aliasing made explicit)

The body of `dict_event_factory` is a straight-line program over the local names
`removed` and `added`.  Each name either still refers to the argument object —
which is shared with the notifiers called later — or has been rebound to a
private copy.  A write through a name that still aliases the argument changes
what later notifiers see.  `Generated/DictEvent.lean` carries the statement
sequence read from the source; `Props/C06.lean` `C06_factory_source` checks it is
`factoryBody`. -/

inductive FStmt where
  | copyRemoved          -- removed = removed.copy()
  | updateRemoved        -- removed.update(changed)
  | copyAdded            -- added = added.copy()
  | mergeAdded           -- for key in changed: added[key] = trait_dict[key]
  | ret                  -- return DictChangeEvent(object=trait_dict, added=added, removed=removed)
  deriving Repr, DecidableEq

def FStmt.name : FStmt → String
  | .copyRemoved => "copy:removed"
  | .updateRemoved => "update:removed:changed"
  | .copyAdded => "copy:added"
  | .mergeAdded => "merge:added"
  | .ret => "return"

/-- Interpreter state: the three argument objects, and the private copies the
local names `removed` / `added` have been rebound to (`none` = still the argument). -/
structure FState (K V : Type) where
  shared : Triple K V
  removedCopy : Option (Dict K V) := none
  addedCopy : Option (Dict K V) := none

def FState.removedVal (σ : FState K V) : Dict K V := σ.removedCopy.getD σ.shared.removed
def FState.addedVal (σ : FState K V) : Dict K V := σ.addedCopy.getD σ.shared.added

/-- Write through the local name `removed`. -/
def FState.setRemoved (σ : FState K V) (d : Dict K V) : FState K V :=
  match σ.removedCopy with
  | some _ => { σ with removedCopy := some d }
  | none => { σ with shared := { σ.shared with removed := d } }

/-- Write through the local name `added`. -/
def FState.setAdded (σ : FState K V) (d : Dict K V) : FState K V :=
  match σ.addedCopy with
  | some _ => { σ with addedCopy := some d }
  | none => { σ with shared := { σ.shared with added := d } }

/-- Run the statements; result = the event returned (`none`: fell off the end) and the final state. -/
def execF (post : Dict K V) : List FStmt → FState K V → Except Exc (Option (DictChangeEvent K V) × FState K V)
  | [], σ => .ok (none, σ)
  | .copyRemoved :: r, σ => execF post r { σ with removedCopy := some σ.removedVal }
  | .updateRemoved :: r, σ => execF post r (σ.setRemoved (update σ.removedVal σ.shared.changed))
  | .copyAdded :: r, σ => execF post r { σ with addedCopy := some σ.addedVal }
  | .mergeAdded :: r, σ =>
    match mergeAdded post σ.shared.changed σ.addedVal with
    | none => .error .keyError
    | some a => execF post r (σ.setAdded a)
  | .ret :: _, σ => .ok (some ⟨σ.removedVal, σ.addedVal⟩, σ)

/-- The factory with body `body`: the event, and the argument objects as left behind. -/
def dictEventFactoryProg (body : List FStmt) (post : Dict K V) (t : Triple K V) :
    Except Exc (DictChangeEvent K V × Triple K V) :=
  match execF post body { shared := t } with
  | .error e => .error e
  | .ok (none, _) => .error .attributeError      -- returned None: the consumer reads `.removed` of None
  | .ok (some ev, σ) => .ok (ev, σ.shared)

/-- The body of `dict_event_factory` in the pinned tree (_dict_change_event.py:74-82). -/
def factoryBody : List FStmt := [.copyRemoved, .updateRemoved, .copyAdded, .mergeAdded, .ret]

/-- The body before commit 98152b1 (finding F7): `added` is written without being copied. -/
def factoryBodyPreFix : List FStmt := [.copyRemoved, .updateRemoved, .mergeAdded, .ret]

/-- `notify` with observers running the factory program `body`. -/
def notifyAllProg (body : List FStmt) (post : Dict K V) : List NotifierKind → Triple K V → List (Seen K V)
  | [], _ => []
  | .raw :: ns, t => .raw t :: notifyAllProg body post ns t
  | .observer :: ns, t =>
    match dictEventFactoryProg body post t with
    | .error e => [.failed e]
    | .ok (ev, t') => .event ev :: notifyAllProg body post ns t'

/-! ### Histories -/

/-- State after an operation: a failed operation leaves the contents as they
were (the `Except.error` branch carries no new state). -/
def TraitDict.next (kv : Callback K K) (vv : Callback V V) (d : Dict K V) (op : Op K V) : Dict K V :=
  match TraitDict.step kv vv d op with
  | .error _ => d
  | .ok o => o.items

/-- A history: the per-operation results, threading the contents. -/
def TraitDict.run (kv : Callback K K) (vv : Callback V V) : Dict K V → List (Op K V) → List (Except Exc (DOut K V))
  | _, [] => []
  | d, op :: ops => TraitDict.step kv vv d op :: TraitDict.run kv vv (TraitDict.next kv vv d op) ops

/-! ### Specification vocabulary of property C06 -/

/-- The pre-state as a mapping, computed from the post-state and a notification:
removed keys had the removed values, changed keys had the old values, added
keys were absent, every other key is as in the post-state. -/
def rebuildGet (post : Dict K V) (t : Triple K V) (k : K) : Option V :=
  match get? t.removed k with
  | some v => some v
  | none =>
    match get? t.changed k with
    | some v => some v
    | none => if contains t.added k then none else get? post k

/-- The same as a dict: drop the added keys from the post-state, put the old
values back on the changed keys, and add the removed items. -/
def reconstruct (post : Dict K V) (t : Triple K V) : Dict K V :=
  t.removed ++ (post.filter (fun p => !contains t.added p.1)).map
    (fun p => (p.1, (get? t.changed p.1).getD p.2))

/-- The reconstruction law with its side conditions (property C06). -/
structure Reconstructs (pre post : Dict K V) (t : Triple K V) : Prop where
  /-- added keys were absent before and now hold the given values -/
  added_new : ∀ k v, get? t.added k = some v → get? pre k = none ∧ get? post k = some v
  /-- changed keys were present, held the given old values, and are still present -/
  changed_old : ∀ k v, get? t.changed k = some v → get? pre k = some v ∧ contains post k = true
  /-- removed keys held the given values and are gone -/
  removed_gone : ∀ k v, get? t.removed k = some v → get? pre k = some v ∧ get? post k = none
  /-- the previous contents are recovered exactly -/
  pre_eq : ∀ k, get? pre k = rebuildGet post t k

/-- The observers' merged view (`DictChangeEvent`): the same law with
`changed` folded into both `removed` (old values) and `added` (new values). -/
structure ObserverView (pre post : Dict K V) (e : DictChangeEvent K V) : Prop where
  added_now : ∀ k v, get? e.added k = some v → get? post k = some v
  removed_was : ∀ k v, get? e.removed k = some v → get? pre k = some v
  removed_only_gone : ∀ k, contains e.removed k = true → contains e.added k = false → get? post k = none
  added_only_new : ∀ k, contains e.added k = true → contains e.removed k = false → get? pre k = none
  pre_eq : ∀ k, get? pre k =
    match get? e.removed k with
    | some v => some v
    | none => if contains e.added k then none else get? post k

/-! ### Reference semantics for the refinement clause of C06 -/

/-- The operation a builtin dict is given: the arguments the method *stores*
are validated, in the order the code validates them; keys that are only looked
up (`del`, `pop`, and `setdefault` when the raw key is already present, where
nothing is stored) are used as given. -/
def validateOp (kv : Callback K K) (vv : Callback V V) (d : Dict K V) : Op K V → Except Exc (Op K V)
  | .setitem k v =>
    match kv 0 k with
    | .error e => .error e
    | .ok k' =>
      match vv 0 v with
      | .error e => .error e
      | .ok v' => .ok (.setitem k' v')
  | .update ps =>
    match valPairs kv vv 0 ps with
    | .error e => .error e
    | .ok ps' => .ok (.update ps')
  | .ior ps =>
    match valPairs kv vv 0 ps with
    | .error e => .error e
    | .ok ps' => .ok (.ior ps')
  | .setdefault k v =>
    if contains d k then .ok (.setdefault k v)
    else
      match kv 0 k with
      | .error e => .error e
      | .ok k' =>
        match vv 0 v with
        | .error e => .error e
        | .ok v' => .ok (.setdefault k' v')
  | op => .ok op

/-- What the builtin dict does on the validated arguments. -/
def reference (kv : Callback K K) (vv : Callback V V) (d : Dict K V) (op : Op K V) :
    Except Exc (Dict K V × Ret K V) :=
  match validateOp kv vv d op with
  | .error e => .error e
  | .ok op' => Dict.step d op'

def DOut.proj (o : DOut K V) : Dict K V × Ret K V := (o.items, o.ret)

/-- Refinement of one step: same contents (insertion order included), same
return value, same exception class. -/
def Refines (kv : Callback K K) (vv : Callback V V) (d : Dict K V) (op : Op K V) : Prop :=
  (TraitDict.step kv vv d op).map DOut.proj = reference kv vv d op

/-- Finding F13: `setdefault` tests containment of the *raw* key.  The
refinement needs raw-key containment to agree with validated-key containment. -/
def SetdefaultHyp (kv : Callback K K) (d : Dict K V) : Op K V → Prop
  | .setdefault k _ => ∀ k', kv 0 k = .ok k' → contains d k' = contains d k
  | _ => True

/-- The reference history: a builtin dict driven by the validated operations. -/
def refRun (kv : Callback K K) (vv : Callback V V) : Dict K V → List (Op K V) → List (Except Exc (Dict K V × Ret K V))
  | _, [] => []
  | d, op :: ops =>
    reference kv vv d op ::
      refRun kv vv (match reference kv vv d op with | .error _ => d | .ok r => r.1) ops

/-- `P pre op` holds at every step of the history started in `d`. -/
def AlongRun (kv : Callback K K) (vv : Callback V V) (P : Dict K V → Op K V → Prop) :
    Dict K V → List (Op K V) → Prop
  | _, [] => True
  | d, op :: ops => P d op ∧ AlongRun kv vv P (TraitDict.next kv vv d op) ops

/-- What the notifiers in `ns` observe during one operation. -/
def TraitDict.notifications (kv : Callback K K) (vv : Callback V V) (ns : List NotifierKind)
    (d : Dict K V) (op : Op K V) : List (Seen K V) :=
  match TraitDict.step kv vv d op with
  | .error _ => []
  | .ok o =>
    match o.event with
    | none => []
    | some t => notifyAll o.items ns t

/-- The operations that change nothing and are silent (property C06, last clause). -/
def SilentCase (d : Dict K V) : Op K V → Prop
  | .update ps => ps = []
  | .ior ps => ps = []
  | .clear => d = []
  | .popDefault k _ => get? d k = none
  | .setdefault k _ => contains d k = true
  | _ => False

/-- What a notifier was handed satisfies the law for its kind. -/
def Seen.Faithful (pre post : Dict K V) : Seen K V → Prop
  | .raw t => Reconstructs pre post t
  | .event e => ObserverView pre post e
  | .failed _ => False

/-- Everything property C06 says about one successful or failed step. -/
structure StepSpec (kv : Callback K K) (vv : Callback V V) (d : Dict K V) (op : Op K V) : Prop where
  atomic : ∀ e, TraitDict.step kv vv d op = .error e →
    TraitDict.next kv vv d op = d ∧ ∀ ns, TraitDict.notifications kv vv ns d op = []
  wf : ∀ o, TraitDict.step kv vv d op = .ok o → Dict.WF o.items
  reconstruct : ∀ o t, TraitDict.step kv vv d op = .ok o → o.event = some t →
    Reconstructs d o.items t ∧ Dict.Equiv (reconstruct o.items t) d
  one_event : ∀ o, TraitDict.step kv vv d op = .ok o → o.items ≠ d → o.event.isSome = true
  never_empty : ∀ o t, TraitDict.step kv vv d op = .ok o → o.event = some t →
    ¬ (t.removed = [] ∧ t.added = [] ∧ t.changed = [])
  every_notifier : ∀ o t ns, TraitDict.step kv vv d op = .ok o → o.event = some t →
    (notifyAll o.items ns t).length = ns.length ∧
    ∀ s ∈ notifyAll o.items ns t, s.Faithful d o.items

/-- The refinement clause of C06 at full strength (no hypothesis on
`setdefault`).  The code as it stands violates it (finding F13); see
`Props/C06.lean` `C06_refines_full_fails`. -/
def C06RefinesFull (K V : Type) [DecidableEq K] : Prop :=
  ∀ (kv : Callback K K) (vv : Callback V V) (d : Dict K V) (op : Op K V), Dict.WF d → Refines kv vv d op

/-- Methods of the builtin `dict` that do not mutate the receiver. -/
def dictNonMutators : List String :=
  ["__class_getitem__", "__contains__", "__getitem__", "__iter__", "__len__", "__or__",
   "__reversed__", "__ror__", "copy", "fromkeys", "get", "items", "keys", "values"]

/-- The mutating methods that `TraitDict.step` models (constructors of `Op`;
`pop` covers `pop`/`popDefault`). -/
def dictModelledMutators : List String :=
  ["__setitem__", "__delitem__", "__ior__", "clear", "pop", "popitem", "setdefault", "update"]

/-- `x` is an output of the validator (it "satisfies the trait after its
documented conversion"); the invariant of property C04. -/
def TraitDict.ValidOut {α : Type} (v : Callback α α) (x : α) : Prop := ∃ n y, v n y = .ok x

end TraitsVerif.Model.Map
