/-
Model of `traits/trait_list_object.py`: `_normalize_slice_or_index`,
`_removed_items` and every mutator of `TraitList` (lines 110-495 of the pinned
tree), transcribed line by line.  A mutable method becomes a function from the
old items to `Except Exc (new items × return value × optional event)`; the
`super().xxx` calls are the `Py.List` operations.
-/
import TraitsVerif.Py.List
namespace TraitsVerif.Model
open TraitsVerif TraitsVerif.Py
variable {α : Type}

/-- Normalised index carried by a list change event. -/
inductive NIdx where
  | idx (n : Int)
  | slc (start stop step : Int)
  deriving DecidableEq, Repr

structure Event (α : Type) where
  index : NIdx
  removed : List α
  added : List α
  deriving Repr

/-- `_normalize_slice_or_index(index, length)` for an integer index. -/
def normalizeIdx (len : Nat) (i : Int) : Bool × NIdx :=
  (false, .idx (if i < 0 then i + len else i))

/-- The body of `_normalize_slice_or_index` after `index.indices(length)`
returned `(start, stop, step)` (trait_list_object.py:114-131). -/
def normalizeCore (len : Nat) (start stop step : Int) : Bool × NIdx :=
  let rev := decide (step < 0)
  -- if reversed: start, stop, step = min(stop - step + (start - stop) % step, length), start + 1, -step
  let start' := if rev then min (stop - step + pymod (start - stop) step) (len : Int) else start
  let stop' := if rev then start + 1 else stop
  let step' := if rev then -step else step
  -- stop -= (stop - start - 1) % step
  let stop'' := stop' - pymod (stop' - start' - 1) step'
  if step' = 1 ∨ stop'' - start' ≤ step' then (rev, .idx start')
  else (rev, .slc start' stop'' step')

/-- `_normalize_slice_or_index(index, length)` for a slice; `none` = the
ValueError of `slice.indices` on a zero step. -/
def normalizeSlice (len : Nat) (s : Slice) : Option (Bool × NIdx) :=
  match s.indices len with
  | none => none
  | some (start, stop, step) => some (normalizeCore len start stop step)

/-- The operations of the list interface that `TraitList` overrides. -/
inductive Op (α : Type) where
  | setIdx (i : Int) (x : α)
  | setSlice (s : Slice) (xs : List α)
  | delIdx (i : Int)
  | delSlice (s : Slice)
  | append (x : α)
  | extend (xs : List α)
  | iadd (xs : List α)
  | imul (n : Int)
  | insert (i : Int) (x : α)
  | pop (i : Int)
  | remove (x : α)
  | clear
  | reverse
  | sort (spec : Nat)   -- `sort(key=…, reverse=…)`: the spec selects the permutation
  deriving Repr

/-- Result of a successful operation. -/
structure Out (α : Type) where
  items : List α
  ret : Option α := none
  event : Option (Event α) := none

/-- Parameters of the model: the item validator (a partial function of call
ordinal and item), `==` on items, and the permutation `list.sort` applies for each
`(key, reverse)` specification. -/
structure Env (α : Type) where
  v : Callback α α
  eq : α → α → Bool
  sort : Nat → List α → List α

/-- One `TraitList` method call on items `l`. -/
def TraitList.step (E : Env α) (l : List α) : Op α → Except Exc (Out α)
  | .setIdx i x =>
    -- removed = _removed_items(self, key, None)   (IndexError suppressed → None)
    let removed : List α := match normIdx l.length i with
      | none => []
      | some j => (l[j]?).toList
    match E.v 0 x with
    | .error e => .error e
    | .ok y =>
      match Py.setIdx l i y with
      | .error e => .error e
      | .ok l' =>
        -- `added` = [value] is never empty
        let (_, n) := normalizeIdx l.length i
        .ok { items := l', event := some ⟨n, removed, [y]⟩ }
  | .setSlice s xs =>
    match Py.getSlice l s with
    | .error e => .error e
    | .ok removed =>
      match valAll E.v 0 xs with
      | .error e => .error e
      | .ok ys =>
        match Py.setSlice l s ys with
        | .error e => .error e
        | .ok l' =>
          if ys.isEmpty && removed.isEmpty then .ok { items := l' }
          else
            match normalizeSlice l.length s with
            | none => .error .valueError
            | some (rev, n) =>
              if rev then .ok { items := l', event := some ⟨n, removed.reverse, ys.reverse⟩ }
              else .ok { items := l', event := some ⟨n, removed, ys⟩ }
  | .delIdx i =>
    let removed : List α := match normIdx l.length i with
      | none => []
      | some j => (l[j]?).toList
    match Py.delIdx l i with
    | .error e => .error e
    | .ok l' =>
      if removed.isEmpty then .ok { items := l' }
      else
        let (_, n) := normalizeIdx l.length i
        .ok { items := l', event := some ⟨n, removed, []⟩ }
  | .delSlice s =>
    match Py.getSlice l s with
    | .error e => .error e
    | .ok removed =>
      match Py.delSlice l s with
      | .error e => .error e
      | .ok l' =>
        if removed.isEmpty then .ok { items := l' }
        else
          match normalizeSlice l.length s with
          | none => .error .valueError
          | some (rev, n) =>
            .ok { items := l', event := some ⟨n, if rev then removed.reverse else removed, []⟩ }
  | .append x =>
    match E.v 0 x with
    | .error e => .error e
    | .ok y =>
      let l' := l ++ [y]
      .ok { items := l', event := some ⟨.idx l.length, [], l'.drop l.length⟩ }
  | .extend xs =>
    match valAll E.v 0 xs with
    | .error e => .error e
    | .ok ys =>
      if ys.isEmpty then .ok { items := l ++ ys }
      else .ok { items := l ++ ys, event := some ⟨.idx l.length, [], ys⟩ }
  | .iadd xs =>
    match valAll E.v 0 xs with
    | .error e => .error e
    | .ok ys =>
      if ys.isEmpty then .ok { items := l ++ ys }
      else .ok { items := l ++ ys, event := some ⟨.idx l.length, [], ys⟩ }
  | .imul n =>
    if n < 1 then
      if l.isEmpty then .ok { items := Py.imul l n }
      else .ok { items := Py.imul l n, event := some ⟨.idx 0, l, []⟩ }
    else
      let l' := Py.imul l n
      let added := l'.drop l.length
      if added.isEmpty then .ok { items := l' }
      else .ok { items := l', event := some ⟨.idx l.length, [], added⟩ }
  | .insert i x =>
    let n : Int := if i < 0 then max (i + l.length) 0 else min i l.length
    match E.v 0 x with
    | .error e => .error e
    | .ok y => .ok { items := Py.insert l i y, event := some ⟨.idx n, [], [y]⟩ }
  | .pop i =>
    let n : Int := if i < 0 then i + l.length else i
    match Py.pop l i with
    | .error e => .error e
    | .ok (x, l') => .ok { items := l', ret := some x, event := some ⟨.idx n, [x], []⟩ }
  | .remove x =>
    match Py.index E.eq l x with
    | none => .error .valueError      -- `super().remove(value)` raises
    | some j =>
      match Py.remove E.eq l x with
      | .error e => .error e
      | .ok l' => .ok { items := l', event := some ⟨.idx j, (l[j]?).toList, []⟩ }
  | .clear =>
    if l.isEmpty then .ok { items := [] }
    else .ok { items := [], event := some ⟨.idx 0, l, []⟩ }
  | .reverse =>
    if l.isEmpty then .ok { items := l.reverse }
    else .ok { items := l.reverse, event := some ⟨.idx 0, l, l.reverse⟩ }
  | .sort sp =>
    if l.isEmpty then .ok { items := E.sort sp l }
    else .ok { items := E.sort sp l, event := some ⟨.idx 0, l, E.sort sp l⟩ }

/-- The builtin `list` operation an `Op` stands for, arguments used as given
(this is what `super().__setitem__` etc. do). -/
def pyStep (E : Env α) (l : List α) : Op α → Except Exc (List α × Option α)
  | .setIdx i x => (Py.setIdx l i x).map (·, none)
  | .setSlice s xs => (Py.setSlice l s xs).map (·, none)
  | .delIdx i => (Py.delIdx l i).map (·, none)
  | .delSlice s => (Py.delSlice l s).map (·, none)
  | .append x => .ok (l ++ [x], none)
  | .extend xs => .ok (l ++ xs, none)
  | .iadd xs => .ok (l ++ xs, none)
  | .imul n => .ok (Py.imul l n, none)
  | .insert i x => .ok (Py.insert l i x, none)
  | .pop i => (Py.pop l i).map (fun (x, l') => (l', some x))
  | .remove x => (Py.remove E.eq l x).map (·, none)
  | .clear => .ok ([], none)
  | .reverse => .ok (l.reverse, none)
  | .sort sp => .ok (E.sort sp l, none)

/-- The same operation with its items passed through the item validator
("the same operations on the validated items"). -/
def validateOp (E : Env α) : Op α → Except Exc (Op α)
  | .setIdx i x => (E.v 0 x).map (.setIdx i)
  | .setSlice s xs => (valAll E.v 0 xs).map (.setSlice s)
  | .append x => (E.v 0 x).map .append
  | .extend xs => (valAll E.v 0 xs).map .extend
  | .iadd xs => (valAll E.v 0 xs).map .iadd
  | .insert i x => (E.v 0 x).map (.insert i)
  | op => .ok op

/-- Specification of "replace, in a snapshot taken before the operation, the
removed items at `index` by the added items" (property C05).  For an integer
index this is Python's `snap[n:n+len(removed)] = added`; for a slice index it is
`snap[start:stop:step] = added`, or `del snap[start:stop:step]` when nothing was
added.  `none` = the replay itself is ill-formed. -/
def replay (l : List α) (e : Event α) : Option (List α) :=
  match e.index with
  | .idx n =>
    if n < 0 then none
    else some (l.take n.toNat ++ e.added ++ l.drop (n.toNat + e.removed.length))
  | .slc a b k =>
    if e.added.isEmpty then (Py.delSlice l ⟨some a, some b, some k⟩).toOption
    else (Py.setSlice l ⟨some a, some b, some k⟩ e.added).toOption

/-- The normal form the property demands of an event, relative to the
contents `l` before the operation: an integer index lies in `0..len` and the
removed items are exactly the items found there; a slice index has
`0 ≤ start < stop ≤ len`, `step ≥ 2`, selects exactly the removed items, and
the added items (if any) are as many as the removed ones. -/
def NormalForm (l : List α) (e : Event α) : Prop :=
  match e.index with
  | .idx n =>
    0 ≤ n ∧ n + e.removed.length ≤ l.length ∧
      e.removed = (l.drop n.toNat).take e.removed.length
  | .slc a b k =>
    0 ≤ a ∧ a < b ∧ b ≤ l.length ∧ 2 ≤ k ∧
      Py.getSlice l ⟨some a, some b, some k⟩ = .ok e.removed ∧
      (e.added = [] ∨ e.added.length = e.removed.length)

/-- `TraitList(iterable, item_validator=v)`. -/
def TraitList.init (E : Env α) (xs : List α) : Except Exc (List α) := valAll E.v 0 xs

/-- A history: fold of `step`, stopping at nothing (a failed op leaves the list
as it was and the history continues), collecting the per-op results. -/
def TraitList.run (E : Env α) : List α → List (Op α) → List (Except Exc (Out α))
  | _, [] => []
  | l, op :: ops =>
    match TraitList.step E l op with
    | .error e => .error e :: TraitList.run E l ops
    | .ok o => .ok o :: TraitList.run E o.items ops

end TraitsVerif.Model
