/-
PyLLink — the deep-embedded language into which `harness/translate/synclink.py`
translates the source text of `HasTraits.sync_trait` (add and remove paths,
`mutual=`) and `HasTraits._is_list_trait`, and its total interpreter.

Control flow is generic (sequence, `if`/`else`, `return`); conditions and actions
are the atomic expressions of `sync_trait` after substitution of its pure local
bindings (`info`, `dic`, `key`, `is_list`, `callback`, `value`).  Reading of the
tables (as in `Model/Sync.lean`): `o.__sync_trait__[n]` is the list of edges with
source `(o, n)`, in insertion order; a table exists iff it is non-empty, so
`info.setdefault(name, {})` / `del info[name]` of an empty table do not show.
`_on_trait_change(handler, name)` registers a handler once;
`_on_trait_change(…, remove=True)` removes it.  The weak-reference callback
`_sync_trait_listener_deleted` stored with every entry is checked by the
translator against its expected text (a digest tripwire, fail closed): it is what
`World.kill` does to the tables of the survivors.
-/
import TraitsVerif.Model.PyLSync
namespace TraitsVerif.Model.PyLLink
open TraitsVerif TraitsVerif.Py TraitsVerif.Model TraitsVerif.Model.Sync TraitsVerif.Model.PyLSync

inductive LCond where
  /-- `remove` -/
  | removeFlag
  /-- `mutual` -/
  | mutualFlag
  /-- `info.get(trait_name) is not None` -/
  | tableExists
  /-- `(id(object), alias) in dic` -/
  | keyInTable
  /-- `len(dic) == 0` -/
  | tableEmpty
  /-- `self._is_list_trait(trait_name) and object._is_list_trait(alias)` -/
  | isList
  /-- `any(other() is not None and other()._is_list_trait(other_alias) for other, other_alias in dic.values())` -/
  | anyListPartner
  | not (c : LCond)
  | and (a b : LCond)
  | or (a b : LCond)
  deriving DecidableEq, Repr

inductive LAct where
  /-- `del dic[key]` -/
  | delKey
  /-- `del info[trait_name]` -/
  | delTable
  /-- `self._on_trait_change(self._sync_trait_modified, trait_name)` -/
  | hookModified
  /-- `… , remove=True)` -/
  | unhookModified
  /-- `self._on_trait_change(self._sync_trait_items_modified, trait_name + "_items")` -/
  | hookItems
  /-- `… , remove=True)` -/
  | unhookItems
  /-- `dic[key] = (weakref.ref(object, callback), alias)` -/
  | setKey
  /-- `setattr(object, alias, getattr(self, trait_name))` -/
  | assignPartner
  /-- `object.sync_trait(alias, self, trait_name, False)` (`false`) / `(…, False, True)` (`true`) -/
  | reverse (remove : Bool)
  deriving DecidableEq, Repr

inductive LStmt where
  | skip
  | act (a : LAct)
  | ret
  | seq (s t : LStmt)
  | ite (c : LCond) (t e : LStmt)
  deriving DecidableEq, Repr

inductive LSig where
  | norm
  | ret
  | exc (e : Exc)
  deriving DecidableEq, Repr

variable {α : Type}

structure LCtx (α : Type) where
  isList : Pair → Bool
  p : Pair
  q : Pair
  both : Bool
  remove : Bool
  call : Rec α
  /-- the reverse call `object.sync_trait(alias, self, trait_name, False[, True])` -/
  rev : Bool → KWorld α → KWorld α × Option Exc

def evalL (c : LCtx α) (k : KWorld α) : LCond → Bool
  | .removeFlag => c.remove
  | .mutualFlag => c.both
  | .tableExists => !(k.w.partners c.p).isEmpty
  | .keyInTable => decide ((⟨c.p, c.q⟩ : Edge) ∈ k.w.edges)
  | .tableEmpty => (k.w.partners c.p).isEmpty
  | .isList => c.isList c.p && c.isList c.q
  | .anyListPartner => k.w.edges.any (fun e => decide (e.src = c.p) && decide (e.dst.1 ∉ k.dead) && c.isList e.dst)
  | .not x => !(evalL c k x)
  | .and a b => evalL c k a && evalL c k b
  | .or a b => evalL c k a || evalL c k b

def setEdges (k : KWorld α) (es : List Edge) : KWorld α := { k with w := { k.w with edges := es } }
def setHooked (k : KWorld α) (h : List Pair) : KWorld α := { k with w := { k.w with hooked := h } }

def doL (c : LCtx α) (k : KWorld α) : LAct → KWorld α × LSig
  | .delKey =>
    if (⟨c.p, c.q⟩ : Edge) ∈ k.w.edges then (setEdges k (k.w.edges.filter (fun e => e ≠ (⟨c.p, c.q⟩ : Edge))), .norm)
    else (k, .exc .keyError)
  | .delTable => (setEdges k (k.w.edges.filter (fun e => e.src ≠ c.p)), .norm)
  | .hookModified => (if c.p ∈ k.hookedM then k else { k with hookedM := c.p :: k.hookedM }, .norm)
  | .unhookModified => ({ k with hookedM := k.hookedM.filter (· ≠ c.p) }, .norm)
  | .hookItems => (if c.p ∈ k.w.hooked then k else setHooked k (c.p :: k.w.hooked), .norm)
  | .unhookItems => (setHooked k (k.w.hooked.filter (· ≠ c.p)), .norm)
  | .setKey => (setEdges k (k.w.edges ++ [(⟨c.p, c.q⟩ : Edge)]), .norm)
  | .assignPartner =>
    match c.call k c.q (.assign (k.w.val c.p)) with
    | .ok (k', _) => (k', .norm)
    | .error e => (k, .exc e)
  | .reverse rm =>
    match c.rev rm k with
    | (k', none) => (k', .norm)
    | (k', some e) => (k', .exc e)

def interpL (c : LCtx α) : LStmt → KWorld α → KWorld α × LSig
  | .skip, k => (k, .norm)
  | .ret, k => (k, .ret)
  | .act a, k => doL c k a
  | .seq a b, k =>
    match interpL c a k with
    | (k1, .norm) => interpL c b k1
    | r => r
  | .ite x t e, k => if evalL c k x then interpL c t k else interpL c e k

def finL (r : KWorld α × LSig) : KWorld α × Option Exc :=
  match r with
  | (k, .exc e) => (k, some e)
  | (k, _) => (k, none)

/-- `self.sync_trait(trait_name, object, alias, mutual, remove)`: the reverse call
runs the same program with the roles swapped and `mutual=False`. -/
def innerCtx (isList : Pair → Bool) (call : Rec α) (p q : Pair) (remove : Bool) : LCtx α :=
  { isList := isList, p := q, q := p, both := false, remove := remove, call := call,
    rev := fun _ k => (k, some .runtimeError) }

def runLink (isList : Pair → Bool) (call : Rec α) (prog : LStmt) (k : KWorld α) (p q : Pair) (both remove : Bool) :
    KWorld α × Option Exc :=
  finL (interpL { isList := isList, p := p, q := q, both := both, remove := remove, call := call,
                  rev := fun r k' => finL (interpL (innerCtx isList call p q r) prog k') } prog k)

/-- `_is_list_trait`: what is known of a trait. -/
inductive DvKind where
  | traitListObject
  | other
  deriving DecidableEq, Repr

structure TraitDesc where
  /-- `base_trait(name).handler` and its `default_value_type` -/
  handler : Option DvKind
  /-- the default-value type stored in the CTrait itself (the metaclass may overwrite it) -/
  ctrait : DvKind

inductive IsListExpr where
  /-- `handler is not None` -/
  | handlerNotNone
  /-- `handler.default_value_type == DefaultValue.trait_list_object` -/
  | handlerDvtIsList
  /-- `self.base_trait(name).default_value()[0] == DefaultValue.trait_list_object` -/
  | ctraitDvtIsList
  | and (a b : IsListExpr)
  deriving DecidableEq, Repr

/-- `none`: AttributeError (`None.default_value_type`). -/
def evalIsList (d : TraitDesc) : IsListExpr → Option Bool
  | .handlerNotNone => some d.handler.isSome
  | .handlerDvtIsList => d.handler.map (fun h => decide (h = .traitListObject))
  | .ctraitDvtIsList => some (decide (d.ctrait = .traitListObject))
  | .and a b =>
    match evalIsList d a with
    | some true => evalIsList d b
    | r => r

/-! ### The weak-reference callback `_sync_trait_listener_deleted(ref, info)`

`info` is one object's `__sync_trait__`: the lock table under `""` (its entries are
trait names) and one partner table per synchronised trait (entries `(id, alias)`,
here: the partner `Pair`).  The two loops run over snapshots (`list(….items())`);
the body touches only the table it is visiting (`del dic[name]`, `del info[key]`),
so a table is interpreted in isolation.  `value[0]` on an entry of the lock table
(`None`) is a `TypeError`; `del dic[name]` of a key of the snapshot that the body
removed before is not modelled (a dict snapshot holds each key once). -/

inductive CbCond where
  /-- `key != ""` -/
  | keyNotLockTable
  /-- `ref is value[0]` -/
  | refIsEntry
  /-- `len(dic) == 0` -/
  | tableEmpty
  deriving DecidableEq, Repr

inductive CbStmt where
  | skip
  | seq (a b : CbStmt)
  | ite (c : CbCond) (t e : CbStmt)
  /-- `for key, dic in list(info.items()):` -/
  | forTables (body : CbStmt)
  /-- `for name, value in list(dic.items()):` -/
  | forEntries (body : CbStmt)
  /-- `del dic[name]` -/
  | delEntry
  /-- `del info[key]` -/
  | delTable
  deriving DecidableEq, Repr

/-- The table being visited: its entries, and whether `del info[key]` removed it. -/
structure CbTable where
  entries : List Pair
  deleted : Bool := false

/-- One object's `__sync_trait__`. -/
structure Info where
  lock : Option (List Name)
  tabs : List (Name × List Pair)

def evalCb (dead : Nat) (isLock : Bool) (cur : Option Pair) (t : CbTable) : CbCond → Except Exc Bool
  | .keyNotLockTable => .ok (!isLock)
  | .refIsEntry =>
    match cur with
    | none => .error .other
    | some e => if isLock then .error .typeError else .ok (decide (e.1 = dead))
  | .tableEmpty => .ok t.entries.isEmpty

def interpCbT (dead : Nat) (isLock : Bool) : CbStmt → Option Pair → CbTable → Except Exc CbTable
  | .skip, _, t => .ok t
  | .seq a b, cur, t =>
    match interpCbT dead isLock a cur t with
    | .ok t1 => interpCbT dead isLock b cur t1
    | .error e => .error e
  | .ite c x y, cur, t =>
    match evalCb dead isLock cur t c with
    | .error e => .error e
    | .ok true => interpCbT dead isLock x cur t
    | .ok false => interpCbT dead isLock y cur t
  | .forEntries body, _, t =>
    t.entries.foldl (fun acc e =>
      match acc with
      | .ok t1 => interpCbT dead isLock body (some e) t1
      | .error x => .error x) (.ok t)
  | .delEntry, some e, t => .ok { t with entries := t.entries.filter (· ≠ e) }
  | .delEntry, none, _ => .error .other
  | .delTable, _, t => .ok { t with deleted := true }
  | .forTables _, _, _ => .error .other

def runTabs (dead : Nat) (body : CbStmt) : List (Name × List Pair) → Except Exc (List (Name × List Pair))
  | [] => .ok []
  | (n, es) :: rest =>
    match interpCbT dead false body none { entries := es } with
    | .error e => .error e
    | .ok t =>
      match runTabs dead body rest with
      | .error e => .error e
      | .ok r => .ok (if t.deleted then r else (n, t.entries) :: r)

/-- The callback on one object's tables, `ref` being the weak reference to object `dead`. -/
def interpCb (dead : Nat) : CbStmt → Info → Except Exc Info
  | .forTables body, i =>
    let lockR : Except Exc (Option (List Name)) :=
      match i.lock with
      | none => .ok none
      | some ns =>
        match interpCbT dead true body none { entries := ns.map (fun n => (0, n)) } with
        | .error e => .error e
        | .ok t => .ok (if t.deleted then none else some (t.entries.map (·.2)))
    match lockR with
    | .error e => .error e
    | .ok l =>
      match runTabs dead body i.tabs with
      | .error e => .error e
      | .ok ts => .ok { lock := l, tabs := ts }
  | _, _ => .error .other

end TraitsVerif.Model.PyLLink
