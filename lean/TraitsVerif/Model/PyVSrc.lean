/-
PyVSrc — the subset of Python in which the `validate` methods of the trait types of
`traits/trait_types.py` are written, deep-embedded, with a total continuation-passing
interpreter over `Py.Val`.

`harness/translate/pyvalidators.py` translates the *source text* of the methods (with
`ast`) into terms of this language on every run (`Generated/PyValidators.lean`);
`Props/C03.lean` proves (`C03_py_is_source`) that the arms of the hand-written
`pyValidate` of Model/PyValidate.lean are exactly the interpretation of those terms.

What the interpreter fixes: control flow (`return`, `if`, `try`/`except` with exception
classes, sequencing, local assignment), Python truthiness, `and`/`or` short circuit (their
value is the truth value: they only occur in conditions), exception propagation, the
builtins (`builtin`: thin wrappers of the CPython model of Py/Val.lean or of a parameter
of `Env`), `self.error` / `self.validate_failed` (raise TraitError), and the attributes of
`self` (`selfCfg`: what the constructors of the trait types store).
A handler of `try` sees the local variables as they were when the `try` was entered (the
methods translated do not read, in a handler, a variable assigned in the `try` body).
-/
import TraitsVerif.Model.PyValidate
namespace TraitsVerif.Model.PyVSrc
open TraitsVerif TraitsVerif.Py.Value TraitsVerif.Model.Val

/-! ## Syntax -/

inductive ExcSpec where
  | names (ns : List String)
  | bare
  deriving Repr

inductive Expr where
  | loc (i : Nat)
  | glob (name : String)
  | none
  | intLit (n : Int)
  | boolLit (b : Bool)
  | self_
  | selfAttr (a : String)
  | attr (e : Expr) (a : String)
  | call (f : String) (args : List Expr)            -- builtin / imported function
  | selfCall (m : String) (args : List Expr)        -- `self.m(...)`
  | method (name : String) (args : List Expr)       -- a translated function / `super().m(...)` (resolved)
  | dynMethod (cls : String) (m : Expr) (args : List Expr)   -- `getattr(self, m)(...)`
  | is (a b : Expr) | isNot (a b : Expr) | not (a : Expr)
  | and (a b : Expr) | or (a b : Expr)
  | lt (a b : Expr) | le (a b : Expr) | gt (a b : Expr) | ge (a b : Expr) | eq (a b : Expr)
  | in_ (a b : Expr)
  | index (e : Expr) (n : Nat)
  | sliceFrom (e : Expr) (n : Nat)
  | callVal (f : Expr) (args : List Expr)            -- call of a local variable holding a validate function
  | attrCall (e : Expr) (m : String) (args : List Expr)   -- `local.validate(...)`
  | tupleZip (i j : Nat) (xs ys : Expr) (elt : Expr)  -- `tuple(elt for loc_i, loc_j in zip(xs, ys))`
  | emptyList                                        -- `[]`
  | subscript (e idx : Expr)                         -- `e[idx]` with a variable index
  | unsupported (text : String)
  deriving Repr

mutual
inductive Stmt where
  | ret (e : Expr)
  | expr (e : Expr)
  | assign (i : Nat) (e : Expr)
  | ite (c : Expr) (t e : Stmt)
  | try_ (body : Stmt) (handlers : Handlers)
  | pass
  | seq (a b : Stmt)
  | forIn (i : Nat) (iter : Expr) (body : Stmt)      -- `for loc_i in iter: body`
  | forEnum (i j : Nat) (iter : Expr) (body : Stmt)  -- `for loc_i, loc_j in enumerate(iter): body`
  | append (i : Nat) (e : Expr)                      -- `loc_i.append(e)`
inductive Handlers where
  | nil
  | cons (spec : ExcSpec) (body : Stmt) (rest : Handlers)
end

structure Method where
  nparams : Nat
  nvars : Nat
  body : Stmt

/-! ## Values -/

inductive PV where
  | undef
  | val (v : Val)
  | bool (b : Bool)
  | int (n : Int)
  | ty (t : Ty)
  | tys (ts : List Ty)
  | seq (vs : List Val)
  | dict (keys : List Val)
  | str (s : String)
  | tup (xs : List PV)
  | tyOf (v : Val)                 -- `type(value)`
  | fnv (g : Val → Res)            -- a CTrait / handler seen through its `validate(object, name, ·)`
  | fns (gs : List (Val → Res))    -- a list / tuple of those
  | lst (xs : List PV)             -- a local list being built
  | self_ | hobj | name | selfCls  -- the handler, the HasTraits object, the trait name, `object.__class__`

/-- A raised exception: TraitError (raised by `self.error`), or an exception of the value's
own protocol / a callback. -/
inductive PExc where
  | te
  | ex (e : Exc)

/-- Result of a call of a translated method. -/
inductive MRes where
  | ret (v : PV)
  | exc (e : PExc)
  | stuck

def PV.truthy : PV → Bool
  | .bool b => b
  | .int n => n != 0
  | .val (.atom .none) => false
  | .undef => false
  | _ => true

/-- `isinstance(exc, Name)`: `Exception` matches everything, `TraitError` the handler's own
error, any other class name exactly the exception of that name (`Exc.name`; the exception
classes of the model are unrelated leaves of the hierarchy). -/
def excMatches : PExc → String → Bool
  | .te, n => n == "Exception" || n == "TraitError"
  | .ex e, n => n == "Exception" || n == e.name

def specMatches : ExcSpec → PExc → Bool
  | .bare, _ => true
  | .names ns, e => ns.any (excMatches e)

def globOf : String → PV
  | "int" => .ty .int | "float" => .ty .float | "complex" => .ty .complex
  | "str" => .ty .str | "bytes" => .ty .bytes | "bool" => .ty .bool
  | "tuple" => .ty .tuple | "list" => .ty .list
  | "_BOOL_TYPES" => .tys [.bool, .npBool]
  | _ => .undef

def attrOf : PV → String → PV
  | .hobj, "__class__" => .selfCls
  | _, _ => .undef

/-- `a is b`. -/
def pvIs : PV → PV → Bool
  | .val a, .val b => decide (a = b)
  | .tyOf v, .ty t => Val.exactTy t v
  | _, _ => false

/-- `a < b` / `a <= b` on exact floats and ints. -/
def pvLt : PV → PV → Bool
  | .val (.atom (.float _ a)), .val (.atom (.float _ b)) => F.lt a b
  | .val (.atom (.int _ a)), .val (.atom (.int _ b)) => decide (a < b)
  | .int a, .int b => decide (a < b)
  | _, _ => false
def pvLe : PV → PV → Bool
  | .val (.atom (.float _ a)), .val (.atom (.float _ b)) => F.le a b
  | .val (.atom (.int _ a)), .val (.atom (.int _ b)) => decide (a ≤ b)
  | .int a, .int b => decide (a ≤ b)
  | _, _ => false
def pvEq : PV → PV → Bool
  | .int a, .int b => decide (a = b)
  | _, _ => false

structure Ctx where
  E : Env
  /-- the attributes of `self`. -/
  cfg : String → PV
  /-- the translated methods that can be called by name. -/
  callM : String → List PV → MRes

def ofExcept {R : Type} (r : Except Exc Val) (k : PV → R) (ke : PExc → R) : R :=
  match r with
  | .ok w => k (.val w)
  | .error e => ke (.ex e)

/-- Builtins and imported functions. -/
def builtin {R : Type} (C : Ctx) (f : String) (args : List PV) (k : PV → R) (ke : PExc → R) : R :=
  match f, args with
  | "isinstance", [.val v, .ty t] => k (.bool (Val.isInst t v))
  | "isinstance", [.val v, .tys ts] => k (.bool (ts.any (fun t => Val.isInst t v)))
  | "isinstance", [.val v, .selfCls] => k (.bool (Val.isInst (.user C.E.selfCls) v))
  | "isinstance", [.ty _, .ty _] => k (.bool false)
  | "type", [.val v] => k (.tyOf v)
  | "int", [.int n] => k (.val (Val.ofInt n))
  | "int", [.val v] => ofExcept (C.E.cast .int v) k ke
  | "float", [.val v] => ofExcept (C.E.cast .float v) k ke
  | "complex", [.val v] => ofExcept (C.E.cast .complex v) k ke
  | "str", [.val v] => ofExcept (C.E.cast .str v) k ke
  | "bytes", [.val v] => ofExcept (C.E.cast .bytes v) k ke
  | "bool", [.val v] => ofExcept (C.E.cast .bool v) k ke
  | "operator.index", [.val v] =>
    match index v with
    | .ok n => k (.int n)
    | .error e => ke (.ex e)
  | "_validate_float", [.val v] => ofExcept (validateFloat v) k ke
  | "_validate_complex_number", [.val v] => ofExcept (validateComplexNumber v) k ke
  | "callable", [.val v] => k (.bool v.callable)
  | "len", [.val (.tuple _ vs)] => k (.int vs.length)
  | "len", [.fns gs] => k (.int gs.length)
  | "tuple", [.val (.list vs)] => k (.val (.tuple false vs))
  | "tuple", [.lst xs] => k (.val (.tuple false (xs.map (fun x => match x with | .val v => v | _ => Val.none))))
  | "issubclass", [.val v, .ty t] =>
    match isSubclass v t with
    | some b => k (.bool b)
    | none => ke (.ex .typeError)
  | "adapt", [.val v, .ty cls, .val (.atom .none)] =>
    match C.E.adapt v cls with
    | .ok (some r) => k (.val r)
    | .ok none => k (.val Val.none)
    | .error e => ke (.ex e)
  | _, _ => k .undef

/-- `x in container`. -/
def pvIn {R : Type} (x c : PV) (k : PV → R) (ke : PExc → R) : R :=
  match x, c with
  | .val v, .seq vals =>
    match seqContains vals v with
    | .yes => k (.bool true)
    | .no => k (.bool false)
    | .raises e => ke (.ex e)
  | .val v, .dict keys =>
    match dictFind keys v with
    | .ok (some _) => k (.bool true)
    | .ok none => k (.bool false)
    | .error e => ke (.ex e)
  | _, _ => k .undef

def callOut {R : Type} (C : Ctx) (name : String) (args : List PV) (k : PV → R) (ke : PExc → R) : R :=
  match C.callM name args with
  | .ret v => k v
  | .exc e => ke e
  | .stuck => k .undef

/-- Calling a validate function on `(object, name, value)`. -/
def callFn {R : Type} (f : PV) (args : List PV) (k : PV → R) (ke : PExc → R) : R :=
  match f, args with
  | .fnv g, [.hobj, .name, .val v] =>
    match g v with
    | .ok w => k (.val w)
    | .traitError => ke .te
    | .raised e => ke (.ex e)
  | _, _ => k .undef

/-- `for x in items: step x` over a tuple of arbitrary values. -/
def forEachPV {R : Type} (step : PV → List PV → (List PV → R) → R) :
    List PV → List PV → (List PV → R) → R
  | [], σ, kn => kn σ
  | x :: xs, σ, kn => step x σ (fun σ' => forEachPV step xs σ' kn)

/-- `for i, x in enumerate(items): step i x`. -/
def forEachI {R : Type} (step : Nat → (Val → Res) → List PV → (List PV → R) → R) :
    Nat → List (Val → Res) → List PV → (List PV → R) → R
  | _, [], σ, kn => kn σ
  | n, g :: gs, σ, kn => step n g σ (fun σ' => forEachI step (n + 1) gs σ' kn)

/-- `zip(gs, vs)` evaluated pairwise, left to right; an exception stops the evaluation. -/
def zipEval {R : Type} (f : (Val → Res) → Val → (PV → R) → (PExc → R) → R) :
    List (Val → Res) → List Val → (List PV → R) → (PExc → R) → R
  | g :: gs, b :: bs, k, ke => f g b (fun x => zipEval f gs bs (fun xs => k (x :: xs)) ke) ke
  | _, _, k, _ => k []

def pvToVal : PV → Val
  | .val v => v
  | _ => Val.none

/-- `for x in items: step x`: `step` gets the continuation of normal completion. -/
def forEach {R : Type} (step : (Val → Res) → List PV → (List PV → R) → R) :
    List (Val → Res) → List PV → (List PV → R) → R
  | [], σ, kn => kn σ
  | g :: gs, σ, kn => step g σ (fun σ' => forEach step gs σ' kn)

/-- `self.attr(args)` for an attribute that holds a type object (`self.aType(value)`) or a
validator function (`self.aFunc(object, name, value)`). -/
def selfApply {R : Type} (C : Ctx) (f : PV) (args : List PV) (k : PV → R) (ke : PExc → R) : R :=
  match f, args with
  | .ty t, [.val v] => ofExcept (C.E.cast t v) k ke
  | .fnv g, xs => callFn (.fnv g) xs k ke
  | _, _ => k .undef

/-! ## The interpreter -/

mutual
def evalE {R : Type} (C : Ctx) : Expr → List PV → (PV → R) → (PExc → R) → R
  | .loc i, σ, k, _ => k (σ.getD i .undef)
  | .glob n, _, k, _ => k (globOf n)
  | .none, _, k, _ => k (.val Val.none)
  | .intLit n, _, k, _ => k (.int n)
  | .boolLit b, _, k, _ => k (.bool b)
  | .self_, _, k, _ => k .self_
  | .selfAttr a, _, k, _ => k (C.cfg a)
  | .attr e a, σ, k, ke => evalE C e σ (fun x => k (attrOf x a)) ke
  | .call f args, σ, k, ke => evalArgs C args σ (fun xs => builtin C f xs k ke) ke
  | .selfCall m args, σ, k, ke =>
    evalArgs C args σ (fun xs =>
      if m = "error" ∨ m = "validate_failed" then ke .te else selfApply C (C.cfg m) xs k ke) ke
  | .method name args, σ, k, ke => evalArgs C args σ (fun xs => callOut C name xs k ke) ke
  | .dynMethod cls m args, σ, k, ke =>
    evalE C m σ (fun x =>
      match x with
      | .str s => evalArgs C args σ (fun xs => callOut C (cls ++ "." ++ s) xs k ke) ke
      | _ => k .undef) ke
  | .is a b, σ, k, ke => evalE C a σ (fun x => evalE C b σ (fun y => k (.bool (pvIs x y))) ke) ke
  | .isNot a b, σ, k, ke => evalE C a σ (fun x => evalE C b σ (fun y => k (.bool (!pvIs x y))) ke) ke
  | .not a, σ, k, ke => evalE C a σ (fun x => k (.bool (!x.truthy))) ke
  | .and a b, σ, k, ke =>
    evalE C a σ (fun x => if x.truthy then evalE C b σ (fun y => k (.bool y.truthy)) ke else k (.bool false)) ke
  | .or a b, σ, k, ke =>
    evalE C a σ (fun x => if x.truthy then k (.bool true) else evalE C b σ (fun y => k (.bool y.truthy)) ke) ke
  | .lt a b, σ, k, ke => evalE C a σ (fun x => evalE C b σ (fun y => k (.bool (pvLt x y))) ke) ke
  | .le a b, σ, k, ke => evalE C a σ (fun x => evalE C b σ (fun y => k (.bool (pvLe x y))) ke) ke
  | .gt a b, σ, k, ke => evalE C a σ (fun x => evalE C b σ (fun y => k (.bool (pvLt y x))) ke) ke
  | .ge a b, σ, k, ke => evalE C a σ (fun x => evalE C b σ (fun y => k (.bool (pvLe y x))) ke) ke
  | .eq a b, σ, k, ke => evalE C a σ (fun x => evalE C b σ (fun y => k (.bool (pvEq x y))) ke) ke
  | .in_ a b, σ, k, ke => evalE C a σ (fun x => evalE C b σ (fun y => pvIn x y k ke) ke) ke
  | .index e n, σ, k, ke =>
    evalE C e σ (fun x => match x with | .tup xs => k (xs.getD n .undef) | _ => k .undef) ke
  | .sliceFrom e n, σ, k, ke =>
    evalE C e σ (fun x => match x with | .tup xs => k (.tup (xs.drop n)) | _ => k .undef) ke
  | .callVal f args, σ, k, ke =>
    evalE C f σ (fun fv => evalArgs C args σ (fun xs =>
      match fv with
      | .ty _ => selfApply C fv xs k ke
      | _ => callFn fv xs k ke) ke) ke
  | .attrCall e m args, σ, k, ke =>
    evalE C e σ (fun fv => evalArgs C args σ (fun xs => if m = "validate" then callFn fv xs k ke else k .undef) ke) ke
  | .tupleZip i j xs ys elt, σ, k, ke =>
    evalE C xs σ (fun x => evalE C ys σ (fun y =>
      match x, y with
      | .fns gs, .val (.tuple _ vs) =>
        zipEval (fun g b k' ke' => evalE C elt ((σ.set i (.fnv g)).set j (.val b)) k' ke') gs vs
          (fun ws => k (.val (.tuple false (ws.map pvToVal)))) ke
      | _, _ => k .undef) ke) ke
  | .emptyList, _, k, _ => k (.lst [])
  | .subscript e idx, σ, k, ke =>
    evalE C e σ (fun x => evalE C idx σ (fun i =>
      match x, i with
      | .val (.tuple _ vs), .int n => k (.val (vs.getD n.toNat Val.none))
      | _, _ => k .undef) ke) ke
  | .unsupported _, _, k, _ => k .undef
def evalArgs {R : Type} (C : Ctx) : List Expr → List PV → (List PV → R) → (PExc → R) → R
  | [], _, k, _ => k []
  | e :: es, σ, k, ke => evalE C e σ (fun x => evalArgs C es σ (fun xs => k (x :: xs)) ke) ke
end

/- Statements: `kn` normal completion (with the locals), `kr` return, `ke` exception. -/
mutual
def exec {R : Type} (C : Ctx) : Stmt → List PV → (List PV → R) → (PV → R) → (PExc → R) → R
  | .ret e, σ, _, kr, ke => evalE C e σ kr ke
  | .expr e, σ, kn, _, ke => evalE C e σ (fun _ => kn σ) ke
  | .assign i e, σ, kn, _, ke => evalE C e σ (fun x => kn (σ.set i x)) ke
  | .ite c t e, σ, kn, kr, ke =>
    evalE C c σ (fun x => if x.truthy then exec C t σ kn kr ke else exec C e σ kn kr ke) ke
  | .try_ body hs, σ, kn, kr, ke => exec C body σ kn kr (fun e => handle C hs e σ kn kr ke)
  | .pass, σ, kn, _, _ => kn σ
  | .seq a b, σ, kn, kr, ke => exec C a σ (fun σ' => exec C b σ' kn kr ke) kr ke
  | .forIn i iter body, σ, kn, kr, ke =>
    evalE C iter σ (fun x =>
      match x with
      | .fns gs => forEach (fun g σ' kn' => exec C body (σ'.set i (.fnv g)) kn' kr ke) gs σ kn
      | .tup xs => forEachPV (fun x σ' kn' => exec C body (σ'.set i x) kn' kr ke) xs σ kn
      | _ => kr .undef) ke
  | .forEnum i j iter body, σ, kn, kr, ke =>
    evalE C iter σ (fun x =>
      match x with
      | .fns gs =>
        forEachI (fun n g σ' kn' => exec C body ((σ'.set i (.int n)).set j (.fnv g)) kn' kr ke) 0 gs σ kn
      | _ => kr .undef) ke
  | .append i e, σ, kn, _, ke =>
    evalE C e σ (fun x =>
      match σ.getD i .undef with
      | .lst xs => kn (σ.set i (.lst (xs ++ [x])))
      | _ => kn σ) ke
def handle {R : Type} (C : Ctx) : Handlers → PExc → List PV → (List PV → R) → (PV → R) → (PExc → R) → R
  | .nil, e, _, _, _, ke => ke e
  | .cons spec body rest, e, σ, kn, kr, ke =>
    if specMatches spec e then exec C body σ kn kr ke else handle C rest e σ kn kr ke
end

/-- Call a translated method (a function that ends without `return` returns None). -/
def runMethod (C : Ctx) (m : Method) (args : List PV) : MRes :=
  exec C m.body (args ++ List.replicate (m.nvars - m.nparams) .undef)
    (fun _ => .ret (.val Val.none)) (fun v => .ret v) (fun e => .exc e)

/-- What the caller of `handler.validate(object, name, value)` sees. -/
def toRes : MRes → Option Res
  | .ret (.val w) => some (.ok w)
  | .exc .te => some .traitError
  | .exc (.ex e) => some (.raised e)
  | _ => none

/-! ## The attributes of `self` -/

def optFloat : Option F → PV
  | none => .val Val.none
  | some f => .val (Val.ofFloat f)
def optInt : Option Int → PV
  | none => .val Val.none
  | some n => .val (Val.ofInt n)

/-- What the constructors of the trait types store on the handler (trait_types.py
`__init__` methods): only the attributes the translated `validate` methods read. -/
def selfCfg : TraitType → String → PV
  | .noFast t, a => selfCfg t a
  | .rangeF lo hi exLo exHi, a =>
    match a with
    | "_low" => optFloat lo | "_high" => optFloat hi
    | "_exclude_low" => .bool exLo | "_exclude_high" => .bool exHi
    | "_validate" => .str "float_validate"
    | _ => .undef
  | .rangeI lo hi exLo exHi, a =>
    match a with
    | "_low" => optInt lo | "_high" => optInt hi
    | "_exclude_low" => .bool exLo | "_exclude_high" => .bool exHi
    | "_validate" => .str "int_validate"
    | _ => .undef
  | .enum vals, "values" => .seq vals
  | .map keys _, "map" => .dict keys
  | .callable an, "fast_validate" => .tup [.int 22, .bool an]
  | .instance cls an mode dflt, a =>
    match a with
    | "_allow_none" => .bool an | "klass" => .ty cls | "adapt" => .int mode
    | "default_value" => .val dflt | "default_value_type" => .int 0
    | _ => .undef
  | .type_ cls an, a =>
    match a with
    | "_allow_none" => .bool an | "klass" => .ty cls
    | _ => .undef
  | .coerceH ty, "fast_validate" =>
    .tup (.int 11 :: .ty ty :: (coerceRest ty).map (fun t => match t with | none => .val Val.none | some t => .ty t))
  | .castH ty, "aType" => .ty ty
  | .instanceH cls an, a =>
    match a with
    | "_allow_none" => .bool an | "aClass" => .ty cls
    | _ => .undef
  | .enumH vals, "values" => .seq vals
  | .mapH keys _, "map" => .dict keys
  | _, _ => .undef

/-- The same with the attributes that hold validators (they need the environment): the item
CTraits of a Tuple, the member CTraits of a Union, the two validator lists
`TraitCompound.set_validate` builds (members with a fast validator: their `validate`; the
others: their `validate`, or the accept-all `_validate_anything` when they have none). -/
def selfCfgE (E : Env) : TraitType → String → PV
  | .noFast t, a => selfCfgE E t a
  | .tuple items, a =>
    match a with
    | "types" => .fns (items.map (fun t => ctraitValidate E t))
    | "no_type_check" => .bool false
    | _ => .undef
  | .baseTuple items, a =>
    match a with
    | "types" => .fns (items.map (fun t => ctraitValidate E t))
    | "no_type_check" => .bool false
    | _ => .undef
  | .union alts, "list_ctrait_instances" => .fns (alts.map (fun t => ctraitValidate E t))
  | .functionH f, "aFunc" =>
    .fnv (fun v => match E.fn f v with | .ok w => .ok w | .error .traitError => .traitError | .error e => .raised e)
  | .compoundH hs, a =>
    match a with
    | "validates" => .fns ((hs.filter (fun t => (descOf E t).isSome)).map (fun t => pyValidate E t))
    | "slow_validates" =>
      .fns ((hs.filter (fun t => !(descOf E t).isSome)).map
        (fun t x => if hasPy t then pyValidate E t x else .ok x))
    | _ => .undef
  | t, a => selfCfg t a

/-- The `validate` method the handler of a trait type runs (class.method). -/
def pyMethodOf : TraitType → Option String
  | .noFast t => pyMethodOf t
  | .int => some "BaseInt.validate" | .float => some "BaseFloat.validate" | .complex => some "BaseComplex.validate"
  | .str => some "BaseStr.validate" | .bytes => some "BaseBytes.validate" | .bool => some "BaseBool.validate"
  | .cint => some "BaseCInt.validate" | .cfloat => some "BaseCFloat.validate"
  | .ccomplex => some "BaseCComplex.validate" | .cstr => some "BaseCStr.validate"
  | .cbytes => some "BaseCBytes.validate" | .cbool => some "BaseCBool.validate"
  | .rangeF .. => some "BaseRange.validate" | .rangeI .. => some "BaseRange.validate"
  | .enum _ => some "BaseEnum.validate" | .map .. => some "Map.validate"
  | .callable _ => some "Callable.validate"
  | .this an => some (if an then "This.validate_none" else "This.validate")
  | .instance .. => some "BaseInstance.validate"
  | .type_ .. => some "Type.validate"
  | .noneTrait => some "_NoneTrait.validate"
  | .tuple _ => some "Tuple.validate"
  | .baseTuple _ => some "BaseTuple.validate"
  | .union _ => some "Union.validate"
  | .compoundH _ => some "TraitCompound.validate"
  | .coerceH _ => some "TraitCoerceType.validate"
  | .castH _ => some "TraitCastType.validate"
  | .instanceH .. => some "TraitInstance.validate"
  | .functionH _ => some "TraitFunction.validate"
  | .enumH _ => some "TraitEnum.validate"
  | .mapH .. => some "TraitMap.validate"
  | _ => none

end TraitsVerif.Model.PyVSrc
