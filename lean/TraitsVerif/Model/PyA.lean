/-
PyA — the subset of Python in which the adaptation search of
traits/adaptation/adaptation_manager.py is written (`provides_protocol`,
`mro_distance_to_protocol`, `_adapt`, `_get_applicable_offers`,
`_by_weight_then_from_protocol_specificity`), deep-embedded, with a total
big-step interpreter.  `harness/translate/pyadapt.py` translates the *source
text* of these five functions into terms of this language on every run
(`Generated/AdaptProg.lean`); `Lemmas/AdaptSource*.lean` / `Props/C17.lean` prove
that the hand-written model `Model.Adapt.adaptInner` is exactly the
interpretation of those terms — for every configuration (issubclass table, MRO
table, registry), factory table, adaptee and target.

What the interpreter fixes (and the translator therefore does not have to know):
evaluation order, tuple / list displays, tuple unpacking, `for … else` with
`break`, `while` (fuel-indexed: the fuel is the number of loop tests allowed),
early `return`, `is` / `is not` / `not in` on the values that occur, `+` on ints
and lists, attribute reads of an offer, calls between the translated functions
(to a fixed depth, no recursion).

Modelled Python builtins (the trusted part, see TRUSTED in harness/props/c17.py):
  * `issubclass(a, b)`            = `cfg.provides a b`   (a table: parameter)
  * `inspect.getmro(t)[1:]`       = `cfg.supers t`       (a table: parameter)
  * `self._adaptation_offers.items()` = `cfg.groups` in dict order; the key (a `str`)
    is an opaque value
  * `type(adaptee)`               = the `srcType` parameter
  * `offer.factory(x)`            = the factory table parameter (call ordinal = length of the trace)
  * `itertools.count()` / `next`  = a counter from 0
  * `list.sort(key=functools.cmp_to_key(cmp))` = `Model.Adapt.pySort` (CPython's
    sort for fewer than 64 items) with `x < y  :=  cmp(x, y) < 0`; a comparison that
    does not return an int makes the statement stuck
  * `heappush` / `heappop`        = insertion into / head of a list kept sorted by the
    `<` of the first tuple component (a triple of ints); a comparison of two entries
    with equal triples is stuck (proved never to happen: the counter is unique)
Local variables live in numbered slots; reading an unassigned slot is `stuck`.
Lists have value semantics: the translator checks that a list that is mutated
(`append`, `sort`, `heappush`, `heappop`) is never aliased.
-/
import TraitsVerif.Model.Adapt
namespace TraitsVerif.Model.PyA
open TraitsVerif TraitsVerif.Model.Adapt

/-- Expressions (pure: they read the local variables and the configuration). -/
inductive Expr where
  | var (i : Nat)
  | noneLit
  | intLit (n : Int)
  | nil                                   -- `()` / end of an item sequence
  | cons (a rest : Expr)                  -- `(a, *rest)`: tuple display, evaluated left to right
  | listOf (s : Expr)                     -- `[*s]`: list display with the items of the tuple display `s`
  | add (a b : Expr)                      -- `a + b`
  | lt (a b : Expr)                       -- `a < b`
  | gt (a b : Expr)                       -- `a > b`
  | is (a b : Expr)                       -- `a is b`
  | isNot (a b : Expr)                    -- `a is not b`
  | notIn (x c : Expr)                    -- `x not in c`
  | not (a : Expr)
  | attr (e : Expr) (name : String)       -- `e.name`
  | index (e : Expr) (n : Nat)            -- `e[n]`
  | call (fn : String) (args : Expr)      -- builtin or translated function; `args` a tuple display
  | offersItems                           -- `self._adaptation_offers.items()`
  | glob (name : String)                  -- a module-level singleton (`AdaptationError`, `_MISSING`)
  deriving Repr, DecidableEq

inductive Stmt where
  | skip
  | seq (a b : Stmt)
  | assign (i : Nat) (e : Expr)
  | unpack (is : List Nat) (e : Expr)                     -- `a, b, c = e`
  | augAdd (i : Nat) (e : Expr)                           -- `x += e`
  | ifS (c : Expr) (t e : Stmt)
  | forIn (targets : List Nat) (e : Expr) (body orelse : Stmt)   -- `for a, b in e: body  else: orelse`
  | whileS (c : Expr) (body : Stmt)
  | brk
  | ret (e : Expr)
  | append (i : Nat) (e : Expr)                           -- `local.append(e)`
  | sortCmp (i : Nat) (cmp : String)                      -- `local.sort(key=functools.cmp_to_key(cmp))`
  | heappush (i : Nat) (e : Expr)                         -- `heappush(local, e)`
  | heappop (dst q : Nat)                                 -- `dst = heappop(local)`
  | newCounter (i : Nat)                                  -- `x = itertools.count()`
  | next (dst src : Nat)                                  -- `dst = next(x)`
  | callFactory (dst : Nat) (offer arg : Expr)            -- `dst = offer.factory(arg)`
  | callEff (dst : Nat) (fn : String) (args : Expr)       -- `dst = self.fn(args)` for a translated method that may call factories
  | raiseExc (e : Exc)                                    -- `raise E(message)` (the message is not observed)
  | setdefaultBucket (dst : Nat) (key dflt : Expr)        -- `dst = self._adaptation_offers.setdefault(key, [])`
  deriving Repr, DecidableEq

structure Func where
  nparams : Nat
  nslots : Nat
  body : Stmt
  deriving Repr, DecidableEq

abbrev Prog := List (String × Func)

def lookupFn (m : String) : Prog → Option Func
  | [] => none
  | (k, f) :: rest => if k = m then some f else lookupFn m rest

/-- Run-time values. -/
inductive Val (α : Type) where
  | none
  | bool (b : Bool)
  | int (n : Int)
  | ty (t : Nat)                          -- a class / protocol
  | offer (o : Offer)                     -- an `AdaptationOffer`
  | obj (a : α)                           -- the adaptee or an adapter
  | counterRef                            -- the `itertools.count` object
  | opaque                                -- a value nothing is known about (any use is stuck)
  | glob (name : String)                  -- a module-level singleton object, or (`"$default"`) the caller's default
  | key (k : Nat)                         -- a `from_protocol_name` string
  | bucket (k : Nat)                      -- the list stored under key `k` in `self._adaptation_offers` (an alias of it)
  | tuple (vs : List (Val α))
  | list (vs : List (Val α))

variable {α : Type}

/-- `stuck` = the program left the subset the interpreter understands (never
equal to anything the model produces, so an obligation then fails). -/
def stuck {β : Type} : Except Exc β := .error .other

/-- Local variables: slot ↦ value. -/
abbrev Frame (α : Type) := Nat → Option (Val α)

def getVar (vars : Frame α) (i : Nat) : Except Exc (Val α) :=
  match vars i with
  | some v => .ok v
  | Option.none => stuck

def setVar (vars : Frame α) (i : Nat) (v : Val α) : Frame α := fun j => if j = i then some v else vars j

inductive Flow (α : Type) where
  | next
  | brk
  | returned (v : Val α)
  | raised (e : Exc)
  | outOfFuel

/-- What the interpreter is run with. -/
structure Ctx (α : Type) where
  cfg : Cfg
  f : Factory α
  srcType : Nat
  /-- a call of a translated function (one level down) -/
  call : String → List (Val α) → Except Exc (Val α)
  /-- a call of a translated method that may call factories: the trace so far ↦ the trace
  after, and how the call ended (`returned` / `next` / `raised` / `outOfFuel`) -/
  callEff : String → List (Val α) → List CallRec → List CallRec × Flow α := fun _ _ tr => (tr, .raised .other)

/-- `a is b` on the values that occur. -/
def isSame : Val α → Val α → Option Bool
  | .none, .none => some true
  | .none, _ => some false
  | _, .none => some false
  | .ty a, .ty b => some (a == b)
  | .offer a, .offer b => some (a.id == b.id)
  | .glob a, .glob b => some (a == b)
  | .obj _, .glob _ => some false
  | .glob _, .obj _ => some false
  | _, _ => Option.none

/-- `offer in items` (`==` of an `AdaptationOffer` is identity). -/
def containsOffer (o : Offer) (vs : List (Val α)) : Bool :=
  vs.any (fun v => match v with | .offer p => p.id == o.id | _ => false)

def builtin (C : Ctx α) (fn : String) (args : List (Val α)) : Except Exc (Val α) :=
  if fn = "issubclass" then
    (match args with | [.ty a, .ty b] => .ok (.bool (C.cfg.provides a b)) | _ => stuck)
  else if fn = "type" then
    (match args with | [.obj _] => .ok (.ty C.srcType) | _ => stuck)
  else if fn = "len" then
    (match args with | [.list vs] => .ok (.int vs.length) | _ => stuck)
  else if fn = "getmro_tail" then
    (match args with | [.ty t] => .ok (.list ((C.cfg.supers t).map .ty)) | _ => stuck)
  else C.call fn args

def eval (C : Ctx α) (vars : Frame α) : Expr → Except Exc (Val α)
  | .var i => getVar vars i
  | .noneLit => .ok .none
  | .intLit n => .ok (.int n)
  | .nil => .ok (.tuple [])
  | .cons a r =>
    match eval C vars a with
    | .error e => .error e
    | .ok x =>
      match eval C vars r with
      | .ok (.tuple xs) => .ok (.tuple (x :: xs))
      | .ok _ => stuck
      | .error e => .error e
  | .listOf s =>
    match eval C vars s with
    | .ok (.tuple xs) => .ok (.list xs)
    | .ok _ => stuck
    | .error e => .error e
  | .add a b =>
    match eval C vars a with
    | .error e => .error e
    | .ok x =>
      match eval C vars b with
      | .error e => .error e
      | .ok y =>
        match x, y with
        | .int m, .int n => .ok (.int (m + n))
        | .list xs, .list ys => .ok (.list (xs ++ ys))
        | _, _ => stuck
  | .lt a b =>
    match eval C vars a with
    | .error e => .error e
    | .ok x =>
      match eval C vars b with
      | .error e => .error e
      | .ok y =>
        match x, y with
        | .int m, .int n => .ok (.bool (decide (m < n)))
        | _, _ => stuck
  | .gt a b =>
    match eval C vars a with
    | .error e => .error e
    | .ok x =>
      match eval C vars b with
      | .error e => .error e
      | .ok y =>
        match x, y with
        | .int m, .int n => .ok (.bool (decide (n < m)))
        | _, _ => stuck
  | .is a b =>
    match eval C vars a with
    | .error e => .error e
    | .ok x =>
      match eval C vars b with
      | .error e => .error e
      | .ok y => (match isSame x y with | some r => .ok (.bool r) | Option.none => stuck)
  | .isNot a b =>
    match eval C vars a with
    | .error e => .error e
    | .ok x =>
      match eval C vars b with
      | .error e => .error e
      | .ok y => (match isSame x y with | some r => .ok (.bool (!r)) | Option.none => stuck)
  | .notIn x c =>
    match eval C vars x with
    | .error e => .error e
    | .ok (.offer o) =>
      (match eval C vars c with
       | .ok (.list vs) => .ok (.bool (!containsOffer o vs))
       | .ok _ => stuck
       | .error e => .error e)
    | .ok _ => stuck
  | .not a =>
    match eval C vars a with
    | .ok (.bool b) => .ok (.bool (!b))
    | .ok _ => stuck
    | .error e => .error e
  | .attr e n =>
    match eval C vars e with
    | .ok (.offer o) =>
      if n = "from_protocol" then .ok (.ty o.frm)
      else if n = "to_protocol" then .ok (.ty o.to)
      else if n = "from_protocol_name" then .ok (.key o.key)
      else stuck
    | .ok _ => stuck
    | .error e => .error e
  | .index e n =>
    match eval C vars e with
    | .ok (.list vs) => (match vs[n]? with | some v => .ok v | Option.none => .error .indexError)
    | .ok (.tuple vs) => (match vs[n]? with | some v => .ok v | Option.none => .error .indexError)
    | .ok _ => stuck
    | .error e => .error e
  | .call fn args =>
    match eval C vars args with
    | .ok (.tuple vs) => builtin C fn vs
    | .ok _ => stuck
    | .error e => .error e
  | .offersItems =>
    .ok (.list (C.cfg.groups.map (fun g => .tuple [.opaque, .list (g.map .offer)])))
  | .glob n => .ok (.glob n)

structure St (α : Type) where
  vars : Frame α
  counter : Nat := 0                      -- state of the `itertools.count` object
  trace : List CallRec := []              -- factory calls made so far
  reg : List (Nat × List Offer) := []     -- `self._adaptation_offers` while it is being built (`register_offer`)

/-- Bind the loop / assignment targets: one name takes the value, several names
unpack a tuple or list of exactly that length. -/
def bindAll : List Nat → List (Val α) → Frame α → Option (Frame α)
  | [], [], fr => some fr
  | i :: is, v :: vs, fr => bindAll is vs (setVar fr i v)
  | _, _, _ => Option.none

def bindTargets (tg : List Nat) (v : Val α) (fr : Frame α) : Option (Frame α) :=
  match tg with
  | [i] => some (setVar fr i v)
  | _ =>
    match v with
    | .tuple vs => bindAll tg vs fr
    | .list vs => bindAll tg vs fr
    | _ => Option.none

/-- `for targets in items: body` — by recursion on the items; `.next` = exhausted,
`.brk` = left by `break`. -/
def forLoop (tg : List Nat) (body : St α → St α × Flow α) : List (Val α) → St α → St α × Flow α
  | [], st => (st, .next)
  | v :: vs, st =>
    match bindTargets tg v st.vars with
    | Option.none => (st, .raised .other)
    | some fr =>
      match body { st with vars := fr } with
      | (st', .next) => forLoop tg body vs st'
      | r => r

/-- `while cond: body` with `fuel` loop tests allowed. -/
def whileLoop (cond : St α → Except Exc Bool) (body : St α → St α × Flow α) : Nat → St α → St α × Flow α
  | 0, st => (st, .outOfFuel)
  | n + 1, st =>
    match cond st with
    | .error e => (st, .raised e)
    | .ok false => (st, .next)
    | .ok true =>
      match body st with
      | (st', .next) => whileLoop cond body n st'
      | (st', .brk) => (st', .next)
      | r => r

def truth (C : Ctx α) (vars : Frame α) (c : Expr) : Except Exc Bool :=
  match eval C vars c with
  | .ok (.bool b) => .ok b
  | .ok _ => stuck
  | .error e => .error e

/-- `cmp(a, b) < 0` for a translated comparison function. -/
def cmpLt (C : Ctx α) (cmp : String) (a b : Val α) : Bool :=
  match C.call cmp [a, b] with
  | .ok (.int n) => decide (n < 0)
  | _ => false

def cmpOk (C : Ctx α) (cmp : String) (a b : Val α) : Bool :=
  match C.call cmp [a, b] with
  | .ok (.int _) => true
  | _ => false

/-- Python `<` of two heap entries, decided by their first components (triples of ints).
Equal triples are **stuck**: Python's tuple comparison would go on to compare the paths
(lists of offers: a prefix is smaller, otherwise `TypeError` from `offer < offer`) and
then the protocols (`TypeError`); the interpreter refuses instead of guessing.  That the
search never gets there (the counter component is unique in the queue) is proved, not
assumed: `Lemmas/AdaptSource2.lean` carries the invariant through the `while` loop. -/
def weightLt : Val α → Val α → Option Bool
  | .tuple (.tuple [.int a1, .int b1, .int c1] :: _), .tuple (.tuple [.int a2, .int b2, .int c2] :: _) =>
    if a1 = a2 ∧ b1 = b2 ∧ c1 = c2 then Option.none
    else some (decide (a1 < a2) || (a1 == a2 && (decide (b1 < b2) || (b1 == b2 && decide (c1 < c2)))))
  | _, _ => Option.none

/-- `heappush` on the sorted-list representation of the heap. -/
def heapInsert (e : Val α) : List (Val α) → Option (List (Val α))
  | [] => some [e]
  | x :: xs =>
    match weightLt e x with
    | Option.none => Option.none
    | some true => some (e :: x :: xs)
    | some false =>
      match heapInsert e xs with
      | some r => some (x :: r)
      | Option.none => Option.none

def exec (C : Ctx α) (fuel : Nat) : Stmt → St α → St α × Flow α
  | .skip, st => (st, .next)
  | .seq a b, st =>
    match exec C fuel a st with
    | (st', .next) => exec C fuel b st'
    | r => r
  | .assign i e, st =>
    match eval C st.vars e with
    | .ok v => ({ st with vars := setVar st.vars i v }, .next)
    | .error x => (st, .raised x)
  | .unpack is e, st =>
    match eval C st.vars e with
    | .ok (.tuple vs) =>
      (match bindAll is vs st.vars with
       | some fr => ({ st with vars := fr }, .next)
       | Option.none => (st, .raised .valueError))
    | .ok _ => (st, .raised .other)
    | .error x => (st, .raised x)
  | .augAdd i e, st =>
    match getVar st.vars i, eval C st.vars e with
    | .ok (.int m), .ok (.int n) => ({ st with vars := setVar st.vars i (.int (m + n)) }, .next)
    | .error x, _ => (st, .raised x)
    | _, .error x => (st, .raised x)
    | _, _ => (st, .raised .other)
  | .ifS c t e, st =>
    match truth C st.vars c with
    | .ok true => exec C fuel t st
    | .ok false => exec C fuel e st
    | .error x => (st, .raised x)
  | .forIn tg e body orelse, st =>
    match eval C st.vars e with
    | .ok (.list vs) =>
      (match forLoop tg (fun s => exec C fuel body s) vs st with
       | (st', .next) => exec C fuel orelse st'
       | (st', .brk) => (st', .next)
       | r => r)
    | .ok _ => (st, .raised .other)
    | .error x => (st, .raised x)
  | .whileS c body, st =>
    whileLoop (fun s => truth C s.vars c) (fun s => exec C fuel body s) fuel st
  | .brk, st => (st, .brk)
  | .ret e, st =>
    match eval C st.vars e with
    | .ok v => (st, .returned v)
    | .error x => (st, .raised x)
  | .append i e, st =>
    match getVar st.vars i, eval C st.vars e with
    | .ok (.list vs), .ok v => ({ st with vars := setVar st.vars i (.list (vs ++ [v])) }, .next)
    | .ok (.bucket k), .ok (.offer o) =>
      ({ st with reg := st.reg.map (fun kv => if kv.1 == k then (kv.1, kv.2 ++ [o]) else kv) }, .next)
    | .error x, _ => (st, .raised x)
    | _, .error x => (st, .raised x)
    | _, _ => (st, .raised .other)
  | .sortCmp i cmp, st =>
    match getVar st.vars i with
    | .ok (.list vs) =>
      if vs.all (fun a => vs.all (fun b => cmpOk C cmp a b)) then
        ({ st with vars := setVar st.vars i (.list (pySort (cmpLt C cmp) vs)) }, .next)
      else (st, .raised .other)
    | .ok _ => (st, .raised .other)
    | .error x => (st, .raised x)
  | .heappush i e, st =>
    match getVar st.vars i, eval C st.vars e with
    | .ok (.list q), .ok v =>
      (match heapInsert v q with
       | some q' => ({ st with vars := setVar st.vars i (.list q') }, .next)
       | Option.none => (st, .raised .other))
    | .error x, _ => (st, .raised x)
    | _, .error x => (st, .raised x)
    | _, _ => (st, .raised .other)
  | .heappop dst q, st =>
    match getVar st.vars q with
    | .ok (.list (x :: xs)) => ({ st with vars := setVar (setVar st.vars q (.list xs)) dst x }, .next)
    | .ok (.list []) => (st, .raised .indexError)
    | .ok _ => (st, .raised .other)
    | .error x => (st, .raised x)
  | .newCounter i, st => ({ st with vars := setVar st.vars i .counterRef, counter := 0 }, .next)
  | .next dst src, st =>
    match getVar st.vars src with
    | .ok .counterRef =>
      ({ st with vars := setVar st.vars dst (.int st.counter), counter := st.counter + 1 }, .next)
    | .ok _ => (st, .raised .other)
    | .error x => (st, .raised x)
  | .callFactory dst o a, st =>
    match eval C st.vars o, eval C st.vars a with
    | .ok (.offer ov), .ok (.obj av) =>
      (match C.f st.trace.length ov av with
       | .adapter r => ({ st with vars := setVar st.vars dst (.obj r), trace := st.trace ++ [⟨ov.id, .ok⟩] }, .next)
       | .none => ({ st with vars := setVar st.vars dst .none, trace := st.trace ++ [⟨ov.id, .none⟩] }, .next)
       | .raise x => ({ st with trace := st.trace ++ [⟨ov.id, .raise⟩] }, .raised x))
    | .error x, _ => (st, .raised x)
    | _, .error x => (st, .raised x)
    | _, _ => (st, .raised .other)

  | .callEff dst fn args, st =>
    match eval C st.vars args with
    | .ok (.tuple vs) =>
      (match C.callEff fn vs st.trace with
       | (tr, .returned v) => ({ st with vars := setVar st.vars dst v, trace := tr }, .next)
       | (tr, .next) => ({ st with vars := setVar st.vars dst .none, trace := tr }, .next)
       | (tr, .raised x) => ({ st with trace := tr }, .raised x)
       | (tr, .outOfFuel) => ({ st with trace := tr }, .outOfFuel)
       | (tr, .brk) => ({ st with trace := tr }, .raised .other))
    | .ok _ => (st, .raised .other)
    | .error x => (st, .raised x)
  | .raiseExc e, st => (st, .raised e)
  | .setdefaultBucket dst k d, st =>
    match eval C st.vars k, eval C st.vars d with
    | .ok (.key kk), .ok (.list []) =>
      ({ st with vars := setVar st.vars dst (.bucket kk),
                 reg := if st.reg.any (fun kv => kv.1 == kk) then st.reg else st.reg ++ [(kk, [])] }, .next)
    | .error x, _ => (st, .raised x)
    | _, .error x => (st, .raised x)
    | _, _ => (st, .raised .other)

/-- The frame of a call: the arguments in the parameter slots. -/
def initFrame (args : List (Val α)) : Frame α := fun j => args[j]?

def runFn (C : Ctx α) (fuel : Nat) (fn : Func) (args : List (Val α)) : St α × Flow α :=
  if args.length ≠ fn.nparams then ({ vars := initFrame [] }, .raised .typeError)
  else exec C fuel fn.body { vars := initFrame args }

/-- The same with the trace of factory calls and the registry the caller has reached. -/
def runFnIn (C : Ctx α) (fuel : Nat) (fn : Func) (args : List (Val α)) (tr : List CallRec)
    (reg : List (Nat × List Offer)) : St α × Flow α :=
  if args.length ≠ fn.nparams then ({ vars := initFrame [], trace := tr, reg := reg }, .raised .typeError)
  else exec C fuel fn.body { vars := initFrame args, trace := tr, reg := reg }

/-- A call of the translated function `name` from inside another one, `depth`
levels of calls still allowed.  The callee must be pure (no factory call, no
`while`). -/
def callAt (P : Prog) (cfg : Cfg) (f : Factory α) (srcType : Nat) :
    Nat → String → List (Val α) → Except Exc (Val α)
  | 0, _, _ => stuck
  | d + 1, name, args =>
    match lookupFn name P with
    | Option.none => stuck
    | some fn =>
      match runFn { cfg := cfg, f := f, srcType := srcType, call := callAt P cfg f srcType d } 0 fn args with
      | (st, .returned v) => if st.trace.isEmpty then .ok v else stuck
      | (st, .next) => if st.trace.isEmpty then .ok .none else stuck
      | (_, .raised e) => .error e
      | _ => stuck

def ctxAt (P : Prog) (cfg : Cfg) (f : Factory α) (srcType : Nat) (depth : Nat) : Ctx α :=
  { cfg := cfg, f := f, srcType := srcType, call := callAt P cfg f srcType depth }

/-- A call of a translated method that may call factories (`adapt` → `_adapt`), `depth`
levels of such calls still allowed; pure calls below it go through `callAt`. -/
def callEffAt (P : Prog) (cfg : Cfg) (f : Factory α) (srcType : Nat) (fuel : Nat) :
    Nat → String → List (Val α) → List CallRec → List CallRec × Flow α
  | 0, _, _, tr => (tr, .raised .other)
  | d + 1, name, args, tr =>
    match lookupFn name P with
    | Option.none => (tr, .raised .other)
    | some fn =>
      match runFnIn { cfg := cfg, f := f, srcType := srcType, call := callAt P cfg f srcType 3,
                      callEff := callEffAt P cfg f srcType fuel d } fuel fn args tr [] with
      | (st, fl) => (st.trace, fl)

/-- What `_adapt` did, as far as the caller can tell. -/
inductive ResV (α : Type) where
  | found (a : α)
  | raised (e : Exc)
  | notFound
  | outOfFuel
  | stuck
  deriving DecidableEq, Repr

/-- Call depth below `_adapt`: `_get_applicable_offers` → `mro_distance_to_protocol`
→ `provides_protocol`. -/
def callDepth : Nat := 3

/-- `self._adapt(adaptee, to_protocol)` interpreted from the translated source. -/
def runAdapt (P : Prog) (cfg : Cfg) (f : Factory α) (srcType : Nat) (adaptee : α) (target : Nat) (fuel : Nat) :
    ResV α × List CallRec :=
  match lookupFn "_adapt" P with
  | Option.none => (.stuck, [])
  | some fn =>
    match runFn (ctxAt P cfg f srcType callDepth) fuel fn [.obj adaptee, .ty target] with
    | (st, .returned (.obj a)) => (.found a, st.trace)
    | (st, .returned .none) => (.notFound, st.trace)
    | (st, .next) => (.notFound, st.trace)
    | (st, .raised e) => (.raised e, st.trace)
    | (st, .outOfFuel) => (.outOfFuel, st.trace)
    | (st, _) => (.stuck, st.trace)

/-- The model's result with the path forgotten (`_adapt` returns the adapter only;
the path is what the trace of factory calls shows). -/
def viewRes : Res α → ResV α
  | .found _ a => .found a
  | .raised e => .raised e
  | .notFound => .notFound
  | .outOfFuel => .outOfFuel

/-! ## The entry points around `_adapt` -/

/-- What `adapt` did, as far as the caller can tell. -/
inductive OutV (α : Type) where
  | ret (a : α)                           -- an object came back (the adaptee itself or an adapter)
  | dflt                                  -- the caller's `default` came back
  | error (e : Exc)
  | stuck
  deriving DecidableEq, Repr

/-- The name under which the caller's own `default` object goes into the interpreter. -/
def userDefault : String := "$default"

/-- `self.adapt(adaptee, to_protocol[, default])` interpreted from the translated source;
`dfltName` is the (translated) default value of the parameter `default`. -/
def runAdaptCall (P : Prog) (cfg : Cfg) (f : Factory α) (srcType : Nat) (adaptee : α) (target : Nat)
    (dfltName : String) (hasDefault : Bool) (fuel : Nat) : OutV α × List CallRec :=
  match callEffAt P cfg f srcType fuel 2 "adapt"
      [.obj adaptee, .ty target, .glob (if hasDefault then userDefault else dfltName)] [] with
  | (tr, .returned (.obj a)) => (.ret a, tr)
  | (tr, .returned (.glob n)) => (if n = userDefault then .dflt else .stuck, tr)
  | (tr, .raised e) => (.error e, tr)
  | (tr, _) => (.stuck, tr)

/-- `self.supports_protocol(obj, protocol)` interpreted from the translated source. -/
def runSupportsCall (P : Prog) (cfg : Cfg) (f : Factory α) (srcType : Nat) (adaptee : α) (target : Nat)
    (fuel : Nat) : Except Exc Bool × List CallRec :=
  match callEffAt P cfg f srcType fuel 3 "supports_protocol" [.obj adaptee, .ty target] [] with
  | (tr, .returned (.bool b)) => (.ok b, tr)
  | (tr, .raised e) => (.error e, tr)
  | (tr, _) => (.error .other, tr)

/-- `register_offer` calls nothing: a context without functions. -/
def emptyCtx : Ctx Unit :=
  ⟨⟨fun _ _ => false, fun _ => [], []⟩, fun _ _ _ => FOut.none, 0, fun _ _ => stuck, fun _ _ tr => (tr, .raised .other)⟩

/-- `self.register_offer(offer)` on the registry `reg`, interpreted from the translated source. -/
def runRegisterOffer (P : Prog) (reg : List (Nat × List Offer)) (o : Offer) : Option (List (Nat × List Offer)) :=
  match lookupFn "register_offer" P with
  | Option.none => Option.none
  | some fn =>
    match runFnIn emptyCtx 0 fn [.offer o] [] reg with
    | (st, .next) => some st.reg
    | (st, .returned .none) => some st.reg
    | _ => Option.none

/-- The model's `adapt` result as the caller sees it. -/
def viewOut (adaptee : α) : Out α → OutV α
  | .self => .ret adaptee
  | .adapted _ a => .ret a
  | .default => .dflt
  | .error e => .error e

end TraitsVerif.Model.PyA
