/-
C15 — the documented meaning of a mini-language expression, written from
/repo/docs/source/traits_user_manual/notification.rst (section "Traits Mini
Language", lines 87-160), NOT from parsing.py / expression.py:

  attr1.attr2      attr2 on the object referenced by attr1; changes to attr1 or attr2 notify
  attr1:attr2      the same, changes to attr1 do not notify
  attr1, attr2     attr1 or attr2
  items            items of a list or dict or set, or a trait named "items"
  [i1, …, iN]      any of the expressions
  *                any trait
  +metadata_name   any trait with that metadata

Stage 1 (`lin`): the *words* the expression stands for — every way of choosing
one alternative of each `,` / `items` — each atom paired with the connector
that follows it in the word (`none` for the last atom).  Brackets only group.
Stage 2 (`flag`): an atom notifies iff it is last or followed by `.`;
the four `items` alternatives are optional, nothing else is.
-/
import TraitsVerif.Model.DslCompile
namespace TraitsVerif.Model.Dsl

/-- What one step of an observed path matches. -/
inductive Atom where
  | trait (n : Name)
  | itemsTrait | dictItems | listItems | setItems      -- the alternatives of `items`
  | metadata (n : Name)
  | any
  deriving DecidableEq, Repr, Inhabited

/-- A word: atoms, each with the connector that follows it (none = last). -/
abbrev Word := List (Atom × Option Conn)

/-- all concatenations `p ++ q` -/
def cross (ps qs : List Word) : List Word :=
  ps.flatMap (fun p => qs.map (fun q => p ++ q))

/-- `lin c follow`: the words of `c` when `c` is followed (through any
enclosing brackets) by the connector `follow`. -/
def lin : Cst → Option Conn → List Word
  | .trait n, f => [[(.trait n, f)]]
  | .items, f => [[(.itemsTrait, f)], [(.dictItems, f)], [(.listItems, f)], [(.setItems, f)]]
  | .metadata n, f => [[(.metadata n, f)]]
  | .any, f => [[(.any, f)]]
  | .group p, f => lin p f
  | .ser l c r, f => cross (lin l (some c)) (lin r f)
  | .par l r, f => lin l f ++ lin r f

/-- The notify law: last, or followed by `.`. -/
def notifies : Option Conn → Bool
  | none => true
  | some .notify => true
  | some .quiet => false

/-- The observer the documentation describes for an atom in its position. -/
def flag : Atom × Option Conn → Observer
  | (.trait n, f) => .named n (notifies f) false
  | (.itemsTrait, f) => .named itemsKw (notifies f) true
  | (.dictItems, f) => .dictItems (notifies f) true
  | (.listItems, f) => .listItems (notifies f) true
  | (.setItems, f) => .setItems (notifies f) true
  | (.metadata n, f) => .filtered (notifies f) (.metadata n)
  | (.any, f) => .filtered (notifies f) .anytrait

/-- The observed paths of a whole expression. -/
def paths (c : Cst) : List (List Observer) := (lin c none).map (·.map flag)

end TraitsVerif.Model.Dsl
