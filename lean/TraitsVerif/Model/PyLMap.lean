/-
PyLM — the small subset of Python in which the mutators of
traits/trait_dict_object.py and traits/trait_set_object.py are written,
deep-embedded, with one big-step interpreter for the dict methods (`D`) and one
for the set methods (`S`) over a shared syntax.  `harness/translate/pylmap.py`
translates the *source text* of every `TraitDict` / `TraitSet` mutator (and of
any mutator `TraitDictObject` / `TraitSetObject` should override) into terms of
this language on every run (`Generated/MapSetProg.lean`); `Props/C06.lean` and
`Props/C07.lean` prove that the hand-written models `Map.TraitDict.step` /
`SetM.TraitSet.step` are exactly the interpretation of those terms — for every
dict / set, every argument and every validator.

What the interpreter fixes (and the translator therefore does not have to know):
Python truthiness (`{}` and `set()` are false), the evaluation order, `or`
returning an operand, the builtin `dict` / `set` methods reached through
`super()` (`Py/Dict.lean`, `Py/Set.lean`), `dict.items()`, `set(iterable)`,
`chain.from_iterable`, default parameter values, `*args`, the rule that a
binary in-place operator which returns `NotImplemented` makes Python raise
`TypeError`, early `return`.  Local variables live in numbered slots of a
fixed-size frame (`Func.nslots`); reading an unassigned slot is `stuck`.
-/
import TraitsVerif.Model.TraitDict
import TraitsVerif.Model.TraitSet
namespace TraitsVerif.Model.PyLM
open TraitsVerif TraitsVerif.Py

/-- Which validator attribute a call goes to. -/
inductive Which where
  | key      -- self.key_validator
  | value    -- self.value_validator
  | item     -- self.item_validator
  deriving Repr, DecidableEq

/-- Expressions (pure: they read the container and the local variables). -/
inductive Expr where
  | var (i : Nat)
  | self
  | noneLit
  | boolLit (b : Bool)
  | intLit (n : Int)
  | undefinedLit                          -- `Undefined`
  | emptyDict                             -- `{}`
  | dict1 (k v : Expr)                    -- `{k: v}`
  | dictOf (e : Expr)                     -- `dict(e)`
  | list1 (e : Expr)                      -- `[e]`
  | emptySet                              -- `set()`
  | set1 (e : Expr)                       -- `{e}`
  | setOf (e : Expr)                      -- `set(e)`
  | contains (x c : Expr)                 -- `x in c`
  | getItem (c k : Expr)                  -- `c[k]`
  | copy (e : Expr)                       -- `e.copy()`
  | items (e : Expr)                      -- `e.items()`
  | hasKeys (e : Expr)                    -- `hasattr(e, 'keys')`
  | eq (a b : Expr)                       -- `a == b`
  | gt (a b : Expr)                       -- `a > b`
  | len (e : Expr)
  | not (a : Expr)
  | or (a b : Expr)                       -- Python `or`: the first operand if it is true, else the second
  | ite (c a b : Expr)                    -- `a if c else b`
  | isUndefined (a : Expr)                -- `a is Undefined`
  | isSetInst (a : Expr)                  -- `isinstance(a, (set, frozenset))`
  | difference (a b : Expr)               -- `a.difference(b)`
  | intersection (a b : Expr)             -- `a.intersection(b)`
  | bitor (a b : Expr)                    -- `a | b`
  | chain (e : Expr)                      -- `chain.from_iterable(e)`
  | star (e : Expr)                       -- `*e` in an argument list
  | getattrSelf (name : String) (dflt : Expr)   -- `getattr(self, 'name', dflt)`
  | selfAttr (name : String)              -- `self.name`
  | attr (e : Expr) (name : String)       -- `e.name`
  | isNone (e : Expr)                     -- `e is None`
  | call0 (f : Expr)                      -- `f()`
  | call3 (f a b c : Expr)                -- `f(a, b, c)`
  deriving Repr, DecidableEq

inductive Stmt where
  | skip
  | seq (a b : Stmt)
  | assign (i : Nat) (e : Expr)
  | ifS (c : Expr) (t e : Stmt)
  | validate (w : Which) (i : Nat) (e : Expr)             -- `t = self.<w>_validator(e)`
  | validateAllSet (i : Nat) (e : Expr)                   -- `t = {self.item_validator(x) for x in e}`
  | forPairs (k v : Nat) (e : Expr) (body : Stmt)         -- `for k, v in e: body`
  | setItem (i : Nat) (k v : Expr)                        -- `local[k] = v`  (a local dict)
  | super (i : Option Nat) (m : String) (args : List Expr)
  | notify (args : List Expr)                             -- `self.notify(...)`, callee's parameter order
  | ret (e : Expr)
  | tryExcept (body : Stmt) (exc : Exc) (bind : Nat) (handler : Stmt)   -- try: body / except exc as x: handler
  | setPrefix (i : Nat)                                   -- `x.set_prefix("…")` on a caught TraitError
  | raiseVar (i : Nat)                                    -- `raise x`
  deriving Repr, DecidableEq

/-- A translated method: positional parameters (after `self`), the default
values of the trailing ones, whether it is `def m(self, *args)`, the size of
its frame, its body. -/
structure Func where
  nparams : Nat
  defaults : List Expr := []
  vararg : Bool := false
  nslots : Nat
  body : Stmt
  deriving Repr, DecidableEq

def lookupFn (m : String) : List (String × Func) → Option Func
  | [] => none
  | (k, f) :: rest => if k = m then some f else lookupFn m rest

/-- `stuck` = the program left the subset the interpreter understands (never
equal to anything the model produces, so an obligation then fails). -/
def stuck {β : Type} : Except Exc β := .error .other

/-! ## Dict methods -/
namespace D
open TraitsVerif.Py.Dict (get? contains set erase update ofPairs Op Ret)
open TraitsVerif.Model.Map

variable {K V : Type}

/-- Run-time values. -/
inductive Val (K V : Type) where
  | none
  | bool (b : Bool)
  | int (n : Int)
  | undefined                           -- the `Undefined` singleton
  | selfRef                             -- the receiver itself (what `super().__ior__` returns)
  | key (k : K)
  | val (v : V)
  | pair (k : K) (v : V)
  | dict (d : Dict K V)
  | pairs (ps : List (K × V))           -- an iterable of pairs that is not a mapping
  deriving Repr

abbrev Frame (K V : Type) := List (Option (Val K V))

structure St (K V : Type) where
  self : Dict K V
  vars : Frame K V
  kcount : Nat := 0                     -- calls of key_validator so far
  vcount : Nat := 0                     -- calls of value_validator so far
  events : List (Triple K V) := []

inductive Flow (K V : Type) where
  | next
  | returned (v : Val K V)
  | raised (e : Exc)

/-- Python truthiness; `none` = not decidable from the value (a user key or value). -/
def truthy : Val K V → Option Bool
  | .none => some false
  | .bool b => some b
  | .int n => some (decide (n ≠ 0))
  | .undefined => some true
  | .selfRef => Option.none
  | .dict d => some (!d.isEmpty)
  | .pairs ps => some (!ps.isEmpty)
  | _ => Option.none

def getVar (vars : Frame K V) (i : Nat) : Except Exc (Val K V) :=
  match vars[i]? with
  | some (some v) => .ok v
  | _ => stuck

def setVar (vars : Frame K V) (i : Nat) (v : Val K V) : Frame K V := vars.set i (some v)

variable [DecidableEq K]

def eval (d : Dict K V) (vars : Frame K V) : Expr → Except Exc (Val K V)
  | .var i => getVar vars i
  | .self => .ok (.dict d)
  | .noneLit => .ok .none
  | .boolLit b => .ok (.bool b)
  | .intLit n => .ok (.int n)
  | .undefinedLit => .ok .undefined
  | .emptyDict => .ok (.dict [])
  | .dict1 k v =>
    match eval d vars k with
    | .ok (.key k') =>
      (match eval d vars v with
       | .ok (.val v') => .ok (.dict [(k', v')])
       | .ok _ => stuck
       | .error e => .error e)
    | .ok _ => stuck
    | .error e => .error e
  | .dictOf e =>
    match eval d vars e with
    | .ok (.pairs ps) => .ok (.dict (ofPairs ps))
    | .ok _ => stuck
    | .error e => .error e
  | .list1 e =>
    match eval d vars e with
    | .ok (.pair k v) => .ok (.pairs [(k, v)])
    | .ok _ => stuck
    | .error e => .error e
  | .contains x c =>
    match eval d vars x with
    | .ok (.key k) =>
      (match eval d vars c with
       | .ok (.dict c') => .ok (.bool (contains c' k))
       | .ok _ => stuck
       | .error e => .error e)
    | .ok _ => stuck
    | .error e => .error e
  | .getItem c k =>
    match eval d vars c with
    | .ok (.dict c') =>
      (match eval d vars k with
       | .ok (.key k') => (match get? c' k' with | some v => .ok (.val v) | none => .error .keyError)
       | .ok _ => stuck
       | .error e => .error e)
    | .ok _ => stuck
    | .error e => .error e
  | .copy e =>
    match eval d vars e with
    | .ok (.dict c) => .ok (.dict c)
    | .ok _ => stuck
    | .error e => .error e
  | .items e =>
    match eval d vars e with
    | .ok (.dict c) => .ok (.pairs c)
    | .ok _ => stuck
    | .error e => .error e
  | .hasKeys e =>
    match eval d vars e with
    | .ok (.dict _) => .ok (.bool true)
    | .ok (.pairs _) => .ok (.bool false)
    | .ok _ => stuck
    | .error e => .error e
  | .eq a b =>
    match eval d vars a with
    | .ok (.dict x) =>
      (match eval d vars b with
       | .ok (.dict []) => .ok (.bool x.isEmpty)
       | .ok _ => stuck
       | .error e => .error e)
    | .ok _ => stuck
    | .error e => .error e
  | .len e =>
    match eval d vars e with
    | .ok (.dict c) => .ok (.int c.length)
    | .ok _ => stuck
    | .error e => .error e
  | .not a =>
    match eval d vars a with
    | .ok v => (match truthy v with | some b => .ok (.bool (!b)) | none => stuck)
    | .error e => .error e
  | .or a b =>
    match eval d vars a with
    | .ok v => (match truthy v with | some true => .ok v | some false => eval d vars b | none => stuck)
    | .error e => .error e
  | .ite c a b =>
    match eval d vars c with
    | .ok v => (match truthy v with | some true => eval d vars a | some false => eval d vars b | none => stuck)
    | .error e => .error e
  | .isUndefined a =>
    match eval d vars a with
    | .ok .undefined => .ok (.bool true)
    | .ok _ => .ok (.bool false)
    | .error e => .error e
  | _ => stuck

def evalAll (d : Dict K V) (vars : Frame K V) : List Expr → Except Exc (List (Val K V))
  | [] => .ok []
  | e :: es =>
    match eval d vars e with
    | .error x => .error x
    | .ok v =>
      match evalAll d vars es with
      | .error x => .error x
      | .ok vs => .ok (v :: vs)

/-- A method call as seen from outside. -/
inductive Summary (K V : Type) where
  | done (items : Dict K V) (ret : Ret K V) (events : List (Triple K V))
  | raised (e : Exc) (items : Dict K V) (events : List (Triple K V))

structure Ctx (K V : Type) where
  kv : Callback K K
  vv : Callback V V
  /-- `super().m(args)` on the current contents -/
  sup : String → List (Val K V) → Dict K V → Summary K V

def valOfRet : Ret K V → Val K V
  | .none => .none
  | .val v => .val v
  | .pair k v => .pair k v
  | .self => .selfRef

/-- `for k, v in pairs: body` — by recursion on the list of pairs; `f` runs the body. -/
def forLoop (ki vi : Nat) (f : St K V → St K V × Flow K V) : List (K × V) → St K V → St K V × Flow K V
  | [], st => (st, .next)
  | (k, v) :: ps, st =>
    match f { st with vars := setVar (setVar st.vars ki (.key k)) vi (.val v) } with
    | (st', .next) => forLoop ki vi f ps st'
    | r => r

def exec (C : Ctx K V) : Stmt → St K V → St K V × Flow K V
  | .skip, st => (st, .next)
  | .seq a b, st =>
    match exec C a st with
    | (st', .next) => exec C b st'
    | r => r
  | .assign i e, st =>
    match eval st.self st.vars e with
    | .ok v => ({ st with vars := setVar st.vars i v }, .next)
    | .error x => (st, .raised x)
  | .ifS c t e, st =>
    match eval st.self st.vars c with
    | .ok v =>
      (match truthy v with
       | some true => exec C t st
       | some false => exec C e st
       | none => (st, .raised .other))
    | .error x => (st, .raised x)
  | .validate w i e, st =>
    match w, eval st.self st.vars e with
    | .key, .ok (.key k) =>
      (match C.kv st.kcount k with
       | .ok k' => ({ st with vars := setVar st.vars i (.key k'), kcount := st.kcount + 1 }, .next)
       | .error ex => ({ st with kcount := st.kcount + 1 }, .raised ex))
    | .value, .ok (.val v) =>
      (match C.vv st.vcount v with
       | .ok v' => ({ st with vars := setVar st.vars i (.val v'), vcount := st.vcount + 1 }, .next)
       | .error ex => ({ st with vcount := st.vcount + 1 }, .raised ex))
    | _, .error x => (st, .raised x)
    | _, _ => (st, .raised .other)
  | .validateAllSet _ _, st => (st, .raised .other)
  | .forPairs ki vi e body, st =>
    match eval st.self st.vars e with
    | .ok (.pairs ps) => forLoop ki vi (fun s => exec C body s) ps st
    | .ok _ => (st, .raised .other)
    | .error x => (st, .raised x)
  | .setItem i k v, st =>
    match getVar st.vars i, eval st.self st.vars k, eval st.self st.vars v with
    | .ok (.dict a), .ok (.key k'), .ok (.val v') => ({ st with vars := setVar st.vars i (.dict (set a k' v')) }, .next)
    | .error x, _, _ => (st, .raised x)
    | _, .error x, _ => (st, .raised x)
    | _, _, .error x => (st, .raised x)
    | _, _, _ => (st, .raised .other)
  | .super i m args, st =>
    match evalAll st.self st.vars args with
    | .error x => (st, .raised x)
    | .ok vs =>
      match C.sup m vs st.self with
      | .raised x items evs => ({ st with self := items, events := st.events ++ evs }, .raised x)
      | .done items r evs =>
        ({ st with self := items, events := st.events ++ evs,
                   vars := match i with | some j => setVar st.vars j (valOfRet r) | none => st.vars }, .next)
  | .notify args, st =>
    match evalAll st.self st.vars args with
    | .ok [.dict r, .dict a, .dict c] => ({ st with events := st.events ++ [⟨r, a, c⟩] }, .next)
    | .ok _ => (st, .raised .other)
    | .error x => (st, .raised x)
  | .ret e, st =>
    match eval st.self st.vars e with
    | .ok v => (st, .returned v)
    | .error x => (st, .raised x)
  | .tryExcept _ _ _ _, st => (st, .raised .other)
  | .setPrefix _, st => (st, .raised .other)
  | .raiseVar _, st => (st, .raised .other)

/-- The builtin `dict` method `m` (what `super()` is for `TraitDict`): `Py.Dict.step`. -/
def builtinSup (m : String) (args : List (Val K V)) (d : Dict K V) : Summary K V :=
  let run (op : Op K V) : Summary K V :=
    match Dict.step d op with
    | .ok (d', r) => .done d' r []
    | .error e => .raised e d []
  match m, args with
  | "__setitem__", [.key k, .val v] => run (.setitem k v)
  | "__delitem__", [.key k] => run (.delitem k)
  | "update", [.dict e] => run (.update e)
  | "__ior__", [.dict e] => run (.ior e)
  | "setdefault", [.key k, .val v] => run (.setdefault k v)
  | "pop", [.key k] => run (.pop k)
  | "pop", [.key k, .val dflt] => run (.popDefault k dflt)
  | "popitem", [] => run .popitem
  | "clear", [] => run .clear
  | _, _ => .raised .other d []

/-- Default values are literals. -/
def evalDefault : Expr → Option (Val K V)
  | .noneLit => some .none
  | .undefinedLit => some .undefined
  | _ => Option.none

/-- The frame of a call: arguments, then the defaults of the parameters not
given, then unassigned locals. -/
def bindArgs (fn : Func) (args : List (Val K V)) : Option (Frame K V) :=
  if fn.vararg then Option.none
  else if args.length > fn.nparams ∨ fn.nparams > args.length + fn.defaults.length ∨ fn.nslots < fn.nparams then Option.none
  else
    let missing := fn.nparams - args.length
    match (fn.defaults.drop (fn.defaults.length - missing)).mapM (evalDefault (K := K) (V := V)) with
    | Option.none => Option.none
    | some ds => some ((args ++ ds).map some ++ List.replicate (fn.nslots - fn.nparams) Option.none)

def summarize : St K V × Flow K V → Summary K V
  | (st, .raised e) => .raised e st.self st.events
  | (st, .next) => .done st.self .none st.events
  | (st, .returned .none) => .done st.self .none st.events
  | (st, .returned (.val v)) => .done st.self (.val v) st.events
  | (st, .returned (.pair k v)) => .done st.self (.pair k v) st.events
  | (st, .returned .selfRef) => .done st.self .self st.events
  | (st, .returned _) => .raised .other st.self st.events

/-- `TraitDict.m(args)` on contents `d`: the translated method if `TraitDict`
defines it, else the builtin. -/
def runTraitDictM (prog : List (String × Func)) (kv : Callback K K) (vv : Callback V V) (m : String)
    (args : List (Val K V)) (d : Dict K V) : Summary K V :=
  match lookupFn m prog with
  | Option.none => builtinSup m args d
  | some fn =>
    match bindArgs fn args with
    | Option.none => .raised .other d []
    | some frame =>
      let C : Ctx K V := { kv := kv, vv := vv, sup := builtinSup }
      summarize (exec C fn.body { self := d, vars := frame })

/-- The arguments an `Op` passes to the method it stands for (`pop` without a
default leaves the second parameter to the source's default value). -/
def opCall : Op K V → String × List (Val K V)
  | .setitem k v => ("__setitem__", [.key k, .val v])
  | .delitem k => ("__delitem__", [.key k])
  | .update ps => ("update", [.pairs ps])
  | .ior ps => ("__ior__", [.pairs ps])
  | .setdefault k v => ("setdefault", [.key k, .val v])
  | .pop k => ("pop", [.key k])
  | .popDefault k dflt => ("pop", [.key k, .val dflt])
  | .popitem => ("popitem", [])
  | .clear => ("clear", [])

def runTraitDictOp (prog : List (String × Func)) (kv : Callback K K) (vv : Callback V V) (d : Dict K V)
    (op : Op K V) : Summary K V :=
  runTraitDictM prog kv vv (opCall op).1 (opCall op).2 d

/-- What the model's `step` result looks like from outside: on an exception the
dict is as it was and nobody was notified. -/
def summaryOfStep (d : Dict K V) : Except Exc (DOut K V) → Summary K V
  | .ok o => .done o.items o.ret o.event.toList
  | .error e => .raised e d []

end D

/-! ## Set methods -/
namespace S
open TraitsVerif.Py.PSet (insert erase union ofList inter diff symm popChoice Op)
open TraitsVerif.Model.SetM

variable {α : Type}

inductive Val (α : Type) where
  | none
  | bool (b : Bool)
  | int (n : Int)
  | notImplemented                      -- the `NotImplemented` singleton
  | selfRef                             -- the receiver itself
  | item (x : α)
  | set (s : PSet α)                    -- a `set` / `frozenset`
  | iter (xs : List α)                  -- any other iterable (list, generator, …), in iteration order
  | iters (xss : List (List α))         -- the tuple bound to `*args`
  deriving Repr

abbrev Frame (α : Type) := List (Option (Val α))

structure St (α : Type) where
  self : PSet α
  vars : Frame α
  vcount : Nat := 0
  events : List (SEvent α) := []

inductive Flow (α : Type) where
  | next
  | returned (v : Val α)
  | raised (e : Exc)

def truthy : Val α → Option Bool
  | .none => some false
  | .bool b => some b
  | .int n => some (decide (n ≠ 0))
  | .set s => some (!s.isEmpty)
  | .iter xs => some (!xs.isEmpty)
  | _ => Option.none

def getVar (vars : Frame α) (i : Nat) : Except Exc (Val α) :=
  match vars[i]? with
  | some (some v) => .ok v
  | _ => stuck

def setVar (vars : Frame α) (i : Nat) (v : Val α) : Frame α := vars.set i (some v)

variable [DecidableEq α]

/-- The items of an iterable value, in iteration order. -/
def itemsOf : Val α → Option (List α)
  | .set s => some s
  | .iter xs => some xs
  | _ => Option.none

def eval (s : PSet α) (vars : Frame α) : Expr → Except Exc (Val α)
  | .var i => getVar vars i
  | .self => .ok (.set s)
  | .noneLit => .ok .none
  | .boolLit b => .ok (.bool b)
  | .intLit n => .ok (.int n)
  | .emptySet => .ok (.set [])
  | .set1 e =>
    match eval s vars e with
    | .ok (.item x) => .ok (.set [x])
    | .ok _ => stuck
    | .error e => .error e
  | .setOf e =>
    match eval s vars e with
    | .ok v => (match itemsOf v with | some xs => .ok (.set (ofList xs)) | none => stuck)
    | .error e => .error e
  | .contains x c =>
    match eval s vars x with
    | .ok (.item y) =>
      (match eval s vars c with
       | .ok (.set c') => .ok (.bool (decide (y ∈ c')))
       | .ok _ => stuck
       | .error e => .error e)
    | .ok _ => stuck
    | .error e => .error e
  | .copy e =>
    match eval s vars e with
    | .ok (.set c) => .ok (.set c)
    | .ok _ => stuck
    | .error e => .error e
  | .len e =>
    match eval s vars e with
    | .ok (.set c) => .ok (.int c.length)
    | .ok _ => stuck
    | .error e => .error e
  | .gt a b =>
    match eval s vars a with
    | .ok (.int x) =>
      (match eval s vars b with
       | .ok (.int y) => .ok (.bool (decide (x > y)))
       | .ok _ => stuck
       | .error e => .error e)
    | .ok _ => stuck
    | .error e => .error e
  | .not a =>
    match eval s vars a with
    | .ok v => (match truthy v with | some b => .ok (.bool (!b)) | none => stuck)
    | .error e => .error e
  | .or a b =>
    match eval s vars a with
    | .ok v => (match truthy v with | some true => .ok v | some false => eval s vars b | none => stuck)
    | .error e => .error e
  | .ite c a b =>
    match eval s vars c with
    | .ok v => (match truthy v with | some true => eval s vars a | some false => eval s vars b | none => stuck)
    | .error e => .error e
  | .isSetInst a =>
    match eval s vars a with
    | .ok (.set _) => .ok (.bool true)
    | .ok _ => .ok (.bool false)
    | .error e => .error e
  | .difference a b =>
    match eval s vars a with
    | .ok (.set x) =>
      (match eval s vars b with
       | .ok v => (match itemsOf v with | some ys => .ok (.set (diff x ys)) | none => stuck)
       | .error e => .error e)
    | .ok _ => stuck
    | .error e => .error e
  | .intersection a b =>
    match eval s vars a with
    | .ok (.set x) =>
      (match eval s vars b with
       | .ok v => (match itemsOf v with | some ys => .ok (.set (inter x ys)) | none => stuck)
       | .error e => .error e)
    | .ok _ => stuck
    | .error e => .error e
  | .bitor a b =>
    match eval s vars a with
    | .ok (.set x) =>
      (match eval s vars b with
       | .ok (.set y) => .ok (.set (union x y))
       | .ok _ => stuck
       | .error e => .error e)
    | .ok _ => stuck
    | .error e => .error e
  | .chain e =>
    match eval s vars e with
    | .ok (.iters xss) => .ok (.iter xss.flatten)
    | .ok _ => stuck
    | .error e => .error e
  | .star e =>
    match eval s vars e with
    | .ok (.iters xss) => .ok (.iters xss)
    | .ok _ => stuck
    | .error e => .error e
  | _ => stuck

def evalAll (s : PSet α) (vars : Frame α) : List Expr → Except Exc (List (Val α))
  | [] => .ok []
  | e :: es =>
    match eval s vars e with
    | .error x => .error x
    | .ok v =>
      match evalAll s vars es with
      | .error x => .error x
      | .ok vs => .ok (v :: vs)

/-- What a method returns, as far as the outside can tell. -/
inductive SRet (α : Type) where
  | none
  | item (x : α)
  | self
  | notImplemented
  deriving Repr, DecidableEq

inductive Summary (α : Type) where
  | done (items : PSet α) (ret : SRet α) (events : List (SEvent α))
  | raised (e : Exc) (items : PSet α) (events : List (SEvent α))

structure Ctx (α : Type) where
  v : Callback α α
  sup : String → List (Val α) → PSet α → Summary α

def valOfRet : SRet α → Val α
  | .none => .none
  | .item x => .item x
  | .self => .selfRef
  | .notImplemented => .notImplemented

def exec (C : Ctx α) : Stmt → St α → St α × Flow α
  | .skip, st => (st, .next)
  | .seq a b, st =>
    match exec C a st with
    | (st', .next) => exec C b st'
    | r => r
  | .assign i e, st =>
    match eval st.self st.vars e with
    | .ok v => ({ st with vars := setVar st.vars i v }, .next)
    | .error x => (st, .raised x)
  | .ifS c t e, st =>
    match eval st.self st.vars c with
    | .ok v =>
      (match truthy v with
       | some true => exec C t st
       | some false => exec C e st
       | none => (st, .raised .other))
    | .error x => (st, .raised x)
  | .validate w i e, st =>
    match w, eval st.self st.vars e with
    | .item, .ok (.item x) =>
      (match C.v st.vcount x with
       | .ok y => ({ st with vars := setVar st.vars i (.item y), vcount := st.vcount + 1 }, .next)
       | .error ex => ({ st with vcount := st.vcount + 1 }, .raised ex))
    | _, .error x => (st, .raised x)
    | _, _ => (st, .raised .other)
  | .validateAllSet i e, st =>
    match eval st.self st.vars e with
    | .ok v =>
      (match itemsOf v with
       | some xs =>
         (match valAll C.v st.vcount xs with
          | .ok ys => ({ st with vars := setVar st.vars i (.set (ofList ys)), vcount := st.vcount + xs.length }, .next)
          | .error ex => ({ st with vcount := st.vcount + xs.length }, .raised ex))
       | none => (st, .raised .other))
    | .error x => (st, .raised x)
  | .forPairs _ _ _ _, st => (st, .raised .other)
  | .setItem _ _ _, st => (st, .raised .other)
  | .super i m args, st =>
    match evalAll st.self st.vars args with
    | .error x => (st, .raised x)
    | .ok vs =>
      match C.sup m vs st.self with
      | .raised x items evs => ({ st with self := items, events := st.events ++ evs }, .raised x)
      | .done items r evs =>
        ({ st with self := items, events := st.events ++ evs,
                   vars := match i with | some j => setVar st.vars j (valOfRet r) | none => st.vars }, .next)
  | .notify args, st =>
    match evalAll st.self st.vars args with
    | .ok [.set r, .set a] => ({ st with events := st.events ++ [⟨r, a⟩] }, .next)
    | .ok _ => (st, .raised .other)
    | .error x => (st, .raised x)
  | .ret e, st =>
    match eval st.self st.vars e with
    | .ok v => (st, .returned v)
    | .error x => (st, .raised x)
  | .tryExcept _ _ _ _, st => (st, .raised .other)
  | .setPrefix _, st => (st, .raised .other)
  | .raiseVar _, st => (st, .raised .other)

/-- The builtin `set` method `m` (what `super()` is for `TraitSet`): `Py.PSet.step`.
An in-place operator whose operand is not a set returns `NotImplemented` and
leaves the set alone; `pop()` removes the member `hint` (see `Py/Set.lean`). -/
def builtinSup (hint : Option α) (m : String) (args : List (Val α)) (s : PSet α) : Summary α :=
  let run (op : Op α) (r : SRet α) : Summary α :=
    match PSet.step s op with
    | .ok (s', some x) => .done s' (.item x) []
    | .ok (s', Option.none) => .done s' r []
    | .error e => .raised e s []
  match m, args with
  | "add", [.item x] => run (.add x) .none
  | "discard", [.item x] => run (.discard x) .none
  | "remove", [.item x] => run (.remove x) .none
  | "pop", [] => run (.pop hint) .none
  | "clear", [] => run .clear .none
  | "update", [.set a] => run (.update [a]) .none
  | "update", [.iters xss] => run (.update xss) .none
  | "difference_update", [.iters xss] => run (.differenceUpdate xss) .none
  | "intersection_update", [.iters xss] => run (.intersectionUpdate xss) .none
  | "symmetric_difference_update", [.set a] => run (.symmetricDifferenceUpdate a) .none
  | "symmetric_difference_update", [.iter a] => run (.symmetricDifferenceUpdate a) .none
  | "__ior__", [.set a] => run (.ior true a) .self
  | "__iand__", [.set a] => run (.iand true a) .self
  | "__isub__", [.set a] => run (.isub true a) .self
  | "__ixor__", [.set a] => run (.ixor true a) .self
  | "__ior__", [.iter _] => .done s .notImplemented []
  | "__iand__", [.iter _] => .done s .notImplemented []
  | "__isub__", [.iter _] => .done s .notImplemented []
  | "__ixor__", [.iter _] => .done s .notImplemented []
  | _, _ => .raised .other s []

/-- The frame of a call (`def m(self, *args)` takes the one value `.iters …`). -/
def bindArgs (fn : Func) (args : List (Val α)) : Option (Frame α) :=
  if fn.vararg then
    match args with
    | [.iters xss] =>
      if fn.nparams = 0 ∧ fn.nslots ≥ 1 then some (some (.iters xss) :: List.replicate (fn.nslots - 1) Option.none)
      else Option.none
    | _ => Option.none
  else if args.length ≠ fn.nparams ∨ fn.nslots < fn.nparams then Option.none
  else some (args.map some ++ List.replicate (fn.nslots - fn.nparams) Option.none)

/-- A method that returns `NotImplemented` to the in-place operator protocol
makes Python raise `TypeError` (the operand has no reflected method). -/
def summarize : St α × Flow α → Summary α
  | (st, .raised e) => .raised e st.self st.events
  | (st, .next) => .done st.self .none st.events
  | (st, .returned .none) => .done st.self .none st.events
  | (st, .returned (.item x)) => .done st.self (.item x) st.events
  | (st, .returned .selfRef) => .done st.self .self st.events
  | (st, .returned .notImplemented) => .raised .typeError st.self st.events
  | (st, .returned _) => .raised .other st.self st.events

def runTraitSetM (prog : List (String × Func)) (v : Callback α α) (hint : Option α) (m : String)
    (args : List (Val α)) (s : PSet α) : Summary α :=
  match lookupFn m prog with
  | Option.none => summarize ({ self := s, vars := [] }, match builtinSup hint m args s with
      | .done _ r _ => .returned (valOfRet r) | .raised e _ _ => .raised e)
  | some fn =>
    match bindArgs fn args with
    | Option.none => .raised .other s []
    | some frame =>
      let C : Ctx α := { v := v, sup := builtinSup hint }
      summarize (exec C fn.body { self := s, vars := frame })

def operand (isSet : Bool) (xs : List α) : Val α := if isSet then .set xs else .iter xs

/-- The arguments an `Op` passes to the method it stands for. -/
def opCall : Op α → String × List (Val α)
  | .add x => ("add", [.item x])
  | .discard x => ("discard", [.item x])
  | .remove x => ("remove", [.item x])
  | .pop _ => ("pop", [])
  | .clear => ("clear", [])
  | .update args => ("update", [.iters args])
  | .differenceUpdate args => ("difference_update", [.iters args])
  | .intersectionUpdate args => ("intersection_update", [.iters args])
  | .symmetricDifferenceUpdate xs => ("symmetric_difference_update", [.iter xs])
  | .ior b xs => ("__ior__", [operand b xs])
  | .iand b xs => ("__iand__", [operand b xs])
  | .isub b xs => ("__isub__", [operand b xs])
  | .ixor b xs => ("__ixor__", [operand b xs])

def opHint : Op α → Option α
  | .pop h => h
  | _ => Option.none

def runTraitSetOp (prog : List (String × Func)) (v : Callback α α) (s : PSet α) (op : Op α) : Summary α :=
  runTraitSetM prog v (opHint op) (opCall op).1 (opCall op).2 s

/-- What each operation returns when it succeeds: the in-place operators return
the receiver, `pop` the member, everything else `None`. -/
def retOf (op : Op α) (r : Option α) : SRet α :=
  match op, r with
  | .ior _ _, _ => .self
  | .iand _ _, _ => .self
  | .isub _ _, _ => .self
  | .ixor _ _, _ => .self
  | _, some x => .item x
  | _, Option.none => .none

/-- What the model's `step` result looks like from outside. -/
def summaryOfStep (s : PSet α) (op : Op α) : Except Exc (SOut α) → Summary α
  | .ok o => .done o.items (retOf op o.ret) o.event.toList
  | .error e => .raised e s []

end S

/-! ## `TraitSetObject._validator` -/
namespace V
open TraitsVerif.Model.SetM

variable {α : Type}

/-- Run-time values of the validator method. -/
inductive Val (α : Type) where
  | none
  | bool (b : Bool)
  | item (x : α)
  | ref (alive : Bool)                  -- what `self.object` holds: a weakref to the owner (alive or dead) or `lambda: None`
  | owner                               -- the HasTraits owner
  | trait (validateIsNone : Bool)       -- `self.trait` (a CTrait)
  | itemTrait (validateIsNone : Bool)   -- `trait.item_trait`
  | validateFn                          -- `trait.item_trait.validate`
  | name                                -- `self.name`
  | exc (e : Exc)                       -- a caught exception
  deriving Repr

abbrev Frame (α : Type) := List (Option (Val α))

inductive Flow (α : Type) where
  | next
  | returned (v : Val α)
  | raised (e : Exc)

/-- The interpreter is run with the attributes of `self` that `_validator`
reads (`TSOSelf`), the inner trait's `validate` as a function of "is there an
owner", call ordinal and value, and the ordinal of this call. -/
structure Ctx (α : Type) where
  self : TSOSelf
  inner : Bool → Callback α α
  ordinal : Nat

def truthy : Val α → Option Bool
  | .none => some false
  | .bool b => some b
  | _ => Option.none

def getVar (vars : Frame α) (i : Nat) : Except Exc (Val α) :=
  match vars[i]? with
  | some (some v) => .ok v
  | _ => stuck

def setVar (vars : Frame α) (i : Nat) (v : Val α) : Frame α := vars.set i (some v)

def eval (C : Ctx α) (vars : Frame α) : Expr → Except Exc (Val α)
  | .var i => getVar vars i
  | .noneLit => .ok .none
  | .boolLit b => .ok (.bool b)
  | .getattrSelf n dflt =>
    if n = "object" then
      (match C.self.object with | some a => .ok (.ref a) | Option.none => eval C vars dflt)
    else if n = "trait" then
      (match C.self.trait with | some vn => .ok (.trait vn) | Option.none => eval C vars dflt)
    else stuck
  | .selfAttr n => if n = "name" then .ok .name else stuck
  | .attr e n =>
    match eval C vars e with
    | .ok (.trait vn) => if n = "item_trait" then .ok (.itemTrait vn) else stuck
    | .ok (.itemTrait vn) => if n = "validate" then .ok (if vn then .none else .validateFn) else stuck
    | .ok _ => stuck
    | .error e => .error e
  | .isNone e =>
    match eval C vars e with
    | .ok .none => .ok (.bool true)
    | .ok _ => .ok (.bool false)
    | .error e => .error e
  | .or a b =>
    match eval C vars a with
    | .ok v => (match truthy v with | some true => .ok v | some false => eval C vars b | none => stuck)
    | .error e => .error e
  | .call0 f =>
    match eval C vars f with
    | .ok (.ref alive) => .ok (if alive then .owner else .none)
    | .ok _ => stuck
    | .error e => .error e
  | .call3 f a b c =>
    match eval C vars f, eval C vars a, eval C vars b, eval C vars c with
    | .ok .validateFn, .ok .owner, .ok .name, .ok (.item x) => (C.inner true C.ordinal x).map .item
    | .ok .validateFn, .ok .none, .ok .name, .ok (.item x) => (C.inner false C.ordinal x).map .item
    | .error e, _, _, _ => .error e
    | _, .error e, _, _ => .error e
    | _, _, .error e, _ => .error e
    | _, _, _, .error e => .error e
    | _, _, _, _ => stuck
  | _ => stuck

def exec (C : Ctx α) : Stmt → Frame α → Frame α × Flow α
  | .skip, vars => (vars, .next)
  | .seq a b, vars =>
    match exec C a vars with
    | (vars', .next) => exec C b vars'
    | r => r
  | .assign i e, vars =>
    match eval C vars e with
    | .ok v => (setVar vars i v, .next)
    | .error x => (vars, .raised x)
  | .ifS c t e, vars =>
    match eval C vars c with
    | .ok v =>
      (match truthy v with
       | some true => exec C t vars
       | some false => exec C e vars
       | none => (vars, .raised .other))
    | .error x => (vars, .raised x)
  | .ret e, vars =>
    match eval C vars e with
    | .ok v => (vars, .returned v)
    | .error x => (vars, .raised x)
  | .tryExcept body exc i handler, vars =>
    match exec C body vars with
    | (vars', .raised x) => if x = exc then exec C handler (setVar vars' i (.exc x)) else (vars', .raised x)
    | r => r
  | .setPrefix i, vars =>
    match getVar vars i with
    | .ok (.exc .traitError) => (vars, .next)          -- only TraitError has `set_prefix`; the message is not observed
    | .ok _ => (vars, .raised .attributeError)
    | .error x => (vars, .raised x)
  | .raiseVar i, vars =>
    match getVar vars i with
    | .ok (.exc x) => (vars, .raised x)
    | .ok _ => (vars, .raised .typeError)
    | .error x => (vars, .raised x)
  | _, vars => (vars, .raised .other)

/-- `self._validator(x)` as the `n`-th validator call of an operation. -/
def runValidator (fn : Func) (σ : TSOSelf) (inner : Bool → Callback α α) : Callback α α := fun n x =>
  if fn.nparams ≠ 1 ∨ fn.vararg ∨ fn.nslots < 1 then stuck
  else
    match exec { self := σ, inner := inner, ordinal := n } fn.body
        (some (.item x) :: List.replicate (fn.nslots - 1) Option.none) with
    | (_, .returned (.item y)) => .ok y
    | (_, .raised e) => .error e
    | _ => stuck

end V
end TraitsVerif.Model.PyLM
