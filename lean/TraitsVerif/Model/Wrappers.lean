/-
Cluster `attr`, part 1: shared vocabulary and the *wrapper layer* that sits
between `call_notifiers` (ctraits.c) and a user's change handler.

Mirrors (pinned tree):
  traits/trait_notifiers.py:639-670   `_change_accepted`
  traits/trait_notifiers.py:327-359   `AbstractStaticChangeNotifyWrapper.__call__`
  traits/trait_notifiers.py:513-564   `TraitChangeNotifyWrapper._dispatch_change_event`,
                                      `_notify_function_listener`
  traits/trait_notifiers.py:147-157   `handle_exception` (re-raise flag of the top handler)
  traits/observation/_trait_event_notifier.py:104-125  `TraitEventNotifier.__call__`
  traits/observation/_has_traits_helpers.py  `ctrait_prevent_event`
  traits/observation/exception_handling.py   `handle_exception`
  traits/ctraits.c:4645-4700          comparison-mode flag encoding

Values carry identity only (`Id`); `==` / `!=` on user values are tables
supplied as data (`Cmp`), so every theorem holds for every equality behaviour.
-/
import TraitsVerif.Py.Basic
import TraitsVerif.Generated.Enums
namespace TraitsVerif.Model.Attr
open TraitsVerif

/-- Object identity. -/
abbrev Id := Nat

/-- `traits.trait_base.Uninitialized` -/
def uninit : Id := 0
/-- `traits.trait_base.Undefined` -/
def undef : Id := 1
/-- `None` -/
def noneId : Id := 2

/-- Outcome of `bool(a == b)` / `bool(a != b)` on user values. -/
inductive Tri where
  | yes | no | raises
  deriving DecidableEq, Repr, Inhabited

/-- The two rich comparisons the notification code performs, as data. -/
structure Cmp where
  /-- `bool(old == new)` -/
  eqv : Id → Id → Tri
  /-- `bool(old != new)` -/
  neq : Id → Id → Tri

/-- `TraitKind` values the `attr` cluster models (`constants.py`). -/
inductive Kind where
  | trait | event
  deriving DecidableEq, Repr, Inhabited

def Kind.toNat : Kind → Nat
  | .trait => 0
  | .event => 2

/-- `ComparisonMode` (`constants.py`). -/
inductive CMode where
  | none | identity | equality
  deriving DecidableEq, Repr, Inhabited

def CMode.toNat : CMode → Nat
  | .none => 0
  | .identity => 1
  | .equality => 2

/-- `flags & mask != 0` -/
def testFlag (flags mask : Nat) : Bool := (flags &&& mask) != 0

/-- `_set_trait_comparison_mode` (ctraits.c:4645-4677): the flag stored under the mask. -/
def CMode.flag : CMode → Nat
  | .none => Generated.TRAIT_COMPARISON_MODE_NONE
  | .identity => Generated.TRAIT_COMPARISON_MODE_IDENTITY
  | .equality => Generated.TRAIT_COMPARISON_MODE_EQUALITY

/-- Flag word of a CTrait with the given comparison mode and the two
"original value" bits. -/
def mkFlags (m : CMode) (setattrOriginal postOriginal : Bool) : Nat :=
  m.flag ||| (if setattrOriginal then Generated.TRAIT_SETATTR_ORIGINAL_VALUE else 0)
         ||| (if postOriginal then Generated.TRAIT_POST_SETATTR_ORIGINAL_VALUE else 0)

/-- `_get_trait_comparison_mode_int` (ctraits.c:4681-4700). -/
def comparisonModeInt (flags : Nat) : Nat :=
  let f := flags &&& Generated.TRAIT_COMPARISON_MODE_MASK
  if f = Generated.TRAIT_COMPARISON_MODE_NONE then 0
  else if f = Generated.TRAIT_COMPARISON_MODE_IDENTITY then 1
  else 2

/-- The three notification mechanisms of property C02. -/
inductive NKind where
  /-- `_name_changed` / `_name_fired` / `_anytrait_changed` (Static*ChangeNotifyWrapper) -/
  | static
  /-- `on_trait_change` (TraitChangeNotifyWrapper) -/
  | dynamic
  /-- `observe` (TraitEventNotifier) -/
  | observe
  deriving DecidableEq, Repr, Inhabited

/-- One entry of a notifier list.  `h` names the user handler; `rc` is
`TraitEventNotifier._ref_count` (meaningful for `observe` only). -/
structure Notifier where
  kind : NKind
  h : Nat
  rc : Nat := 1
  deriving DecidableEq, Repr, Inhabited

/-- One invocation of a user handler. `obj` is the HasTraits instance (its id). -/
structure Call where
  obj : Id
  h : Nat
  old : Id
  new : Id
  deriving DecidableEq, Repr, Inhabited

/-- What a user handler does besides returning: nothing, or unregister itself. -/
inductive HAct where
  | stay | removeSelf
  deriving DecidableEq, Repr, Inhabited

/-- "the trait is a standard trait compared by equality":
`trait.type == TraitKind.trait.name and trait.comparison_mode == ComparisonMode.equality`
(trait_notifiers.py:661-662, _has_traits_helpers.py `ctrait_prevent_event`). -/
def eqMode (kind : Kind) (flags : Nat) : Bool :=
  kind == .trait && comparisonModeInt flags == CMode.equality.toNat

/-- `_change_accepted(object, name, old, new)` (trait_notifiers.py:639-670),
after its `old is Uninitialized` test:
equality mode ⇒ `bool(old != new)`, an exception there ⇒ accept. -/
def changeAcceptedCmp (c : Cmp) (kind : Kind) (flags : Nat) (old new : Id) : Bool :=
  if eqMode kind flags then
    match c.neq old new with
    | .yes => true
    | .no => false
    | .raises => true      -- `except Exception: pass` … `return True`
  else true

/-- `_change_accepted`. -/
def changeAccepted (c : Cmp) (kind : Kind) (flags : Nat) (old new : Id) : Bool :=
  if old = uninit then false else changeAcceptedCmp c kind flags old new

/-- `ctrait_prevent_event(event)`: `True` = the observer is *not* called.
equality mode ⇒ `bool(old == new)`, an exception there ⇒ fire. -/
def preventEvent (c : Cmp) (kind : Kind) (flags : Nat) (old new : Id) : Bool :=
  if old = uninit then true
  else if eqMode kind flags then
    match c.eqv old new with
    | .yes => true
    | .no => false
    | .raises => false     -- `except Exception: pass` … `return False`
  else false

/-- Does a wrapper of kind `k` invoke its user handler for `(old, new)`? -/
def wrapperFires (c : Cmp) (kind : Kind) (flags : Nat) (k : NKind) (old new : Id) : Bool :=
  match k with
  | .static | .dynamic => changeAccepted c kind flags old new
  | .observe => !preventEvent c kind flags old new

end TraitsVerif.Model.Attr
