/-
Model of the function-pointer bookkeeping of `CTrait` in `traits/ctraits.c`
(pinned tree), over the tables and guards TRANSLATED from the working tree
(`Generated/CTables.lean`, harness/translate/ctables.py):

  * `func_index`                      (ctraits.c:4844-4853)
  * `_trait_getstate` / `_trait_setstate`, the five index slots of the 15-tuple
                                       (ctraits.c:4859-4959)
  * `trait_new`                        (ctraits.c:2953-2981)
  * `_trait_set_validate`              (ctraits.c:4312-4484)
  * `_trait_delegate`                  (ctraits.c:4605-4640)
  * `_trait_set_property`              (ctraits.c:4728-4768)
  * `trait_clone`                      (ctraits.c:4774-4796)
  * `set_trait_post_setattr`           (ctraits.c:5030-5047)
  * `_trait_set_default_value` guard, `default_value_for` switch
                                       (ctraits.c:3109-3153, 1840-1913)

A function pointer is its C name (`String`); `"NULL"` is the null pointer.  A
table is the `List String` the translator read from the initialiser.  Reading a
table outside its initialiser is *undefined behaviour* in C: the model makes it
`none`, and the theorems of Props/C18 show `none` is never produced on the
API paths.  Core Lean only; every function is total.
-/
import TraitsVerif.Generated.CTables
namespace TraitsVerif.Model.FuncIndex
open TraitsVerif.Generated

/-! ## Fields and tables -/

/-- The five function-pointer fields of `trait_object` (ctraits.c:216-236). -/
inductive Field where
  | getattr | setattr | postSetattr | validate | delegateAttrName
  deriving DecidableEq, Repr

def Field.all : List Field := [.getattr, .setattr, .postSetattr, .validate, .delegateAttrName]

/-- The field's name in the C source (what the translator prints). -/
def Field.cname : Field → String
  | .getattr => "getattr"
  | .setattr => "setattr"
  | .postSetattr => "post_setattr"
  | .validate => "validate"
  | .delegateAttrName => "delegate_attr_name"

def NULL : String := "NULL"

/-- Marker produced when the model is asked for something the source does not
provide (subscript outside an initialiser, missing guard, unknown table).  It is
in no table, so every coverage theorem fails on it. -/
def OOB : String := "<out-of-bounds>"

/-- Contents of the table with C name `c` (`[]` when the translator saw none). -/
def tableNamed (c : String) : List String :=
  match CTables.tables.lookup c with
  | some t => t
  | none => []

/-- `table[i]` as C evaluates it: defined only inside the initialiser. -/
def tableAt (c : String) (i : Nat) : Option String := (tableNamed c)[i]?

/-- The table `_trait_getstate` hands to `func_index` for a field
(ctraits.c:4869-4899), as translated. -/
def stateTableName (f : Field) : String :=
  match CTables.getstateIndexed.find? (fun r => r.2.1 == f.cname) with
  | some r => r.2.2
  | none => OOB

def stateTable (f : Field) : List String := tableNamed (stateTableName f)

/-- The table `_trait_setstate` subscripts to restore a field
(ctraits.c:4925-4931), as translated from the assignment sites. -/
def restoreTableName (f : Field) : String :=
  match CTables.assignSites.find?
      (fun s => s.1 == "_trait_setstate" && s.2.1 == f.cname && s.2.2.1 == "tbl") with
  | some s => s.2.2.2.1
  | none => OOB

/-! ## `func_index` (ctraits.c:4844-4853)

```c
for (i = 0; function != function_table[i]; i++) { ; }
return i;
```
The loop has no bound: when `function` is not an entry it reads past the
array.  `none` stands for that. -/

def funcIndexFrom (fn : String) : List String → Nat → Option Nat
  | [], _ => none
  | e :: es, i => if fn = e then some i else funcIndexFrom fn es (i + 1)

def funcIndex (fn : String) (tbl : List String) : Option Nat := funcIndexFrom fn tbl 0

/-! ## The function-pointer part of a `CTrait` -/

structure Fns where
  getattr : String
  setattr : String
  postSetattr : String
  validate : String
  delegateAttrName : String
  deriving DecidableEq, Repr

def Fns.get (t : Fns) : Field → String
  | .getattr => t.getattr
  | .setattr => t.setattr
  | .postSetattr => t.postSetattr
  | .validate => t.validate
  | .delegateAttrName => t.delegateAttrName

/-- Index slots 0, 1, 2, 4, 11 of the state tuple. -/
structure Idx where
  getattr : Nat
  setattr : Nat
  postSetattr : Nat
  validate : Nat
  delegateAttrName : Nat
  deriving DecidableEq, Repr

def Idx.get (i : Idx) : Field → Nat
  | .getattr => i.getattr
  | .setattr => i.setattr
  | .postSetattr => i.postSetattr
  | .validate => i.validate
  | .delegateAttrName => i.delegateAttrName

/-- `_trait_getstate`, index slots only (ctraits.c:4869-4899).  `none` = one
of the five `func_index` scans left its table. -/
def getstateIdx (t : Fns) : Option Idx :=
  match funcIndex t.getattr (stateTable .getattr),
        funcIndex t.setattr (stateTable .setattr),
        funcIndex t.postSetattr (stateTable .postSetattr),
        funcIndex t.validate (stateTable .validate),
        funcIndex t.delegateAttrName (stateTable .delegateAttrName) with
  | some a, some b, some c, some d, some e => some ⟨a, b, c, d, e⟩
  | _, _, _, _, _ => none

/-- `_trait_setstate`, index slots only (ctraits.c:4925-4931): five unchecked
subscripts.  `none` = a subscript outside the initialiser. -/
def setstateIdx (i : Idx) : Option Fns :=
  match tableAt (restoreTableName .getattr) i.getattr,
        tableAt (restoreTableName .setattr) i.setattr,
        tableAt (restoreTableName .postSetattr) i.postSetattr,
        tableAt (restoreTableName .validate) i.validate,
        tableAt (restoreTableName .delegateAttrName) i.delegateAttrName with
  | some a, some b, some c, some d, some e => some ⟨a, b, c, d, e⟩
  | _, _, _, _, _ => none

/-! ## Guards (translated) and the API operations that write the fields -/

/-- Admitted values of index variable `var` in function `fn`; `none` when the
translator found no guard entry or the source has no check. -/
def guardOf (fn var : String) : Option (List Nat) :=
  match CTables.indexGuards.find? (fun g => g.1 == fn && g.2.1 == var) with
  | some g => g.2.2
  | none => none

/-- A C `int` passes the guard of (`fn`, `var`). -/
def admitted (fn var : String) (k : Int) : Bool :=
  match guardOf fn var with
  | some ks => decide (0 ≤ k) && ks.contains k.toNat
  | none => false

/-- `trait_new` (ctraits.c:2953-2981): `PyType_GenericNew` zero-fills the
struct, then `getattr`/`setattr` are read from the two tables at `kind`.
`none` = the TraitError for a `kind` outside the guard. -/
def traitNew (kind : Int) : Option Fns :=
  if admitted "trait_new" "kind" kind then
    some { getattr := (tableAt "getattr_handlers" kind.toNat).getD OOB
           setattr := (tableAt "setattr_handlers" kind.toNat).getD OOB
           postSetattr := NULL, validate := NULL, delegateAttrName := NULL }
  else none

/-- Operations of the Python-visible API that write a function-pointer field. -/
inductive Op where
  /-- `_trait_set_validate` reaching `done:` with this `kind` (the tuple-shape
  tests of the `switch` are not modelled: they only *reject* more). -/
  | setValidate (kind : Int)
  /-- `_trait_delegate(name, prefix, prefix_type, modify)`. -/
  | delegate (prefixType : Int)
  /-- `_trait_set_property(get, get_n, set, set_n, validate, validate_n)`;
  `hasValidate` = `validate != Py_None`. -/
  | setProperty (getN setN validateN : Int) (hasValidate : Bool)
  /-- `trait.post_setattr = value`; `some` = `value is not None`. -/
  | setPostSetattr (some : Bool)
  deriving Repr

/-- One API operation; `none` = it raises (ValueError) and writes nothing. -/
def apply (t : Fns) : Op → Option Fns
  | .setValidate kind =>
    -- ctraits.c:4475-4476   done: trait->validate = validate_handlers[kind];
    if admitted "_trait_set_validate" "kind" kind then
      some { t with validate := (tableAt "validate_handlers" kind.toNat).getD OOB }
    else none
  | .delegate p =>
    -- ctraits.c:4630-4634   if ((prefix_type < 0) || (prefix_type > 3)) prefix_type = 0;
    let p' : Int := if admitted "_trait_delegate" "prefix_type" p then p else 0
    some { t with delegateAttrName := (tableAt "delegate_attr_name_handlers" p'.toNat).getD OOB }
  | .setProperty g s v hasV =>
    -- ctraits.c:4740-4758
    if admitted "_trait_set_property" "get_n" g && admitted "_trait_set_property" "set_n" s
        && admitted "_trait_set_property" "validate_n" v then
      let ga := (tableAt "getattr_property_handlers" g.toNat).getD OOB
      let sa := (tableAt "setattr_property_handlers" s.toNat).getD OOB
      if hasV then
        some { t with getattr := ga, setattr := "setattr_validate_property", postSetattr := sa,
                      validate := (tableAt "setattr_validate_handlers" v.toNat).getD OOB }
      else some { t with getattr := ga, setattr := sa }
    else none
  | .setPostSetattr b =>
    -- set_trait_post_setattr: for a validated property the C-level `post_setattr` slot holds the
    -- property setter that `setattr_validate_property` calls (`_trait_set_property`): it is left
    -- alone (F77 repair; before it `trait.post_setattr = None` stored NULL there).
    if t.setattr = "setattr_validate_property" then some t
    else some { t with postSetattr := if b then "post_setattr_trait_python" else NULL }

/-- Every `Fns` a program can hold in a live `CTrait`: built by `trait_new`,
changed by the writing operations, or restored by `__setstate__` from the state
`__getstate__` of a constructible trait produced (pickle, `copy.copy`,
`copy.deepcopy` all go through `__reduce_ex__`, ctrait.py:248-250).
`trait.clone(source)` copies all five fields of `source` (ctraits.c:4777-4788):
the clone's `Fns` *is* the source's, so it adds no new element. -/
inductive Constructible : Fns → Prop where
  | new {k t} : traitNew k = some t → Constructible t
  | step {t t'} (op : Op) : Constructible t → apply t op = some t' → Constructible t'
  | restore {s i t} : Constructible s → getstateIdx s = some i → setstateIdx i = some t → Constructible t

/-! ## "Assignable" functions per field, from the translated assignment sites -/

/-- Fields `PyType_GenericNew` leaves `NULL` until an operation writes them
(`getattr`/`setattr` are assigned by `trait_new` before the object escapes). -/
def zeroInit : Field → List String
  | .getattr | .setattr => []
  | _ => [NULL]

/-- The functions one assignment site can store.  `copy` sites and the
unguarded `_trait_setstate` sites introduce no new function (they move values
that are already in a trait / came out of `__getstate__`). -/
def expandSite (s : String × String × String × String × String) : List String :=
  let (fn, _, kind, a, b) := s
  if kind == "tbl" then
    if fn == "_trait_setstate" then []
    else match guardOf fn b with
      | some ks => ks.map (fun k => (tableAt a k).getD OOB)
      | none => [OOB]
  else if kind == "fn" then [a]
  else if kind == "null" then [NULL]
  else if kind == "copy" then []
  else [OOB]

/-- Every function that some assignment in `ctraits.c` can put into field `f`. -/
def assignable (f : Field) : List String :=
  zeroInit f ++ (CTables.assignSites.filter (fun s => s.2.1 == f.cname)).flatMap expandSite

/-! ## What each handler dereferences (for the "no NULL call" clauses)

`requiresProperty fn` = the handler calls `trait->delegate_name` /
`trait->delegate_prefix` as the property getter / setter without a NULL test
(ctraits.c:2099-2157, 2656-2765), so it must only be installed together with
those fields, i.e. by `_trait_set_property`. -/
def requiresProperty (fn : String) : Bool :=
  ["getattr_property0", "getattr_property1", "getattr_property2", "getattr_property3",
   "setattr_property0", "setattr_property1", "setattr_property2", "setattr_property3",
   "setattr_validate_property"].contains fn

/-- `TraitKind` (traits/constants.py:33-69) ↦ the handler pair `trait_new`
installs: the meaning of the first nine entries of the two tables. -/
def kindHandlers : List (String × String) :=
  [("getattr_trait", "setattr_trait"),        -- 0 trait
   ("getattr_python", "setattr_python"),      -- 1 python
   ("getattr_event", "setattr_event"),        -- 2 event
   ("getattr_delegate", "setattr_delegate"),  -- 3 delegate
   ("getattr_event", "setattr_event"),        -- 4 property (placeholder until property_fields is set)
   ("getattr_disallow", "setattr_disallow"),  -- 5 disallow
   ("getattr_trait", "setattr_readonly"),     -- 6 read_only
   ("getattr_constant", "setattr_constant"),  -- 7 constant
   ("getattr_generic", "setattr_generic")]    -- 8 generic

/-! ## Using a trait whose handler's fields were never filled

A `CTrait(kind)` built directly carries handlers that read fields only other
calls fill: `delegate_name` / `delegate_attr_name` (`delegate()`),
`default_value` (`set_default_value`), `handler` (`TraitType.as_ctrait`).
Each handler tests for NULL (repairs of F75, F76, F78) and the outcome of
`obj.z`, `obj.z = 1`, `del obj.z` on a fresh object is an exception class or a
value - never a NULL dereference. -/

/-- The non-function part of a directly built `CTrait` that matters here. -/
structure Raw where
  fns : Fns
  /-- `delegate(...)` was called -/
  delegated : Bool := false
  /-- `default_value_type` (0 until `set_default_value`) -/
  dvt : Nat := 0
  /-- the `prefix_type` `_trait_delegate` kept (after its clamp to 0) -/
  prefixType : Nat := 0
  deriving Repr

inductive Outcome where
  | ok | traitError | valueError | unmodelled
  deriving DecidableEq, Repr

/-- `obj.z` (nothing stored yet). -/
def probeGet (r : Raw) : Outcome :=
  if r.fns.getattr = "getattr_delegate" then
    -- getattr_delegate: DelegationError (a TraitError) when delegate_name / delegate_attr_name is NULL
    if r.delegated then .unmodelled else .traitError
  else if r.fns.getattr = "getattr_constant" then .ok      -- a NULL default_value reads as None
  else if r.fns.getattr = "getattr_trait" then
    -- default_value_for: the three container defaults call `call_class`, which needs `trait->handler`
    if r.dvt = 5 ∨ r.dvt = 6 ∨ r.dvt = 9 then .traitError
    else if r.dvt = 10 then .valueError                     -- "default value not permitted for this trait"
    else .ok
  else if requiresProperty r.fns.getattr then .ok           -- the getter is called
  else .unmodelled

/-- `obj.z = 1`. -/
def probeSet (r : Raw) : Outcome :=
  if r.fns.setattr = "setattr_delegate" then (if r.delegated then .unmodelled else .traitError)
  else if r.fns.setattr = "setattr_constant" then .traitError
  else if r.fns.setattr = "setattr_trait" then .ok
  else if r.fns.setattr = "setattr_validate_property" then
    -- validate, then the setter kept in the `post_setattr` slot
    if r.fns.validate = NULL ∨ r.fns.postSetattr = NULL then .unmodelled else .ok
  else if requiresProperty r.fns.setattr then .ok
  else .unmodelled

/-- `del obj.z` (nothing stored). -/
def probeDel (r : Raw) : Outcome :=
  if r.fns.setattr = "setattr_delegate" then (if r.delegated then .unmodelled else .traitError)
  else if r.fns.setattr = "setattr_constant" then .traitError
  else if r.fns.setattr = "setattr_trait" then .ok
  else if requiresProperty r.fns.setattr then .traitError    -- "Cannot delete the … property"
  else .unmodelled

/-- The clamp of `_trait_delegate`: a `prefix_type` outside the guard becomes 0. -/
def clampPrefixType (p : Int) : Nat := if admitted "_trait_delegate" "prefix_type" p then p.toNat else 0

/-- `owner.x` and `owner.x = 7` for a delegate trait configured with
`delegate("target", "x", prefix_type, True)` on an owner whose `target.x`
exists: with the name rules 0 (same name), 1 (prefix) and 3 (class prefix,
empty here) the delegated attribute is `x`; both succeed - provided
`delegate_attr_name` is a function, which `C18_kind_in_bounds` guarantees for
every value the guard lets through. -/
def probeDelegated (r : Raw) : Outcome × Outcome :=
  if r.fns.getattr = "getattr_delegate" ∧ r.fns.setattr = "setattr_delegate" ∧ r.delegated = true
      ∧ r.fns.delegateAttrName ≠ NULL ∧ r.prefixType ≠ 2 then (.ok, .ok)
  else (.unmodelled, .unmodelled)

/-! ## Default value type (ctraits.c:3109-3153, 1840-1913) -/

/-- `_trait_set_default_value` accepts `value_type` (before its tuple-shape test). -/
def defaultValueTypeOk (vt : Int) : Bool :=
  decide ((CTables.defaultValueTypeGuard.1 : Int) ≤ vt) && decide (vt ≤ (CTables.defaultValueTypeGuard.2 : Int))

end TraitsVerif.Model.FuncIndex
