/-
C15 — a total recursive-descent parser for the grammar of
/repo/traits/observation/_dsl_grammar.lark (lines 27-47).

The LALR tables of /repo/traits/observation/_generated_parser.py are NOT
modelled; this parser is an independent decision procedure for the same grammar
(tied to the tables by the exhaustive short-string correspondence) and is
proved sound and complete for the derivation trees `Cst` (Lemmas/DslParse.lean).

One function `run` by structural recursion on fuel; `Mode` says which
nonterminal is being read.  The Bool `t` selects the `_terminal` variant of
`series` / `parallel` (in which `*` may end a series).
Left recursion (`series: (series conn)? element`) is read as a loop carrying
the tree built so far (`serLoop acc`, `parLoop acc`).
-/
import TraitsVerif.Model.DslSyntax
namespace TraitsVerif.Model.Dsl

inductive Mode where
  | elem                          -- ?element
  | ser (t : Bool)                -- ?series / ?series_terminal
  | serLoop (t : Bool) (acc : Cst)
  | par (t : Bool)                -- ?parallel / ?parallel_terminal
  | parLoop (t : Bool) (acc : Cst)

abbrev PRes := Option (Cst × List Tok)

def run : Nat → Mode → List Tok → PRes
  | 0, _, _ => none
  -- element: trait | items | metadata | "[" parallel "]"
  | f + 1, .elem, ts =>
    match ts with
    | .name n :: r => some (.trait n, r)
    | .items :: r => some (.items, r)
    | .plus :: .name n :: r => some (.metadata n, r)
    | .lb :: r =>
      match run f (.par false) r with
      | some (p, .rb :: r') => some (.group p, r')
      | _ => none
    | _ => none
  -- series[_terminal]: first operand
  | f + 1, .ser t, ts =>
    match t, ts with
    | true, .star :: r => some (.any, r)          -- series_terminal: anytrait
    | _, _ =>
      match run f .elem ts with
      | some (e, r) => run f (.serLoop t e) r
      | none => none
  -- … (notify | quiet) element, repeated; in the terminal variant a `*` ends it
  | f + 1, .serLoop t acc, ts =>
    match ts with
    | .conn c :: r =>
      match t, r with
      | true, .star :: r' => some (.ser acc c .any, r')
      | _, _ =>
        match run f .elem r with
        | some (e, r') => run f (.serLoop t (.ser acc c e)) r'
        | none => none
    | _ => some (acc, ts)
  -- parallel[_terminal]
  | f + 1, .par t, ts =>
    match run f (.ser t) ts with
    | some (s, r) => run f (.parLoop t s) r
    | none => none
  | f + 1, .parLoop t acc, ts =>
    match ts with
    | .comma :: r =>
      match run f (.ser t) r with
      | some (s, r') => run f (.parLoop t (.par acc s)) r'
      | none => none
    | _ => some (acc, ts)

/-- Fuel that always suffices (Lemmas/DslParse.lean `need_le`). -/
def fuelFor (ts : List Tok) : Nat := 4 * ts.length + 4

/-- `start: parallel_terminal`, the whole input must be consumed. -/
def parseToks (ts : List Tok) : Option Cst :=
  match run (fuelFor ts) (.par true) ts with
  | some (c, []) => some c
  | _ => none

/-- Lex, then parse.  `none` is the `LarkError` that `parse` turns into
`ValueError` (parsing.py:199-202). -/
def parseChars (uw : Char → Bool) (s : List Char) : Option Cst :=
  (lex uw s).bind parseToks

end TraitsVerif.Model.Dsl
