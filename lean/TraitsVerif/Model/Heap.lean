/-
Cluster `obs` (C08, C09): the object graph the observers walk.

A heap maps identities to objects.  A `HasTraits` instance is the ordered list
of its traits (`HasTraits.traits()` order: class traits in definition order,
`trait_added`, `trait_modified`, then traits added with `add_trait` in the order
they were added — traits/has_traits.py:3001-3012); the value of a trait is what
`object.__dict__` holds (`unset` = absent, i.e. the default has not been
materialised).  `TraitList` / `TraitDict` / `TraitSet` objects are heap cells of
their own because notifiers live on *them* (trait_list_object.py:528
`_notifiers`), so their identity matters (a reassigned list is a new observable).
Duplicates, sharing and cycles are allowed: nothing here is a tree.
-/
import TraitsVerif.Py.Basic
namespace TraitsVerif.Model.Obs
open TraitsVerif

abbrev Id := Nat
abbrev Name := Nat
abbrev Key := Nat

/-- What `object.__dict__.get(name, …)` / a change event's `old`/`new` can be. -/
inductive Val where
  | unset                 -- absent from `__dict__`; as an event's `old`: `Uninitialized`
  | undef                 -- `Undefined` (the `old` of an Event trait such as `trait_added`)
  | none                  -- `None`
  | int (n : Int)         -- a scalar
  | name (n : Name)       -- a string naming a trait (the `new` of `trait_added`)
  | ref (i : Id)          -- a HasTraits instance or a container
  deriving DecidableEq, Repr, Inhabited

/-- How `default_value_for` (ctraits.c) produces the default of a trait. -/
inductive Dflt where
  | val (v : Val)         -- constant default, or a `_name_default` method returning `v`
  | newList | newDict | newSet   -- TRAIT_{LIST,DICT,SET}_OBJECT_DEFAULT_VALUE: a fresh empty container
  deriving DecidableEq, Repr, Inhabited

/-- `comparison_mode` of the trait (constants.py `ComparisonMode`). -/
inductive Cmp where
  | none | identity | equality
  deriving DecidableEq, Repr, Inhabited

structure Field where
  name : Name
  tagged : Bool           -- carries the metadata the `+tag` filter looks for
  dflt : Dflt
  val : Val
  cmp : Cmp := .equality  -- the default comparison mode of every trait type used here
  deriving DecidableEq, Repr, Inhabited

inductive Obj where
  | inst (fields : List Field)
  | list (items : List Id)
  | dict (items : List (Key × Id))     -- insertion order, keys distinct
  | set (items : List Id)              -- iteration order, items distinct
  | junk                               -- anything else: `None` inside a container, an int, a str
  deriving DecidableEq, Repr, Inhabited

/-- Identity ↦ object, as an association list; an identity that does not occur
is `junk`.  (A concrete structure rather than a function so that the model runs
in time linear in the history.) -/
abbrev Heap := List (Id × Obj)

def Heap.get : Heap → Id → Obj
  | [], _ => .junk
  | (j, o) :: h, i => if j = i then o else Heap.get h i

def Heap.upd (h : Heap) (i : Id) (o : Obj) : Heap := (i, o) :: h.filter (fun p => p.1 != i)

/-- A value handed from one observer to the next: an identity, or `none` for a
value that is neither a HasTraits instance nor an observable container. -/
abbrev W := Option Id

def Heap.at (h : Heap) : W → Obj
  | some i => h.get i
  | none => .junk

/-! Reserved trait names (the harness uses the same numbering). -/
def nValue : Name := 0
def nMate : Name := 1
def nChild : Name := 2
def nKids : Name := 3
def nByname : Name := 4
def nGroup : Name := 5
def nTraitAdded : Name := 6
def nTraitModified : Name := 7

def findField (fs : List Field) (n : Name) : Option Field := fs.find? (·.name == n)

def setFieldVal (fs : List Field) (n : Name) (v : Val) : List Field :=
  fs.map (fun f => if f.name == n then { f with val := v } else f)

/-- `object_has_named_trait` (_has_traits_helpers.py:24-40). -/
def hasTrait (h : Heap) (x : W) (n : Name) : Bool :=
  match h.at x with
  | .inst fs => (findField fs n).isSome
  | _ => false

/-- Value of `x.__dict__.get(n)`; `unset` when there is no such instance/trait. -/
def fieldVal (h : Heap) (x : W) (n : Name) : Val :=
  match h.at x with
  | .inst fs => match findField fs n with
    | some f => f.val
    | none => .unset
  | _ => .unset

/-- comparison mode of trait `n` of object `o` (equality when there is no such trait) -/
def fieldCmp (h : Heap) (o : Id) (n : Name) : Cmp :=
  match h.get o with
  | .inst fs => match findField fs n with
    | some f => f.cmp
    | none => .equality
  | _ => .equality

def eqLists (eqi : Id → Id → Bool) : List Id → List Id → Bool
  | [], [] => true
  | x :: xs, y :: ys => eqi x y && eqLists eqi xs ys
  | _, _ => false

/-- `old == new` as evaluated by `ctrait_prevent_event` (_has_traits_helpers.py:137):
ints by value; instances by identity or, when their class defines `__eq__`, by the
PARAMETER `eqo` (`==` of user objects is data, DESIGN §4); containers by contents,
item by item with the same `==`. -/
def valEq (eqo : Id → Id → Bool) (h : Heap) : Val → Val → Bool
  | .ref i, .ref j =>
    i == j || eqo i j ||
    (match h.get i, h.get j with
     | .list a, .list b => eqLists (fun x y => x == y || eqo x y) a b
     | .dict a, .dict b => a.length == b.length &&
         a.all (fun kv => b.any (fun kv' => kv.1 == kv'.1 && (kv.2 == kv'.2 || eqo kv.2 kv'.2)))
     | .set a, .set b => a.length == b.length && a.all (fun x => b.any (fun y => x == y || eqo x y))
     | _, _ => false)
  | a, b => a == b

end TraitsVerif.Model.Obs
