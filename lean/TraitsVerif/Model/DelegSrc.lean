/-
Deep embedding of the *source text* of the delegation code, and its interpretation over the pool of
`Model/Delegate.lean`.  The terms are produced from the working tree by `harness/translate/delegsrc.py`
(`Generated/DelegSrc.lean`); `Props/C11.lean` proves that the hand-written model functions equal the
interpretation of the generated terms (`C11_*_is_source`).

  §1  `NStmt`  — bodies of `delegate_attr_name_{name,prefix,prefix_name,class_name}`  (ctraits.c)
  §2  `Stmt`   — statement skeleton of `getattr_delegate` and `setattr_delegate`      (ctraits.c)
                 registers are numbered by the translator (parameters first, then locals, per kind:
                 object / name / trait), so renaming a C local does not change the term
  §3  `PStmt`  — string programs `Delegate.__init__`, `get_delegate_pattern`, `_trait_delegate_name`
  §4  `LStmt`  — `_remove_trait_delegate_listener` / `_init_trait_delegate_listener` on the listener table

What the interpretation takes from the hand-written model (callees that are outside the translated
functions): `traitd->setattr` (`setattr_trait` / `setattr_python`: `setPlain`, `delPlain`, `setPython`,
`delPython`, `protoSet`), `tp_getattro` of the delegate (the recursive read, a parameter),
`ListenerItem.register` (`hook`).  Reference counting statements are dropped by the translator (they are
the subject of C18).
-/
import TraitsVerif.Model.Delegate
namespace TraitsVerif.Model.DelegSrc
open TraitsVerif TraitsVerif.Model.Deleg

/-! ## §1 delegate_attr_name_* -/

inductive NExpr where
  | name                          -- parameter `name`
  | delegPrefix                   -- `trait->delegate_prefix`
  | var (v : Nat)                 -- local variable number `v`
  | concat (a b : NExpr)          -- `PyUnicode_Concat(a, b)`
  | typeAttr (attr : List Char)   -- `PyObject_GetAttr((PyObject *)Py_TYPE(obj), <interned attr>)`, NULL when missing
  deriving DecidableEq, Repr

inductive NStmt where
  | assign (v : Nat) (e : NExpr)
  | ifNullClearRet (v : Nat) (e : NExpr)   -- `if (v == NULL) { PyErr_Clear(); return e; }`
  | ret (e : NExpr)
  deriving DecidableEq, Repr

/-- Value of a `PyObject *`: `none` = NULL. -/
def NExpr.eval (pfx : Name) (typeAttr : List Char → Option Name) (n : Name) (env : List (Option Name)) :
    NExpr → Option Name
  | .name => some n
  | .delegPrefix => some pfx
  | .var v => env.getD v none
  | .concat a b =>
    match a.eval pfx typeAttr n env, b.eval pfx typeAttr n env with
    | some x, some y => some (x ++ y)
    | _, _ => none
  | .typeAttr a => typeAttr a

def setReg {α : Type} (l : List α) (i : Nat) (v : α) (dflt : α) : List α :=
  if i < l.length then l.set i v else l ++ List.replicate (i - l.length) dflt ++ [v]

def execN (pfx : Name) (typeAttr : List Char → Option Name) (n : Name) :
    List NStmt → List (Option Name) → Option Name
  | [], _ => none
  | .assign v e :: r, env => execN pfx typeAttr n r (setReg env v (e.eval pfx typeAttr n env) none)
  | .ifNullClearRet v e :: r, env =>
    if (env.getD v none).isNone then e.eval pfx typeAttr n env else execN pfx typeAttr n r env
  | .ret e :: _, env => e.eval pfx typeAttr n env

/-- `prefix_type` as the integer `Delegate.__init__` computes and `_trait_delegate` indexes with. -/
def PrefixType.toNat : PrefixType → Nat
  | .name => 0 | .prefix => 1 | .prefixName => 2 | .className => 3

/-- `_trait_delegate` (ctraits.c): values outside 0..3 select handler 0. -/
def PrefixType.ofNat : Nat → PrefixType
  | 1 => .prefix | 2 => .prefixName | 3 => .className | _ => .name

/-- The type attributes the model knows: `__prefix__`. -/
def clsAttr (clsPfx : Option Name) (a : List Char) : Option Name :=
  if a = ['_', '_', 'p', 'r', 'e', 'f', 'i', 'x', '_', '_'] then clsPfx else none

/-- `trait->delegate_attr_name(trait, obj, name)` through the handler table of the source. -/
def attrNameSrc (handlers : List (List NStmt)) (d : DelegInfo) (clsPfx : Option Name) (n : Name) : Option Name :=
  match handlers[PrefixType.toNat d.ptype]? with
  | none => none
  | some body => execN d.stored (clsAttr clsPfx) n body []

/-! ## §2 getattr_delegate / setattr_delegate -/

/-- Error helpers of ctraits.c that a translated function may return through. -/
inductive CErr where
  | undefinedDelegate     -- undefined_delegate_error      (DelegationError)
  | badDelegate           -- bad_delegate_error            (DelegationError)
  | badDelegate2          -- bad_delegate_error2           (DelegationError)
  | recursion             -- delegation_recursion_error    (DelegationError)
  | fatalTrait            -- fatal_trait_error             (TraitError)
  | invalidAttribute      -- invalid_attribute_error       (TypeError)
  | delegationFormat      -- PyErr_Format(DelegationError, …)
  | pending               -- `return NULL;` / `return -1;` with the callee's exception
  deriving DecidableEq, Repr

def CErr.exc : CErr → Exc
  | .invalidAttribute => .typeError
  | .pending => .other
  | _ => .traitError

inductive Cond where
  | undefinedDelegate (t : Nat)               -- (t->delegate_name == NULL) || (t->delegate_attr_name == NULL)
  | dictProbe (owner t dst : Nat)             -- (dict(owner) != NULL) && ((dst = PyDict_GetItem(dict, t->delegate_name)) != NULL)
  | objNull (o : Nat)                         -- o == NULL
  | nameNotStr (s : Nat)                      -- !PyUnicode_Check(s)
  | hasGetattro (o : Nat)                     -- Py_TYPE(o)->tp_getattro != NULL
  | enterRecursiveFails                       -- Py_EnterRecursiveCall(…)
  | notHasTraits (o : Nat)                    -- !PyHasTraits_Check(o)
  | traitLookupFails (o s dst : Nat)          -- itrait_dict, ctrait_dict, get_prefix_trait all miss; dst receives the trait
  | notCTrait (t : Nat)                       -- Py_TYPE(t) != ctrait_type
  | noAttrNameFn (t : Nat)                    -- t->delegate_attr_name == NULL
  | modifyDelegate (t : Nat)                  -- t->flags & TRAIT_MODIFY_DELEGATE
  | resultOk                                  -- result >= 0
  | tempNull                                  -- temp == NULL   (the Python call raised)
  | incrGe (bound : Nat)                      -- ++i >= bound
  | instanceGe (k : Int)                      -- instance >= k
  | traitNull (t : Nat)                       -- t == NULL
  | dictNotNull (owner : Nat)                 -- dict(owner) != NULL
  | traitLookupFails2 (o s s2 dst : Nat)      -- as traitLookupFails, the prefix-trait lookup is given name s2
  | or (a b : Cond)                           -- a || b
  | nameNull (s : Nat)                        -- s == NULL   (name register: the name computation failed)
  deriving DecidableEq, Repr

inductive Stmt where
  | skip
  | seq (a b : Stmt)
  | ite (c : Cond) (t e : Stmt)
  | copyName (dst src : Nat)                  -- dst = src           (name registers)
  | copyObj (dst src : Nat)                   -- dst = src           (object registers)
  | getattro (dst src t : Nat)                -- dst = has_traits_getattro(src, t->delegate_name)
  | attrName (dst t o s : Nat)                -- dst = t->delegate_attr_name(t, o, s)
  | callGetattro (o s : Nat)                  -- result = (*Py_TYPE(o)->tp_getattro)(o, s)
  | leaveRecursive                            -- Py_LeaveRecursiveCall()
  | setattr (fn a1 a2 o s : Nat)              -- result = fn->setattr(a1, a2, o, s, value)
  | removeListener (o s : Nat)                -- temp = PyObject_CallMethod(o, "_remove_trait_delegate_listener", "(Oi)", s, value != NULL)
  | resultFail                                -- result = -1 / result = NULL
  | raise (e : CErr)                          -- an exception is set, execution continues
  | retErr (e : CErr)                         -- return through an error helper / `return NULL` / `return -1`
  | retResult                                 -- return result  (also `goto done` in front of `done: … return result`)
  | getTrait (dst o s : Nat)                  -- dst = get_trait(o, s, instance)
  | objSetNull (o : Nat)                      -- o = NULL
  | dictGet (dst owner t : Nat)               -- dst = PyDict_GetItem(dict(owner), t->delegate_name)
  | retTrait (t : Nat)                        -- return (PyObject *)t
  | brk                                       -- break
  deriving DecidableEq, Repr

/-- A function whose body is `pre; for (i = 0;;) { body }` (`loop = none`: no loop, `pre` returns). -/
structure CFun where
  nO : Nat                 -- number of object registers (parameters and locals)
  nS : Nat                 -- number of name registers
  pre : Stmt
  loop : Option Stmt
  post : Stmt := .skip     -- statements after the loop (reached by `break`)
  deriving Repr

/-- `trait->delegate_attr_name(trait, obj, name)` as the interpreters see it: it may fail (return NULL with
an exception set).  In the code this happens only when `PyUnicode_Concat` fails in
`delegate_attr_name_class_name`, i.e. when `type(obj).__prefix__` is not a `str`. -/
abbrev NameFn := DelegInfo → Option Name → Name → Except Exc Name

/-- The name computation of the model: total (every `__prefix__` is a `str`). -/
def totalName : NameFn := fun d q n => .ok (attrName d q n)

/-- Value of an object-typed C variable. -/
inductive OVal where
  | null                  -- NULL
  | pyNone                -- Py_None (the default of the delegate reference attribute)
  | obj (i : ObjId)
  deriving DecidableEq, Repr

inductive Outcome (σ ρ : Type) where
  | next (s : σ)
  | ret (r : ρ)
  | stuck                 -- the statement has no meaning in this interpreter / C undefined behaviour
  | brk (s : σ)           -- `break` out of the enclosing loop

/-! ### getattr_delegate -/

structure GetSt where
  O : List OVal
  S : List Name
  pending : Option Exc := none
  result : Option Val := none
  entered : Bool := false       -- between Py_EnterRecursiveCall and Py_LeaveRecursiveCall
  nullS : Option Nat := none    -- the name register that holds NULL (using it is undefined behaviour)

/-- Constants of one call of `getattr_delegate`: the pool, the deferring trait, and `tp_getattro` of the
delegate's type (`none`: the interpreter's recursion limit is reached). -/
structure GetCtx where
  p : Pool
  d : DelegInfo
  recur : Option (ObjId → Name → Except Exc Val)
  nameFn : NameFn

def GetCtx.cond (c : GetCtx) (st : GetSt) : Cond → Option (Bool × GetSt)
  | .undefinedDelegate _ => some (false, st)      -- a CTrait made by `Delegate.as_ctrait` has both fields
  | .dictProbe owner _ dst =>
    match st.O.getD owner .null with
    | .obj o =>
      match (c.p.obj o).deleg with
      | some x => some (true, { st with O := setReg st.O dst (.obj x) .null })
      | none => some (false, st)
    | _ => none
  | .objNull o => some ((match st.O.getD o .null with | .null => true | _ => false), st)
  | .nameNotStr _ => some (false, st)
  | .hasGetattro o =>
    match st.O.getD o .null with
    | .null => none
    | _ => some (true, st)                          -- HasTraits and NoneType both have tp_getattro
  | .enterRecursiveFails =>
    match c.recur with
    | none => some (true, { st with pending := some .runtimeError })
    | some _ => some (false, { st with entered := true })
  | .nameNull s => some (decide (st.nullS = some s), st)
  | _ => none

def GetCtx.exec (c : GetCtx) : Stmt → GetSt → Outcome GetSt (Except Exc Val)
  | .skip, st => .next st
  | .seq a b, st =>
    match c.exec a st with
    | .next st' => c.exec b st'
    | r => r
  | .ite cd t e, st =>
    match c.cond st cd with
    | none => .stuck
    | some (true, st') => c.exec t st'
    | some (false, st') => c.exec e st'
  | .getattro dst src _, st =>
    match st.O.getD src .null with
    | .obj o =>
      .next { st with O := setReg st.O dst (match (c.p.obj o).deleg with | some x => .obj x | none => .pyNone) .null }
    | _ => .stuck
  | .attrName dst _ o s, st =>
    match st.O.getD o .null with
    | .obj ob =>
      if st.nullS = some s then .stuck else
      match c.nameFn c.d (c.p.obj ob).cls.pfx (st.S.getD s []) with
      | .ok r => .next { st with S := setReg st.S dst r [], nullS := none }
      | .error e => .next { st with nullS := some dst, pending := some e }
    | _ => .stuck
  | .callGetattro o s, st =>
    if st.nullS = some s then .stuck else
    if st.entered then
      match st.O.getD o .null, c.recur with
      | .obj x, some rd =>
        match rd x (st.S.getD s []) with
        | .ok v => .next { st with result := some v }
        | .error e => .next { st with result := none, pending := some e }
      | .pyNone, _ => .next { st with result := none, pending := some .attributeError }
      | _, _ => .stuck
    else .stuck                                     -- unguarded recursion: finding F21
  | .leaveRecursive, st => if st.entered then .next { st with entered := false } else .stuck
  | .resultFail, st => .next { st with result := none }
  | .raise e, st => .next { st with pending := some e.exc }
  | .retErr .pending, st => if st.entered then .stuck else .ret (.error (st.pending.getD .other))
  | .retErr e, st => if st.entered then .stuck else .ret (.error e.exc)
  | .retResult, st =>
    match st.result, st.pending with
    | some v, _ => .ret (.ok v)
    | none, some e => .ret (.error e)
    | none, none => .stuck
  | _, _ => .stuck

/-- `getattr_delegate(trait, obj, name)`: registers — objects `[obj]`, names `[name]`, traits `[trait]`. -/
def execGet (f : CFun) (p : Pool) (recur : Option (ObjId → Name → Except Exc Val)) (o : ObjId) (n : Name)
    (d : DelegInfo) (nameFn : NameFn := totalName) : Except Exc Val :=
  match f.loop with
  | some _ => .error .other
  | none =>
    match (GetCtx.mk p d recur nameFn).exec f.pre
        { O := .obj o :: List.replicate (f.nO - 1) .null, S := n :: List.replicate (f.nS - 1) [] } with
    | .ret r => r
    | _ => .error .other

/-! ### setattr_delegate -/

/-- `traitd->setattr(traito, traitd, obj, name, value)` of a typed (`setattr_trait`) or undeclared
(`setattr_python`) trait `td` reached through a PrototypedFrom attribute `n` of `o`: validation is `td`'s,
the notifiers are those of the deferring trait, the old value is read through the deferral
(ctraits.c `setattr_trait`; see `Model.Deleg.setDefer`). -/
def protoSet (E : Env) (k : Nat) (p : Pool) (o : ObjId) (n : Name) (td : TraitDef) (v : Option Val) : StepOut :=
  match td, v with
  | .plain vid _ cmp, some v =>
    match E.validate vid k v with
    | .error e => fail p e
    | .ok w =>
      match read p p.fuel o n with
      | .error e => fail p e
      | .ok old =>
        let p1 := p.setDict o n (some w)
        { pool := p1, res := .ok none, events := if cChanged cmp old w then notify p1 p1.fuel o n old w else [] }
  | .plain _ _ cmp, none =>
    match (p.obj o).dict n with
    | none => { pool := p, res := .ok none }
    | some old =>
      let p1 := p.setDict o n none
      match read p1 p1.fuel o n with
      | .error e => { pool := p1, res := .error e, broken := true }
      | .ok cur => { pool := p1, res := .ok none, events := if cChanged cmp old cur then notify p1 p1.fuel o n old cur else [] }
  | _, some v => { pool := p.setDict o n (some v), res := .ok none }
  | _, none =>
    match (p.obj o).dict n with
    | none => fail p .attributeError
    | some _ => { pool := p.setDict o n none, res := .ok none }

/-- `traitd->setattr(traitd, traitd, x, t, value)`: a plain assignment / deletion on the object reached. -/
def plainSet (E : Env) (k : Nat) (p : Pool) (x : ObjId) (t : Name) (td : TraitDef) (v : Option Val) : StepOut :=
  match td, v with
  | .plain vid dflt cmp, some v => setPlain E k p x t vid dflt cmp v
  | .plain _ dflt cmp, none => delPlain E p x t dflt cmp
  | _, some v => setPython p x t v
  | _, none => delPython p x t

/-- `obj._remove_trait_delegate_listener(name, value != NULL)` after a successful local store. -/
def removeListenerCall (s : StepOut) (o : ObjId) (n : Name) (d : DelegInfo) (remove : Bool) : StepOut :=
  if remove then { s with pool := unlink s.pool o n } else relink s.pool o n d s.events

structure SetSt where
  O : List OVal
  S : List Name
  T : List TraitDef
  i : Nat := 0
  result : Option StepOut := none
  pending : Option Exc := none
  nullS : Option Nat := none    -- the name register that holds NULL (using it is undefined behaviour)

structure SetCtx where
  E : Env
  k : Nat
  p : Pool
  d : DelegInfo             -- `traito` as the model sees it
  value : Option Val
  nameFn : NameFn

def isOk (s : StepOut) : Bool := match s.res with | .ok _ => true | .error _ => false

def SetCtx.cond (c : SetCtx) (st : SetSt) : Cond → Option (Bool × SetSt)
  | .undefinedDelegate t =>
    match st.T.getD t .python with
    | .defer _ => some (false, st)
    | _ => some (true, st)
  | .dictProbe owner t dst =>
    match st.O.getD owner .null, st.T.getD t .python with
    | .obj o, .defer _ =>
      match (c.p.obj o).deleg with
      | some x => some (true, { st with O := setReg st.O dst (.obj x) .null })
      | none => some (false, st)
    | _, _ => none
  | .objNull o => some ((match st.O.getD o .null with | .null => true | _ => false), st)
  | .notHasTraits o =>
    match st.O.getD o .null with
    | .obj _ => some (false, st)
    | .pyNone => some (true, st)
    | .null => none
  | .traitLookupFails o s dst =>
    if st.nullS = some s then none else
    match st.O.getD o .null with
    | .obj x => some (false, { st with T := setReg st.T dst ((c.p.obj x).cls.trait (st.S.getD s [])) .python })
    | _ => none
  | .nameNull s => some (decide (st.nullS = some s), st)
  | .notCTrait _ => some (false, st)
  | .noAttrNameFn t =>
    match st.T.getD t .python with
    | .defer _ => some (false, st)
    | _ => some (true, st)
  | .modifyDelegate t =>
    match st.T.getD t .python with
    | .defer d => some (d.modify, st)
    | _ => some (false, st)
  | .resultOk => st.result.map fun r => (isOk r, st)
  | .tempNull => st.result.map fun r => (!isOk r, st)
  | .incrGe b => some (decide (st.i + 1 ≥ b), { st with i := st.i + 1 })
  | _ => none

def SetCtx.exec (c : SetCtx) : Stmt → SetSt → Outcome SetSt StepOut
  | .skip, st => .next st
  | .seq a b, st =>
    match c.exec a st with
    | .next st' => c.exec b st'
    | r => r
  | .ite cd t e, st =>
    match c.cond st cd with
    | none => .stuck
    | some (true, st') => c.exec t st'
    | some (false, st') => c.exec e st'
  | .copyName dst src, st =>
    if st.nullS = some src then .stuck else .next { st with S := setReg st.S dst (st.S.getD src []) [] }
  | .copyObj dst src, st => .next { st with O := setReg st.O dst (st.O.getD src .null) .null }
  | .getattro dst src t, st =>
    match st.O.getD src .null, st.T.getD t .python with
    | .obj o, .defer _ =>
      .next { st with O := setReg st.O dst (match (c.p.obj o).deleg with | some x => .obj x | none => .pyNone) .null }
    | _, _ => .stuck
  | .attrName dst t o s, st =>
    match st.O.getD o .null, st.T.getD t .python with
    | .obj ob, .defer d =>
      if st.nullS = some s then .stuck else
      match c.nameFn d (c.p.obj ob).cls.pfx (st.S.getD s []) with
      | .ok r => .next { st with S := setReg st.S dst r [], nullS := none }
      | .error e => .next { st with nullS := some dst, pending := some e }
    | _, _ => .stuck
  | .setattr fn a1 a2 o s, st =>
    match st.O.getD o .null with
    | .obj x =>
      let td := st.T.getD fn .python
      if st.T.getD a2 .python = td then
        match td, st.T.getD a1 .python with
        | .defer _, _ => .stuck                       -- the loop only leaves on a non-deferring trait
        | _, .defer _ => .next { st with result := some (protoSet c.E c.k c.p x (st.S.getD s []) td c.value) }
        | _, a => if a = td then .next { st with result := some (plainSet c.E c.k c.p x (st.S.getD s []) td c.value) }
                  else .stuck
      else .stuck
    | _ => .stuck
  | .removeListener o s, st =>
    match st.O.getD o .null, st.result with
    | .obj x, some r => .next { st with result := some (removeListenerCall r x (st.S.getD s []) c.d c.value.isSome) }
    | _, _ => .stuck
  | .resultFail, st =>
    match st.result with
    | some r => if isOk r then .stuck else .next st   -- `result = -1` keeps the exception of the failed call
    | none => .stuck
  | .retErr .pending, st =>                           -- `return -1` with the callee's exception
    match st.pending with
    | some e => .ret (fail c.p e)
    | none => .stuck
  | .retErr e, _ => .ret (fail c.p e.exc)
  | .retResult, st =>
    match st.result with
    | some r => .ret r
    | none => .stuck
  | _, _ => .stuck

def SetCtx.loop (c : SetCtx) (body : Stmt) : Nat → SetSt → Outcome SetSt StepOut
  | 0, _ => .stuck
  | f + 1, st =>
    match c.exec body st with
    | .next st' => c.loop body f st'
    | r => r

/-- Iterations the interpreter allows the `for (i = 0;;)` loop (its own bound is part of the body). -/
def loopFuel : Nat := 1000

/-- `setattr_delegate(traito, traitd, obj, name, value)`: registers — objects `[obj, …]`, names
`[name, …]`, traits `[traito, traitd]` (both the deferring trait at entry, `has_traits_setattro`). -/
def execSet (f : CFun) (E : Env) (k : Nat) (p : Pool) (o : ObjId) (n : Name) (d : DelegInfo) (v : Option Val)
    (nameFn : NameFn := totalName) : StepOut :=
  let c : SetCtx := ⟨E, k, p, d, v, nameFn⟩
  match f.loop with
  | none => fail p .other
  | some body =>
    match c.exec f.pre { O := .obj o :: List.replicate (f.nO - 1) .null, S := n :: List.replicate (f.nS - 1) [],
                          T := [.defer d, .defer d] } with
    | .next st =>
      match c.loop body loopFuel st with
      | .ret r => r
      | _ => fail p .other
    | .ret r => r
    | _ => fail p .other


/-! ### _has_traits_trait (`base_trait`: instance = -2) -/

structure BaseSt where
  O : List OVal
  S : List Name
  T : List (Option TraitDef)      -- `none` = NULL
  i : Nat := 0
  raised : Bool := false
  nullS : Option Nat := none    -- the name register that holds NULL (using it is undefined behaviour)

/-- Constants of one call `obj.base_trait(name)` = `_has_traits_trait(obj, (name, -2))`. -/
structure BaseCtx where
  p : Pool
  instance_ : Int
  nameFn : NameFn

def BaseCtx.cond (c : BaseCtx) (st : BaseSt) : Cond → Option (Bool × BaseSt)
  | .instanceGe k => some (decide (c.instance_ ≥ k), st)
  | .traitNull t => some ((st.T.getD t none).isNone, st)
  | .or a b =>
    match c.cond st a with
    | none => none
    | some (true, st') => some (true, st')
    | some (false, st') => c.cond st' b
  | .noAttrNameFn t =>
    match st.T.getD t none with
    | some (.defer _) => some (false, st)
    | some _ => some (true, st)
    | none => none
  | .dictNotNull owner =>
    match st.O.getD owner .null with
    | .obj _ => some (true, st)
    | _ => none
  | .objNull o => some ((match st.O.getD o .null with | .null => true | _ => false), st)
  | .notHasTraits o =>
    match st.O.getD o .null with
    | .obj _ => some (false, st)
    | .pyNone => some (true, st)
    | .null => none
  | .nameNull s => some (decide (st.nullS = some s), st)
  | .traitLookupFails2 o s s2 dst =>
    if st.nullS = some s ∨ st.nullS = some s2 then none else
    match st.O.getD o .null with
    | .obj x => some (false, { st with T := setReg st.T dst (some ((c.p.obj x).cls.trait (st.S.getD s []))) none })
    | _ => none
  | .notCTrait _ => some (false, st)
  | .incrGe b => some (decide (st.i + 1 ≥ b), { st with i := st.i + 1 })
  | _ => none

def BaseCtx.exec (c : BaseCtx) : Stmt → BaseSt → Outcome BaseSt (Option TraitDef)
  | .skip, st => .next st
  | .seq a b, st =>
    match c.exec a st with
    | .next st' => c.exec b st'
    | r => r
  | .ite cd t e, st =>
    match c.cond st cd with
    | none => .stuck
    | some (true, st') => c.exec t st'
    | some (false, st') => c.exec e st'
  | .copyName dst src, st =>
    if st.nullS = some src then .stuck else .next { st with S := setReg st.S dst (st.S.getD src []) [] }
  | .copyObj dst src, st => .next { st with O := setReg st.O dst (st.O.getD src .null) .null }
  | .getTrait dst o s, st =>
    match st.O.getD o .null with
    | .obj x => .next { st with T := setReg st.T dst (some ((c.p.obj x).cls.trait (st.S.getD s []))) none }
    | _ => .stuck
  | .objSetNull o, st => .next { st with O := setReg st.O o .null .null }
  | .dictGet dst owner t, st =>
    match st.O.getD owner .null, st.T.getD t none with
    | .obj o, some (.defer _) =>
      .next { st with O := setReg st.O dst (match (c.p.obj o).deleg with | some x => .obj x | none => .null) .null }
    | _, _ => .stuck
  | .getattro dst src t, st =>
    match st.O.getD src .null, st.T.getD t none with
    | .obj o, some (.defer _) =>
      .next { st with O := setReg st.O dst (match (c.p.obj o).deleg with | some x => .obj x | none => .pyNone) .null }
    | _, _ => .stuck
  | .attrName dst t o s, st =>
    match st.O.getD o .null, st.T.getD t none with
    | .obj ob, some (.defer d) =>
      if st.nullS = some s then .stuck else
      match c.nameFn d (c.p.obj ob).cls.pfx (st.S.getD s []) with
      | .ok r => .next { st with S := setReg st.S dst r [], nullS := none }
      | .error _ => .next { st with nullS := some dst, raised := true }
    | _, _ => .stuck
  | .raise _, st => .next { st with raised := true }
  | .retTrait t, st => .ret (st.T.getD t none)
  | .retErr .pending, st => if st.raised then .ret none else .stuck     -- `return NULL` needs an exception set
  | .brk, st => .brk st
  | _, _ => .stuck

def BaseCtx.loop (c : BaseCtx) (body : Stmt) : Nat → BaseSt → Outcome BaseSt (Option TraitDef)
  | 0, _ => .stuck
  | f + 1, st =>
    match c.exec body st with
    | .next st' => c.loop body f st'
    | r => r

/-- `obj.base_trait(name)`: the trait the deferral chain of `(o, n)` ends in, `none` when the call raises.
Registers — objects `[obj, delegate, temp_delegate]`, names `[name, daname, daname2]`, traits `[trait]`. -/
def execBase (f : CFun) (p : Pool) (o : ObjId) (n : Name) (nameFn : NameFn := totalName) : Option TraitDef :=
  let c : BaseCtx := ⟨p, -2, nameFn⟩
  match f.loop with
  | none => none
  | some body =>
    match c.exec f.pre { O := .obj o :: List.replicate (f.nO - 1) .null, S := n :: List.replicate (f.nS - 1) [], T := [none] } with
    | .next st =>
      match c.loop body loopFuel st with
      | .ret r => r
      | .brk st' =>
        match c.exec f.post st' with
        | .ret r => r
        | _ => none
      | _ => none
    | .ret r => r
    | _ => none

/-- Does the run of `base_trait` end in a `return` (with a trait or with NULL and an exception set), i.e. is
it free of undefined behaviour (`stuck`: NULL dereference, `return NULL` without an exception)? -/
def execBaseDefined (f : CFun) (p : Pool) (o : ObjId) (n : Name) (nameFn : NameFn := totalName) : Bool :=
  let c : BaseCtx := ⟨p, -2, nameFn⟩
  match f.loop with
  | none => false
  | some body =>
    match c.exec f.pre { O := .obj o :: List.replicate (f.nO - 1) .null, S := n :: List.replicate (f.nS - 1) [], T := [none] } with
    | .next st =>
      match c.loop body loopFuel st with
      | .ret _ => true
      | .brk st' =>
        match c.exec f.post st' with
        | .ret _ => true
        | _ => false
      | _ => false
    | .ret _ => true
    | _ => false

/-! ## §3 String programs of the Python side -/

inductive PExpr where
  | var (v : Nat)                 -- parameter / local number `v`
  | lit (s : List Char)
  | dropLast (e : PExpr)          -- e[:-1]
  | lastSlice (e : PExpr)         -- e[-1:]
  | lastChar (e : PExpr)          -- e[-1]     (IndexError on '' is not modelled: guarded by `len` / never empty)
  | concat (a b : PExpr)          -- a + b, '%s%s' % (a, b)
  | tmeta (key : List Char)       -- trait.<key>            (metadata of the deferring trait)
  | classAttr (key dflt : List Char)   -- getattr(self.__class__, key, dflt)
  | delegateName (a b : PExpr)    -- self._trait_delegate_name(a, b)
  | afterColon (e : PExpr)        -- e.split(':')[-1]
  | dropVar (e : PExpr) (v : Nat) -- e[<int variable v>:]
  deriving DecidableEq, Repr

inductive PCond where
  | eq (a b : PExpr)
  | ne (a b : PExpr)
  | lenGt (e : PExpr) (k : Nat)
  | and (a b : PCond)
  deriving DecidableEq, Repr

inductive PStmt where
  | skip
  | seq (a b : PStmt)
  | ite (c : PCond) (t e : PStmt)
  | assign (v : Nat) (e : PExpr)
  | assignInt (v : Nat) (k : Nat)
  | setMeta (key : List Char) (v : Nat)      -- metadata[key] = <var v>
  | setSelf (key : List Char) (v : Nat)      -- self.<key> = <var v>
  | assignLen (v : Nat) (e : PExpr)          -- <var v> = len(e)
  | ret (e : PExpr)
  deriving DecidableEq, Repr

inductive PVal where
  | str (s : Name)
  | int (k : Nat)
  | bool (b : Bool)
  | undef
  deriving DecidableEq, Repr

def PVal.toStr : PVal → Name
  | .str s => s
  | _ => []

def PVal.toNat : PVal → Nat
  | .int k => k
  | _ => 0

/-- `s.split(':')[-1]`. -/
def afterLastColon (s : Name) : Name := (s.reverse.takeWhile (· ≠ ':')).reverse

structure PSt where
  vars : List PVal
  metaOut : List (List Char × PVal) := []
  selfOut : List (List Char × PVal) := []
  ret : Option Name := none

structure PCtx where
  tmeta : List Char → Name                -- metadata of `trait`
  classAttr : List Char → Option Name     -- attributes of `self.__class__`
  tdn : Name → Name → Name := fun _ p => p   -- `self._trait_delegate_name`

def PCtx.eval (c : PCtx) (st : PSt) : PExpr → Name
  | .var v => (st.vars.getD v .undef).toStr
  | .lit s => s
  | .dropLast e => (c.eval st e).dropLast
  | .lastSlice e => match (c.eval st e).getLast? with | some ch => [ch] | none => []
  | .lastChar e => match (c.eval st e).getLast? with | some ch => [ch] | none => []
  | .concat a b => c.eval st a ++ c.eval st b
  | .tmeta k => c.tmeta k
  | .classAttr k dflt => (c.classAttr k).getD dflt
  | .delegateName a b => c.tdn (c.eval st a) (c.eval st b)
  | .afterColon e => afterLastColon (c.eval st e)
  | .dropVar e v => (c.eval st e).drop (st.vars.getD v .undef).toNat

def PCtx.test (c : PCtx) (st : PSt) : PCond → Bool
  | .eq a b => c.eval st a == c.eval st b
  | .ne a b => c.eval st a != c.eval st b
  | .lenGt e k => decide ((c.eval st e).length > k)
  | .and a b => c.test st a && c.test st b

def PCtx.exec (c : PCtx) : PStmt → PSt → PSt
  | .skip, st => st
  | .seq a b, st =>
    let st' := c.exec a st
    match st'.ret with
    | some _ => st'
    | none => c.exec b st'
  | .ite cd t e, st => if c.test st cd then c.exec t st else c.exec e st
  | .assign v e, st => { st with vars := setReg st.vars v (.str (c.eval st e)) .undef }
  | .assignInt v k, st => { st with vars := setReg st.vars v (.int k) .undef }
  | .setMeta key v, st => { st with metaOut := (key, st.vars.getD v .undef) :: st.metaOut }
  | .setSelf key v, st => { st with selfOut := (key, st.vars.getD v .undef) :: st.selfOut }
  | .assignLen v e, st => { st with vars := setReg st.vars v (.int (c.eval st e).length) .undef }
  | .ret e, st => { st with ret := some (c.eval st e) }

def lookupP (l : List (List Char × PVal)) (k : List Char) : PVal := (l.lookup k).getD .undef

/-- `Delegate.__init__(self, delegate, prefix, modify, listenable)`: variables `[delegate, prefix, modify,
listenable, prefix_type]` (numbered by the translator: parameters after `self`, then locals). -/
def initDelegateSrc (prog : PStmt) (dname pfx : Name) (modify : Bool) : Option DelegInfo :=
  let st := ({ tmeta := fun _ => [], classAttr := fun _ => none } : PCtx).exec prog
    { vars := [.str dname, .str pfx, .bool modify, .bool true] }
  match lookupP st.metaOut ['_', 'p', 'r', 'e', 'f', 'i', 'x'], lookupP st.selfOut ['p', 'r', 'e', 'f', 'i', 'x'],
        lookupP st.selfOut ['p', 'r', 'e', 'f', 'i', 'x', '_', 't', 'y', 'p', 'e'], lookupP st.selfOut ['m', 'o', 'd', 'i', 'f', 'y'] with
  | .str raw, .str stored, .int t, .bool m => some ⟨raw, stored, PrefixType.ofNat t, m⟩
  | _, _, _, _ => none

/-- Metadata `_prefix`, `_delegate` of a deferring trait whose delegate reference attribute is `dname`. -/
def traitMeta (dname raw : Name) (k : List Char) : Name :=
  if k = ['_', 'p', 'r', 'e', 'f', 'i', 'x'] then raw
  else if k = ['_', 'd', 'e', 'l', 'e', 'g', 'a', 't', 'e'] then dname else []

/-- `get_delegate_pattern(name, trait)`: variables `[name, trait, prefix]` (`trait` is only used through `tmeta`). -/
def delegatePatternSrc (prog : PStmt) (dname raw n : Name) : Option Name :=
  (({ tmeta := traitMeta dname raw, classAttr := fun _ => none } : PCtx).exec prog { vars := [.str n, .undef] }).ret

/-- `HasTraits._trait_delegate_name(self, name, pattern)`: variables `[name, pattern]`. -/
def traitDelegateNameSrc (prog : PStmt) (clsPfx : Option Name) (n pat : Name) : Option Name :=
  (({ tmeta := fun _ => [], classAttr := clsAttr clsPfx } : PCtx).exec prog { vars := [.str n, .str pat] }).ret

/-- `HasTraits._init_trait_delegate_listener(self, name, kind, pattern)`: the statements in front of the
closure (variables `[name, kind, pattern, …locals]`), the name the closure `notify(self, object,
notify_name, old, new)` passes to `self.trait_property_changed` (variable `notifyVar` = `notify_name`), the
pattern `self.on_trait_change(notify, <pattern>, target=self)` registers it under, and the key of
`self.__dict__.setdefault(ListenerTraits, {})[<key>] = notify`. -/
structure InitListener where
  body : PStmt
  notifyVar : Nat
  notifyName : PExpr
  registerPattern : PExpr
  storeKey : PExpr
  deriving Repr

structure InitListenerOut where
  registered : Name            -- the `on_trait_change` name of the listener
  key : Name                   -- its key in the listener table
  reported : Name → Name       -- changed attribute of the delegate ↦ attribute reported on `self`

/-- Run `_init_trait_delegate_listener(name, 0, pat)` on an object of a class with `__prefix__` `clsPfx`;
`tdn` is the interpretation of `_trait_delegate_name`. -/
def initListenerSrc (prog : InitListener) (tdn : Name → Name → Name) (clsPfx : Option Name) (n pat : Name) :
    InitListenerOut :=
  let c : PCtx := { tmeta := fun _ => [], classAttr := clsAttr clsPfx, tdn := tdn }
  let st := c.exec prog.body { vars := [.str n, .int 0, .str pat] }
  { registered := c.eval st prog.registerPattern,
    key := c.eval st prog.storeKey,
    reported := fun nn => c.eval { st with vars := setReg st.vars prog.notifyVar (.str nn) .undef } prog.notifyName }

/-! ## §4 The listener table -/

/-- Which pattern a call passes to `on_trait_change` / `_init_trait_delegate_listener`. -/
inductive PatRef where
  | viaDelegateName       -- self._trait_delegate_name(name, self.__class__.__listener_traits__[name][1])
  | classPattern          -- self.__class__.__listener_traits__[name][1]   (what `_init_trait_delegate_listener` expects)
  | other
  deriving DecidableEq, Repr

inductive LCond where
  | remove | inTable | notInTable | tableEmpty
  deriving DecidableEq, Repr

inductive LStmt where
  | skip
  | seq (a b : LStmt)
  | ite (c : LCond) (t e : LStmt)
  | unhook (pat : PatRef)         -- self.on_trait_change(dict[name], <pat>, remove=True)
  | delEntry                      -- del dict[name]
  | dropTable                     -- del self.__dict__[ListenerTraits]
  | initListener (pat : PatRef)   -- self._init_trait_delegate_listener(name, 0, <pat>)
  | ret
  deriving DecidableEq, Repr

/-- Listener state of one deferring attribute: its entry in `__dict__[ListenerTraits]`, and where the
`on_trait_change` listener created for it is registered (`some h`: registered, hooked on `h`). -/
structure LSt where
  entry : Bool
  listener : Option (Option ObjId)
  done : Bool := false
  deriving DecidableEq, Repr

def LSt.ofFwd (f : Option (Option ObjId)) : LSt := { entry := f.isSome, listener := f }

def execL (remove : Bool) (hooked : Option ObjId) : LStmt → LSt → LSt
  | .skip, st => st
  | .seq a b, st =>
    let st' := execL remove hooked a st
    if st'.done then st' else execL remove hooked b st'
  | .ite c t e, st =>
    let b := match c with
      | .remove => remove
      | .inTable => st.entry
      | .notInTable => !st.entry
      | .tableEmpty => !st.entry      -- one attribute's view of the table
    if b then execL remove hooked t st else execL remove hooked e st
  | .unhook .viaDelegateName, st => { st with listener := none }
  | .unhook _, st => st                -- removing under another name does not find the listener
  | .delEntry, st => { st with entry := false }
  | .dropTable, st => st
  | .initListener .classPattern, st => { st with entry := true, listener := some hooked }
  | .initListener _, st => { st with entry := true, listener := some none }   -- registered under a wrong name
  | .ret, st => { st with done := true }

/-- The forwarder table entry after `_remove_trait_delegate_listener(name, remove)`. -/
def removeListenerSrc (prog : LStmt) (remove : Bool) (hooked : Option ObjId) (f : Option (Option ObjId)) : LSt :=
  { execL remove hooked prog (LSt.ofFwd f) with done := false }

end TraitsVerif.Model.DelegSrc
