/-
The container side of PyP (`Model/PyPersist.lean`): interpreters for the
translated `__getstate__` / `__setstate__` / `__deepcopy__` of
`TraitListObject`, `TraitDictObject`, `TraitSetObject`.

`__getstate__` / `__setstate__` work on an attribute dictionary (the instance
`__dict__`): a record of named attributes whose values are abstract (`AV`).
What `Model/Persist` keeps of it is the `object` / `trait` pair - the `Binding`.
`__deepcopy__` is a constructor call `Cls(self.trait, None, self.name, <items>)`.
Anything else is stuck (`none`).  Core Lean only; total.
-/
import TraitsVerif.Model.PyPersist
namespace TraitsVerif.Model.PyP
open TraitsVerif TraitsVerif.Model.Persist

inductive AV where
  /-- whatever the attribute held (the method did not make it) -/
  | kept
  | noneV
  | emptyStr
  | lambdaNone          -- `lambda: None`
  | selfNotifierList    -- `[self.notifier]`
  | refOf               -- `ref(object)` of an owner that came with the state
  deriving DecidableEq, Repr

abbrev Rec := List (String × AV)

def recGet (r : Rec) (k : String) : Option AV :=
  match r with
  | [] => none
  | (k', v) :: rest => if k' = k then some v else recGet rest k

def recDel (r : Rec) (k : String) : Rec :=
  match r with
  | [] => []
  | (k', v) :: rest => if k' = k then rest else (k', v) :: recDel rest k

def recSet (r : Rec) (k : String) (v : AV) : Rec :=
  match r with
  | [] => [(k, v)]
  | (k', v') :: rest => if k' = k then (k, v) :: rest else (k', v') :: recSet rest k v

/-- State of a container method: the dictionary it works on (`result` / `state`, in frame slot `d`), the other
locals, and what `self.__dict__.update(…)` was given. -/
structure RS where
  dict : Rec
  d : Nat
  locals : List (Nat × AV) := []
  selfDict : Option Rec := none
  deriving DecidableEq, Repr

def Expr.asStrLit : Expr → Option String | .strLit s => some s | _ => none
def Expr.isNoneLit : Expr → Bool | .noneLit => true | _ => false

def localGet (l : List (Nat × AV)) (i : Nat) : Option AV :=
  match l with
  | [] => none
  | (j, v) :: rest => if j = i then some v else localGet rest i

/-- `self.<a>` -/
def isSelfAttr (a : String) : Expr → Bool
  | .attr r b => r.asVar = some 0 ∧ b = a
  | _ => false

def evalAV (s : RS) : Expr → Option AV
  | .noneLit => some .noneV
  | .strLit t => if t = "" then some .emptyStr else none
  | .lambdaNone => some .lambdaNone
  | .list es => (match es with | [e] => if isSelfAttr "notifier" e then some .selfNotifierList else none | _ => none)
  | .var i => localGet s.locals i
  | .callF f args kwn _ =>
    (match args with
     | [a] => (match a.asVar with
               | some i => if f = "ref" ∧ kwn = [] ∧ (localGet s.locals i).isSome then some .refOf else none
               | none => none)
     | _ => none)
  | _ => none

/-- `d.pop(k, None)` / `d.setdefault(k, v)` on the dictionary in slot `s.d`: the value and the new state. -/
def dictCall (s : RS) : Expr → Option (AV × RS)
  | .callM recv m args kwn _ =>
    if recv.asVar = some s.d ∧ kwn = [] then
      (match args with
       | [k, v] =>
         (match k.asStrLit with
          | some key =>
            if m = "pop" then
              (if v.isNoneLit then some ((recGet s.dict key).getD .noneV, { s with dict := recDel s.dict key }) else none)
            else if m = "setdefault" then
              (match evalAV s v with
               | some av =>
                 (match recGet s.dict key with
                  | some cur => some (cur, s)
                  | none => some (av, { s with dict := recSet s.dict key av }))
               | none => none)
            else none
          | none => none)
       | _ => none)
    else none
  | _ => none

/-- `super().__getstate__()` -/
def isSuperGetstate : Expr → Bool
  | .callM recv m args kwn _ =>
    (match recv with
     | .callF f a2 k2 _ => f = "super" ∧ a2.isEmpty ∧ k2 = [] ∧ m = "__getstate__" ∧ args.isEmpty ∧ kwn = []
     | _ => false)
  | _ => false

/-- `self.__dict__.update(<slot t>)` -/
def isSelfDictUpdate (t : Nat) : Expr → Bool
  | .callM recv m args kwn _ =>
    (match args with
     | [a] => isSelfAttr "__dict__" recv ∧ m = "update" ∧ a.asVar = some t ∧ kwn = []
     | _ => false)
  | _ => false

/-- `x is not None` on a local: the local. -/
def isNotNoneTest : Expr → Option Nat
  | .cmp op a b => if op = "is not" ∧ b.isNoneLit then a.asVar else none
  | _ => none

/-- Statements of the container `__getstate__` / `__setstate__`.  `Except`: `del d[k]` of a missing key is KeyError. -/
def execR : Stmt → RS → Option (Except Exc RS)
  | .skip, s => some (.ok s)
  | .seq a b, s =>
    (match execR a s with
     | some (.ok s') => execR b s'
     | r => r)
  | .assign i e, s =>
    if isSuperGetstate e then (if i = s.d then some (.ok s) else none)   -- a copy of the instance dictionary
    else
      (match dictCall s e with
       | some (av, s') => some (.ok { s' with locals := (i, av) :: s'.locals })
       | none => none)
  | .expr e, s =>
    if isSelfDictUpdate s.d e then some (.ok { s with selfDict := some s.dict })
    else (match dictCall s e with | some (_, s') => some (.ok s') | none => none)
  | .delSub t k, s =>
    if t.asVar = some s.d then
      (match k.asStrLit with
       | some key =>
         (match recGet s.dict key with
          | some _ => some (.ok { s with dict := recDel s.dict key })
          | none => some (.error .keyError))
       | none => none)
    else none
  | .assignSub t k e, s =>
    if t.asVar = some s.d then
      (match k.asStrLit, evalAV s e with
       | some key, some av => some (.ok { s with dict := recSet s.dict key av })
       | _, _ => none)
    else none
  | .ifS c t e, s =>
    (match isNotNoneTest c with
     | some i =>
       (match localGet s.locals i with
        | some av => if av = .noneV then execR e s else execR t s
        | none => none)
     | none => none)
  | .ret e, s => if e.asVar = some s.d then some (.ok s) else none
  | _, _ => none

/-- Run a translated container method whose dictionary is parameter / local 1. -/
def runRec (prog : List (String × Func)) (m : String) (r : Rec) : Option (Except Exc RS) :=
  match lookupFn m prog with
  | some f => execR f.body { dict := r, d := 1 }
  | none => none

/-- The instance dictionary of a `Trait*Object` as far as persistence goes (`validators`: `item_validator`, or
`key_validator` and `value_validator`). -/
def containerDict : Rec :=
  [("trait", .kept), ("object", .kept), ("name", .kept), ("name_items", .kept), ("notifiers", .kept),
   ("validators", .kept)]

/-- What a restored attribute dictionary means for the binding: `object` is `lambda: None`, `trait` is None and the
validator attributes are whatever the state carried (`Binding.afterSetstate` / `Binding.afterCopy`: a detached
object); the object notifies through its own `notifier` again. -/
def restoredOK (r : Rec) : Bool :=
  recGet r "object" = some .lambdaNone ∧ recGet r "trait" = some .noneV ∧
  recGet r "notifiers" = some .selfNotifierList ∧ recGet r "validators" = some .kept ∧
  (recGet r "name" = some .kept ∨ recGet r "name" = some .emptyStr) ∧ recGet r "name_items" = some .kept

/-! ## `__deepcopy__` -/

/-- `self.trait` of a container object: its trait's shape, `none` after `__setstate__`. -/
def bindingTrait : Binding → Option Shape
  | .plain => none
  | .detached _ => none
  | .ownerless sh => some sh
  | .bound _ sh => some sh

/-- `Cls(trait, None, name, items)`: no owner; without a trait the object is as after `__setstate__`. -/
def ctorBinding : Option Shape → Binding
  | some sh => .ownerless sh
  | none => .detached none

/-- The items handed to the constructor are `copy.deepcopy(x, memo)` for every `x` of `self` (`self.items()` for a
dict, through `dict(…)`), `memo` being the parameter (slot 1). -/
def isDeepcopyOfVar (x : Nat) : Expr → Bool
  | .callM recv m args kwn _ =>
    recv.asGlob = some "copy" ∧ m = "deepcopy" ∧ args.map Expr.asVar = [some x, some 1] ∧ kwn = []
  | _ => false

def isSelfItems : Expr → Bool
  | .callM recv m args kwn _ => recv.asVar = some 0 ∧ m = "items" ∧ args.isEmpty ∧ kwn = []
  | _ => false

def deepItemsOf (x : Nat) (elt iter : Expr) (overItems : Bool) : Bool :=
  isDeepcopyOfVar x elt && (if overItems then isSelfItems iter else decide (iter.asVar = some 0))

def isDeepItems (k : Kind) : Expr → Bool
  | .listComp elt x iter conds => k = .lst ∧ conds.isEmpty ∧ deepItemsOf x elt iter false
  | .setComp elt x iter => k = .st ∧ deepItemsOf x elt iter false
  | .callF f args kwn _ =>
    (match args with
     | [g] =>
       (match g with
        | .genExp elt x iter => k = .dct ∧ f = "dict" ∧ kwn = [] ∧ deepItemsOf x elt iter true
        | .listComp elt x iter conds => k = .dct ∧ f = "dict" ∧ kwn = [] ∧ conds.isEmpty ∧ deepItemsOf x elt iter true
        | _ => false)
     | _ => false)
  | _ => false

def clsName : Kind → String
  | .lst => "TraitListObject" | .dct => "TraitDictObject" | .st => "TraitSetObject"

/-- The constructor call: the binding of the new object, if the call has the expected form. -/
def evalCtor (k : Kind) (b : Binding) : Expr → Option Binding
  | .callF f args kwn _ =>
    (match args with
     | [a1, a2, a3, a4] =>
       if f = clsName k ∧ kwn = [] ∧ isSelfAttr "trait" a1 ∧ a2.isNoneLit ∧ isSelfAttr "name" a3 ∧ isDeepItems k a4 then
         some (ctorBinding (bindingTrait b))
       else none
     | _ => none)
  | _ => none

/-- `return Cls(…)` or `result = Cls(…); return result`. -/
def execDeepcopy (k : Kind) (b : Binding) : Stmt → Option Binding
  | .ret e => evalCtor k b e
  | .seq s1 s2 =>
    (match s1, s2 with
     | .assign i e, .ret r => if r.asVar = some i then evalCtor k b e else none
     | _, _ => none)
  | _ => none

def runDeepcopy (prog : List (String × Func)) (k : Kind) (b : Binding) : Option Binding :=
  match lookupFn "__deepcopy__" prog with
  | some f => execDeepcopy k b f.body
  | none => none

end TraitsVerif.Model.PyP
