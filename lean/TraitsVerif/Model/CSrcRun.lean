/-
CSrcRun — the translated validators of ctraits.c put together: the function table
(helpers are called by name), the layering (helpers call C-API functions only, validators
call helpers), and `srcAlone`: the C function the translated `validate_handlers[]` table
names for a descriptor's kind, interpreted on its translated source text.

Used by the theorems (`C03_fast_is_source`, Lemmas/ValCSrc*.lean) and by Driver/Val.lean,
which re-runs the interpretation next to the hand-written model on every correspondence
case (a disagreement is reported as `SRC-MISMATCH`).
-/
import TraitsVerif.Generated.CValidators
import TraitsVerif.Generated.ValidateTables
namespace TraitsVerif.Model.CSrc
open TraitsVerif TraitsVerif.Py.Value TraitsVerif.Model.Val TraitsVerif.Generated.CValidators

variable (E : Env) (inner : Desc → Val → Res) (cdflt : Val) (fuel : Nat)

/-- A tuple that `validate_trait_tuple_check` has finished building is an ordinary object. -/
def finishT : CV → CV
  | .mtuple xs => .obj (.tuple false (xs.map cvToVal))
  | x => x

/-- Layer 0: the helpers call C-API functions only. -/
def C0 : Ctx := ⟨E, inner, cdflt, fun _ _ e => (.undef, e)⟩

/-- The translated functions, callable by name. -/
def helpers : String → List CV → Err → CV × Err := fun name xs err =>
  match table.lookup name with
  | some f =>
    match runFn (C0 E inner cdflt) fuel f xs err with
    | some r => (finishT r.1, r.2)
    | none => (.undef, err)
  | none => (.undef, err)

/-- Layer 1: the validators call the helpers. -/
def C1 : Ctx := ⟨E, inner, cdflt, helpers E inner cdflt fuel⟩

/-- The C function `name` applied to `(trait, obj, name, value)`, the trait
carrying descriptor `d`, as its caller sees it. -/
def srcFn (name : String) (d : Desc) (v : Val) : Option Res :=
  match table.lookup name with
  | some f => toRes (runFn (C1 E inner cdflt fuel) fuel f [.trait d, .hobj, .name, .obj v] none)
  | none => none

/-- The caller of a validator cannot tell a TraitError raised by something the validator
called (a special method, a type constructor, adapt) from the validator's own. -/
def norm : Res → Res
  | .raised .traitError => .traitError
  | r => r

/-- The stand-alone C validator of a descriptor: the function the translated
`validate_handlers[]` table names for its kind, interpreted on the translated
source text. -/
def srcAlone (d : Desc) (v : Val) : Option Res :=
  match Generated.validateHandlers[d.kind]? with
  | some name => srcFn E inner cdflt fuel name d v
  | none => none

end TraitsVerif.Model.CSrc
