/-
The length guards of `TraitListObject` as *data*: what
`harness/translate/lenguard.py` reads off the source of every override in
traits/trait_list_object.py:627-806 (the argument handed to
`self._validate_length`, under which syntactic condition), and an interpreter
for that data.  `Props/C04.lean` proves that the hand-written `guardLen` of
`Model/TraitListObject.lean` *is* the interpretation of the generated table,
so an edit of a guard expression in the source breaks a proof obligation.
-/
import TraitsVerif.Model.TraitListObject
namespace TraitsVerif.Model
open TraitsVerif TraitsVerif.Py
variable {α : Type}

/-- Arithmetic over the quantities an override can mention. -/
inductive GE where
  | len                    -- `len(self)`
  | added                  -- `len(value)` after `value = list(value)`
  | sel                    -- `len(self[key])`
  | mult                   -- `value` after `value = operator.index(value)`
  | const (n : Int)
  | add (a b : GE)
  | sub (a b : GE)
  | mul (a b : GE)
  | max (a b : GE)
  deriving Repr, DecidableEq

/-- The syntactic conditions the overrides branch on. -/
inductive GCond where
  | isSlice                -- `isinstance(key, slice)`
  | notSlice
  | stepUnit               -- `key.step is None or key.step == 1`
  | stepExt
  deriving Repr, DecidableEq

/-- What a path does before calling `super()`. -/
inductive GAct where
  | none                               -- no length check on this path
  | check (e : GE)                     -- `self._validate_length(e)`
  | requireEq (a b : GE)               -- `if a != b: raise ValueError`
  deriving Repr, DecidableEq

structure GPath where
  conds : List GCond
  act : GAct
  deriving Repr, DecidableEq

/-- The comparison in `_validate_length` / `List.validate`:
`minlen <(=) n <(=) maxlen`. -/
structure GBound where
  lowerStrict : Bool
  upperStrict : Bool
  deriving Repr, DecidableEq

def GBound.ok (b : GBound) (c : LenCfg) (n : Int) : Bool :=
  (if b.lowerStrict then decide ((c.minlen : Int) < n) else decide ((c.minlen : Int) ≤ n)) &&
  (if b.upperStrict then decide (n < (c.maxlen : Int)) else decide (n ≤ (c.maxlen : Int)))

structure GCtx where
  len : Int
  added : Int
  sel : Int
  mult : Int

def GE.eval (c : GCtx) : GE → Int
  | .len => c.len
  | .added => c.added
  | .sel => c.sel
  | .mult => c.mult
  | .const n => n
  | .add a b => a.eval c + b.eval c
  | .sub a b => a.eval c - b.eval c
  | .mul a b => a.eval c * b.eval c
  | .max a b => Max.max (a.eval c) (b.eval c)

def GE.usesSel : GE → Bool
  | .sel => true
  | .add a b | .sub a b | .mul a b | .max a b => a.usesSel || b.usesSel
  | _ => false

def GAct.usesSel : GAct → Bool
  | .none => false
  | .check e => e.usesSel
  | .requireEq a b => a.usesSel || b.usesSel

/-- The facts about one call the table can refer to. -/
structure GCall where
  method : String
  slice : Option Slice := none
  added : Int := 0
  mult : Int := 0

/-- Which Python method an `Op` is, and with which arguments. -/
def Op.gcall : Op α → GCall
  | .setIdx _ _ => { method := "__setitem__" }
  | .setSlice s xs => { method := "__setitem__", slice := some s, added := xs.length }
  | .delIdx _ => { method := "__delitem__" }
  | .delSlice s => { method := "__delitem__", slice := some s }
  | .append _ => { method := "append" }
  | .extend xs => { method := "extend", added := xs.length }
  | .iadd xs => { method := "__iadd__", added := xs.length }
  | .imul n => { method := "__imul__", mult := n }
  | .insert _ _ => { method := "insert" }
  | .pop _ => { method := "pop" }
  | .remove _ => { method := "remove" }
  | .clear => { method := "clear" }
  | .reverse => { method := "reverse" }
  | .sort _ => { method := "sort" }

def GCond.holds (k : GCall) : GCond → Bool
  | .isSlice => k.slice.isSome
  | .notSlice => k.slice.isNone
  | .stepUnit =>
    match k.slice with
    | some s => decide (s.step = none ∨ s.step = some 1)
    | none => false
  | .stepExt =>
    match k.slice with
    | some s => !decide (s.step = none ∨ s.step = some 1)
    | none => false

def lookupMethod {β : Type} (m : String) : List (String × β) → Option β
  | [] => none
  | (k, v) :: rest => if k = m then some v else lookupMethod m rest

def firstPath (k : GCall) : List GPath → Option GPath
  | [] => none
  | p :: ps => if p.conds.all (GCond.holds k) then some p else firstPath k ps

def runAct (c : GCtx) : GAct → Except Exc (Option Int)
  | .none => .ok none
  | .check e => .ok (some (e.eval c))
  | .requireEq a b => if a.eval c ≠ b.eval c then .error .valueError else .ok none

/-- Interpretation of the generated table: what the override of the method
`op` stands for computes before handing over to `TraitList`.  A method without
an entry is inherited from `TraitList` and checks no length. -/
def guardOfTable (tbl : List (String × List GPath)) (l : List α) (op : Op α) : Except Exc (Option Int) :=
  let k := op.gcall
  match lookupMethod k.method tbl with
  | none => .ok none
  | some paths =>
    match firstPath k paths with
    | none => .ok none
    | some p =>
      if p.act.usesSel then
        match k.slice with
        | none => .ok none
        | some s =>
          match Py.getSlice l s with
          | .error e => .error e
          | .ok r => runAct { len := l.length, added := k.added, sel := r.length, mult := k.mult } p.act
      else
        runAct { len := l.length, added := k.added, sel := 0, mult := k.mult } p.act

end TraitsVerif.Model
