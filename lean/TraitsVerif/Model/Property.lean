/-
Model of observed / cached properties (property C12).

What is transcribed (pinned tree, file:line):

* `traits/has_traits.py:870-911`  `cached_property` wrapper            → `readProp`, `compute`
* `traits/ctraits.c:2113-2127`    `getattr_property1` (uncached read)   → `compute` (no store)
* `traits/has_traits.py:302-339`  `_create_property_observe_state`, its
                                  `handler`, `post_init=False`          → `popCache`, `handlerObserve`, `Env.postInit`
* `traits/ctraits.c:1093-1132`    `trait_property_changed`: listeners?
                                  → new value fetched through getattr   → `tpc`
* `traits/has_traits.py:3334-3365` legacy `depends_on`: `pre_notify`
                                  (priority) / `notify`                 → `Env.legacy` arms of `mutate`
* `traits/ctraits.c:716-790`      `has_traits_init`,
  `traits/has_traits.py:1337-1361` `__setstate__`,
  `traits/has_traits.py:1668-1684` `clone_traits` / `__deepcopy__`:
                                  `_init_trait_observers` runs BEFORE
                                  the values are assigned               → `restore`
* `traits/has_traits.py:3410-3435` `_init_trait_observers` /
                                  `_post_init_trait_observers`          → `restore` (`postInit` arm)

What is abstracted: the `observe` machinery itself (graphs, notifiers,
maintainers: property C08) is the parameter `Env.fires : Heap → Mutation → Bool`
("the property's handler is called for this change").  Its *specification* is
`relevant`: the mutated observable is matched by the expression in the heap in
which the change happens (from-scratch reachability, `matchedAt`).  The
interface assumptions `ObserveSound` / `ObserveTight` relate the two; the
driver instantiates `fires` with the specification and the correspondence check
validates that choice against the real code on every run.

Source ties: (1) `Source` below (normalised text, `C12_source_as_modelled`);
(2) `readProp`, `tpc` and `handlerObserve` are proved equal, for every
environment and state, to the interpretation (`Model/PropL.lean`) of the terms
`harness/translate/propsrc.py` produces from `cached_property`,
C `trait_property_changed` and `_create_property_observe_state.handler`
(`Lemmas/PropertySource.lean`, `C12_step_is_source`).

Listeners of the property: `Env.staticL` (`_p_changed`), `Env.staticAny`
(`_anytrait_changed`), `St.dyn` (attached by name: trait-level list),
`St.dynObj` (name-less `on_trait_change`: object-level list) — `listening`
is `has_notifiers(tnotifiers, onotifiers)`.

Core Lean only.  All functions total.
-/
import TraitsVerif.Py.Basic
namespace TraitsVerif.Model.Property
open TraitsVerif

/-! ## Dependency heap -/

abbrev Id := Nat
abbrev Key := Int

/-- Scalar traits of a node: `value` and `aux` (`Int`, comparison mode
equality), and three `Any` traits declared with
`comparison_mode=ComparisonMode.none / identity / equality`.  What the heap
records for them is the key the notification decision is made on: for `xn` and
`xi` a code of the *object* held (equal-but-distinct objects such as `1`, `1.0`,
`True` have different codes), for `xe` the `==`-class of the value (a getter over
an equality-compared dependency must not distinguish equal values: user
contract). -/
inductive Field where
  | value | aux | xn | xi | xe
  /-- a MAPPED trait (`Map({...})`): the heap records the key assigned; the shadow trait `xm_` that
  `post_setattr` maintains (ctraits.c `setattr_trait`: post_setattr runs BEFORE the notifiers) is a
  function of it, so a getter reading the shadow reads a function of this field -/
  | xm
  deriving DecidableEq, Repr

/-- One `HasTraits` object of the dependency graph:
`value = Int; aux = Int; inst = Instance(Node); kids = List(Instance(Node));
byname = Dict(Str, Instance(Node)); tags = Set(Int)`.
Dicts are kept sorted by key and sets sorted (Python `==` on them is order
insensitive; the harness canonicalises). -/
structure Obj where
  value : Int := 0
  aux : Int := 0
  xn : Int := 0
  xi : Int := 0
  xe : Int := 0
  xm : Int := 0
  inst : Option Id := none
  kids : List Id := []
  byname : List (Key × Id) := []
  tags : List Int := []
  deriving Repr

abbrev Heap := Id → Obj

/-- An observable of an object: a trait together with (for containers) the
items of the container it currently holds. -/
inductive Slot where
  | scalar (f : Field) | inst | kids | byname | tags
  deriving DecidableEq, Repr

/-- What an observable holds. -/
inductive Content where
  | int (v : Int)
  | ref (r : Option Id)
  | ids (l : List Id)
  | dict (d : List (Key × Id))
  | ints (l : List Int)
  deriving DecidableEq, Repr

def Obj.get (ob : Obj) : Slot → Content
  | .scalar .value => .int ob.value
  | .scalar .aux => .int ob.aux
  | .scalar .xn => .int ob.xn
  | .scalar .xi => .int ob.xi
  | .scalar .xe => .int ob.xe
  | .scalar .xm => .int ob.xm
  | .inst => .ref ob.inst
  | .kids => .ids ob.kids
  | .byname => .dict ob.byname
  | .tags => .ints ob.tags

def content (h : Heap) (o : Id) (s : Slot) : Content := (h o).get s

/-- A write to one observable. -/
inductive Write where
  | scalar (f : Field) (v : Int)
  | inst (t : Option Id)
  | kids (l : List Id)
  | byname (d : List (Key × Id))
  | tags (t : List Int)
  deriving Repr

def Write.slot : Write → Slot
  | .scalar f _ => .scalar f
  | .inst _ => .inst
  | .kids _ => .kids
  | .byname _ => .byname
  | .tags _ => .tags

def Write.content : Write → Content
  | .scalar _ v => .int v
  | .inst t => .ref t
  | .kids l => .ids l
  | .byname d => .dict d
  | .tags t => .ints t

def Obj.put (ob : Obj) : Write → Obj
  | .scalar .value v => { ob with value := v }
  | .scalar .aux v => { ob with aux := v }
  | .scalar .xn v => { ob with xn := v }
  | .scalar .xi v => { ob with xi := v }
  | .scalar .xe v => { ob with xe := v }
  | .scalar .xm v => { ob with xm := v }
  | .inst t => { ob with inst := t }
  | .kids l => { ob with kids := l }
  | .byname d => { ob with byname := d }
  | .tags t => { ob with tags := t }

/-- A mutation of the heap.  `inplace = false`: trait assignment
(`obj.x = v`, `obj.inst = n`, `obj.kids = [...]`); notification only when the
new content differs from the old one (`ctrait_prevent_event`,
observation/_has_traits_helpers.py:118-142, comparison mode equality).
`inplace = true`: a container method that emitted a change event and left
the container with the given content (append, `l[i] = x` — also with the same
item —, `d[k] = v`, `s.add(x)` of a new member, …).  A container method that
emits no event is not a mutation (C05–C07: no event ⇒ contents unchanged). -/
structure Mutation where
  obj : Id
  w : Write
  inplace : Bool := false
  deriving Repr

def apply (m : Mutation) (h : Heap) : Heap :=
  fun i => if i = m.obj then (h i).put m.w else h i

/-- `comparison_mode=ComparisonMode.none`: every assignment notifies
(ctraits.c:2437 `changed = flags & TRAIT_COMPARISON_MODE_NONE`). -/
def alwaysNotifies : Slot → Bool
  | .scalar .xn => true
  | _ => false

/-- Does the change notify anybody at all?  ctraits.c:2437, 2563-2565: mode
none always, otherwise a different object; for mode equality the notifiers
then drop the event when `old == new` (observation/_has_traits_helpers.py:118-142
`ctrait_prevent_event`, trait_notifiers.py `_change_accepted`) — the heap keys
are chosen accordingly, see `Field`. -/
def changed (h : Heap) (m : Mutation) : Bool :=
  m.inplace || alwaysNotifies m.w.slot || decide (content h m.obj m.w.slot ≠ m.w.content)

/-! ## Observe expressions (the fragment `a.b.….leaf`, every link notifying) -/

/-- An object-valued link: `inst`, `kids.items`, `byname.items`. -/
inductive Link where
  | inst | kids | byname
  deriving DecidableEq, Repr

def Link.slot : Link → Slot
  | .inst => .inst
  | .kids => .kids
  | .byname => .byname

def Content.targets : Content → List Id
  | .ref r => r.toList
  | .ids l => l
  | .dict d => d.map (·.2)
  | _ => []

/-- Objects one link away (with multiplicity: a list may hold an object twice). -/
def targets (h : Heap) (o : Id) (l : Link) : List Id := (content h o l.slot).targets

/-- `l₁.l₂.….leaf`; the leaf is a trait (`value`, `inst`) or a container with
its items (`kids.items`, `byname.items`, `tags.items`). -/
structure Path where
  links : List Link
  leaf : Slot
  deriving Repr

/-- `Property(observe=[p₁, p₂, …])`. -/
abbrev Expr := List Path

/-- From-scratch matching: is observable `tgt` one of those the path selects,
starting at object `o`, in heap `h`?  (Specification side of C08.) -/
def matchedAt (h : Heap) (tgt : Id × Slot) : List Link → Slot → Id → Bool
  | [], leaf, o => decide (tgt = (o, leaf))
  | l :: ls, leaf, o =>
    decide (tgt = (o, l.slot)) || (targets h o l).any (fun t => matchedAt h tgt ls leaf t)

def matched (h : Heap) (E : Expr) (root : Id) (tgt : Id × Slot) : Bool :=
  E.any (fun p => matchedAt h tgt p.links p.leaf root)

/-- The two heaps agree on everything the path selects from `o`
(what the selected observables hold, recursively). -/
def SameView (h h' : Heap) : List Link → Slot → Id → Prop
  | [], leaf, o => content h o leaf = content h' o leaf
  | l :: ls, leaf, o =>
    content h o l.slot = content h' o l.slot ∧ ∀ t ∈ targets h o l, SameView h h' ls leaf t

def SameViews (h h' : Heap) (E : Expr) (root : Id) : Prop :=
  ∀ p ∈ E, SameView h h' p.links p.leaf root

/-- The user contract of `Property(observe=E)`: the getter's value is a
function of what the observed observables hold. -/
def DependsOnly {Val : Type} (g : Heap → Val) (E : Expr) (root : Id) : Prop :=
  ∀ h h', SameViews h h' E root → g h = g h'

/-- Generic getter shape: a fold over what the path selects. -/
def foldView {α : Type} (leafF : Content → α) (nodeF : Content → List α → α) (h : Heap) :
    List Link → Slot → Id → α
  | [], leaf, o => leafF (content h o leaf)
  | l :: ls, leaf, o =>
    nodeF (content h o l.slot) ((targets h o l).map (fun t => foldView leafF nodeF h ls leaf t))

def foldExpr {α : Type} (leafF : Content → α) (nodeF : Content → List α → α) (h : Heap)
    (E : Expr) (root : Id) : List α :=
  E.map (fun p => foldView leafF nodeF h p.links p.leaf root)

/-! ## The property: state, parameters -/

/-- The `old` argument of a property notification: `Undefined`, `None` or a value. -/
inductive Old (Val : Type) where
  | undefined | none | val (v : Val)
  deriving DecidableEq, Repr

/-- One `trait_property_changed` delivery: `(old, new)` as received by every
listener present at that moment (`toStatic`: the class-level `_p_changed`,
`toDyn`: the ones attached by name to the property's trait (`on_trait_change(h, 'p')`,
`observe(h, 'p')`: instance-trait notifier list), `toAny`: the class-level
`_anytrait_changed` (sits in the notifier list of every class trait,
has_traits.py `update_traits_class_dict`), `toObj`: the object-level handlers
(`on_trait_change(h)` without a name: `obj->notifiers`)). -/
structure Note (Val : Type) where
  old : Old Val
  new : Val
  toStatic : Bool
  toDyn : Bool
  toAny : Bool := false
  toObj : Bool := false
  deriving DecidableEq, Repr

structure St (Val : Type) where
  heap : Heap
  /-- `obj.__dict__.get('_traits_cache_<name>')` -/
  cache : Option Val := none
  /-- number of getter invocations so far (on this object) -/
  calls : Nat := 0
  /-- dynamic listeners (`on_trait_change(h, 'p')`, `observe(h, 'p')`) attached? -/
  dyn : Bool := false
  /-- object-level listeners (`on_trait_change(h)` with no name: `obj->notifiers`) attached? -/
  dynObj : Bool := false
  notes : List (Note Val) := []
  /-- values seen by sibling handlers that read the property during a dispatch -/
  nested : List (Except Exc Val) := []

structure Env (Val : Type) where
  E : Expr
  root : Id
  /-- the getter: partial function of (number of earlier invocations, heap) -/
  G : Callback Heap Val
  /-- `result is Undefined` -/
  isUndef : Val → Bool := fun _ => false
  /-- getter wrapped by `@cached_property` -/
  cached : Bool := true
  /-- declared with legacy `depends_on=` instead of `observe=` -/
  legacy : Bool := false
  /-- class-level listener on the property (`_p_changed`) -/
  staticL : Bool := false
  /-- class-level `_anytrait_changed` -/
  staticAny : Bool := false
  /-- `state["post_init"]` of the property's observer (has_traits.py:337: `False`) -/
  postInit : Bool := false
  /-- the observe machinery: is the property's handler called for this change? -/
  fires : Heap → Mutation → Bool
  /-- a handler on the mutated trait that reads the property and sits *before* /
  *after* the property's own observer in that trait's notifier list
  (ctraits.c:2293-2310: class-level notifiers, then instance-level ones, each in
  registration order).  Static `_x_changed` methods and `@observe` /
  `@on_trait_change` methods always come before; a handler attached later comes
  after exactly when the property's observer was already hooked on that trait
  — the hook of a nested dependency is (re)created when a link starts to reach
  it, so this is a fact about the history, supplied here as a parameter. -/
  sibPre : Mutation → Bool := fun _ => false
  sibPost : Mutation → Bool := fun _ => false
  /-- the property's setter (`_set_p` / `fset`): the dependency writes `obj.p = x`
  performs, as a function of the current heap (`none` for the value: a setter
  declared without a value parameter); `none`: read-only property
  (`_read_only` raises TraitError, trait_type.py:87).  A setter that raises does so
  before it writes. -/
  fset : Option (Heap → Option Int → Except Exc (List Mutation)) := none
  /-- `Property(SomeTrait, …)`: the validator applied to the value before the setter sees it -/
  fvalidate : Option (Int → Except Exc Int) := none
  /-- number of parameters of the setter (0-3): `()`, `(value)`, `(obj, value)`, `(obj, name, value)` -/
  setN : Nat := 2

variable {Val : Type}

/-- The mutated observable is matched by the expression, and the change notifies. -/
def relevant (E : Expr) (root : Id) (h : Heap) (m : Mutation) : Bool :=
  changed h m && matched h E root (m.obj, m.w.slot)

/-- Interface assumption provided by C08 (no missed change). -/
def ObserveSound (P : Env Val) : Prop :=
  ∀ h m, relevant P.E P.root h m = true → P.fires h m = true

/-- Interface assumption provided by C08 (no spurious call). -/
def ObserveTight (P : Env Val) : Prop :=
  ∀ h m, changed h m = true → P.fires h m = true → relevant P.E P.root h m = true

/-! ## Reading -/

/-- Run the getter.  has_traits.py:906
`self.__dict__[name] = result = function(self)`: nothing is stored when the
getter raises. -/
def compute (P : Env Val) (s : St Val) : Except Exc Val × St Val :=
  match P.G s.calls s.heap with
  | .error e => (.error e, { s with calls := s.calls + 1 })
  | .ok v => (.ok v, { s with calls := s.calls + 1, cache := if P.cached then some v else s.cache })

/-- `getattr(obj, 'p')`.  has_traits.py:903-909 for a cached getter,
ctraits.c:2113 for a plain one. -/
def readProp (P : Env Val) (s : St Val) : Except Exc Val × St Val :=
  if P.cached then
    match s.cache with
    | some v => if P.isUndef v then compute P s else (.ok v, s)
    | none => compute P s
  else compute P s

/-- A sibling handler reads the property; an exception raised by the getter
is swallowed by the notification machinery (`handle_exception`). -/
def nestedRead (P : Env Val) (s : St Val) : St Val :=
  let r := readProp P s
  { r.2 with nested := r.2.nested ++ [r.1] }

/-! ## Invalidation -/

/-- has_traits.py:321-325 (`old = instance.__dict__.pop(cache_name, Undefined)`
/ `old = Undefined`) and 3352-3358 (legacy `dict.pop(cached, None)`; 3342
`trait_property_changed(name, None)` when not cached). -/
def popOld (P : Env Val) (s : St Val) : Old Val :=
  if P.cached then
    match s.cache with
    | some v => .val v
    | none => if P.legacy then .none else .undefined
  else if P.legacy then .none else .undefined

def popCache (P : Env Val) (s : St Val) : St Val :=
  if P.cached then { s with cache := none } else s

/-- `has_notifiers(tnotifiers, onotifiers)` (ctraits.c `trait_property_changed`):
the trait-level list (class-level static handlers, handlers attached by name) or
the object-level list is non-empty. -/
def listening (P : Env Val) (s : St Val) : Bool :=
  P.staticL || s.dyn || (P.staticAny || s.dynObj)

/-- The delivery `call_notifiers(tnotifiers, onotifiers, obj, name, old, new)` makes. -/
def mkNote (P : Env Val) (s : St Val) (old : Old Val) (v : Val) : Note Val :=
  ⟨old, v, P.staticL, s.dyn, P.staticAny, s.dynObj⟩

/-- `trait_property_changed(name, old)` (ctraits.c:1093-1132): when somebody
listens, the new value is fetched through the ordinary attribute read (which
fills the cache of a cached property) and `(old, new)` is delivered. -/
def tpc (P : Env Val) (s : St Val) (old : Old Val) : St Val :=
  if listening P s then
    match (readProp P s).1 with
    | .error _ => (readProp P s).2
    | .ok v => { (readProp P s).2 with notes := (readProp P s).2.notes ++ [mkNote P s old v] }
  else s

/-- The observer's handler (has_traits.py:320-326). -/
def handlerObserve (P : Env Val) (s : St Val) : St Val :=
  tpc P (popCache P s) (popOld P s)

/-- Legacy `notify` (has_traits.py:3362-3366):
`old = self.__dict__.pop(cached_old, Undefined); if old is not Undefined: trait_property_changed(name, old)`
— a dropped entry that held `Undefined` is not announced. -/
def legacyNotify (P : Env Val) (s : St Val) (old : Old Val) : St Val :=
  match old with
  | .val v => if P.isUndef v then s else tpc P s old
  | _ => tpc P s old

/-- A sibling handler on the mutated trait that reads the property (or not). -/
def sib (P : Env Val) (b : Bool) (s : St Val) : St Val :=
  if b then nestedRead P s else s

/-- Dispatch of a change for which the property's handler is not called. -/
def dispatchQuiet (P : Env Val) (s0 : St Val) (m : Mutation) : St Val :=
  sib P (P.sibPost m && s0.dyn) (sib P (P.sibPre m) s0)

/-- Dispatch of a change for which the property's handler is called.
Notifier order (ctraits.c:2293-2310 `call_notifiers`: the list in registration
order): class-level static handlers and `@observe`/`@on_trait_change` methods
(`sibPre`), the property's observer, handlers attached later (`sibPost`).
The legacy `pre_notify` is registered with `priority=True`
(has_traits.py:3359-3361), i.e. it is put in front of everything. -/
def dispatchFire (P : Env Val) (s0 : St Val) (m : Mutation) : St Val :=
  if P.legacy then
    sib P (P.sibPost m && s0.dyn) (legacyNotify P (sib P (P.sibPre m) (popCache P s0)) (popOld P s0))
  else
    sib P (P.sibPost m && s0.dyn) (handlerObserve P (sib P (P.sibPre m) s0))

/-- One heap mutation with everything it triggers: the value is stored
first (ctraits.c `setattr_trait`; container methods call `notify` after the
change), then the notifiers run. -/
def mutate (P : Env Val) (s : St Val) (m : Mutation) : St Val :=
  let s0 : St Val := { s with heap := apply m s.heap }
  if changed s.heap m then
    if P.fires s.heap m then dispatchFire P s0 m else dispatchQuiet P s0 m
  else s0

/-! ## Histories, construction and copies -/

def runMuts (P : Env Val) (s : St Val) (ms : List Mutation) : St Val :=
  ms.foldl (mutate P) s

/-- `obj.p = x` / `del obj.p`. -/
inductive SetArg where
  | value (x : Int)
  | delete
  deriving Repr

/-- Call the setter with the (validated) value: its dependency writes go through
`mutate`, i.e. the property's own observer hears them like any other change. -/
def callSetter (P : Env Val) (s : St Val) (x : Int) : Except Exc Unit × St Val :=
  match P.fset with
  | none => (.error .traitError, s)
  | some f =>
    match f s.heap (if P.setN = 0 then none else some x) with
    | .error e => (.error e, s)
    | .ok ms => (.ok (), runMuts P s ms)

/-- Assignment to / deletion of the property itself.  ctraits.c
`setattr_property0..3` (no validator) / `setattr_validate_property`:
deleting raises TraitError (`set_delete_property_error`); the validator runs
first and the setter receives the VALIDATED value; no notification is sent for
the property by this path itself (the setter's dependency writes do that). -/
def setProp (P : Env Val) (s : St Val) : SetArg → Except Exc Unit × St Val
  | .delete => (.error .traitError, s)
  | .value x =>
    match P.fvalidate with
    | none => callSetter P s x
    | some fv =>
      match fv x with
      | .error e => (.error e, s)
      | .ok y => callSetter P s y

def blank (h : Heap) (r : Id) : Heap := fun i => if i = r then {} else h i

/-- Assignment order of `__getstate__` / `copyable_trait_names` (definition order). -/
def rootWrites (ob : Obj) : List Write :=
  [.scalar .value ob.value, .scalar .aux ob.aux, .scalar .xn ob.xn, .scalar .xi ob.xi,
   .scalar .xe ob.xe, .scalar .xm ob.xm, .inst ob.inst, .kids ob.kids, .byname ob.byname, .tags ob.tags]

/-- `__init__(**kw)`, `__setstate__`, `clone_traits`: a new object (empty
`__dict__`, no dynamic listeners) gets its observers (`_init_trait_observers`),
then the values one by one, then the `post_init` observers.  With
`postInit = true` the property's observer would only exist after the values. -/
def restore (P : Env Val) (h0 : Heap) (ws : List Write) : St Val :=
  let P' : Env Val := if P.postInit then { P with fires := fun _ _ => false } else P
  runMuts P' { heap := h0 } (ws.map (fun w => ⟨P.root, w, false⟩))

inductive Step where
  | change (m : Mutation)
  | read
  | attach
  | detach
  /-- `obj.on_trait_change(h)` / `obj.on_trait_change(h, remove=True)` (no name: anytrait) -/
  | attachObj
  | detachObj
  /-- `obj.p = x` / `del obj.p` through the property's own setter -/
  | set (a : SetArg)
  /-- replace the root by `Root(**kw)` -/
  | construct (ws : List Write)
  /-- replace the object graph by `pickle.loads(pickle.dumps(·))`,
  `clone_traits()` or `copy.deepcopy(·)` (isomorphic graph: ids are kept) -/
  | copy
  deriving Repr

def step (P : Env Val) (s : St Val) : Step → St Val
  | .change m => mutate P s m
  | .read => (readProp P s).2
  | .attach => { s with dyn := true }
  | .detach => { s with dyn := false }
  | .attachObj => { s with dynObj := true }
  | .detachObj => { s with dynObj := false }
  | .set a => (setProp P s a).2
  | .construct ws => restore P (blank s.heap P.root) ws
  | .copy => restore P (blank s.heap P.root) (rootWrites (s.heap P.root))

def run (P : Env Val) (s : St Val) (steps : List Step) : St Val :=
  steps.foldl (step P) s

/-- The specification instance of the machinery. -/
def firesSpec (E : Expr) (root : Id) : Heap → Mutation → Bool :=
  fun h m => relevant E root h m


/-! ## Canonical getters (the ones the correspondence check instantiates)

`viewGetter` serialises everything the expression selects (the most
discriminating getter satisfying the user contract); `sumGetter` is a lossy one
(distinct views may give equal values) that can return the `Undefined`
sentinel `"U"`; `falsyGetter` returns `None`, `0`, `''`, `[]` for most states. -/

def showContent : Content → String
  | .int v => toString v
  | .ref none => "N"
  | .ref (some i) => s!"#{i}"
  | .ids l => "[" ++ ",".intercalate (l.map toString) ++ "]"
  | .dict d => "{" ++ ",".intercalate (d.map (fun kv => s!"{kv.1}:{kv.2}")) ++ "}"
  | .ints l => "<" ++ ",".intercalate (l.map toString) ++ ">"

def viewGetter (E : Expr) (root : Id) (h : Heap) : String :=
  "&".intercalate (foldExpr showContent (fun c l => showContent c ++ "(" ++ " ".intercalate l ++ ")") h E root)

def sumLeaf : Content → Int
  | .int v => v
  | .ref none => 0
  | .ref (some i) => Int.ofNat i + 1
  | .ids l => (l.map (fun i => Int.ofNat i + 1)).foldl (· + ·) 0 + 100 * Int.ofNat l.length
  | .dict d => (d.map (fun kv => kv.1 * 7 + Int.ofNat kv.2 + 1)).foldl (· + ·) 0
  | .ints l => l.foldl (· + ·) 0 + 100 * Int.ofNat l.length

def sumGetter (E : Expr) (root : Id) (undef : Bool) (h : Heap) : String :=
  let t := (foldExpr sumLeaf (fun _ l => l.foldl (· + ·) 0) h E root).foldl (· + ·) 0
  if undef && t % 5 == 3 then "U" else toString t

/-- A getter whose legitimate results include `None` and the other falsy
values (`"N"` = `None`, `"0"` = `0`, `"''"` = `''`, `"[]"` = `[]`): only the
`Undefined` sentinel may be taken for "nothing cached" (has_traits.py:903-906
`result is Undefined`). -/
def falsyGetter (E : Expr) (root : Id) (h : Heap) : String :=
  let t := (foldExpr sumLeaf (fun _ l => l.foldl (· + ·) 0) h E root).foldl (· + ·) 0
  if t % 5 == 0 then "N" else if t % 5 == 1 then "0" else if t % 5 == 2 then "''"
  else if t % 5 == 3 then "[]" else toString t

/-! ## The source text this model was transcribed from

Normalised (`ast.unparse`, parameters / locals / nested function names numbered by
first occurrence) text of the functions mirrored above, as they stand in the pinned tree.  `Props/C12.lean` proves these equal to what the translator
`harness/translate/propstate.py` reads from the working tree on every run: an
edit of any of these functions breaks that proof obligation. -/
namespace Source

def postInit : Bool := false
def dispatch : String := "same"
def handlerSrc : String := "def handler(_l0, _l1):\n    if cached:\n        _l2 = TraitsCache + property_name\n        _l3 = _l0.__dict__.pop(_l2, Undefined)\n    else:\n        _l3 = Undefined\n    _l0.trait_property_changed(property_name, _l3)"
def observeStateSrc : String := "def _create_property_observe_state(_l0, _l1, _l2):\n\n    def _l3(_l4, _l5):\n        if _l2:\n            _l6 = TraitsCache + _l1\n            _l7 = _l4.__dict__.pop(_l6, Undefined)\n        else:\n            _l7 = Undefined\n        _l4.trait_property_changed(_l1, _l7)\n\n    def _l8(_l4, _l9):\n        return types.MethodType(_l3, _l4)\n    _l10 = _compile_expression(_l0)\n    return dict(graphs=_l10, dispatch='same', handler_getter=_l8, post_init=False)"
def wiringSrc : List String := ["if trait.type == 'property' and trait.depends_on is not None:\n    cached = trait.cached\n    if cached is True:\n        cached = TraitsCache + name\n    depends_on = trait.depends_on\n    if isinstance(depends_on, SequenceTypes):\n        depends_on = ','.join(depends_on)\n    else:\n        depends_on = ' ' + depends_on\n    listeners[name] = ('property', cached, depends_on)", "if trait.type == 'property' and trait.observe is not None:\n    observer_state = _create_property_observe_state(observe=trait.observe, property_name=name, cached=trait.cached)\n    observers[name] = [observer_state]"]
def propertyMetadataSrc : List String := ["metadata.setdefault('depends_on', getattr(fget, 'depends_on', None))", "if getattr(fget, 'cached_property', False):\n    metadata.setdefault('cached', True)"]
def cacheNameSrc : String := "name = TraitsCache + function.__name__[5:]"
def cachedPropertySrc : String := "def decorator(_l0):\n    _l1 = _l0.__dict__.get(name, Undefined)\n    if _l1 is Undefined:\n        _l0.__dict__[name] = _l1 = function(_l0)\n    return _l1"
def legacyListenerSrc : String := "def _init_trait_property_listener(_l0, _l1, _l2, _l3, _l4):\n    if _l3 is None:\n\n        @weak_arg(_l0)\n        def _l5(_l0):\n            _l0.trait_property_changed(_l1, None)\n    else:\n        _l6 = _l3 + ':old'\n\n        @weak_arg(_l0)\n        def _l7(_l0):\n            _l8 = _l0.__dict__\n            _l9 = _l8.get(_l6, Undefined)\n            if _l9 is Undefined:\n                _l8[_l6] = _l8.pop(_l3, None)\n        _l0.on_trait_change(_l7, _l4, priority=True, target=_l0)\n\n        @weak_arg(_l0)\n        def _l5(_l0):\n            _l9 = _l0.__dict__.pop(_l6, Undefined)\n            if _l9 is not Undefined:\n                _l0.trait_property_changed(_l1, _l9)\n    _l0.on_trait_change(_l5, _l4, target=_l0)"
def initObserversSrc : String := "def _init_trait_observers(_l0):\n    for _l1, _l2 in _l0.__class__.__observer_traits__.items():\n        for _l3 in _l2:\n            if not _l3['post_init']:\n                observe_api.apply_observers(object=_l0, handler=_l3['handler_getter'](_l0, _l1), graphs=_l3['graphs'], dispatcher=_ObserverDispatchers[_l3['dispatch']])"
def postInitObserversSrc : String := "def _post_init_trait_observers(_l0):\n    for _l1, _l2 in _l0.__class__.__observer_traits__.items():\n        for _l3 in _l2:\n            if _l3['post_init']:\n                observe_api.apply_observers(object=_l0, handler=_l3['handler_getter'](_l0, _l1), graphs=_l3['graphs'], dispatcher=_ObserverDispatchers[_l3['dispatch']])"
def setstateCalls : List String := ["_init_trait_listeners", "_init_trait_observers", "trait_set", "_post_init_trait_listeners", "_post_init_trait_observers", "traits_init"]
def cloneCalls : List String := ["_init_trait_listeners", "_init_trait_observers", "copy_traits", "_post_init_trait_listeners", "_post_init_trait_observers", "traits_init", "_trait_set_inited"]
def cInitOrder : List String := ["_init_trait_listeners", "_init_trait_observers", "has_traits_setattro", "_post_init_trait_listeners", "_post_init_trait_observers", "traits_init"]
def cPropertyChangedCalls : List String := ["get_trait", "has_notifiers", "has_traits_getattro", "call_notifiers"]

end Source

end TraitsVerif.Model.Property
