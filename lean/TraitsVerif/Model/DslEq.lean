/-
C15 — `__eq__` of the observer, filter, graph and expression classes as an
interpretation of (field, operator) rows.

`harness/translate/eqrows.py` reads every `__eq__` / `__hash__` of
traits/observation/{_named_trait,_list_item,_dict_item,_set_item,_filtered_trait}_observer.py,
_metadata_filter.py, _observer_graph.py, expression.py into rows
(class, [("__class__","is"), (field,"eq"), (field,"seteq")]) — Generated/DslEqRows.lean.
This file says what such rows mean on the model's values (`rowsEq`: the conjunction
of the conjuncts; a field that one of the two objects does not have, or an
operator the field does not support, makes the comparison fail — Python:
AttributeError / NotImplemented).  Props/C15.lean proves that the equalities the
model uses (`==` of `Observer` / `Filter` / `Expr`, `Forest.setEq`, `Forest.graphEq`)
are the interpretation of the generated rows.
-/
import TraitsVerif.Model.DslCompile
namespace TraitsVerif.Model.DslEq
open TraitsVerif TraitsVerif.Model.Dsl

abbrev Rows := List (String × List (String × String))

/-- `a.__eq__(b)` by the rows of `cls` (the class of `a`); `cls'` the class of `b`;
`fieldEq f op` = the conjunct for field `f`, `none` if it cannot be evaluated. -/
def rowsEq (rows : Rows) (cls cls' : String) (fieldEq : String → String → Option Bool) : Bool :=
  match rows.lookup cls with
  | none => false
  | some rs => rs.all fun r =>
      if r.1 == "__class__" then (r.2 == "is" && cls == cls') else (fieldEq r.1 r.2).getD false

/-- filters: `anytrait_filter` is a function object (identity; against a
MetadataFilter the reflected `MetadataFilter.__eq__` decides). -/
def filterEq (rows : Rows) : Filter → Filter → Bool
  | .anytrait, .anytrait => true
  | .anytrait, .metadata _ => rowsEq rows "MetadataFilter" "function" (fun _ _ => none)
  | .metadata _, .anytrait => rowsEq rows "MetadataFilter" "function" (fun _ _ => none)
  | .metadata n, .metadata m =>
    rowsEq rows "MetadataFilter" "MetadataFilter"
      (fun f op => if f == "metadata_name" && op == "eq" then some (n == m) else none)

def obsCls : Observer → String
  | .named _ _ _ => "NamedTraitObserver"
  | .listItems _ _ => "ListItemObserver"
  | .dictItems _ _ => "DictItemObserver"
  | .setItems _ _ => "SetItemObserver"
  | .filtered _ _ => "FilteredTraitObserver"

def obsNotify : Observer → Bool
  | .named _ n _ | .listItems n _ | .dictItems n _ | .setItems n _ | .filtered n _ => n

def obsOptional : Observer → Option Bool
  | .named _ _ o | .listItems _ o | .dictItems _ o | .setItems _ o => some o
  | .filtered _ _ => none

def obsField (rows : Rows) (o o' : Observer) (f op : String) : Option Bool :=
  if op != "eq" then none else
  if f == "name" then
    (match o, o' with | .named n _ _, .named n' _ _ => some (n == n') | _, _ => none)
  else if f == "notify" then some (obsNotify o == obsNotify o')
  else if f == "optional" then
    (match obsOptional o, obsOptional o' with | some a, some b => some (a == b) | _, _ => none)
  else if f == "filter" then
    (match o, o' with | .filtered _ g, .filtered _ g' => some (filterEq rows g g') | _, _ => none)
  else none

def obsEq (rows : Rows) (o o' : Observer) : Bool := rowsEq rows (obsCls o) (obsCls o') (obsField rows o o')

/-- `ObserverGraph.__eq__`, given the outcome of its two conjuncts -/
def graphRowsEq (rows : Rows) (nodeEq childEq : Bool) : Bool :=
  rowsEq rows "ObserverGraph" "ObserverGraph" (fun f op =>
    if f == "node" && op == "eq" then some nodeEq
    else if f == "children" && op == "seteq" then some childEq else none)

/-- `set(F1) == set(F2)` with the rows' graph equality as element equality (fuel = depth). -/
def setEqI (rows : Rows) : Nat → Forest → Forest → Bool
  | 0, _, _ => true
  | d + 1, f1, f2 =>
    f1.all (fun o k => f2.any (fun o' k' => graphRowsEq rows (obsEq rows o o') (setEqI rows d k k'))) &&
    f2.all (fun o' k' => f1.any (fun o k => graphRowsEq rows (obsEq rows o o') (setEqI rows d k k')))

def graphEqI (rows : Rows) (o : Observer) (k : Forest) (o' : Observer) (k' : Forest) : Bool :=
  graphRowsEq rows (obsEq rows o o') (setEqI rows (max k.depth k'.depth + 1) k k')

def exprCls : Expr → String
  | .single _ => "SingleObserverExpression"
  | .series _ _ => "SeriesObserverExpression"
  | .parallel _ _ => "ParallelObserverExpression"

def exprEqI (rows : Rows) : Expr → Expr → Bool
  | .single o, .single o' =>
    rowsEq rows "SingleObserverExpression" "SingleObserverExpression" (fun f op =>
      if f == "_observer" && op == "eq" then some (obsEq rows o o') else none)
  | .series a b, .series a' b' =>
    rowsEq rows "SeriesObserverExpression" "SeriesObserverExpression" (fun f op =>
      if op != "eq" then none else if f == "_first" then some (exprEqI rows a a')
      else if f == "_second" then some (exprEqI rows b b') else none)
  | .parallel a b, .parallel a' b' =>
    rowsEq rows "ParallelObserverExpression" "ParallelObserverExpression" (fun f op =>
      if op != "eq" then none else if f == "_left" then some (exprEqI rows a a')
      else if f == "_right" then some (exprEqI rows b b') else none)
  | e, e' => rowsEq rows (exprCls e) (exprCls e') (fun _ _ => none)

end TraitsVerif.Model.DslEq
