/-
Cluster `obs`: `add_or_remove_notifiers` / `_AddOrRemoveNotifier`
(traits/observation/_observe.py) and `apply_observers` (observe.py:84-116),
`HasTraits.observe` (has_traits.py:2267-2344).

ONE undo log per outermost call (fix 4ea62e3): the walk started by the outermost
`add_or_remove_notifiers` owns `_processed`; nested walks (children, extra graphs)
record into the same list and do not roll back themselves (_observe.py:86-91,
111-115); on an exception the owner undoes everything recorded, most recent first
(`undo_processed`, _observe.py:59-69).  `apply_observers` shares one log across all
graphs of an expression.  The hooks are threaded through and returned even when
the call raises (then they are what the roll-back produced).
-/
import TraitsVerif.Model.Hooks
namespace TraitsVerif.Model.Obs
open TraitsVerif

/-- Hooks after the call, and the exception it raised (if any). -/
structure Res where
  H : Hooks
  err : Option Exc

/-- hooks, undo log (`_processed`, most recent first), exception -/
abbrev Tr := Hooks × List Item × Option Exc

/-- `_add_or_remove_notifiers` (_observe.py:164-181): nothing when the node does
not notify (then `iter_observables` is not even called). -/
def notifStep (h : Heap) (k : HKey) (rm : Bool) (ob : Observer) (x : W)
    (H : Hooks) (done : List Item) : Hooks × List Item × Option Exc :=
  if ob.notify then
    match observables h ob x with
    | .error e => (H, done, some e)
    | .ok os => applyOwn rm (os.map (fun o => (o, NKey.user k))) H done
  else (H, done, none)

/-- `_add_or_remove_maintainers` (_observe.py:141-162): for each observable, for
each child graph. -/
def maintStep (h : Heap) (k : HKey) (rm : Bool) (ob : Observer) (cs : List Graph) (x : W)
    (H : Hooks) (done : List Item) : Hooks × List Item × Option Exc :=
  match observables h ob x with
  | .error e => (H, done, some e)
  | .ok os => applyOwn rm (os.flatMap (fun o => cs.map (fun c => (o, NKey.maint ob.mkind c k)))) H done

/-- `_add_or_remove_extra_graphs` (_observe.py:127-140): the extra graph is
`ObserverGraph(node=TraitAddedObserver(…), children=[graph])`; walking it (into the
shared log) adds/removes one maintainer for `graph` on the `trait_added` trait (its
node does not notify and yields no objects). -/
def extraStepW (h : Heap) (k : HKey) (rm : Bool) (g : Graph) (x : W) (H : Hooks) (log : List Item) : Tr :=
  match extraObservables h g.ob x with
  | .error e => (H, log, some e)
  | .ok os => applyOwn rm (os.map (fun o => (o, NKey.maint .added g k))) H log

/-- `for y in ys: f(y)` threading the hooks; the first exception propagates. -/
def foldRes (f : W → Hooks → Res) : List W → Hooks → Res
  | [], H => ⟨H, none⟩
  | y :: ys, H =>
    let r := f y H
    match r.err with
    | some e => ⟨r.H, some e⟩
    | none => foldRes f ys r.H

/-- the same, threading hooks and undo log -/
def foldW (f : W → Hooks → List Item → Tr) : List W → Hooks → List Item → Tr
  | [], H, log => (H, log, none)
  | y :: ys, H, log =>
    let r := f y H log
    match r.2.2 with
    | some _ => r
    | none => foldW f ys r.1 r.2.1

mutual
/-- The steps of `_AddOrRemoveNotifier.__call__` (_observe.py:93-125) WITHOUT the
roll-back, recording into the log that is passed in.  `extra = false` is the walk
started by `TraitAddedObserver.observer_change_handler`, whose root
`_RestrictedNamedTraitObserver` contributes no extra graph. -/
def walk (h : Heap) (k : HKey) (rm : Bool) (extra : Bool) : Graph → W → Hooks → List Item → Tr
  | .node ob cs, x, H, log =>
    if rm then
      -- steps[::-1]: extra graphs, children, maintainers, notifiers
      let r1 : Tr := if extra then extraStepW h k rm (.node ob cs) x H log else (H, log, none)
      match r1.2.2 with
      | some _ => r1
      | none =>
        let r2 := walkCs h k rm ob x cs r1.1 r1.2.1
        match r2.2.2 with
        | some _ => r2
        | none =>
          let s3 := maintStep h k rm ob cs x r2.1 r2.2.1
          match s3.2.2 with
          | some _ => s3
          | none => notifStep h k rm ob x s3.1 s3.2.1
    else
      let s1 := notifStep h k rm ob x H log
      match s1.2.2 with
      | some _ => s1
      | none =>
        let s2 := maintStep h k rm ob cs x s1.1 s1.2.1
        match s2.2.2 with
        | some _ => s2
        | none =>
          let r3 := walkCs h k rm ob x cs s2.1 s2.2.1
          match r3.2.2 with
          | some _ => r3
          | none => if extra then extraStepW h k rm (.node ob cs) x r3.1 r3.2.1 else r3
/-- `_add_or_remove_children_notifiers` (_observe.py:142-156):
`for child_graph in children: for next_object in node.iter_objects(object): …`
(`iter_objects` is re-evaluated for every child graph; never called when there
is no child). -/
def walkCs (h : Heap) (k : HKey) (rm : Bool) (ob : Observer) (x : W) : List Graph → Hooks → List Item → Tr
  | [], H, log => (H, log, none)
  | c :: cs, H, log =>
    match objects h ob x with
    | .error e => (H, log, some e)
    | .ok ys =>
      let r := foldW (walk h k rm true c) ys H log
      match r.2.2 with
      | some _ => r
      | none => walkCs h k rm ob x cs r.1 r.2.1
end

/-- The owner of the log: on an exception `undo_processed`, then re-raise
(_observe.py:117-125; observe.py:112-116). -/
def finish (rm : Bool) (r : Tr) : Res :=
  match r.2.2 with
  | some e => ⟨undo rm r.2.1 r.1, some e⟩
  | none => ⟨r.1, none⟩

/-- An outermost `add_or_remove_notifiers(…)` (no `_processed` passed): as called by
the maintainers' change handlers. -/
def addRemove (h : Heap) (k : HKey) (rm : Bool) (extra : Bool) (g : Graph) (x : W) (H : Hooks) : Res :=
  finish rm (walk h k rm extra g x H [])

/-- the loop of `apply_observers` over the compiled graphs, one shared log -/
def applyObserversW (h : Heap) (k : HKey) (rm : Bool) (x : W) : List Graph → Hooks → List Item → Tr
  | [], H, log => (H, log, none)
  | g :: gs, H, log =>
    let r := walk h k rm true g x H log
    match r.2.2 with
    | some _ => r
    | none => applyObserversW h k rm x gs r.1 r.2.1

/-- `apply_observers` (observe.py:100-116), target = the object itself. -/
def applyObservers (h : Heap) (k : HKey) (rm : Bool) (x : W) (gs : List Graph) (H : Hooks) : Res :=
  finish rm (applyObserversW h k rm x gs H [])

/-- `HasTraits.observe(handler, expression, remove=…)`: compile, then apply. -/
def observe (h : Heap) (handler : Nat) (root : Id) (rm : Bool) (e : Expr) (H : Hooks) : Res :=
  match e.compile with
  | .error ex => ⟨H, some ex⟩
  | .ok gs => applyObservers h ⟨handler, root⟩ rm (some root) gs H

end TraitsVerif.Model.Obs
