/-
Cluster `obs`: `add_or_remove_notifiers` / `_AddOrRemoveNotifier`
(traits/observation/_observe.py) and `apply_observers` (observe.py:84-113),
`HasTraits.observe` (has_traits.py:2267-2344).

The hooks are threaded through and RETURNED EVEN WHEN THE CALL RAISES: a failing
registration leaves whatever its undo logs did not roll back (each recursive
`_AddOrRemoveNotifier` has its own `_processed` list and clears it on success,
_observe.py:104-105, so completed sibling subtrees stay — finding F4).
-/
import TraitsVerif.Model.Hooks
namespace TraitsVerif.Model.Obs
open TraitsVerif

/-- Hooks after the call, and the exception it raised (if any). -/
structure Res where
  H : Hooks
  err : Option Exc

/-- `_add_or_remove_notifiers` (_observe.py:164-181): nothing when the node does
not notify (then `iter_observables` is not even called). -/
def notifStep (h : Heap) (k : HKey) (rm : Bool) (ob : Observer) (x : W)
    (H : Hooks) (done : List Item) : Hooks × List Item × Option Exc :=
  if ob.notify then
    match observables h ob x with
    | .error e => (H, done, some e)
    | .ok os => applyOwn rm (os.map (fun o => (o, NKey.user k))) H done
  else (H, done, none)

/-- `_add_or_remove_maintainers` (_observe.py:141-162): for each observable, for
each child graph. -/
def maintStep (h : Heap) (k : HKey) (rm : Bool) (ob : Observer) (cs : List Graph) (x : W)
    (H : Hooks) (done : List Item) : Hooks × List Item × Option Exc :=
  match observables h ob x with
  | .error e => (H, done, some e)
  | .ok os => applyOwn rm (os.flatMap (fun o => cs.map (fun c => (o, NKey.maint ob.mkind c k)))) H done

/-- `_add_or_remove_extra_graphs` (_observe.py:107-119): the extra graph is
`ObserverGraph(node=TraitAddedObserver(…), children=[graph])`; walking it with
its own `_AddOrRemoveNotifier` adds/removes one maintainer for `graph` on the
`trait_added` trait (its node does not notify and yields no objects). -/
def extraStep (h : Heap) (k : HKey) (rm : Bool) (g : Graph) (x : W) (H : Hooks) : Res :=
  match extraObservables h g.ob x with
  | .error e => ⟨H, some e⟩
  | .ok os =>
    let r := applyOwn rm (os.map (fun o => (o, NKey.maint .added g k))) H []
    match r.2.2 with
    | some e => ⟨undo rm r.2.1 r.1, some e⟩
    | none => ⟨r.1, none⟩

/-- `for y in ys: f(y)` threading the hooks; the first exception propagates. -/
def foldRes (f : W → Hooks → Res) : List W → Hooks → Res
  | [], H => ⟨H, none⟩
  | y :: ys, H =>
    let r := f y H
    match r.err with
    | some e => ⟨r.H, some e⟩
    | none => foldRes f ys r.H

mutual
/-- `_AddOrRemoveNotifier.__call__` (_observe.py:75-105).  `extra = false` is the
walk started by `TraitAddedObserver.observer_change_handler`, whose root
`_RestrictedNamedTraitObserver` contributes no extra graph. -/
def addRemove (h : Heap) (k : HKey) (rm : Bool) (extra : Bool) : Graph → W → Hooks → Res
  | .node ob cs, x, H =>
    if rm then
      -- steps[::-1]: extra graphs, children, maintainers, notifiers
      let r1 := if extra then extraStep h k rm (.node ob cs) x H else ⟨H, none⟩
      match r1.err with
      | some e => ⟨r1.H, some e⟩
      | none =>
        let r2 := addRemoveCs h k rm ob x cs r1.H
        match r2.err with
        | some e => ⟨r2.H, some e⟩
        | none =>
          let s3 := maintStep h k rm ob cs x r2.H []
          match s3.2.2 with
          | some e => ⟨undo rm s3.2.1 s3.1, some e⟩
          | none =>
            let s4 := notifStep h k rm ob x s3.1 s3.2.1
            match s4.2.2 with
            | some e => ⟨undo rm s4.2.1 s4.1, some e⟩
            | none => ⟨s4.1, none⟩
    else
      let s1 := notifStep h k rm ob x H []
      match s1.2.2 with
      | some e => ⟨undo rm s1.2.1 s1.1, some e⟩
      | none =>
        let s2 := maintStep h k rm ob cs x s1.1 s1.2.1
        match s2.2.2 with
        | some e => ⟨undo rm s2.2.1 s2.1, some e⟩
        | none =>
          let r3 := addRemoveCs h k rm ob x cs s2.1
          match r3.err with
          | some e => ⟨undo rm s2.2.1 r3.H, some e⟩
          | none =>
            let r4 := if extra then extraStep h k rm (.node ob cs) x r3.H else ⟨r3.H, none⟩
            match r4.err with
            | some e => ⟨undo rm s2.2.1 r4.H, some e⟩
            | none => ⟨r4.H, none⟩
/-- `_add_or_remove_children_notifiers` (_observe.py:121-139):
`for child_graph in children: for next_object in node.iter_objects(object): …`
(`iter_objects` is re-evaluated for every child graph; never called when there
is no child). -/
def addRemoveCs (h : Heap) (k : HKey) (rm : Bool) (ob : Observer) (x : W) : List Graph → Hooks → Res
  | [], H => ⟨H, none⟩
  | c :: cs, H =>
    match objects h ob x with
    | .error e => ⟨H, some e⟩
    | .ok ys =>
      let r := foldRes (addRemove h k rm true c) ys H
      match r.err with
      | some e => ⟨r.H, some e⟩
      | none => addRemoveCs h k rm ob x cs r.H
end

/-- `apply_observers` (observe.py:106-113): one `add_or_remove_notifiers` per
compiled graph, target = the object itself; no rollback across graphs. -/
def applyObservers (h : Heap) (k : HKey) (rm : Bool) (x : W) : List Graph → Hooks → Res
  | [], H => ⟨H, none⟩
  | g :: gs, H =>
    let r := addRemove h k rm true g x H
    match r.err with
    | some e => ⟨r.H, some e⟩
    | none => applyObservers h k rm x gs r.H

/-- `HasTraits.observe(handler, expression, remove=…)`: compile, then apply. -/
def observe (h : Heap) (handler : Nat) (root : Id) (rm : Bool) (e : Expr) (H : Hooks) : Res :=
  match e.compile with
  | .error ex => ⟨H, some ex⟩
  | .ok gs => applyObservers h ⟨handler, root⟩ rm (some root) gs H

end TraitsVerif.Model.Obs
