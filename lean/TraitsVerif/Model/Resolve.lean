/-
Model of attribute-name resolution and the per-kind access policies of
`HasTraits` objects (cluster `resolve`, property C13), transcribed from the
pinned tree:

  traits/ctraits.c      get_prefix_trait 622-643, has_traits_setattro 649-665,
                        has_traits_getattro 836-884, get_trait 890-979,
                        getattr_* 1919-2093, setattr_python 2167-2220,
                        setattr_generic 2226-2232, setattr_event 2335-2367,
                        setattr_trait 2373-2553, setattr_disallow 2860-2866,
                        setattr_readonly 2872-2907, setattr_constant 2913-2927,
                        getattr_handlers / setattr_handlers 2933-2950
  traits/has_traits.py  update_traits_class_dict 399-713 (class traits, prefix
                        traits, merge over the bases, sort 606),
                        add_trait 2801-2872, remove_trait 2874-2911,
                        __prefix_trait__ 3125-3188,
                        HasTraits 1055/1072/1076, HasStrictTraits 3464,
                        HasPrivateTraits 3530-3533
  traits/trait_types.py Python 997, ReadOnly 1017, Disallow 1044, Constant 1065,
                        Event 3861

Core Lean only.  Names are `List Char` (Python `str` slicing = `take`/`drop`).

Not modelled (see harness/props/c13.py ASSUMPTIONS): notifiers (no handler is
attached in this cluster apart from the `trait_added` listeners of `Obj.hooks`,
so `call_notifiers` is otherwise never entered; `trait_added` is assumed to keep
its `HasTraits` declaration), `property` traits, the
semantics of `delegate` traits (their resolution *is* modelled; access goes to
an opaque callback), `NULL` vs empty `__dict__` / instance-trait dict (the code
treats both alike on every path transcribed here), callable / container default
values (C10), `TRAIT_SETATTR_ORIGINAL_VALUE`.
-/
import TraitsVerif.Py.Basic
namespace TraitsVerif.Model.Resolve
open TraitsVerif

abbrev Name := List Char

/-- Attribute values the policies can tell apart.  `undef` is the `Undefined`
singleton (ReadOnly's "not yet assigned" sentinel); `obj` is any other object. -/
inductive Val where
  | none | undef | int (n : Int) | str (s : String) | obj (id : Nat)
  deriving DecidableEq, Repr, Inhabited

/-- `TraitKind` (constants.py:16-49) = index into `getattr_handlers` /
`setattr_handlers` (ctraits.c:2933-2950).  `property` (4) is outside the model. -/
inductive Kind where
  | trait | python | event | delegate | disallow | readonly | constant | generic
  deriving DecidableEq, Repr, Inhabited

/-- A `CTrait` as far as C13 is concerned.  `validator = some i` ⇔
`trait->validate != NULL`, `i` names the validator in `Env.validate`.
`tag` is the identity of the *declaration* (kept by `trait_clone`), so that
"which trait governs" is observable. -/
structure Trait where
  kind : Kind
  dflt : Val := .none
  validator : Option Nat := none
  tag : Nat := 0
  deriving DecidableEq, Repr, Inhabited

/-! ### Dictionaries keyed by names (association lists, first entry wins) -/

abbrev Map (β : Type) := List (Name × β)

def Map.get {β : Type} : Map β → Name → Option β
  | [], _ => none
  | (k', v) :: m, k => if k' = k then some v else Map.get m k

/-- `d[k] = v` -/
def Map.set {β : Type} (m : Map β) (k : Name) (v : β) : Map β := (k, v) :: m

/-- `del d[k]` (all shadowed entries go as well) -/
def Map.erase {β : Type} (m : Map β) (k : Name) : Map β := m.filter (fun e => e.1 ≠ k)

/-! ### Python string tests used by the code -/

/-- `(name[:2] == "__") and (name[-2:] == "__")`  (has_traits.py:3130) -/
def isDunder (n : Name) : Bool :=
  n.take 2 == ['_', '_'] && n.drop (n.length - 2) == ['_', '_']

/-- `name[-1:] == "_"`  (has_traits.py:467, 3147) -/
def endsUnderscore (n : Name) : Bool := n.drop (n.length - 1) == ['_']

/-- `name[:-1]` -/
def stem (n : Name) : Name := n.take (n.length - 1)

/-- `prefix == name[: len(prefix)]`  (has_traits.py:3154) -/
def prefixMatches (p n : Name) : Bool := p == n.take p.length

/-! The tie of the functions of this file to the source text is
`Props/C13.lean`: `C13_prefix_table_is_source` (the table construction below,
translator `harness/translate/prefixtable.py`) and the `C13_…_is_source`
theorems (lookup, cache, policies, `add_trait` / `remove_trait`; translators
`resolve_c.py` / `resolve_py.py`, interpreter `Model/ResL.lean`). -/

/-! ### Classes: `update_traits_class_dict` -/

/-- `prefix_list.sort(key=len, reverse=True)` (has_traits.py:606): stable, so an
element goes in front of the first element that is not strictly longer. -/
def insertDesc (e : Name × Trait) : List (Name × Trait) → List (Name × Trait)
  | [] => [e]
  | x :: xs => if x.1.length > e.1.length then x :: insertDesc e xs else e :: x :: xs

def sortPrefixes : List (Name × Trait) → List (Name × Trait)
  | [] => []
  | e :: es => insertDesc e (sortPrefixes es)

/-- The class-level tables a `HasTraits` class carries.
`ctraits`  = `__class_traits__`: declared/inherited class traits **and** every
             prefix trait `get_prefix_trait` resolved so far (the cache);
`prefixes` = `__prefix_traits__`: the list `["*"]` zipped with the traits;
`decl`     = ghost: the class traits as declared/inherited, without cache
             entries (never read by the code paths below, only by theorems). -/
structure Cls where
  ctraits : Map Trait
  prefixes : List (Name × Trait)
  decl : Map Trait
  deriving DecidableEq, Repr, Inhabited

/-- `Python().as_ctrait()` (has_traits.py:598), `any_trait` (117),
`generic_trait` (traits.py:636). -/
def pythonDefault : Trait := { kind := .python, dflt := .undef, tag := 900 }
def anyTrait : Trait := { kind := .trait, dflt := .none, tag := 905 }
def genericTrait : Trait := { kind := .generic, dflt := .none, tag := 906 }

/-- has_traits.py:574-586: `for name, value in base[ClassTraits].items():
if name not in class_traits: class_traits[name] = value`. -/
def mergeMap (acc base : Map Trait) : Map Trait :=
  base.foldl (fun acc e => match acc.get e.1 with
    | some _ => acc
    | none => acc.set e.1 e.2) acc

/-- has_traits.py:588-593: `for name in base_prefix_traits["*"]: if name not in
prefix_list: prefix_list.append(name); prefix_traits[name] = base[name]`. -/
def mergePrefixes (acc base : List (Name × Trait)) : List (Name × Trait) :=
  base.foldl (fun acc e => match Map.get acc e.1 with
    | some _ => acc
    | none => acc ++ [e]) acc

/-- has_traits.py:443-508: a class attribute that is a trait becomes a class
trait, or, when its name ends in `_`, a prefix trait for `name[:-1]`. -/
def ownTraits (decls : List (Name × Trait)) : Map Trait :=
  decls.filter (fun d => !endsUnderscore d.1)

def ownPrefixes (decls : List (Name × Trait)) : List (Name × Trait) :=
  (decls.filter (fun d => endsUnderscore d.1)).map (fun d => (stem d.1, d.2))

/-- has_traits.py:595-598: "Make sure there is a definition for 'undefined' traits". -/
def ensureDefault (pl : List (Name × Trait)) : List (Name × Trait) :=
  match Map.get pl [] with
  | some _ => pl
  | none => pl ++ [([], pythonDefault)]

/-- `update_traits_class_dict(class_name, bases, class_dict)` restricted to the
class traits and prefix traits.  `decls` = the trait-valued entries of
`class_dict` in definition order (keys of a dict: pairwise distinct). -/
def mkClass (bases : List Cls) (decls : List (Name × Trait)) : Cls :=
  { ctraits := bases.foldl (fun acc b => mergeMap acc b.ctraits) (ownTraits decls)
    prefixes := sortPrefixes (ensureDefault
      (bases.foldl (fun acc b => mergePrefixes acc b.prefixes) (ownPrefixes decls)))
    decl := bases.foldl (fun acc b => mergeMap acc b.decl) (ownTraits decls) }

/-! ### Objects and the world -/

/-- `hooks`: the `trait_added` listeners of the object that matter for C13,
`obj.on_trait_change(h, 'trait_added')` with
`h = lambda new: obj.add_trait(new, t) if new.startswith(p)`, as pairs `(p, t)`
in registration order. -/
structure Obj where
  cls : Nat
  itraits : Map Trait := []
  dict : Map Val := []
  hooks : List (Name × Trait) := []
  deriving DecidableEq, Repr, Inhabited

structure World where
  classes : List Cls
  objs : List Obj
  deriving DecidableEq, Repr, Inhabited

/-- Parameters: validators (C01/C03 own their semantics), the attributes
`PyObject_GenericGetAttr` finds on the *type* (methods …), delegate access. -/
structure Env where
  validate : Nat → Callback Val Val
  classAttr : Name → Option Val
  delegGet : Callback Name Val
  delegSet : Callback (Name × Option Val) Unit

/-- `get_trait(obj, name, 0)` (ctraits.c:902-938 with instance = 0): existing
instance trait, else existing class trait, else None.  Never creates. -/
def trait0 (c : Cls) (o : Obj) (n : Name) : Option Trait :=
  match o.itraits.get n with
  | some t => some t
  | none => c.ctraits.get n

/-- has_traits.py:3152-3181 without handlers: first entry of the sorted list
whose prefix equals `name[:len(prefix)]`. -/
def firstMatch (ps : List (Name × Trait)) (name : Name) : Option (Name × Trait) :=
  ps.find? (fun e => prefixMatches e.1 name)

def classDunder : Name := "__class__".toList

/-- `HasTraits.__prefix_trait__(name, is_set)` (has_traits.py:3125-3188). -/
def prefixTrait (c : Cls) (o : Obj) (name : Name) (isSet : Bool) : Except Exc Trait :=
  if isDunder name then
    if name = classDunder then .ok genericTrait            -- 3131-3132
    else if isSet then .ok anyTrait                        -- 3136-3137
    else .error .attributeError                            -- 3141-3144
  else
    -- 3147-3150: `name_` shadows a delegate trait `name`
    let shadow : Option Trait :=
      if endsUnderscore name then
        match trait0 c o (stem name) with
        | some t => if t.kind = .delegate then some t else none
        | none => none
      else none
    match shadow with
    | some t => .ok t
    | none =>
      match firstMatch c.prefixes name with                -- 3153-3181
      | some e => .ok e.2
      | none => .error .other                              -- 3185 SystemError

/-- `obj.trait_added = name` (ctraits.c:633, has_traits.py:2872) as far as it
matters here: every listener whose prefix matches runs `add_trait(name, t)`.
At both firing sites a trait of that name already exists (the class entry just
cached / the instance trait just added), so the nested `add_trait` only sets
`itrait_dict[name]` and does not fire again (has_traits.py:2835-2872). -/
def fireTraitAdded (o : Obj) (name : Name) : Obj :=
  o.hooks.foldl (fun o h =>
    if prefixMatches h.1 name then { o with itraits := o.itraits.set name h.2 } else o) o

/-- `get_prefix_trait(obj, name, is_set)` (ctraits.c:622-643): resolve, **store
the result in the class dictionary**, fire `trait_added` (listeners may add an
instance trait for this very name), then return `get_trait(obj, name, 0)` — the
name is resolved *again*, so that an instance trait added meanwhile governs. -/
def getPrefixTrait (w : World) (oi : Nat) (o : Obj) (c : Cls) (name : Name) (isSet : Bool) :
    World × Except Exc Trait :=
  match prefixTrait c o name isSet with
  | .error e => (w, .error e)
  | .ok t =>
    let c' : Cls := { c with ctraits := c.ctraits.set name t }       -- 630
    let o' : Obj := fireTraitAdded o name                            -- 633
    ({ classes := w.classes.set o.cls c', objs := w.objs.set oi o' },
     .ok (match o'.itraits.get name with | some it => it | none => t))   -- 637

/-- Lookup order of `has_traits_setattro` (ctraits.c:654-662). -/
def resolveSet (w : World) (oi : Nat) (o : Obj) (c : Cls) (name : Name) : World × Except Exc Trait :=
  match o.itraits.get name with
  | some t => (w, .ok t)
  | none =>
    match c.ctraits.get name with
    | some t => (w, .ok t)
    | none => getPrefixTrait w oi o c name true

/-! ### Access policies per kind -/

/-- `PyObject_GenericGetAttr` on an object whose type has only non-data
descriptors / plain attributes: instance dict, then type. -/
def genericGet (E : Env) (d : Map Val) (name : Name) : Except Exc Val :=
  match d.get name with
  | some v => .ok v
  | none =>
    match E.classAttr name with
    | some v => .ok v
    | none => .error .attributeError

/-- `setattr_python` (ctraits.c:2167-2220); `value = none` is `del`. -/
def setattrPython (d : Map Val) (name : Name) (value : Option Val) : Except Exc (Map Val) :=
  match value with
  | some v => .ok (d.set name v)
  | none =>
    match d.get name with
    | some _ => .ok (d.erase name)
    | none => .error .attributeError

/-- `trait->getattr(trait, obj, name)`: value and new `__dict__`. -/
def getattrKind (E : Env) (t : Trait) (d : Map Val) (name : Name) : Except Exc (Val × Map Val) :=
  match t.kind with
  | .trait | .readonly =>                    -- getattr_trait 1953-2012 (handlers[0], [6])
    .ok (t.dflt, d.set name t.dflt)          --   default_value_for (constant default) stored
  | .python | .generic =>                    -- getattr_python / getattr_generic
    (genericGet E d name).map (fun v => (v, d))
  | .event => .error .attributeError         -- getattr_event 1939-1947
  | .disallow => .error .attributeError      -- getattr_disallow 2071-2082
  | .constant => .ok (t.dflt, d)             -- getattr_constant 2088-2093
  | .delegate => (E.delegGet 0 name).map (fun v => (v, d))

/-- `trait->setattr(trait, trait, obj, name, value)`: new `__dict__`. -/
def setattrKind (E : Env) (t : Trait) (d : Map Val) (name : Name) (value : Option Val) :
    Except Exc (Map Val) :=
  match t.kind with
  | .trait =>                                -- setattr_trait 2373-2553, no notifiers
    match value with
    | none => .ok (d.erase name)             --   2392-2443: absent → return 0
    | some v =>
      match t.validator with
      | some i =>
        if v = .undef then .ok (d.set name v)   -- 2448: Undefined is not validated
        else (E.validate i 0 v).map (fun v' => d.set name v')
      | none => .ok (d.set name v)
  | .python => setattrPython d name value
  | .generic => setattrPython d name value   -- PyObject_GenericSetAttr, no data descriptor
  | .event =>                                -- setattr_event 2335-2367
    match value with
    | none => .ok d
    | some v =>
      match t.validator with
      | some i => (E.validate i 0 v).map (fun _ => d)
      | none => .ok d
  | .disallow => .error .traitError          -- setattr_disallow 2860-2866
  | .readonly =>                             -- setattr_readonly 2872-2907
    match value with
    | none => .error .traitError             --   2881-2883 delete_readonly_error
    | some v =>
      if t.dflt ≠ .undef then .error .traitError     -- 2885-2887
      else
        match d.get name with
        | none => setattrPython d name (some v)      -- 2890-2892, 2899-2900
        | some cur =>
          if cur = .undef then setattrPython d name (some v)
          else .error .traitError                    -- 2902-2904
  | .constant => .error .traitError          -- setattr_constant 2913-2927
  | .delegate => (E.delegSet 0 (name, value)).map (fun _ => d)

/-! ### The operations -/

inductive Op where
  | mkClass (bases : List Nat) (decls : List (Name × Trait))
  | new (cls : Nat)
  | get (o : Nat) (n : Name)
  | set (o : Nat) (n : Name) (v : Val)
  | del (o : Nat) (n : Name)
  | addTrait (o : Nat) (n : Name) (t : Trait)
  | removeTrait (o : Nat) (n : Name)
  | getTrait (o : Nat) (n : Name) (inst : Int)
  | hook (o : Nat) (p : Name) (t : Trait)    -- on_trait_change(add_trait-listener, 'trait_added')
  deriving Repr

inductive Out where
  | done
  | val (v : Val)
  | bool (b : Bool)
  | trait (t : Option Trait)
  | cls (i : Nat)
  | obj (i : Nat)
  deriving DecidableEq, Repr

/-- `obj.__dict__ = d` on the object as it is *now* (a `trait_added` listener may
have changed its instance traits during the resolution). -/
def setDict (w : World) (oi : Nat) (d : Map Val) : World :=
  { w with objs := w.objs.modify oi (fun o => { o with dict := d }) }

/-- `has_traits_setattro(obj, name, value)`; `value = none` is `delattr`. -/
def setattro (E : Env) (w : World) (oi : Nat) (o : Obj) (c : Cls) (name : Name)
    (value : Option Val) : World × Except Exc Out :=
  match resolveSet w oi o c name with
  | (w', .error e) => (w', .error e)
  | (w', .ok t) =>
    match setattrKind E t o.dict name value with
    | .error e => (w', .error e)
    | .ok d => (setDict w' oi d, .ok .done)

/-- `has_traits_getattro(obj, name)` (ctraits.c:836-884). -/
def getattro (E : Env) (w : World) (oi : Nat) (o : Obj) (c : Cls) (name : Name) :
    World × Except Exc Out :=
  match o.dict.get name with                        -- 846-859 "performance hack"
  | some v => (w, .ok (.val v))
  | none =>
    match trait0 c o name with                      -- 862-868
    | some t =>
      match getattrKind E t o.dict name with
      | .error e => (w, .error e)
      | .ok (v, d) => (setDict w oi d, .ok (.val v))
    | none =>
      match E.classAttr name with                   -- 872-875 PyObject_GenericGetAttr
      | some v => (w, .ok (.val v))
      | none =>
        match getPrefixTrait w oi o c name false with  -- 879-881
        | (w', .error e) => (w', .error e)
        | (w', .ok t) =>
          match getattrKind E t o.dict name with
          | .error e => (w', .error e)
          | .ok (v, d) => (setDict w' oi d, .ok (.val v))

/-- `get_trait(obj, name, instance)` (ctraits.c:890-979) for
`instance ∈ {2, 1, 0, -1}` (and `-2` when no delegate is involved). -/
def getTrait (w : World) (oi : Nat) (o : Obj) (c : Cls) (name : Name) (inst : Int) :
    World × Except Exc Out :=
  match o.itraits.get name with                     -- 902-910
  | some t => (w, .ok (.trait (some t)))
  | none =>
    if inst = 1 then (w, .ok (.trait none))         -- 914-917
    else
      let found : World × Except Exc (Option Trait) :=
        match c.ctraits.get name with               -- 922
        | some t => (w, .ok (some t))
        | none =>
          if inst = 0 then (w, .ok none)            -- 924-927
          else
            match getPrefixTrait w oi o c name false with   -- 928
            | (w', .error e) => (w', .error e)
            | (w', .ok t) => (w', .ok (some t))
      match found with
      | (w', .error e) => (w', .error e)
      | (w', .ok none) => (w', .ok (.trait none))
      | (w', .ok (some t)) =>
        if inst ≤ 0 then (w', .ok (.trait (some t)))     -- 936-939
        else                                              -- 941-975: clone into the instance dict
          ({ w' with objs := w'.objs.modify oi (fun o => { o with itraits := o.itraits.set name t }) },
           .ok (.trait (some t)))

/-- `HasTraits.add_trait(name, trait)` (has_traits.py:2801-2872) for traits
without `_items` / mapped companions: `trait_added` fires when no trait of that
name existed (2835, 2871-2872). -/
def addTrait (w : World) (oi : Nat) (o : Obj) (c : Cls) (name : Name) (t : Trait) : World × Except Exc Out :=
  let o1 : Obj := { o with itraits := o.itraits.set name t }
  let o2 : Obj := match trait0 c o name with
    | some _ => o1
    | none => fireTraitAdded o1 name
  ({ w with objs := w.objs.set oi o2 }, .ok .done)

/-- `HasTraits.remove_trait(name)` (has_traits.py:2874-2911). -/
def removeTrait (w : World) (oi : Nat) (o : Obj) (c : Cls) (name : Name) : World × Except Exc Out :=
  match trait0 c o name with                        -- 2888
  | none => (w, .ok (.bool false))
  | some _ =>
    let d := o.dict.erase name                      -- 2901-2902
    match o.itraits.get name with                   -- 2906-2909
    | some _ =>
      ({ w with objs := w.objs.set oi { o with dict := d, itraits := o.itraits.erase name } },
       .ok (.bool true))
    | none => ({ w with objs := w.objs.set oi { o with dict := d } }, .ok (.bool false))

/-- Run `f` on object `oi` and its class; a dangling reference is the
harness's `bad-ref` (IndexError here). -/
def withObj (w : World) (oi : Nat) (f : Obj → Cls → World × Except Exc Out) :
    World × Except Exc Out :=
  match w.objs[oi]? with
  | none => (w, .error .indexError)
  | some o =>
    match w.classes[o.cls]? with
    | none => (w, .error .indexError)
    | some c => f o c

def step (E : Env) (w : World) : Op → World × Except Exc Out
  | .mkClass bases decls =>
    match bases.mapM (fun b => w.classes[b]?) with
    | none => (w, .error .indexError)
    | some bs => ({ w with classes := w.classes ++ [mkClass bs decls] }, .ok (.cls w.classes.length))
  | .new ci =>
    match w.classes[ci]? with
    | none => (w, .error .indexError)
    | some _ => ({ w with objs := w.objs ++ [{ cls := ci }] }, .ok (.obj w.objs.length))
  | .get oi n => withObj w oi (fun o c => getattro E w oi o c n)
  | .set oi n v => withObj w oi (fun o c => setattro E w oi o c n (some v))
  | .del oi n => withObj w oi (fun o c => setattro E w oi o c n none)
  | .addTrait oi n t => withObj w oi (fun o c => addTrait w oi o c n t)
  | .hook oi p t => withObj w oi (fun o _ =>
      ({ w with objs := w.objs.set oi { o with hooks := o.hooks ++ [(p, t)] } }, .ok .done))
  | .removeTrait oi n => withObj w oi (fun o c => removeTrait w oi o c n)
  | .getTrait oi n inst => withObj w oi (fun o c => getTrait w oi o c n inst)

def run (E : Env) : World → List Op → World × List (Except Exc Out)
  | w, [] => (w, [])
  | w, op :: ops =>
    let r := step E w op
    let rs := run E r.1 ops
    (rs.1, r.2 :: rs.2)

/-! ### The classes every hierarchy starts from -/

/-- `trait_added = Event(Str())`, `trait_modified = Event()`,
`_traits_cache__ = Any(private=True, transient=True)` (has_traits.py:1055-1076).
Validator 1 is `Str` in the harness's `Env`. -/
def hasTraitsDecls : List (Name × Trait) :=
  [ ("trait_added".toList, { kind := .event, validator := some 1, tag := 907 }),
    ("trait_modified".toList, { kind := .event, tag := 908 }),
    ("_traits_cache__".toList, { kind := .trait, dflt := .none, tag := 901 }) ]

def clsHasTraits : Cls := mkClass [] hasTraitsDecls
/-- `_ = Disallow` (has_traits.py:3464) -/
def clsHasStrictTraits : Cls := mkClass [clsHasTraits] [(['_'], { kind := .disallow, dflt := .undef, tag := 902 })]
/-- `__ = Any(private=True, transient=True)`; `_ = Disallow` (has_traits.py:3530-3533) -/
def clsHasPrivateTraits : Cls :=
  mkClass [clsHasTraits] [(['_', '_'], { kind := .trait, dflt := .none, tag := 903 }),
                          (['_'], { kind := .disallow, dflt := .undef, tag := 902 })]

/-- Class 0 = `HasTraits`, 1 = `HasStrictTraits`, 2 = `HasPrivateTraits`; no objects. -/
def World.init : World :=
  { classes := [clsHasTraits, clsHasStrictTraits, clsHasPrivateTraits], objs := [] }

end TraitsVerif.Model.Resolve
