/-
LisL — a small deep-embedded language for the methods of `ListenerItem`
(traits/traits_listener.py) that property C16 is about, and its interpreter.

`harness/translate/legacysrc.py` reads the SOURCE of

  ListenerItem.register / unregister                 (guards, order of the effects)
  ListenerItem._register_simple / _register_list / _register_dict   (+ the class-level alias
      `_register_set = _register_list`, the module table `type_map`, the constants
      ANY_LISTENER / SRC_LISTENER / DST_LISTENER)
  ListenerItem.handle_simple / handle_list / handle_list_items / handle_dict /
      handle_dict_items / handle_dst / handle_error

with Python `ast` and emits them as terms of the types below
(`Generated/LegacyProg.lean`, regenerated from the working tree on every run).  Control flow
(`if / elif / else`, early `return`, `raise`, `for`) is kept as it is written; the leaves are
the effects the listener machinery has on the outside world:

  hook      object._on_trait_change(<handler>, name [+ "_items"], remove=remove, …)
  walk      next.register / next.unregister applied to getattr(object, name) (one value, every
            item, every `.values()` item)
  active    self.active[new] = … / self.active.pop(old, None)

The interpreter is total (structural recursion; `call` of one handle_* method by another goes
through a fuel of 2, the nesting depth of the source).  Core Lean only.
-/
import TraitsVerif.Model.Legacy
namespace TraitsVerif.Model.LisL
open TraitsVerif.Model.Legacy

/-- The bound methods of `ListenerItem` that are installed as notifiers. -/
inductive Meth where
  | simple | dst | list | listItems | listItemsSpecial | dict | dictItems | error
  deriving DecidableEq, Repr

/-- Values a condition can test. -/
inductive Val where
  | new | old
  deriving DecidableEq, Repr

/-- Atomic tests occurring in the translated methods. -/
inductive Atom where
  | nextIsNone                 -- `next is None`            (`next = self.next`)
  | notify                     -- `self.notify`
  | typeIs (n : Nat)           -- `self.type == <constant>`
  | isListHandler              -- `self.is_list_handler`
  | remove                     -- `remove`
  | deferred                   -- `self.deferred`
  | materialised               -- `name in object.__dict__`
  | handlerDead                -- `handler is Undefined`
  | dispatchSame               -- `self.dispatch == "same"`
  | isNone (v : Val)           -- `v is None`
  | isUndefined (v : Val)      -- `v is Undefined`
  | isUninit (v : Val)         -- `v is Uninitialized`
  | inActive (v : Val)         -- `v in self.active`
  | hasChanged                 -- `len(new.changed) > 0`
  | itemsSuffix                -- `name.endswith("_items")`
  deriving DecidableEq, Repr

inductive Cond where
  | atom (a : Atom)
  | not (c : Cond)
  | and (a b : Cond)
  | or (a b : Cond)
  deriving Repr

/-- What is passed as the handler of an `_on_trait_change` call. -/
inductive HExp where
  | handler                    -- the local `handler` (= `self.handler()`, the user's handler)
  | tlHandler                  -- the local `tl_handler`
  | tlHandlerItems             -- the local `tl_handler_items`
  | meth (m : Meth)            -- `self.<method>` written in place
  deriving DecidableEq, Repr

/-- Statements of `_register_simple / _register_list / _register_dict`. -/
inductive Stmt where
  | skip
  | seq (a b : Stmt)
  | ite (c : Cond) (t e : Stmt)
  | getHandler                                   -- `handler = self.handler()`
  | setTl (items : Bool) (m : Meth)              -- `tl_handler[_items] = self.<m>`
  | hook (h : HExp) (items : Bool) (extended : Bool)
      -- `object._on_trait_change(h, name [+ "_items"], remove=remove, dispatch=self.dispatch | "extended",
      --                          priority=self.priority, target=self._get_target())`
  | hookAny (h : HExp)
      -- `object._on_trait_change(h, remove=remove, dispatch=self.dispatch, …)`: an anytrait notifier
  | raise
  | retDest                                      -- `return (object, name)`
  | retInvalid                                   -- `return INVALID_DESTINATION`
  | retNext (reg : Bool)                         -- `return next.register|unregister(getattr(object, name))`
  | setIter (reg : Bool)                         -- `handler = next.register|unregister`
  | forEach (values : Bool)                      -- `for obj in getattr(object, name)[.values()]: handler(obj)`
  deriving Repr

/-- Who a hooked notifier refers to. -/
inductive Who where
  | user
  | tl (m : Meth)
  deriving DecidableEq, Repr

/-- How the method goes on into the next item. -/
inductive Tail where
  | none                                         -- nothing below is visited
  | one (reg : Bool)                             -- next.(un)register(the value)
  | each (reg : Bool) (values : Bool)            -- … of every item / every `.values()` item
  deriving DecidableEq, Repr

/-- The listener item and call a method body is evaluated for. -/
structure Env where
  nextNone : Bool
  notify : Bool
  type : Nat
  isListHandler : Bool := false
  remove : Bool
  deferred : Bool := false
  materialised : Bool := true
  handlerDead : Bool := false
  dispatchSame : Bool := true
  /-- facts about the value `new` / `old` (register / unregister / handle_*) -/
  valNone : Bool := false
  valUndefined : Bool := false
  valUninit : Bool := false
  valActive : Bool := false
  hasChanged : Bool := false
  itemsSuffix : Bool := true

def evalAtom (e : Env) : Atom → Bool
  | .nextIsNone => e.nextNone
  | .notify => e.notify
  | .typeIs n => e.type == n
  | .isListHandler => e.isListHandler
  | .remove => e.remove
  | .deferred => e.deferred
  | .materialised => e.materialised
  | .handlerDead => e.handlerDead
  | .dispatchSame => e.dispatchSame
  | .isNone _ => e.valNone
  | .isUndefined _ => e.valUndefined
  | .isUninit _ => e.valUninit
  | .inActive _ => e.valActive
  | .hasChanged => e.hasChanged
  | .itemsSuffix => e.itemsSuffix

def evalCond (e : Env) : Cond → Bool
  | .atom a => evalAtom e a
  | .not c => !evalCond e c
  | .and a b => evalCond e a && evalCond e b
  | .or a b => evalCond e a || evalCond e b

/-- State of the evaluation of a `_register_*` body. -/
structure Out where
  hooks : List (Bool × Who × Bool) := []       -- (on `<name>_items`?, who, dispatch "extended"?) in call order
  anyHooks : List Who := []                    -- anytrait notifiers (`_register_anytrait`)
  tl : Meth := .error
  tlItems : Meth := .error
  iter : Option Bool := none
  tail : Tail := .none
  done : Bool := false
  raised : Bool := false
  deriving Repr

def whoOf (o : Out) : HExp → Who
  | .handler => .user
  | .tlHandler => .tl o.tl
  | .tlHandlerItems => .tl o.tlItems
  | .meth m => .tl m

def exec (e : Env) : Stmt → Out → Out
  | .skip, o => o
  | .seq a b, o => exec e b (exec e a o)
  | .ite c t f, o => if o.done then o else if evalCond e c then exec e t o else exec e f o
  | .getHandler, o => o
  | .setTl items m, o => if o.done then o else if items then { o with tlItems := m } else { o with tl := m }
  | .hook h items ext, o => if o.done then o else { o with hooks := o.hooks ++ [(items, whoOf o h, ext)] }
  | .hookAny h, o => if o.done then o else { o with anyHooks := o.anyHooks ++ [whoOf o h] }
  | .raise, o => if o.done then o else { o with done := true, raised := true }
  | .retDest, o => if o.done then o else { o with done := true }
  | .retInvalid, o => if o.done then o else { o with done := true }
  | .retNext reg, o => if o.done then o else { o with done := true, tail := .one reg }
  | .setIter reg, o => if o.done then o else { o with iter := some reg }
  | .forEach values, o =>
    if o.done then o else
      match o.iter with
      | some reg => { o with tail := .each reg values }
      | none => { o with done := true, raised := true }

/-! ### the handle_* methods -/

/-- Where a `for` of a handle_* method takes its objects from. -/
inductive Src where
  | old | new | oldValues | newValues
  deriving DecidableEq, Repr

/-- An argument of a call of one handle_* method by another. -/
inductive Arg where
  | old | new | removed | added
  deriving DecidableEq, Repr

inductive HStmt where
  | skip
  | seq (a b : HStmt)
  | ite (c : Cond) (t e : HStmt)
  | bind (reg : Bool)                      -- `register = self.next.register` / `unregister = self.next.unregister`
  | nextCall (reg : Bool)                  -- `self.next.register(new)` / `self.next.unregister(old)`
  | forCall (reg : Bool) (s : Src)         -- `for obj in <s>: (un)register(obj)`
  | call (m : Meth) (a b : Arg)            -- `self.<m>(object, name, a, b)`
  | stripItems                             -- `name = name[:-len("_items")]`
  | getDict                                -- `dict = getattr(object, name)`
  | forChanged                             -- `for key, obj in new.changed.items(): unregister(obj); register(dict[key])`
  | wrapped                                -- calls of the wrapped user handler / `raise` (DST signatures; not in the fragment)
  deriving Repr

/-- A container event as the handlers see it: for a reassignment `olds` / `news` are the items of
the old / new value (`[v]` or `[]` for an Instance link), for an `_items` event the `removed` /
`added` parts, and `changed` the (old value, current value) pairs of a TraitDictEvent. -/
structure Ev where
  olds : List Nat
  news : List Nat
  changed : List (Nat × Nat) := []

/-- `removed` / `added` of an `_items` event become `old` / `new` of the callee. -/
def runH (table : Meth → Option HStmt) (isItems : Bool) : Nat → Ev → HStmt → List Act
  | _, _, .skip => []
  | f, ev, .seq a b => runH table isItems f ev a ++ runH table isItems f ev b
  | f, ev, .ite c t e =>
    if evalCond { nextNone := false, notify := false, type := 0, remove := false,
                  hasChanged := !ev.changed.isEmpty } c
    then runH table isItems f ev t else runH table isItems f ev e
  | _, _, .bind _ => []
  | _, ev, .nextCall reg => if reg then regAll ev.news else unregAll ev.olds
  | _, ev, .forCall reg s =>
    let xs := match s with
      | .old | .oldValues => ev.olds
      | .new | .newValues => ev.news
    if reg then regAll xs else unregAll xs
  | 0, _, .call _ _ _ => []
  | f + 1, ev, .call m a b =>
    -- only the argument shapes of the source: (new.removed, new.added) or (old, new)
    match table m with
    | some body =>
      if (a = .removed ∧ b = .added) ∨ (a = .old ∧ b = .new) then
        runH table isItems f { ev with changed := [] } body
      else []
    | none => []
  | _, _, .stripItems => []
  | _, _, .getDict => []
  | _, ev, .forChanged => ev.changed.flatMap (fun c => [Act.unreg c.1, Act.reg c.2])
  | _, _, .wrapped => []

/-- `DefaultValue.<…>` kinds that occur as keys of `type_map` (`constant` stands for every other). -/
inductive DVT where
  | constant | list | dict | set
  deriving DecidableEq, Repr

/-- The `_register_<kind>` method names (values of SIMPLE_/LIST_/DICT_/SET_LISTENER). -/
inductive RegName where
  | simple | list | dict | set | anytrait
  deriving DecidableEq, Repr

/-- Everything the translator extracts. -/
structure Prog where
  anyListener : Nat
  srcListener : Nat
  dstListener : Nat
  /-- `type_map`: default-value-type name ↦ `_register_*` method name -/
  typeMap : List (DVT × RegName)
  /-- the value of `type_map.get(…, SIMPLE_LISTENER)`'s default -/
  simpleListener : RegName
  /-- class-level aliases `_register_set = _register_list` -/
  aliases : List (RegName × RegName)
  regMethods : List (RegName × Stmt)
  /-- `register`: the condition under which it returns at once -/
  registerSkip : Cond
  /-- `register`: the effects of the non-wildcard path in source order
  ("active" = `self.active[new] = …`, "classify" = the `type_map` lookup, "append", "call:False") -/
  registerOrder : List String
  /-- `unregister`: the condition under which it looks at `self.active` at all -/
  unregisterGuard : Cond
  /-- `unregister`: effects in source order ("pop", "ifpopped", "call:True") -/
  unregisterOrder : List String
  handlers : List (Meth × HStmt)

/-! ### the wildcard / metadata branch of `register` and `_new_trait_added` -/

/-- The module-level metadata filter functions, by what their body tests. -/
inductive Filter where
  | notNone | isNone | notEvent
  deriving DecidableEq, Repr

/-- The `if last == "*":` branch of `register` as data (everything else of its shape is fixed by the translator). -/
structure Wild where
  /-- `if self.is_anytrait:` comes first: `self.active[new] = [("", ANYTRAIT_LISTENER)]`, then
  `return self._register_anytrait(new, "", False)` -/
  anytraitFirst : Bool
  /-- `{"type": <f>}` -/
  baseFilter : Filter
  /-- `metadata[self.metadata_name] = <f>` under `self.metadata_defined` / otherwise -/
  definedFilter : Filter
  undefinedFilter : Filter
  /-- … only `if self.metadata_name != ""` -/
  metaOnlyIfNamed : Bool
  /-- the prefix filter `name == aname[:n]` only `if name != ""` -/
  prefixOnlyIfNonEmpty : Bool
  /-- `new.on_trait_change(self._new_trait_added, "trait_added")` -/
  hooksTraitAdded : Bool
  /-- `_new_trait_added` classifies the new trait by `handler.default_value_type`, the attribute `register` reads -/
  lateUsesDefaultValueType : Bool

/-- What the listener looks at of a trait of the object. -/
structure TInfo where
  name : Nat
  hasPrefix : Bool          -- the trait name starts with the item's prefix
  isEvent : Bool            -- `trait.type == "event"`
  metaSet : Bool            -- the item's metadata attribute of the trait is not None
  dvt : DVT

def Filter.holds (f : Filter) (t : TInfo) (onType : Bool) : Bool :=
  match f with
  | .notNone => if onType then true else t.metaSet
  | .isNone => if onType then false else !t.metaSet
  | .notEvent => if onType then !t.isEvent else true

/-- The traits `register` selects for a wildcard item (`names` after both filters). -/
def Wild.selected (W : Wild) (metaNamed metaDefined prefixNonEmpty : Bool) (ts : List TInfo) : List TInfo :=
  ts.filter (fun t =>
    W.baseFilter.holds t true &&
    (if W.metaOnlyIfNamed && !metaNamed then true
     else (if metaDefined then W.definedFilter else W.undefinedFilter).holds t false) &&
    (if W.prefixOnlyIfNonEmpty && !prefixNonEmpty then true else t.hasPrefix))

/-- `trait.handler.default_value_type` of the link traits of the fragment, by the names used in
`type_map` (`Instance` has `DefaultValue.constant`, which is not in the table). -/
def dvtOf : Attr → DVT
  | .child => .constant
  | .kids => .list
  | .byname => .dict
  | .group => .set

def lookup [DecidableEq κ] (l : List (κ × α)) (k : κ) : Option α := (l.find? (·.1 = k)).map (·.2)

/-- `getattr(self, type_map.get(handler.default_value_type, SIMPLE_LISTENER))`. -/
def regBody (P : Prog) (dvt : DVT) : Option Stmt :=
  let name := (lookup P.typeMap dvt).getD P.simpleListener
  let name := (lookup P.aliases name).getD name
  lookup P.regMethods name

/-- The `_register_<kind>` method `register` uses for a trait … -/
def regKind (P : Prog) (dvt : DVT) : RegName :=
  let name := (lookup P.typeMap dvt).getD P.simpleListener
  (lookup P.aliases name).getD name

/-- … and the one `_new_trait_added` uses for a trait added later. -/
def lateKind (P : Prog) (W : Wild) (dvt : DVT) : RegName :=
  if W.lateUsesDefaultValueType then regKind P dvt else P.simpleListener

def typeNum (P : Prog) : LType → Nat
  | .any => P.anyListener
  | .src => P.srcListener

/-- Evaluate the `_register_*` method chosen for a trait. -/
def summary (P : Prog) (dvt : DVT) (e : Env) : Out :=
  match regBody P dvt with
  | some b => exec e b {}
  | none => { done := true, raised := true }

def toHook (k : Nat) (a : Attr) (p : Bool × Who × Bool) : Trait × HRef :=
  (if p.1 then Trait.items a else Trait.link a,
   match p.2.1 with
   | .user => HRef.user
   | .tl _ => HRef.tl k)

def toFinalHook (f : Final) (p : Bool × Who × Bool) : Trait × HRef :=
  (Trait.final f, match p.2.1 with | .user => HRef.user | .tl _ => HRef.tl 0)

/-- The objects `getattr(object, name)` yields for a tail (`None` yields nothing:
`register` / `unregister` return at once for it, see `registerSkip`). -/
def walked (h : Heap) (a : Attr) (o : Nat) : Tail → Option (Bool × List Nat)
  | .none => none
  | .one reg => if a = .child then some (reg, targets h a o) else none
  | .each reg values =>
    if a ≠ .child ∧ (values = decide (a = .byname)) then some (reg, targets h a o) else none

/-- `ListenerItem.register` (`remove = false`) / `unregister` (`remove = true`) of item `k`
read off the translated source. -/
def regSrc (P : Prog) (h : Heap) (ty0 : LType) (fin : Final) (remove : Bool) :
    Nat → List Link → Nat → LState → LState
  | k, [], o, s =>
    let act := decide (o ∈ s.active k)
    let go := if remove then evalCond { nextNone := true, notify := true, type := 0, remove := true } P.unregisterGuard && act
              else !evalCond { nextNone := true, notify := true, type := 0, remove := false, valActive := act } P.registerSkip
    if go then
      let out := summary P .constant { nextNone := true, notify := true, type := typeNum P (typeOf ty0 k), remove := remove }
      let hooks := out.hooks.map (toFinalHook fin)
      if remove then (s.popActive k o).delHooks o hooks else (s.addActive k o).addHooks o hooks
    else s
  | k, l :: rest, o, s =>
    let act := decide (o ∈ s.active k)
    let go := if remove then evalCond { nextNone := false, notify := l.notify, type := 0, remove := true } P.unregisterGuard && act
              else !evalCond { nextNone := false, notify := l.notify, type := 0, remove := false, valActive := act } P.registerSkip
    if go then
      let out := summary P (dvtOf l.attr)
        { nextNone := false, notify := l.notify, type := typeNum P (typeOf ty0 k), remove := remove }
      let hooks := out.hooks.map (toHook k l.attr)
      let s1 := if remove then (s.popActive k o).delHooks o hooks else (s.addActive k o).addHooks o hooks
      match walked h l.attr o out.tail with
      | some (reg, xs) =>
        if reg = !remove then xs.foldl (fun s c => regSrc P h ty0 fin remove (k + 1) rest c s) s1 else s1
      | none => s1
    else s

/-- The method installed on `name` (`items = false`) / `name_items` for a link trait. -/
def handlerFor (P : Prog) (l : Link) (ty : LType) (items : Bool) : Option Meth :=
  let out := summary P (dvtOf l.attr) { nextNone := false, notify := l.notify, type := typeNum P ty, remove := false }
  (out.hooks.findSome? (fun p => match p.2.1 with
    | .tl m => if p.1 = items then some m else none
    | .user => none))

/-- The script a handle_* method runs for an event. -/
def handleSrc (P : Prog) (m : Meth) (isItems : Bool) (ev : Ev) : List Act :=
  match (P.handlers.find? (·.1 = m)).map (·.2) with
  | some body => runH (fun m => (P.handlers.find? (·.1 = m)).map (·.2)) isItems 2 ev body
  | none => []

end TraitsVerif.Model.LisL
