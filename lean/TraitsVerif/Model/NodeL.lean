/-
Cluster `obs`: NodeL — a small deep-embedded language into which
`harness/translate/nodel.py` translates the SOURCE TEXT of the IObserver interface
of the five observers reachable through `traits.observation.api`

  traits/observation/_named_trait_observer.py     NamedTraitObserver
  traits/observation/_list_item_observer.py       ListItemObserver
  traits/observation/_dict_item_observer.py       DictItemObserver
  traits/observation/_set_item_observer.py        SetItemObserver
  traits/observation/_filtered_trait_observer.py  FilteredTraitObserver
      __init__, iter_observables, iter_objects, get_notifier, get_maintainer, iter_extra_graphs
  traits/observation/_has_traits_helpers.py       object_has_named_trait, iter_objects
  traits/observation/_anytrait_filter.py          anytrait_filter
  traits/observation/_metadata_filter.py          MetadataFilter.__call__

(one constructor per Python construct) and its total interpreter over the model
heap (Model/Heap.lean) and the observers / observables / notifier keys of
Model/ObsGraph.lean.  Everything is structural: an expression never loops, a
statement loops only over the traits of one instance (`forTraits`), calls go
through a handler that is a PARAMETER of the interpreter: the methods run with the
handler `callTable` (a call runs the translated callee with a handler that refuses
every call: the helpers and the filters call nothing that is translated).

Generators are evaluated eagerly: the yields are collected in order, an exception
discards them (the consumers in _observe.py iterate a generator to its end before
they act on the next one; their loop bodies never change the heap).

Trusted here (the denotation of the primitives): `isinstance(o, TraitList/TraitDict/
TraitSet/CHasTraits)` is the kind of the heap cell; `o._trait(n, 0)` is `None` iff the
instance has no trait `n`; `o._trait(n, 2)` is the observable `.trait o n`;
`o.traits().items()` lists the fields in order and raises AttributeError on anything
but an instance; `o.__dict__.get(n, d)` is the field value, `d` when absent;
`getattr(ctrait, metadata_name) is not None` is `Field.tagged`; iterating a
container / `.values()` lists its items; `Filter.anyTrait` is the function
`anytrait_filter`, `Filter.metadata` an instance of `MetadataFilter`.
-/
import TraitsVerif.Model.ObsGraph
namespace TraitsVerif.Model.NodeL
open TraitsVerif TraitsVerif.Model.Obs

/-! ### syntax -/

/-- the classes tested with `isinstance`, resolved through the imports of the module -/
inductive Cls where
  | cHasTraits | traitList | traitDict | traitSet
  deriving DecidableEq, Repr

/-- sentinels: `Undefined`, `Uninitialized` (traits.trait_base), `None` -/
inductive Const where
  | undefined | uninitialized | noneLit
  deriving DecidableEq, Repr

/-- attributes of `self` (slots of the observers / of `MetadataFilter`) -/
inductive SF where
  | name | notify | optional | filter | metadataName | matchFunc | wrapped
  deriving DecidableEq, Repr

/-- a `prevent_event=` argument: a module-level function by qualified name, or
`lambda event: <bool literal>` -/
inductive PE where
  | ref (q : String)
  | constLam (b : Bool)
  deriving DecidableEq, Repr

inductive Ex where
  | var (i : Nat)                          -- a parameter / local (slot)
  | selfF (f : SF)                         -- `self.<f>`
  | boolLit (b : Bool)
  | const (c : Const)
  | not (e : Ex)                           -- `not e`
  | and (a b : Ex)                         -- `a and b`
  | eq (a b : Ex)                          -- `a == b`
  | isNotNone (e : Ex)                     -- `e is not None`
  | isInstance (e : Ex) (c : Cls)          -- `isinstance(e, C)`
  | traitOf (o n : Ex) (mode : Nat)        -- `o._trait(n, mode)`
  | dictGet (o n d : Ex)                   -- `o.__dict__.get(n, d)`
  | allIsNot (e : Ex) (cs : List Const)    -- `all(e is not s for s in [c1, ..])`
  | getattr (o n : Ex)                     -- `getattr(o, n)`
  | call2 (f : String) (a b : Ex)          -- `f(a, b)`, f a module-level function (qualified name)
  | callF (f a b : Ex)                     -- `f(a, b)`, f a value (`self.filter`)
  | userNotifier (handler target dispatcher : Ex) (eventFactory : String) (preventEvent : PE)
      -- `TraitEventNotifier(handler=…, target=…, dispatcher=…, event_factory=…, prevent_event=…)`
  | maintNotifier (observerHandler eventFactory : String) (preventEvent : PE)
      (graph handler target dispatcher : Ex)
      -- `ObserverChangeNotifier(observer_handler=…, event_factory=…, prevent_event=…, graph=…, handler=…, …)`
  | lam2 (i j : Nat) (body : Ex)           -- `lambda i, j: body` (body reads only i, j and `self`)
  | listedFilter (e : Ex)                  -- `_ListedTraitFilter(e)`
  | traitAdded (matchFunc optional : Ex)   -- `TraitAddedObserver(match_func=…, optional=…)`
  | graph1 (node child : Ex)               -- `ObserverGraph(node=…, children=[child])`
  | strLit (s : String)                    -- a string constant
  | attr (e : Ex) (f : SF)                 -- `e.<f>` (e an observer value)
  | sliceFrom (e : Ex) (k : Int)           -- `e[k:]`
  | ne (a b : Ex)                          -- `a != b`
  deriving Repr

/-- what a `yield from` iterates -/
inductive It where
  | empty                                  -- `()`
  | iter (e : Ex)                          -- `e` (a TraitList / TraitSet)
  | values (e : Ex)                        -- `e.values()`
  | call2 (f : String) (a b : Ex)          -- `f(a, b)`, f a module-level generator function
  deriving Repr

inductive St where
  | skip
  | seq (a b : St)
  | assign (i : Nat) (e : Ex)
  | ifS (c : Ex) (t e : St)
  | ret                                    -- `return`
  | retE (e : Ex)                          -- `return e`
  | retTail (recv : Ex) (meth : String) (args : List Ex)   -- `return recv.meth(a1, .., an)` (n ≤ 4)
  | raise (x : Exc)                        -- `raise X(...)` (arguments dropped)
  | yield (e : Ex)
  | yieldFrom (it : It)
  | forTraits (i j : Nat) (o : Ex) (body : St)   -- `for i, j in o.traits().items():`
  deriving Repr

/-! ### values -/

mutual
/-- `self`: an observer, a `MetadataFilter`, nothing (module-level function), a
`TraitAddedObserver(match_func, optional)`, a `_RestrictedNamedTraitObserver(name, wrapped_observer)`,
a `_ListedTraitFilter(filter)` -/
inductive Self where
  | ob (o : Observer)
  | filt (f : Filter)
  | none
  | added (m : MF) (optional : Bool)
  | restricted (n : Name) (w : Observer)
  | listed (f : Filter)

/-- a `match_func` -/
inductive MF where
  | lam (i j : Nat) (body : Ex) (self : Self)
  | listed (f : Filter)
end

inductive V where
  | w (x : W)                     -- an object handed between observers (identity, or junk)
  | val (v : Val)                 -- a `__dict__` value / a sentinel
  | name (n : Name)               -- a trait name
  | bool (b : Bool)
  | metaName                      -- `self.metadata_name` of the `+tag` filter
  | filt (f : Filter)
  | ctrait (fl : Field)           -- a CTrait as listed by `traits()` / returned by `_trait(n, 0)`
  | itrait (o : Id) (n : Name)    -- the instance trait `o._trait(n, 2)`
  | handler (n : Nat)             -- the user handler (identity)
  | dispatcher
  | graph (g : Graph)
  | notifier (k : NKey) (eventFactory : String) (preventEvent : PE)
  | mf (m : MF)
  | traitAdded (m : MF) (optional : Bool)
  | extraGraph (m : MF) (optional : Bool) (child : Graph)
  | observer (ob : Observer)      -- `self._wrapped_observer`
  | str (s : String)              -- a string that names no trait
  | suffix                        -- `name[-6:]` of a trait name (the model's names never end in "_items")
  | tail (ob : Observer) (meth : String) (a b c d : V)   -- a pending `ob.meth(a, b, c[, d])` in return position

abbrev Env := Nat → Option V

def Env.empty : Env := fun _ => none
def Env.upd (ρ : Env) (i : Nat) (v : V) : Env := fun k => if k = i then some v else ρ k

/-- generator / function outcome of a statement -/
inductive Flow where
  | next (ρ : Env)
  | done (r : Option V)

/-- call handler: qualified name, `self` of the callee, two arguments ↦ (yields, returned value) -/
abbrev Call := String → Self → V → V → Except Exc (List V × Option V)

def selfField : Self → SF → Except Exc V
  | .ob (.named n _ _), .name => .ok (.name n)
  | .ob (.named _ nt _), .notify => .ok (.bool nt)
  | .ob (.named _ _ o), .optional => .ok (.bool o)
  | .ob (.listItems nt _), .notify => .ok (.bool nt)
  | .ob (.listItems _ o), .optional => .ok (.bool o)
  | .ob (.dictItems nt _), .notify => .ok (.bool nt)
  | .ob (.dictItems _ o), .optional => .ok (.bool o)
  | .ob (.setItems nt _), .notify => .ok (.bool nt)
  | .ob (.setItems _ o), .optional => .ok (.bool o)
  | .ob (.filtered f _), .filter => .ok (.filt f)
  | .ob (.filtered _ nt), .notify => .ok (.bool nt)
  | .filt .metadata, .metadataName => .ok .metaName
  | .added m _, .matchFunc => .ok (.mf m)
  | .added _ o, .optional => .ok (.bool o)
  | .restricted n _, .name => .ok (.name n)
  | .restricted _ w, .wrapped => .ok (.observer w)
  | .listed f, .filter => .ok (.filt f)
  | _, _ => .error .attributeError

def constVal : Const → Val
  | .undefined => .undef
  | .uninitialized => .unset
  | .noneLit => .none

/-- `isinstance(x, C)` -/
def isInst (h : Heap) (x : W) : Cls → Bool
  | .cHasTraits => match h.at x with | .inst _ => true | _ => false
  | .traitList => match x, h.at x with | some _, .list _ => true | _, _ => false
  | .traitDict => match x, h.at x with | some _, .dict _ => true | _, _ => false
  | .traitSet => match x, h.at x with | some _, .set _ => true | _, _ => false

/-- the handler key of `handler=…, target=…` -/
def hkey : V → V → Except Exc HKey
  | .handler hd, .w (some t) => .ok ⟨hd, t⟩
  | _, _ => .error .typeError

/-- `observer_handler=` by identity: the qualified name of the function -/
def mkindOf (q : String) : Except Exc MKind :=
  if q = "_has_traits_helpers.observer_change_handler" then .ok .trait
  else if q = "_list_item_observer._observer_change_handler" then .ok .list
  else if q = "_dict_item_observer._observer_change_handler" then .ok .dict
  else if q = "_set_item_observer._observer_change_handler" then .ok .set
  else if q = "_trait_added_observer.TraitAddedObserver.observer_change_handler" then .ok .added
  else .error .typeError

/-- the function / method a filter value is -/
def filterCallee : Filter → String × Self
  | .anyTrait => ("_anytrait_filter.anytrait_filter", .none)
  | .metadata => ("_metadata_filter.MetadataFilter.__call__", .filt .metadata)

/-! ### interpreter -/

def eval (call : Call) (h : Heap) (self : Self) : Ex → Env → Except Exc V
  | .var i, ρ => match ρ i with | some v => .ok v | none => .error .other
  | .selfF f, _ => selfField self f
  | .boolLit b, _ => .ok (.bool b)
  | .const c, _ => .ok (.val (constVal c))
  | .not e, ρ =>
    match eval call h self e ρ with
    | .ok (.bool b) => .ok (.bool (!b))
    | .ok _ => .error .typeError
    | .error x => .error x
  | .and a b, ρ =>
    match eval call h self a ρ with
    | .ok (.bool false) => .ok (.bool false)
    | .ok (.bool true) => eval call h self b ρ
    | .ok _ => .error .typeError
    | .error x => .error x
  | .eq a b, ρ =>
    match eval call h self a ρ, eval call h self b ρ with
    | .ok (.name n), .ok (.name m) => .ok (.bool (n == m))
    | .ok .suffix, .ok (.str t) => if t = "_items" then .ok (.bool false) else .error .other
    | .error x, _ => .error x
    | _, .error x => .error x
    | _, _ => .error .typeError
  | .isNotNone e, ρ =>
    match eval call h self e ρ with
    | .ok (.val .none) => .ok (.bool false)
    | .ok _ => .ok (.bool true)
    | .error x => .error x
  | .isInstance e c, ρ =>
    match eval call h self e ρ with
    | .ok (.w x) => .ok (.bool (isInst h x c))
    | .ok _ => .error .typeError
    | .error x => .error x
  | .traitOf o n mode, ρ =>
    match eval call h self o ρ, eval call h self n ρ with
    | .ok (.w x), .ok (.name nm) =>
      (match x, h.at x with
       | some i, .inst fs =>
         if mode = 0 then
           (match findField fs nm with
            | some fl => .ok (.ctrait fl)
            | none => .ok (.val .none))
         else if mode = 2 then .ok (.itrait i nm)
         else .error .other
       | _, _ => .error .attributeError)
    | .error x, _ => .error x
    | _, .error x => .error x
    | _, _ => .error .typeError
  | .dictGet o n d, ρ =>
    match eval call h self o ρ, eval call h self n ρ, eval call h self d ρ with
    | .ok (.w x), .ok (.name nm), .ok dv =>
      (match fieldVal h x nm with
       | .unset => .ok dv
       | v => .ok (.val v))
    | .error x, _, _ => .error x
    | _, .error x, _ => .error x
    | _, _, .error x => .error x
    | _, _, _ => .error .typeError
  | .allIsNot e cs, ρ =>
    match eval call h self e ρ with
    | .ok (.val v) => .ok (.bool (cs.all (fun c => v != constVal c)))
    | .ok _ => .error .typeError
    | .error x => .error x
  | .getattr o n, ρ =>
    match eval call h self o ρ, eval call h self n ρ with
    | .ok (.ctrait fl), .ok .metaName => .ok (if fl.tagged then .bool true else .val .none)
    | .error x, _ => .error x
    | _, .error x => .error x
    | _, _ => .error .typeError
  | .call2 f a b, ρ =>
    match eval call h self a ρ, eval call h self b ρ with
    | .ok va, .ok vb =>
      (match call f .none va vb with
       | .ok (_, some r) => .ok r
       | .ok (_, none) => .ok (.val .none)
       | .error x => .error x)
    | .error x, _ => .error x
    | _, .error x => .error x
  | .callF f a b, ρ =>
    match eval call h self f ρ, eval call h self a ρ, eval call h self b ρ with
    | .ok (.filt fl), .ok va, .ok vb =>
      (match call (filterCallee fl).1 (filterCallee fl).2 va vb with
       | .ok (_, some r) => .ok r
       | .ok (_, none) => .ok (.val .none)
       | .error x => .error x)
    | .error x, _, _ => .error x
    | _, .error x, _ => .error x
    | _, _, .error x => .error x
    | _, _, _ => .error .typeError
  | .userNotifier hd tg dp ef pe, ρ =>
    match eval call h self hd ρ, eval call h self tg ρ, eval call h self dp ρ with
    | .ok vh, .ok vt, .ok .dispatcher =>
      (match hkey vh vt with
       | .ok k => .ok (.notifier (.user k) ef pe)
       | .error x => .error x)
    | .error x, _, _ => .error x
    | _, .error x, _ => .error x
    | _, _, .error x => .error x
    | _, _, _ => .error .typeError
  | .maintNotifier oh ef pe g hd tg dp, ρ =>
    match eval call h self g ρ, eval call h self hd ρ, eval call h self tg ρ, eval call h self dp ρ with
    | .ok (.graph gr), .ok vh, .ok vt, .ok .dispatcher =>
      (match mkindOf oh, hkey vh vt with
       | .ok mk, .ok k => .ok (.notifier (.maint mk gr k) ef pe)
       | .error x, _ => .error x
       | _, .error x => .error x)
    | .error x, _, _, _ => .error x
    | _, .error x, _, _ => .error x
    | _, _, .error x, _ => .error x
    | _, _, _, .error x => .error x
    | _, _, _, _ => .error .typeError
  | .lam2 i j body, _ => .ok (.mf (.lam i j body self))
  | .strLit t, _ => .ok (if t = "trait_added" then .name nTraitAdded else .str t)
  | .attr e f, ρ =>
    match eval call h self e ρ with
    | .ok (.observer ob) => selfField (.ob ob) f
    | .ok _ => .error .typeError
    | .error x => .error x
  | .sliceFrom e k, ρ =>
    match eval call h self e ρ with
    | .ok (.name _) => if k = -6 then .ok .suffix else .error .other
    | .ok _ => .error .typeError
    | .error x => .error x
  | .ne a b, ρ =>
    match eval call h self a ρ, eval call h self b ρ with
    | .ok (.name n), .ok (.name m) => .ok (.bool (n != m))
    | .ok .suffix, .ok (.str t) => if t = "_items" then .ok (.bool true) else .error .other
    | .error x, _ => .error x
    | _, .error x => .error x
    | _, _ => .error .typeError
  | .listedFilter e, ρ =>
    match eval call h self e ρ with
    | .ok (.filt f) => .ok (.mf (.listed f))
    | .ok _ => .error .typeError
    | .error x => .error x
  | .traitAdded m o, ρ =>
    match eval call h self m ρ, eval call h self o ρ with
    | .ok (.mf mf), .ok (.bool b) => .ok (.traitAdded mf b)
    | .error x, _ => .error x
    | _, .error x => .error x
    | _, _ => .error .typeError
  | .graph1 n c, ρ =>
    match eval call h self n ρ, eval call h self c ρ with
    | .ok (.traitAdded mf b), .ok (.graph g) => .ok (.extraGraph mf b g)
    | .error x, _ => .error x
    | _, .error x => .error x
    | _, _ => .error .typeError

/-- the (at most four) positional arguments of a tail call, padded -/
def evalArgs (call : Call) (h : Heap) (self : Self) (ρ : Env) : List Ex → Except Exc (List V)
  | [] => .ok []
  | e :: es =>
    match eval call h self e ρ, evalArgs call h self ρ es with
    | .ok v, .ok vs => .ok (v :: vs)
    | .error x, _ => .error x
    | _, .error x => .error x

def tailOf (ob : Observer) (meth : String) : List V → Except Exc V
  | [a, b, c] => .ok (.tail ob meth a b c (.val .unset))
  | [a, b, c, d] => .ok (.tail ob meth a b c d)
  | _ => .error .typeError

/-- what a `yield from` yields -/
def evalIt (call : Call) (h : Heap) (self : Self) : It → Env → Except Exc (List V)
  | .empty, _ => .ok []
  | .iter e, ρ =>
    match eval call h self e ρ with
    | .ok (.w x) =>
      (match h.at x with
       | .list items => .ok (items.map (fun i => .w (some i)))
       | .set items => .ok (items.map (fun i => .w (some i)))
       | .dict items => .ok (items.map (fun kv => .w (some kv.1)))     -- iterating a dict: its keys
       | _ => .error .typeError)
    | .ok _ => .error .typeError
    | .error x => .error x
  | .values e, ρ =>
    match eval call h self e ρ with
    | .ok (.w x) =>
      (match h.at x with
       | .dict items => .ok (items.map (fun kv => .w (some kv.2)))
       | _ => .error .attributeError)
    | .ok _ => .error .typeError
    | .error x => .error x
  | .call2 f a b, ρ =>
    match eval call h self a ρ, eval call h self b ρ with
    | .ok va, .ok vb =>
      (match call f .none va vb with
       | .ok (ys, _) => .ok ys
       | .error x => .error x)
    | .error x, _ => .error x
    | _, .error x => .error x

/-- `for … in <fields>: body`; a `return` in the body ends the function -/
def loop (f : Field → Env → Except Exc (List V × Flow)) : List Field → Env → Except Exc (List V × Flow)
  | [], ρ => .ok ([], .next ρ)
  | fl :: fs, ρ =>
    match f fl ρ with
    | .error x => .error x
    | .ok (ys, .done r) => .ok (ys, .done r)
    | .ok (ys, .next ρ') =>
      match loop f fs ρ' with
      | .error x => .error x
      | .ok (zs, fw) => .ok (ys ++ zs, fw)

def exec (call : Call) (h : Heap) (self : Self) : St → Env → Except Exc (List V × Flow)
  | .skip, ρ => .ok ([], .next ρ)
  | .seq a b, ρ =>
    match exec call h self a ρ with
    | .error x => .error x
    | .ok (ys, .done r) => .ok (ys, .done r)
    | .ok (ys, .next ρ') =>
      match exec call h self b ρ' with
      | .error x => .error x
      | .ok (zs, fw) => .ok (ys ++ zs, fw)
  | .assign i e, ρ =>
    match eval call h self e ρ with
    | .ok v => .ok ([], .next (ρ.upd i v))
    | .error x => .error x
  | .ifS c t e, ρ =>
    match eval call h self c ρ with
    | .ok (.bool true) => exec call h self t ρ
    | .ok (.bool false) => exec call h self e ρ
    | .ok _ => .error .typeError
    | .error x => .error x
  | .ret, _ => .ok ([], .done none)
  | .retE e, ρ =>
    match eval call h self e ρ with
    | .ok v => .ok ([], .done (some v))
    | .error x => .error x
  | .retTail recv meth args, ρ =>
    match eval call h self recv ρ, evalArgs call h self ρ args with
    | .ok (.observer ob), .ok vs =>
      (match tailOf ob meth vs with
       | .ok v => .ok ([], .done (some v))
       | .error x => .error x)
    | .error x, _ => .error x
    | _, .error x => .error x
    | _, _ => .error .typeError
  | .raise x, _ => .error x
  | .yield e, ρ =>
    match eval call h self e ρ with
    | .ok v => .ok ([v], .next ρ)
    | .error x => .error x
  | .yieldFrom it, ρ =>
    match evalIt call h self it ρ with
    | .ok vs => .ok (vs, .next ρ)
    | .error x => .error x
  | .forTraits i j o body, ρ =>
    match eval call h self o ρ with
    | .ok (.w x) =>
      (match h.at x with
       | .inst fs =>
         loop (fun fl ρ' => exec call h self body ((ρ'.upd i (.name fl.name)).upd j (.ctrait fl))) fs ρ
       | _ => .error .attributeError)
    | .ok _ => .error .typeError
    | .error x => .error x

/-! ### calls -/

def noCall : Call := fun _ _ _ _ => .error .other

def lookup : List (String × St) → String → Option St
  | [], _ => none
  | (k, s) :: t, q => if k = q then some s else lookup t q

/-- run a translated function body on two positional arguments -/
def runBody (call : Call) (h : Heap) (self : Self) (s : St) (a b : V) : Except Exc (List V × Option V) :=
  match exec call h self s ((Env.empty.upd 0 a).upd 1 b) with
  | .error x => .error x
  | .ok (ys, .done r) => .ok (ys, r)
  | .ok (ys, .next _) => .ok (ys, none)

/-- the handler the methods run with: the callee is looked up in the table of
translated helpers; it may itself call nothing -/
def callTable (tbl : List (String × St)) (h : Heap) : Call := fun q self a b =>
  match lookup tbl q with
  | some s => runBody noCall h self s a b
  | none => .error .other

/-! ### running the methods of an observer -/

def toObservable : V → Except Exc Observable
  | .w (some i) => .ok (.cont i)       -- `yield object`: the container itself
  | .itrait o n => .ok (.trait o n)
  | _ => .error .typeError

/-- `valObjects` on a single non-skipped value -/
def valW : Val → W
  | .ref i => some i
  | _ => none

def toW : V → Except Exc W
  | .w x => .ok x
  | .val v => .ok (valW v)
  | _ => .error .typeError

def mapE {α β} (f : α → Except Exc β) : List α → Except Exc (List β)
  | [] => .ok []
  | a :: as =>
    match f a, mapE f as with
    | .ok b, .ok bs => .ok (b :: bs)
    | .error x, _ => .error x
    | _, .error x => .error x

/-- the yields of a method body run on one argument -/
def runGen (tbl : List (String × St)) (h : Heap) (s : St) (ob : Observer) (a : V) : Except Exc (List V) :=
  match exec (callTable tbl h) h (.ob ob) s (Env.empty.upd 0 a) with
  | .error x => .error x
  | .ok (ys, _) => .ok ys

/-- `ob.iter_observables(x)` -/
def runIterObservables (tbl : List (String × St)) (h : Heap) (s : St) (ob : Observer) (x : W) :
    Except Exc (List Observable) :=
  match runGen tbl h s ob (.w x) with
  | .error e => .error e
  | .ok ys => mapE toObservable ys

/-- `ob.iter_objects(x)` -/
def runIterObjects (tbl : List (String × St)) (h : Heap) (s : St) (ob : Observer) (x : W) :
    Except Exc (List W) :=
  match runGen tbl h s ob (.w x) with
  | .error e => .error e
  | .ok ys => mapE toW ys

/-- an extra graph: the `match_func`, the `optional` flag of its `TraitAddedObserver`
root, the single child -/
structure Extra where
  m : MF
  optional : Bool
  child : Graph

def toExtra : V → Except Exc Extra
  | .extraGraph m o c => .ok ⟨m, o, c⟩
  | _ => .error .typeError

/-- `ob.iter_extra_graphs(g)` -/
def runIterExtraGraphs (tbl : List (String × St)) (h : Heap) (s : St) (ob : Observer) (g : Graph) :
    Except Exc (List Extra) :=
  match runGen tbl h s ob (.graph g) with
  | .error e => .error e
  | .ok ys => mapE toExtra ys

/-- the value returned by a method body run on positional arguments -/
def runRet (tbl : List (String × St)) (h : Heap) (s : St) (ob : Observer) (ρ : Env) : Except Exc V :=
  match exec (callTable tbl h) h (.ob ob) s ρ with
  | .ok (_, .done (some v)) => .ok v
  | .ok _ => .ok (.val .none)
  | .error x => .error x

/-- `ob.get_notifier(handler, target, dispatcher)` -/
def runGetNotifier (tbl : List (String × St)) (h : Heap) (s : St) (ob : Observer) (hd : Nat) (t : W) :
    Except Exc V :=
  runRet tbl h s ob (((Env.empty.upd 0 (.handler hd)).upd 1 (.w t)).upd 2 .dispatcher)

/-- `ob.get_maintainer(graph, handler, target, dispatcher)` -/
def runGetMaintainer (tbl : List (String × St)) (h : Heap) (s : St) (ob : Observer) (c : Graph)
    (hd : Nat) (t : W) : Except Exc V :=
  runRet tbl h s ob ((((Env.empty.upd 0 (.graph c)).upd 1 (.handler hd)).upd 2 (.w t)).upd 3 .dispatcher)

/-- `match_func(name, trait)` of an extra graph -/
def applyMatch (tbl : List (String × St)) (h : Heap) : MF → Name → Field → Except Exc V
  | .lam i j body self, n, fl =>
    eval (callTable tbl h) h self body ((Env.empty.upd i (.name n)).upd j (.ctrait fl))
  | .listed f, n, fl =>
    -- the translated `_ListedTraitFilter.__call__` (it calls `self.filter`, which calls nothing)
    match lookup tbl "_filtered_trait_observer._ListedTraitFilter.__call__" with
    | some s =>
      (match runBody (callTable tbl h) h (.listed f) s (.name n) (.ctrait fl) with
       | .ok (_, some r) => .ok r
       | .ok (_, none) => .ok (.val .none)
       | .error x => .error x)
    | none => .error .other

/-! ### running the methods of a `TraitAddedObserver` / `_RestrictedNamedTraitObserver` -/

/-- the yields of a method body run with an arbitrary `self` on one argument -/
def runGenS (tbl : List (String × St)) (h : Heap) (s : St) (self : Self) (a : V) : Except Exc (List V) :=
  match exec (callTable tbl h) h self s (Env.empty.upd 0 a) with
  | .error x => .error x
  | .ok (ys, _) => .ok ys

def runIterObservablesS (tbl : List (String × St)) (h : Heap) (s : St) (self : Self) (x : W) :
    Except Exc (List Observable) :=
  match runGenS tbl h s self (.w x) with
  | .error e => .error e
  | .ok ys => mapE toObservable ys

def runIterObjectsS (tbl : List (String × St)) (h : Heap) (s : St) (self : Self) (x : W) :
    Except Exc (List W) :=
  match runGenS tbl h s self (.w x) with
  | .error e => .error e
  | .ok ys => mapE toW ys

def runIterExtraGraphsS (tbl : List (String × St)) (h : Heap) (s : St) (self : Self) (g : Graph) :
    Except Exc (List Extra) :=
  match runGenS tbl h s self (.graph g) with
  | .error e => .error e
  | .ok ys => mapE toExtra ys

/-- the value returned by a body run with an arbitrary `self` -/
def runRetS (tbl : List (String × St)) (h : Heap) (s : St) (self : Self) (ρ : Env) : Except Exc V :=
  match exec (callTable tbl h) h self s ρ with
  | .ok (_, .done (some v)) => .ok v
  | .ok _ => .ok (.val .none)
  | .error x => .error x

/-- the `notify` property -/
def runNotify (tbl : List (String × St)) (h : Heap) (s : St) (self : Self) : Except Exc V :=
  runRetS tbl h s self Env.empty

/-- a pending tail call `ob.meth(a, b, c[, d])` is the method `meth` of the class of `ob`
(`cls ob meth`: the translated body) run on these arguments -/
def resolveTail (tbl : List (String × St)) (cls : Observer → String → Option St) (h : Heap) : V → Except Exc V
  | .tail ob meth a b c d =>
    (match cls ob meth with
     | some s => runRet tbl h s ob ((((Env.empty.upd 0 a).upd 1 b).upd 2 c).upd 3 d)
     | none => .error .attributeError)
  | v => .ok v

/-- `__init__`: `self.<f> = <parameter>` rows -/
abbrev InitRows := List (SF × String)

end TraitsVerif.Model.NodeL
