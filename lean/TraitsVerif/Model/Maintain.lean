/-
Cluster `obs`: what a mutation of the object graph does — the heap change, then
the notifier calls.

* trait assignment / default materialisation / `trait_added`: ctraits.c
  `setattr_trait` (2373-2553), `getattr_trait`, `setattr_event`, and
  `call_notifiers` (2260-2327), which calls a COPY of the notifier list, stops at
  the first notifier that raises and propagates the exception;
* container mutation: `TraitList.notify` (trait_list_object.py:236), `TraitDict.notify`
  (trait_dict_object.py:155), `TraitSet.notify`, which iterate over the LIVE list;
* a user notifier delivers (`TraitEventNotifier.__call__`, _trait_event_notifier.py:106-125),
  a maintainer runs its change handler (`ObserverChangeNotifier.__call__`,
  _observer_change_notifier.py:130-158; `observer_change_handler`,
  _has_traits_helpers.py:66-108; the three `_observer_change_handler`s;
  `TraitAddedObserver.observer_change_handler`, _trait_added_observer.py:141-171).
-/
import TraitsVerif.Model.Register
namespace TraitsVerif.Model.Obs
open TraitsVerif

/-- What the user's handler receives. -/
inductive Delivered where
  | trait (k : HKey) (o : Id) (n : Name) (old new : Val)
  | list (k : HKey) (c : Id) (index : Nat) (removed added : List Id)
  | dict (k : HKey) (c : Id) (removed added : List (Key × Id))
  | set (k : HKey) (c : Id) (removed added : List Id)
  deriving DecidableEq, Repr

def Delivered.key : Delivered → HKey
  | .trait k .. => k
  | .list k .. => k
  | .dict k .. => k
  | .set k .. => k

/-- Weak references: a notifier whose target or whose bound-method handler's
owner has been collected returns at once (both `__call__`s). -/
structure Env where
  deadH : Nat → Bool := fun _ => false
  deadT : Id → Bool := fun _ => false
  /-- `a == b` for two distinct HasTraits instances (a class may define `__eq__`) -/
  eqo : Id → Id → Bool := fun _ _ => false

def Env.dead (E : Env) (k : HKey) : Bool := E.deadH k.handler || E.deadT k.target

structure St where
  h : Heap
  H : Hooks

structure Out where
  st : St
  delivered : List Delivered
  err : Option Exc

/-- The change a container mutation reports to its notifiers. -/
inductive CEvent where
  | list (index : Nat) (removed added : List Id)
  | dict (removed added : List (Key × Id))
  | set (removed added : List Id)
  deriving Repr

def CEvent.removed : CEvent → List Id
  | .list _ r _ => r
  | .dict r _ => r.map (·.2)
  | .set r _ => r
def CEvent.added : CEvent → List Id
  | .list _ _ a => a
  | .dict _ a => a.map (·.2)
  | .set _ a => a

/-- `for item in …: add_or_remove_notifiers(object=item, graph=graph, …, remove=rm)`;
the first exception propagates. -/
def walkAll (h : Heap) (k : HKey) (rm : Bool) (g : Graph) (ys : List Id) (H : Hooks) : Res :=
  foldRes (addRemove h k rm true g) (ys.map some) H

/-- `match_func(name, trait)` of the `TraitAddedObserver` built by the root
observer of `g` (_named_trait_observer.py:209, _filtered_trait_observer.py:173). -/
def addedMatches (h : Heap) (g : Graph) (o : Id) (new : Val) : Bool :=
  match new with
  | .name n =>
    (match g.ob with
     | .named n' _ _ => n == n'
     | .filtered f _ =>
       (match h.get o with
        | .inst fs => (match findField fs n with
          | some fl => f.matches fl
          | none => false)
        | _ => false)
     | _ => false)
  | _ => false

/-- The graph `TraitAddedObserver.observer_change_handler` walks: root
`_RestrictedNamedTraitObserver(name, wrapped)` (observable = that one trait,
notify / notifier / maintainer of the wrapped observer), same children. -/
def restrict (g : Graph) (n : Name) : Graph :=
  .node (.named n g.ob.notify false) g.children

/-- `observer_change_handler`, first half (_has_traits_helpers.py:92-105): remove the
graph below the old value unless it is Undefined / Uninitialized / None; a
NotifierNotFound is swallowed (the failed call has rolled itself back). -/
def removeOld (h : Heap) (k : HKey) (g : Graph) (old : Val) (H : Hooks) : Res :=
  match valObjects old with
  | w :: _ =>
    let r := addRemove h k true true g w H
    (match r.err with
     | some .notifierNotFound => ⟨r.H, none⟩
     | _ => r)
  | [] => ⟨H, none⟩

/-- second half (lines 107-115): add the graph below the new value. -/
def addNew (h : Heap) (k : HKey) (g : Graph) (new : Val) (H : Hooks) : Res :=
  match valObjects new with
  | w :: _ => addRemove h k false true g w H
  | [] => ⟨H, none⟩

/-- A maintainer attached to an instance trait is called with
`(object, name, old, new)`. -/
def maintTrait (h : Heap) (mk : MKind) (g : Graph) (k : HKey) (o : Id) (old new : Val) (H : Hooks) : Res :=
  match mk with
  | .trait =>
    let r1 := removeOld h k g old H
    match r1.err with
    | some e => ⟨r1.H, some e⟩
    | none => addNew h k g new r1.H
  | .added =>
    -- prevent_event = not match_func(event.new, trait); then walk the restricted graph
    if addedMatches h g o new then
      match new with
      | .name n => addRemove h k false false (restrict g n) (some o) H
      | _ => ⟨H, none⟩
    else ⟨H, none⟩
  | _ => ⟨H, some .other⟩     -- an item maintainer is never attached to a trait

/-- `ctrait_prevent_event` (_has_traits_helpers.py:111-138). -/
def preventTrait (E : Env) (h : Heap) (o : Id) (n : Name) (old new : Val) : Bool :=
  old == .unset ||
  (n != nTraitAdded && n != nTraitModified && fieldCmp h o n == .equality && valEq E.eqo h old new)

/-- `call_notifiers`: the notifiers of the COPIED list, in order. -/
def callTrait (E : Env) (h : Heap) (o : Id) (n : Name) (old new : Val) :
    List Notifier → Hooks → List Delivered → Hooks × List Delivered × Option Exc
  | [], H, ds => (H, ds, none)
  | .user k _ :: ns, H, ds =>
    if E.dead k || preventTrait E h o n old new then callTrait E h o n old new ns H ds
    else callTrait E h o n old new ns H (ds ++ [.trait k o n old new])
  | .maint mk g k :: ns, H, ds =>
    if E.dead k then callTrait E h o n old new ns H ds
    else
      let r := maintTrait h mk g k o old new H
      match r.err with
      | some e => (r.H, ds, some e)
      | none => callTrait E h o n old new ns r.H ds

/-- A maintainer attached to a container: the `_observer_change_handler`s. -/
def maintCont (h : Heap) (g : Graph) (k : HKey) (ev : CEvent) (H : Hooks) : Res :=
  let r := walkAll h k true g ev.removed H
  match r.err with
  | some e => ⟨r.H, some e⟩
  | none => walkAll h k false g ev.added r.H

def deliverCont (k : HKey) (c : Id) : CEvent → Delivered
  | .list i r a => .list k c i r a
  | .dict r a => .dict k c r a
  | .set r a => .set k c r a

/-- `for notifier in self.notifiers: notifier(…)` on the live list: position `i`,
re-reading the list each time.  `fuel` (`runCont`: length of the list at the start + 4096; `err = some .other`
when it runs out — the harness stays far below: the largest growth seen is 1 → 137) bounds the iteration (every notifier a
maintainer appends carries a strictly smaller graph, so the real loop ends). -/
def notifyCont (E : Env) (h : Heap) (c : Id) (ev : CEvent) :
    Nat → Nat → Hooks → List Delivered → Hooks × List Delivered × Option Exc
  | 0, _, H, ds => (H, ds, some .other)
  | fuel + 1, i, H, ds =>
    match (H.get (.cont c))[i]? with
    | none => (H, ds, none)
    | some (.user k _) =>
      if E.dead k then notifyCont E h c ev fuel (i + 1) H ds
      else notifyCont E h c ev fuel (i + 1) H (ds ++ [deliverCont k c ev])
    | some (.maint _ g k) =>
      if E.dead k then notifyCont E h c ev fuel (i + 1) H ds
      else
        let r := maintCont h g k ev H
        match r.err with
        | some e => (r.H, ds, some e)
        | none => notifyCont E h c ev fuel (i + 1) r.H ds

/-- Mutations of the object graph. `fresh` identities are chosen by the caller
(allocation order of the harness). -/
inductive Mutation where
  | alloc (i : Id) (o : Obj)                    -- a new container / object comes into existence (validation of an assigned list)
  | setField (o : Id) (n : Name) (v : Val) (fresh : Id)     -- `o.n = v`
  | read (o : Id) (n : Name) (fresh : Id)       -- `o.n` (materialises the default)
  /-- `del o.n` — the delete branch of `setattr_trait` (ctraits.c:2441-2489).  ASSUMPTION: the
  notifier list of the trait exists (`traito->notifiers != NULL`, :2463), as it does after any
  earlier registration on it, whether or not a notifier is left in it: the hooks of the model do
  not record a list that was never created, where the C code only drops the `__dict__` entry.
  `fresh` names the cell of a container default. -/
  | delField (o : Id) (n : Name) (fresh : Id)
  | addTrait (o : Id) (n : Name) (tagged : Bool) (d : Dflt)   -- `o.add_trait(n, …)`
  /-- `add_trait(guard, List/Dict/Set(…))` first adds and ANNOUNCES the companion event trait
  `n` = "<guard>_items" (has_traits.py:2829-2830), which `traits()` never lists: `trait_added`
  fires with its name, no trait becomes visible.  Nothing happens when `guard` exists already. -/
  | announce (o : Id) (n guard : Name)
  | listAppend (c : Id) (x : Id)
  | listInsert (c : Id) (i : Nat) (x : Id)
  | listDel (c : Id) (i : Nat)
  | listSet (c : Id) (i : Nat) (x : Id)
  | listClear (c : Id)
  | listSlice (c : Id) (i j : Nat) (xs : List Id)        -- `l[i:j] = xs`
  | listStride (c : Id) (i step : Nat) (xs : List Id)    -- `l[i::step] = xs` (extended slice, same length)
  | listExtend (c : Id) (xs : List Id)
  | dictSet (c : Id) (k : Key) (x : Id)
  | dictDel (c : Id) (k : Key)
  | dictClear (c : Id)
  | setAdd (c : Id) (x : Id)
  | setDiscard (c : Id) (x : Id)
  | setClear (c : Id)
  deriving Repr

/-- `default_value_for`: the value and (for container defaults) the new cell. -/
def materialise (h : Heap) (d : Dflt) (fresh : Id) : Heap × Val :=
  match d with
  | .val v => (h, v)
  | .newList => (h.upd fresh (.list []), .ref fresh)
  | .newDict => (h.upd fresh (.dict []), .ref fresh)
  | .newSet => (h.upd fresh (.set []), .ref fresh)

def storeField (h : Heap) (o : Id) (n : Name) (v : Val) : Heap :=
  match h.get o with
  | .inst fs => h.upd o (.inst (setFieldVal fs n v))
  | _ => h

/-- insert keeping the order of the harness' set iteration (ascending ids) -/
def insertSorted (x : Id) : List Id → List Id
  | [] => [x]
  | y :: ys => if x ≤ y then x :: y :: ys else y :: insertSorted x ys

/-- positions `i, i+step, …` below `len` (`range(i, len, step)`) -/
def stridePos (i step len : Nat) : List Nat :=
  (List.range len).filter (fun p => decide (i ≤ p) && (p - i) % step == 0)

/-- `l[p] = x` for every pair -/
def setAll (l : List Id) : List (Nat × Id) → List Id
  | [] => l
  | (p, x) :: ps => setAll (l.set p x) ps

def runCont (E : Env) (st : St) (h' : Heap) (c : Id) (ev : Option CEvent) : Out :=
  match ev with
  | none => ⟨⟨h', st.H⟩, [], none⟩
  | some ev =>
    let r := notifyCont E h' c ev ((st.H.get (.cont c)).length + 4096) 0 st.H []
    ⟨⟨h', r.1⟩, r.2.1, r.2.2⟩

def skip (st : St) : Out := ⟨st, [], some .other⟩

/-- The `old_value` of `setattr_trait` when notifiers exist (ctraits.c:2482-2512):
the `__dict__` entry, else the default, which is stored silently. -/
def oldValue (h : Heap) (f : Field) (fresh : Id) : Heap × Val :=
  if f.val == .unset then materialise h f.dflt fresh else (h, f.val)

/-- `call_notifiers(tnotifiers, …, obj, name, old, new)` on the notifiers of
`o.n` as they are when the change happens (an empty list calls nothing). -/
def fire (E : Env) (H : Hooks) (h' : Heap) (o : Id) (n : Name) (old new : Val) : Out :=
  let r := callTrait E h' o n old new (H.get (.trait o n)) H []
  ⟨⟨h', r.1⟩, r.2.1, r.2.2⟩

/-- Second half of the delete branch of `setattr_trait` (ctraits.c:2470-2484), after
`traito->getattr` (`getattr_trait`) has put the default back and announced it (`r1`):
`changed = (old_value != value)` by identity, always under `comparison_mode` none (:2439, :2470-2472);
when changed, `call_notifiers(…, old_value, value)` (:2478-2482) — on the default that the first
announcement has hooked already (finding F99). -/
def refire (E : Env) (r1 : Out) (o : Id) (n : Name) (cmp : Cmp) (old new : Val) : Out :=
  match r1.err with
  | some _ => r1
  | none =>
    if cmp == .none || old != new then
      let r2 := fire E r1.st.H r1.st.h o n old new
      ⟨r2.st, r1.delivered ++ r2.delivered, r2.err⟩
    else r1

/-- One mutation: heap change, then notifications.  `err = some .other` with an
unchanged state marks an ill-formed mutation (unknown object, index out of
range for the simplified list operations, …) that the harness never generates. -/
def mutate (E : Env) (st : St) : Mutation → Out
  | .alloc i o => ⟨⟨st.h.upd i o, st.H⟩, [], none⟩
  | .setField o n v fresh =>
    match st.h.get o with
    | .inst fs =>
      (match findField fs n with
       | none => skip st
       | some f =>
         if (st.H.get (.trait o n)).isEmpty then
           -- no notifiers: plain store, the default is not evaluated
           ⟨⟨storeField st.h o n v, st.H⟩, [], none⟩
         else
           -- old value: `__dict__` entry, else the default, which is stored silently first
           let mv := oldValue st.h f fresh
           -- `changed`: always under ComparisonMode.none, else identity (ctraits.c:2390, 2520)
           if f.cmp != .none && mv.2 == v then ⟨⟨storeField mv.1 o n v, st.H⟩, [], none⟩
           else fire E st.H (storeField mv.1 o n v) o n mv.2 v)
    | _ => skip st
  | .read o n fresh =>
    match st.h.get o with
    | .inst fs =>
      (match findField fs n with
       | none => skip st
       | some f =>
         if f.val == .unset then
           let mv := materialise st.h f.dflt fresh
           fire E st.H (storeField mv.1 o n mv.2) o n .unset mv.2
         else ⟨st, [], none⟩)
    | _ => skip st
  | .delField o n fresh =>
    -- ctraits.c:2441-2489 (`value == NULL`), notifier list non-NULL (see `Mutation.delField`)
    match st.h.get o with
    | .inst fs =>
      (match findField fs n with
       | none => skip st
       | some f =>
         -- :2451-2454 not in `__dict__`: `return 0`
         if f.val == .unset then ⟨st, [], none⟩
         else
           -- :2457 PyDict_DelItem; :2464 `value = traito->getattr(traito, obj, name)`, i.e.
           -- getattr_trait: default_value_for, PyDict_SetItem, call_notifiers(Uninitialized, default)
           -- (:2009-2030); then :2470-2484
           let mv := materialise (storeField st.h o n .unset) f.dflt fresh
           refire E (fire E st.H (storeField mv.1 o n mv.2) o n .unset mv.2) o n f.cmp f.val mv.2)
    | _ => skip st
  | .addTrait o n tagged d =>
    -- has_traits.py:2801-2872
    match st.h.get o with
    | .inst fs =>
      (match findField fs n with
       | some _ =>
         -- existing trait replaced, notifiers copied over, no event
         ⟨⟨st.h.upd o (.inst (fs.map (fun f => if f.name == n then { f with tagged := tagged, dflt := d } else f))), st.H⟩, [], none⟩
       | none =>
         fire E st.H (st.h.upd o (.inst (fs ++ [⟨n, tagged, d, .unset, .equality⟩]))) o nTraitAdded .undef (.name n))
    | _ => skip st
  | .announce o n guard =>
    match st.h.get o with
    | .inst fs =>
      (match findField fs guard with
       | some _ => ⟨st, [], none⟩
       | none => fire E st.H st.h o nTraitAdded .undef (.name n))
    | _ => skip st
  | .listAppend c x =>
    match st.h.get c with
    | .list l => runCont E st (st.h.upd c (.list (l ++ [x]))) c (some (.list l.length [] [x]))
    | _ => skip st
  | .listInsert c i x =>
    match st.h.get c with
    | .list l =>
      if i ≤ l.length then runCont E st (st.h.upd c (.list (l.take i ++ x :: l.drop i))) c (some (.list i [] [x]))
      else skip st
    | _ => skip st
  | .listDel c i =>
    match st.h.get c with
    | .list l =>
      (match l[i]? with
       | some y => runCont E st (st.h.upd c (.list (l.eraseIdx i))) c (some (.list i [y] []))
       | none => skip st)
    | _ => skip st
  | .listSet c i x =>
    match st.h.get c with
    | .list l =>
      (match l[i]? with
       | some y => runCont E st (st.h.upd c (.list (l.set i x))) c (some (.list i [y] [x]))
       | none => skip st)
    | _ => skip st
  | .listSlice c i j xs =>
    -- trait_list_object.py `__setitem__` with a step-1 slice: event index = start
    match st.h.get c with
    | .list l =>
      if i ≤ j ∧ j ≤ l.length then
        runCont E st (st.h.upd c (.list (l.take i ++ xs ++ l.drop j))) c
          (if ((l.drop i).take (j - i)).isEmpty && xs.isEmpty then none
           else some (.list i ((l.drop i).take (j - i)) xs))
      else skip st
    | _ => skip st
  | .listStride c i step xs =>
    -- extended slice: as many new items as positions; the event carries the old items at them
    match st.h.get c with
    | .list l =>
      if 2 ≤ step ∧ (stridePos i step l.length).length = xs.length ∧ xs.isEmpty = false then
        runCont E st (st.h.upd c (.list (setAll l ((stridePos i step l.length).zip xs)))) c
          (some (.list i ((stridePos i step l.length).filterMap (fun p => l[p]?)) xs))
      else skip st
    | _ => skip st
  | .listClear c =>
    match st.h.get c with
    | .list l => runCont E st (st.h.upd c (.list [])) c (if l.isEmpty then none else some (.list 0 l []))
    | _ => skip st
  | .listExtend c xs =>
    match st.h.get c with
    | .list l => runCont E st (st.h.upd c (.list (l ++ xs))) c (if xs.isEmpty then none else some (.list l.length [] xs))
    | _ => skip st
  | .dictSet c k x =>
    -- trait_dict_object.py:159-182 + dict_event_factory: an overwritten key is reported
    -- as removed (old value) and added (new value), its position is kept
    match st.h.get c with
    | .dict d =>
      (match d.find? (·.1 == k) with
       | some (_, y) =>
         runCont E st (st.h.upd c (.dict (d.map (fun kv => if kv.1 == k then (k, x) else kv)))) c
           (some (.dict [(k, y)] [(k, x)]))
       | none => runCont E st (st.h.upd c (.dict (d ++ [(k, x)]))) c (some (.dict [] [(k, x)])))
    | _ => skip st
  | .dictDel c k =>
    match st.h.get c with
    | .dict d =>
      (match d.find? (·.1 == k) with
       | some (_, y) => runCont E st (st.h.upd c (.dict (d.filter (·.1 != k)))) c (some (.dict [(k, y)] []))
       | none => skip st)
    | _ => skip st
  | .dictClear c =>
    match st.h.get c with
    | .dict d => runCont E st (st.h.upd c (.dict [])) c (if d.isEmpty then none else some (.dict d []))
    | _ => skip st
  | .setAdd c x =>
    match st.h.get c with
    | .set s =>
      if s.contains x then ⟨st, [], none⟩
      else runCont E st (st.h.upd c (.set (insertSorted x s))) c (some (.set [] [x]))
    | _ => skip st
  | .setDiscard c x =>
    match st.h.get c with
    | .set s =>
      if s.contains x then runCont E st (st.h.upd c (.set (s.filter (· != x)))) c (some (.set [x] []))
      else ⟨st, [], none⟩
    | _ => skip st
  | .setClear c =>
    match st.h.get c with
    | .set s => runCont E st (st.h.upd c (.set [])) c (if s.isEmpty then none else some (.set s []))
    | _ => skip st

end TraitsVerif.Model.Obs
