/-
PyL — the small subset of Python in which the list mutators of
traits/trait_list_object.py are written, deep-embedded, with a big-step
interpreter.  `harness/translate/pyl.py` translates the *source text* of every
`TraitList` / `TraitListObject` mutator and of the helpers
`_normalize_slice_or_index` / `_removed_items` into terms of this language on
every run (`Generated/ListProg.lean`); `Props/C05.lean` and `Props/C04.lean`
prove that the hand-written models `TraitList.step` / `TraitListObject.step`
are exactly the interpretation of those terms — for every list, every argument
and every validator.

What the interpreter fixes (and the translator therefore does not have to
know): Python truthiness, integer arithmetic with floor modulo, indexing and
slicing of the builtin `list` (`Py/List.lean`), the order of evaluation, the
propagation of exceptions through `try/except/else`, early `return`.
-/
import TraitsVerif.Model.TraitListObject
namespace TraitsVerif.Model.PyL
open TraitsVerif TraitsVerif.Py TraitsVerif.Model

/-- Run-time values. -/
inductive Val (α : Type) where
  | none
  | bool (b : Bool)
  | int (n : Int)
  | item (x : α)
  | list (xs : List α)
  | slice (s : Slice)
  deriving Repr

/-- Expressions (pure: they read the list and the local variables). -/
inductive Expr where
  | var (i : Nat)
  | self
  | noneLit
  | boolLit (b : Bool)
  | intLit (n : Int)
  | emptyList
  | list1 (e : Expr)                       -- `[e]`
  | len (e : Expr)
  | copy (e : Expr)                        -- `e.copy()`
  | getItem (seq key : Expr)               -- `seq[key]`, key an integer or a slice
  | sliceFrom (seq lo : Expr)              -- `seq[lo:]`
  | rev (e : Expr)                         -- `e[::-1]`
  | add (a b : Expr) | sub (a b : Expr) | mul (a b : Expr) | mod (a b : Expr)
  | min (a b : Expr) | max (a b : Expr)
  | neg (a : Expr)
  | lt (a b : Expr) | le (a b : Expr) | eq (a b : Expr) | ne (a b : Expr)
  | not (a : Expr)
  | or (a b : Expr)                        -- only in conditions: truthiness of the disjunction
  | isNone (a : Expr)                      -- `a is None`
  | ite (c a b : Expr)                     -- `a if c else b`
  | isSlice (e : Expr)                     -- `isinstance(e, slice)`
  | opIndex (e : Expr)                     -- `operator.index(e)`
  | mkSlice (a b c : Expr)                 -- `slice(a, b, c)`
  | sliceStep (e : Expr)                   -- `e.step`
  | indexOf (seq x : Expr)                 -- `seq.index(x)`
  | listOf (e : Expr)                      -- `list(e)` of an iterable that is given as a list
  deriving Repr, DecidableEq

inductive Stmt where
  | skip
  | seq (a b : Stmt)
  | assign (i : Nat) (e : Expr)
  | assignTup (is : List Nat) (es : List Expr)            -- `a, b, c = e1, e2, e3`
  | assignIndices (is : List Nat) (s len : Expr)          -- `a, b, c = s.indices(len)`
  | validate (i : Nat) (e : Expr)                         -- `v = self.item_validator(e)`
  | validateAll (i : Nat) (e : Expr)                      -- `v = [self.item_validator(x) for x in e]`
  | call (is : List Nat) (f : String) (args : List Expr)  -- `a, b = helper(args)`
  | ifS (c : Expr) (t e : Stmt)
  | tryS (b : Stmt) (exc : Exc) (h o : Stmt)              -- try b / except exc: h / else: o
  | super (i : Option Nat) (m : String) (args : List Expr)
  | notify (a b c : Expr)
  | checkLen (e : Expr)                                   -- `self._validate_length(e)`
  | raiseS (exc : Exc)
  | ret (es : List Expr)
  deriving Repr, DecidableEq

structure Func where
  nparams : Nat
  body : Stmt
  deriving Repr, DecidableEq

variable {α : Type}

structure St (α : Type) where
  self : List α
  vars : Nat → Option (Val α)
  vcount : Nat := 0
  events : List (Event α) := []
  /-- local slots known to hold the live list object itself (assigned from `self`) -/
  aliased : List Nat := []

/-- Does the expression denote the live list object itself rather than a fresh
list (`self`, a local assigned from it; conservatively either arm of a
conditional)?  The model's events carry *values*; the parts of a notification
must be snapshots, so `self.notify(i, removed, self)` in place of
`self.copy()` — the same value at that moment, but an alias the next mutation
changes under the listener — makes the interpretation `stuck`. -/
def aliasSelf (al : List Nat) : Expr → Bool
  | .self => true
  | .var i => al.contains i
  | .ite _ a b => aliasSelf al a || aliasSelf al b
  | .or a b => aliasSelf al a || aliasSelf al b
  | _ => false

inductive Flow (α : Type) where
  | next
  | returned (vs : List (Val α))
  | raised (e : Exc)

def truthy : Val α → Bool
  | .none => false
  | .bool b => b
  | .int n => decide (n ≠ 0)
  | .list xs => !xs.isEmpty
  | _ => true

def setVar (vars : Nat → Option (Val α)) (i : Nat) (v : Val α) : Nat → Option (Val α) :=
  fun j => if j = i then some v else vars j

def setVars (vars : Nat → Option (Val α)) : List Nat → List (Val α) → Nat → Option (Val α)
  | i :: is, v :: vs => setVars (setVar vars i v) is vs
  | _, _ => vars

def bindArgs : Nat → List (Val α) → Nat → Option (Val α)
  | _, [] => fun _ => none
  | k, v :: vs => fun j => if j = k then some v else bindArgs (k + 1) vs j

/-- A binary operation on two integers (left operand evaluated first). -/
def intOp (f : Int → Int → Val α) : Except Exc (Val α) → Except Exc (Val α) → Except Exc (Val α)
  | .ok (.int a), .ok (.int b) => .ok (f a b)
  | .error e, _ => .error e
  | .ok _, .error e => .error e
  | .ok _, .ok _ => .error .other

/-- `stuck` = the program left the subset the interpreter understands (never
equal to anything the model produces, so an obligation then fails). -/
def stuck {β : Type} : Except Exc β := .error .other

def eval (E : Env α) (l : List α) (vars : Nat → Option (Val α)) : Expr → Except Exc (Val α)
  | .var i => match vars i with | some v => .ok v | none => stuck
  | .self => .ok (.list l)
  | .noneLit => .ok .none
  | .boolLit b => .ok (.bool b)
  | .intLit n => .ok (.int n)
  | .emptyList => .ok (.list [])
  | .list1 e =>
    match eval E l vars e with
    | .ok (.item x) => .ok (.list [x])
    | .ok _ => stuck
    | .error e => .error e
  | .len e =>
    match eval E l vars e with
    | .ok (.list xs) => .ok (.int xs.length)
    | .ok _ => stuck
    | .error e => .error e
  | .copy e =>
    match eval E l vars e with
    | .ok (.list xs) => .ok (.list xs)
    | .ok _ => stuck
    | .error e => .error e
  | .listOf e =>
    match eval E l vars e with
    | .ok (.list xs) => .ok (.list xs)
    | .ok _ => stuck
    | .error e => .error e
  | .getItem s k =>
    match eval E l vars s with
    | .ok (.list xs) =>
      match eval E l vars k with
      | .ok (.int i) =>
        match normIdx xs.length i with
        | some j => (match xs[j]? with | some x => .ok (.item x) | none => .error .indexError)
        | none => .error .indexError
      | .ok (.slice sl) => (Py.getSlice xs sl).map .list
      | .ok _ => stuck
      | .error e => .error e
    | .ok _ => stuck
    | .error e => .error e
  | .sliceFrom s lo =>
    match eval E l vars s with
    | .ok (.list xs) =>
      match eval E l vars lo with
      | .ok (.int i) => (Py.getSlice xs ⟨some i, none, none⟩).map .list
      | .ok _ => stuck
      | .error e => .error e
    | .ok _ => stuck
    | .error e => .error e
  | .rev e =>
    match eval E l vars e with
    | .ok (.list xs) => .ok (.list xs.reverse)
    | .ok _ => stuck
    | .error e => .error e
  | .add a b => intOp (fun x y => .int (x + y)) (eval E l vars a) (eval E l vars b)
  | .sub a b => intOp (fun x y => .int (x - y)) (eval E l vars a) (eval E l vars b)
  | .mul a b => intOp (fun x y => .int (x * y)) (eval E l vars a) (eval E l vars b)
  | .mod a b => intOp (fun x y => .int (pymod x y)) (eval E l vars a) (eval E l vars b)
  | .min a b => intOp (fun x y => .int (Min.min x y)) (eval E l vars a) (eval E l vars b)
  | .max a b => intOp (fun x y => .int (Max.max x y)) (eval E l vars a) (eval E l vars b)
  | .lt a b => intOp (fun x y => .bool (decide (x < y))) (eval E l vars a) (eval E l vars b)
  | .le a b => intOp (fun x y => .bool (decide (x ≤ y))) (eval E l vars a) (eval E l vars b)
  | .eq a b =>
    match eval E l vars a, eval E l vars b with
    | .ok (.int x), .ok (.int y) => .ok (.bool (decide (x = y)))
    | .ok .none, .ok (.int _) => .ok (.bool false)
    | .ok (.int _), .ok .none => .ok (.bool false)
    | .ok .none, .ok .none => .ok (.bool true)
    | .error e, _ => .error e
    | _, .error e => .error e
    | _, _ => stuck
  | .ne a b =>
    match eval E l vars a, eval E l vars b with
    | .ok (.int x), .ok (.int y) => .ok (.bool (decide (x ≠ y)))
    | .error e, _ => .error e
    | _, .error e => .error e
    | _, _ => stuck
  | .neg a =>
    match eval E l vars a with
    | .ok (.int x) => .ok (.int (-x))
    | .ok _ => stuck
    | .error e => .error e
  | .not a =>
    match eval E l vars a with
    | .ok v => .ok (.bool (!truthy v))
    | .error e => .error e
  | .or a b =>
    match eval E l vars a with
    | .ok v => if truthy v then .ok (.bool true) else
      (match eval E l vars b with
       | .ok w => .ok (.bool (truthy w))
       | .error e => .error e)
    | .error e => .error e
  | .isNone a =>
    match eval E l vars a with
    | .ok .none => .ok (.bool true)
    | .ok _ => .ok (.bool false)
    | .error e => .error e
  | .ite c a b =>
    match eval E l vars c with
    | .ok v => if truthy v then eval E l vars a else eval E l vars b
    | .error e => .error e
  | .isSlice e =>
    match eval E l vars e with
    | .ok (.slice _) => .ok (.bool true)
    | .ok _ => .ok (.bool false)
    | .error e => .error e
  | .opIndex e =>
    match eval E l vars e with
    | .ok (.int n) => .ok (.int n)
    | .ok _ => stuck
    | .error e => .error e
  | .mkSlice a b c =>
    match eval E l vars a, eval E l vars b, eval E l vars c with
    | .ok (.int x), .ok (.int y), .ok (.int z) => .ok (.slice ⟨some x, some y, some z⟩)
    | _, _, _ => stuck
  | .sliceStep e =>
    match eval E l vars e with
    | .ok (.slice s) => (match s.step with | some k => .ok (.int k) | none => .ok .none)
    | .ok _ => stuck
    | .error e => .error e
  | .indexOf s x =>
    match eval E l vars s, eval E l vars x with
    | .ok (.list xs), .ok (.item y) =>
      (match Py.index E.eq xs y with
       | some j => .ok (.int j)
       | none => .error .valueError)
    | _, _ => stuck

def evalAll (E : Env α) (l : List α) (vars : Nat → Option (Val α)) : List Expr → Except Exc (List (Val α))
  | [] => .ok []
  | e :: es =>
    match eval E l vars e with
    | .error x => .error x
    | .ok v =>
      match evalAll E l vars es with
      | .error x => .error x
      | .ok vs => .ok (v :: vs)

/-- A method call as seen from outside: the contents afterwards, the returned
item (only `pop` returns one) and the events fired — or the exception, with the
contents and events at that moment. -/
inductive Summary (α : Type) where
  | done (items : List α) (ret : Option α) (events : List (Event α))
  | raised (e : Exc) (items : List α) (events : List (Event α))

/-- What the interpreter is run with. -/
structure Ctx (α : Type) where
  E : Env α
  /-- module-level helper functions (pure) -/
  call : String → List (Val α) → Except Exc (List (Val α))
  /-- `super().m(args)` on the current contents -/
  sup : String → List (Val α) → List α → Summary α
  /-- `trait.minlen <= n <= trait.maxlen` -/
  lenOk : Int → Bool

/-- The event index a value stands for. -/
def toNIdx : Val α → Option NIdx
  | .int n => some (.idx n)
  | .slice ⟨some a, some b, some k⟩ => some (.slc a b k)
  | _ => none

def exec (C : Ctx α) : Stmt → St α → St α × Flow α
  | .skip, st => (st, .next)
  | .seq a b, st =>
    match exec C a st with
    | (st', .next) => exec C b st'
    | r => r
  | .assign i e, st =>
    match eval C.E st.self st.vars e with
    | .ok v => ({ st with vars := setVar st.vars i v,
                          aliased := if aliasSelf st.aliased e then i :: st.aliased else st.aliased.filter (· ≠ i) }, .next)
    | .error x => (st, .raised x)
  | .assignTup is es, st =>
    if es.any (aliasSelf st.aliased) then (st, .raised .other) else
    match evalAll C.E st.self st.vars es with
    | .ok vs => if vs.length = is.length then ({ st with vars := setVars st.vars is vs }, .next) else (st, .raised .other)
    | .error x => (st, .raised x)
  | .assignIndices is s len, st =>
    match eval C.E st.self st.vars s, eval C.E st.self st.vars len with
    | .ok (.slice sl), .ok (.int n) =>
      if n < 0 then (st, .raised .other) else
      match sl.indices n.toNat with
      | none => (st, .raised .valueError)
      | some (a, b, k) =>
        if is.length = 3 then ({ st with vars := setVars st.vars is [.int a, .int b, .int k] }, .next)
        else (st, .raised .other)
    | .error x, _ => (st, .raised x)
    | _, .error x => (st, .raised x)
    | _, _ => (st, .raised .other)
  | .validate i e, st =>
    match eval C.E st.self st.vars e with
    | .ok (.item x) =>
      (match C.E.v st.vcount x with
       | .ok y => ({ st with vars := setVar st.vars i (.item y), vcount := st.vcount + 1 }, .next)
       | .error ex => ({ st with vcount := st.vcount + 1 }, .raised ex))
    | .ok _ => (st, .raised .other)
    | .error x => (st, .raised x)
  | .validateAll i e, st =>
    match eval C.E st.self st.vars e with
    | .ok (.list xs) =>
      (match valAll C.E.v st.vcount xs with
       | .ok ys => ({ st with vars := setVar st.vars i (.list ys), vcount := st.vcount + xs.length }, .next)
       | .error ex => ({ st with vcount := st.vcount + xs.length }, .raised ex))
    | .ok _ => (st, .raised .other)
    | .error x => (st, .raised x)
  | .call is f args, st =>
    match evalAll C.E st.self st.vars args with
    | .error x => (st, .raised x)
    | .ok vs =>
      match C.call f vs with
      | .error x => (st, .raised x)
      | .ok rs => if rs.length = is.length then ({ st with vars := setVars st.vars is rs }, .next) else (st, .raised .other)
  | .ifS c t e, st =>
    match eval C.E st.self st.vars c with
    | .ok v => if truthy v then exec C t st else exec C e st
    | .error x => (st, .raised x)
  | .tryS b exc h o, st =>
    match exec C b st with
    | (st', .raised x) => if x = exc then exec C h st' else (st', .raised x)
    | (st', .next) => exec C o st'
    | r => r
  | .super i m args, st =>
    match evalAll C.E st.self st.vars args with
    | .error x => (st, .raised x)
    | .ok vs =>
      match C.sup m vs st.self with
      | .raised x items evs => ({ st with self := items, events := st.events ++ evs }, .raised x)
      | .done items ret evs =>
        let v : Val α := match ret with | some x => .item x | none => .none
        ({ st with self := items, events := st.events ++ evs,
                   vars := match i with | some j => setVar st.vars j v | none => st.vars }, .next)
  | .notify a b c, st =>
    -- the removed / added parts must be snapshots, not the live list (see `aliasSelf`)
    if aliasSelf st.aliased b || aliasSelf st.aliased c then (st, .raised .other) else
    match eval C.E st.self st.vars a, eval C.E st.self st.vars b, eval C.E st.self st.vars c with
    | .ok ia, .ok (.list rs), .ok (.list as) =>
      (match toNIdx ia with
       | some n => ({ st with events := st.events ++ [⟨n, rs, as⟩] }, .next)
       | none => (st, .raised .other))
    | _, _, _ => (st, .raised .other)
  | .checkLen e, st =>
    match eval C.E st.self st.vars e with
    | .ok (.int n) => if C.lenOk n then (st, .next) else (st, .raised .traitError)
    | .ok _ => (st, .raised .other)
    | .error x => (st, .raised x)
  | .raiseS exc, st => (st, .raised exc)
  | .ret es, st =>
    match evalAll C.E st.self st.vars es with
    | .ok vs => (st, .returned vs)
    | .error x => (st, .raised x)

def lookupFn (m : String) : List (String × Func) → Option Func
  | [] => none
  | (k, f) :: rest => if k = m then some f else lookupFn m rest

/-- A helper has no `self`: it runs on an empty list, cannot call other
helpers, has no `super()`. -/
def helperCtx (E : Env α) : Ctx α :=
  { E := E, call := fun _ _ => stuck, sup := fun _ _ l => .raised .other l [], lenOk := fun _ => true }

/-- Call of a module-level helper (pure function of its arguments). -/
def callHelper (helpers : List (String × Func)) (E : Env α) (f : String) (args : List (Val α)) :
    Except Exc (List (Val α)) :=
  match lookupFn f helpers with
  | none => stuck
  | some fn =>
    if args.length ≠ fn.nparams then stuck else
    match exec (helperCtx E) fn.body { self := [], vars := bindArgs 0 args } with
    | (_, .returned vs) => .ok vs
    | (_, .raised x) => .error x
    | (_, .next) => .ok [.none]

/-- The builtin `list` method `m` (what `super()` is for `TraitList`). -/
def builtinSup (E : Env α) (m : String) (args : List (Val α)) (l : List α) : Summary α :=
  let done (l' : List α) : Summary α := .done l' none []
  let fail (x : Exc) : Summary α := .raised x l []
  match m, args with
  | "__delitem__", [.int i] => (match Py.delIdx l i with | .ok l' => done l' | .error x => fail x)
  | "__delitem__", [.slice s] => (match Py.delSlice l s with | .ok l' => done l' | .error x => fail x)
  | "__setitem__", [.int i, .item x] => (match Py.setIdx l i x with | .ok l' => done l' | .error e => fail e)
  | "__setitem__", [.slice s, .list xs] => (match Py.setSlice l s xs with | .ok l' => done l' | .error e => fail e)
  | "__iadd__", [.list xs] => done (l ++ xs)
  | "__imul__", [.int n] => done (Py.imul l n)
  | "append", [.item x] => done (l ++ [x])
  | "clear", [] => done []
  | "extend", [.list xs] => done (l ++ xs)
  | "insert", [.int i, .item x] => done (Py.insert l i x)
  | "pop", [.int i] => (match Py.pop l i with | .ok (x, l') => .done l' (some x) [] | .error e => fail e)
  | "remove", [.item x] => (match Py.remove E.eq l x with | .ok l' => done l' | .error e => fail e)
  | "reverse", [] => done l.reverse
  -- `sort(key=key, reverse=reverse)`: the pair (key, reverse) is the model's sort specification,
  -- carried in the `key` argument
  | "sort", [.int sp, _] => if sp < 0 then fail .other else done (E.sort sp.toNat l)
  | _, _ => fail .other

/-- The arguments an `Op` passes to the method it stands for. -/
def opCall : Op α → String × List (Val α)
  | .setIdx i x => ("__setitem__", [.int i, .item x])
  | .setSlice s xs => ("__setitem__", [.slice s, .list xs])
  | .delIdx i => ("__delitem__", [.int i])
  | .delSlice s => ("__delitem__", [.slice s])
  | .append x => ("append", [.item x])
  | .extend xs => ("extend", [.list xs])
  | .iadd xs => ("__iadd__", [.list xs])
  | .imul n => ("__imul__", [.int n])
  | .insert i x => ("insert", [.int i, .item x])
  | .pop i => ("pop", [.int i])
  | .remove x => ("remove", [.item x])
  | .clear => ("clear", [])
  | .reverse => ("reverse", [])
  | .sort sp => ("sort", [.int sp, .none])

def summarize : St α × Flow α → Summary α
  | (st, .raised e) => .raised e st.self st.events
  | (st, .returned [.item x]) => .done st.self (some x) st.events
  | (st, _) => .done st.self none st.events

/-- `TraitList.m(args)` on contents `l`: the translated method if `TraitList`
defines it, else the builtin. -/
def runTraitListM (helpers methods : List (String × Func)) (E : Env α) (m : String) (args : List (Val α))
    (l : List α) : Summary α :=
  match lookupFn m methods with
  | none => builtinSup E m args l
  | some fn =>
    if args.length ≠ fn.nparams then .raised .other l [] else
    let C : Ctx α := { E := E, call := callHelper helpers E, sup := builtinSup E, lenOk := fun _ => true }
    summarize (exec C fn.body { self := l, vars := bindArgs 0 args })

/-- What the model's `step` result looks like from outside: on an exception the
list is as it was and nobody was notified. -/
def summaryOfStep (l : List α) : Except Exc (Out α) → Summary α
  | .ok o => .done o.items o.ret o.event.toList
  | .error e => .raised e l []

def runTraitListOp (helpers methods : List (String × Func)) (E : Env α) (l : List α) (op : Op α) : Summary α :=
  runTraitListM helpers methods E (opCall op).1 (opCall op).2 l

/-- `TraitListObject.m(args)`: the translated override (whose `super()` is the
translated `TraitList` method) if there is one, else `TraitList`'s. -/
def runTraitListObjectM (helpers tl tlo : List (String × Func)) (c : LenCfg) (E : Env α) (m : String)
    (args : List (Val α)) (l : List α) : Summary α :=
  match lookupFn m tlo with
  | none => runTraitListM helpers tl E m args l
  | some fn =>
    if args.length ≠ fn.nparams then .raised .other l [] else
    let C : Ctx α := { E := E, call := callHelper helpers E, sup := runTraitListM helpers tl E, lenOk := c.ok }
    summarize (exec C fn.body { self := l, vars := bindArgs 0 args })

def runTraitListObjectOp (helpers tl tlo : List (String × Func)) (c : LenCfg) (E : Env α) (l : List α)
    (op : Op α) : Summary α :=
  runTraitListObjectM helpers tl tlo c E (opCall op).1 (opCall op).2 l

end TraitsVerif.Model.PyL
