/-
CSrc — the subset of C in which the compiled validators of `traits/ctraits.c`
are written, deep-embedded, with a total interpreter over `Py.Val`.

`harness/translate/cvalidators.py` translates the *source text* of every
`validate_trait_*` function and of the helpers they call into terms of this
language on every run (`Generated/CValidators.lean`); `Props/C03.lean` proves
(`C03_fast_is_source`) that the hand-written `fastAlone` / `complexCase` /
`fastComplex` of Model/FastValidate.lean are exactly the interpretation of those
terms, for every descriptor, every value and every environment.

What the interpreter fixes (and the translator therefore does not know):
* C control flow: sequencing, `if`, `for` (with `break`), `switch` (a `break`
  leaves the switch), `return`, forward `goto` to a labelled tail of the function,
  short-circuit `&&` / `||`, assignment as an expression, `i++`;
* the thread's error indicator (`PyErr_Occurred` / `PyErr_ExceptionMatches` /
  `PyErr_Clear`, set by the C-API calls that fail and by `raise_trait_error`);
* the C-API calls (`prim`), each a thin wrapper around the CPython model of
  Py/Val.lean (`isInst`, `exactTy`, `index`, `asDouble`, `asComplex`,
  `seqContains`, `dictFind`) or around a parameter of `Env` (`cast`, `fn`, `adapt`);
* the layout of the `fast_validate` tuples (`Desc.layout`).
Reference counting is not modelled (`Py_INCREF` … are no-ops); there is no heap:
the only object that is mutated, the tuple `validate_trait_tuple_check` builds
with `PyTuple_SET_ITEM`, is uniquely referenced by one local variable and is
updated in that variable.
-/
import TraitsVerif.Model.FastValidate
namespace TraitsVerif.Model.CSrc
open TraitsVerif TraitsVerif.Py.Value TraitsVerif.Model.Val

/-! ## Syntax -/

/-- Functions that are called by name. -/
inductive Prim where
  | PyTuple_GET_SIZE | PyTuple_GET_ITEM | PyObject_TypeCheck | PyObject_IsInstance | Py_TYPE
  | PyLong_CheckExact | PyFloat_CheckExact | PyComplex_CheckExact | PyTuple_Check | PyCallable_Check
  | PyNumber_Index | PyNumber_Long | PyFloat_AsDouble | PyFloat_FromDouble | PyFloat_AS_DOUBLE
  | PyComplex_AsCComplex | PyComplex_FromCComplex | PyLong_AsLong | PyObject_IsTrue
  | PySequence_Contains | PyDict_GetItemWithError | PyErr_ExceptionMatches | PyErr_Occurred
  | PyErr_Clear | PyTuple_Pack | PyObject_Call | PyObject_CallMethod | PyTuple_New
  | PyTuple_SET_ITEM | Py_INCREF | Py_DECREF | Py_XDECREF | raise_trait_error | default_value_for
  | helper (name : String)            -- a function of ctraits.c that is translated itself
  | unknown (name : String)           -- anything else: not evaluated
  deriving Repr, DecidableEq

inductive Field where
  | py_validate | validate | real
  deriving Repr, DecidableEq

inductive Expr where
  | var (i : Nat)
  | intLit (n : Int)
  | dblLit (n : Int)                   -- `n.0`
  | strLit (s : String)
  | null | pyNone | excTypeError | excTraitError | adaptFn
  | field (e : Expr) (f : Field)       -- `e->f`, `e.f`
  | call (p : Prim) (args : List Expr)
  | callPtr (f : Expr) (args : List Expr)   -- call through a function pointer
  | assign (i : Nat) (e : Expr)
  | postInc (i : Nat)
  | eq (a b : Expr) | ne (a b : Expr) | lt (a b : Expr) | le (a b : Expr) | gt (a b : Expr) | ge (a b : Expr)
  | and (a b : Expr) | or (a b : Expr) | bitAnd (a b : Expr) | add (a b : Expr) | sub (a b : Expr)
  | not (a : Expr) | neg (a : Expr)
  deriving Repr

mutual
inductive Stmt where
  | skip
  | expr (e : Expr)
  | seq (a b : Stmt)
  | ite (c : Expr) (t e : Stmt)
  | forLoop (init : Stmt) (cond incr : Expr) (body : Stmt)
  | switch (scrut : Expr) (cases : Cases) (dflt : Stmt)
  | brk
  | ret (e : Expr)
  | goto (label : String)
inductive Cases where
  | nil
  | cons (k : Int) (body : Stmt) (rest : Cases)
end

/-- The labelled tails of a function body (`error:` …, `done:` …), in order. -/
inductive Tails where
  | nil
  | cons (label : String) (body : Stmt) (rest : Tails)

structure Fn where
  nparams : Nat
  nvars : Nat
  body : Stmt
  tails : Tails

/-! ## Run-time values -/

/-- What a C variable of these functions can hold. -/
inductive CV where
  | undef
  | null
  | obj (v : Val)                      -- a Python object of the value lattice
  | int (n : Int)                      -- C integers (`int`, `long`, `Py_ssize_t`)
  | dbl (f : F)
  | cpx (re im : F)                    -- `Py_complex`
  | ty (t : Ty)                        -- a type object of a descriptor / `Py_TYPE(obj)`
  | tyOf (v : Val)                     -- `Py_TYPE(value)`
  | seq (vs : List Val)                -- the values tuple of an enum descriptor
  | dict (keys : List Val)             -- the dict of a map descriptor
  | borrowed                           -- a non-NULL object whose identity is irrelevant (a dict value)
  | trait (d : Desc)                   -- the CTrait being validated against
  | info (d : Desc)                    -- its `fast_validate` tuple
  | infos (ds : List Desc)             -- the tuple of descriptors of a compound
  | traits (items : List (Option Desc))  -- the tuple of CTraits of a Tuple
  | itrait (d : Option Desc)           -- one of them
  | fptr (d : Desc)                    -- its `validate` slot
  | fn (f : Nat)                       -- a user validator function
  | handler (h : Val → Res)            -- a Python callable / the compound handler
  | hobj | name | adaptFn              -- the HasTraits object, the trait name, `adapt`
  | exc (e : Exc)                      -- an exception class
  | str (s : String)
  | tup (xs : List CV)                 -- an argument tuple (`PyTuple_Pack`)
  | mtuple (xs : List CV)              -- the tuple being built by `validate_trait_tuple_check`

def optF : Option F → CV
  | none => .obj Val.none
  | some f => .obj (Val.ofFloat f)

def kindItem (k : Int) : CV := .obj (Val.ofInt k)

def noneSlot (an : Bool) : List CV := if an then [.obj Val.none] else []

/-- The layout of the `fast_validate` tuple of every descriptor (what the Python
constructors build: trait_types.py / trait_handlers.py, see `descOf`). -/
def layout : Desc → List CV
  | .typeChk an ty => kindItem 0 :: (noneSlot an ++ [.ty ty])
  | .instChk an ty => kindItem 1 :: (noneSlot an ++ [.ty ty])
  | .selfType an => kindItem 2 :: noneSlot an
  | .floatRange lo hi mask => [kindItem 4, optF lo, optF hi, .obj (Val.ofInt mask)]
  | .enum vals => [kindItem 5, .seq vals]
  | .map keys => [kindItem 6, .dict keys]
  | .complex ds => [kindItem 7, .infos ds]
  | .slow h => [kindItem 8, .handler h]
  | .tuple items => [kindItem 9, .traits items]
  | .coerce ty rest => kindItem 11 :: .ty ty :: rest.map (fun t => match t with | none => .obj Val.none | some t => .ty t)
  | .cast ty => [kindItem 12, .ty ty]
  | .function f => [kindItem 13, .fn f]
  | .python _ => []
  | .adapt cls mode an _ => [kindItem 19, .ty cls, .obj (Val.ofInt mode), .obj (Val.ofBool an)]
  | .int => [kindItem 20]
  | .float => [kindItem 21]
  | .callable an => kindItem 22 :: (match an with | none => [] | some b => [.obj (Val.ofBool b)])
  | .complexNumber => [kindItem 23]

/-- `trait->py_validate`. -/
def pyValidateOf : Desc → CV
  | .python h => .handler h
  | d => .info d

def CV.truthy : CV → Bool
  | .int n => n != 0
  | .null | .undef => false
  | .dbl f => !F.isZero f
  | _ => true

def ofBool (b : Bool) : CV := .int (if b then 1 else 0)

/-- `a == b` on C values: pointer identity of objects (identity of values of
the lattice is structural equality, see C03 ASSUMPTIONS), integer and IEEE
equality, `Py_TYPE(v) == T`. -/
def cvEq : CV → CV → Bool
  | .null, .null => true
  | .obj a, .obj b => decide (a = b)
  | .int a, .int b => decide (a = b)
  | .dbl a, .dbl b => F.eq a b
  | .tyOf v, .ty t => Val.exactTy t v
  | .ty t, .tyOf v => Val.exactTy t v
  | .mtuple _, .null => false
  | _, _ => false

def cvLt : CV → CV → Bool
  | .int a, .int b => decide (a < b)
  | .dbl a, .dbl b => F.lt a b
  | _, _ => false

def cvLe : CV → CV → Bool
  | .int a, .int b => decide (a ≤ b)
  | .dbl a, .dbl b => F.le a b
  | _, _ => false

def cvToVal : CV → Val
  | .obj v => v
  | _ => Val.none

/-! ## The interpreter -/

/-- The error indicator and the result of a C-API call. -/
abbrev Err := Option Exc

structure Ctx where
  E : Env
  /-- `itrait->validate(itrait, obj, name, x)` of the inner CTraits of a Tuple. -/
  inner : Desc → Val → Res
  /-- `default_value_for(trait, obj, name)` of a compound trait (finding F49). -/
  cdflt : Val
  /-- the translated functions that can be called by name. -/
  helper : String → List CV → Err → CV × Err

def resToC : Res → CV × Err
  | .ok w => (.obj w, none)
  | .traitError => (.null, some .traitError)
  | .raised e => (.null, some e)

def exceptToC : Except Exc Val → CV × Err
  | .ok w => (.obj w, none)
  | .error e => (.null, some e)

def getItem : CV → Int → CV
  | .info d, i => (layout d).getD i.toNat .undef
  | .infos ds, i => match ds[i.toNat]? with | some d => .info d | none => .undef
  | .traits items, i => match items[i.toNat]? with | some d => .itrait d | none => .undef
  | .obj (.tuple _ vs), i => match vs[i.toNat]? with | some v => .obj v | none => .undef
  | _, _ => .undef

def getSize : CV → CV
  | .info d => .int (layout d).length
  | .infos ds => .int ds.length
  | .traits items => .int items.length
  | .obj (.tuple _ vs) => .int vs.length
  | _ => .undef

/-- `PyObject_Call(callee, args, NULL)`. -/
def pyCall {R : Type} (C : Ctx) (callee : CV) (args : List CV) (err : Err) (k : CV → Err → R) : R :=
  match callee, args with
  | .ty t, [.obj v] =>
    match C.E.cast t v with
    | .ok w => k (.obj w) err
    | .error e => k .null (some e)
  | .fn f, [.hobj, .name, .obj v] =>
    match C.E.fn f v with
    | .ok w => k (.obj w) err
    | .error e => k .null (some e)
  | .handler h, [.hobj, .name, .obj v] =>
    match h v with
    | .ok w => k (.obj w) err
    | .traitError => k .null (some .traitError)
    | .raised e => k .null (some e)
  | .adaptFn, [.obj v, .ty cls, .obj (.atom .none)] =>
    match C.E.adapt v cls with
    | .ok (some r) => k (.obj r) err
    | .ok none => k (.obj Val.none) err
    | .error e => k .null (some e)
  | _, _ => k .undef err

/-- The C-API functions, in continuation-passing style: `k` receives the value
returned and the error indicator after the call (a call that fails sets it). -/
def prim {R : Type} (C : Ctx) (p : Prim) (args : List CV) (err : Err) (k : CV → Err → R) : R :=
  match p, args with
  | .PyTuple_GET_SIZE, [x] => k (getSize x) err
  | .PyTuple_GET_ITEM, [x, .int i] => k (getItem x i) err
  | .PyObject_TypeCheck, [.obj v, .ty t] => k (ofBool (Val.isInst t v)) err
  | .PyObject_IsInstance, [.obj v, .ty t] => k (ofBool (Val.isInst t v)) err
  | .Py_TYPE, [.obj v] => k (.tyOf v) err
  | .Py_TYPE, [.hobj] => k (.ty (.user C.E.selfCls)) err
  | .PyLong_CheckExact, [.obj v] => k (ofBool (Val.exactTy .int v)) err
  | .PyFloat_CheckExact, [.obj v] => k (ofBool (Val.exactTy .float v)) err
  | .PyComplex_CheckExact, [.obj v] => k (ofBool (Val.exactTy .complex v)) err
  | .PyTuple_Check, [.obj v] => k (ofBool (Val.isInst .tuple v)) err
  | .PyCallable_Check, [.obj v] => k (ofBool v.callable) err
  | .PyNumber_Index, [.obj v] =>
    match index v with
    | .ok n => k (.obj (Val.ofInt n)) err
    | .error e => k .null (some e)
  | .PyNumber_Long, [.obj (.atom (.int _ n))] => k (.obj (Val.ofInt n)) err
  | .PyFloat_AsDouble, [.obj v] =>
    match asDouble v with
    | .ok f => k (.dbl f) err
    | .error e => k (.dbl (.fin (-4))) (some e)
  | .PyFloat_FromDouble, [.dbl f] => k (.obj (Val.ofFloat f)) err
  | .PyFloat_AS_DOUBLE, [.obj v] => k (.dbl (floatOf v)) err
  | .PyComplex_AsCComplex, [.obj v] =>
    match asComplex v with
    | .ok (re, im) => k (.cpx re im) err
    | .error e => k (.cpx (.fin (-4)) (.fin 0)) (some e)
  | .PyComplex_FromCComplex, [.cpx re im] => k (.obj (Val.ofComplex re im)) err
  | .PyLong_AsLong, [.obj (.atom (.int _ n))] => k (.int n) err
  | .PyObject_IsTrue, [.obj (.atom (.bool b))] => k (ofBool b) err
  | .PySequence_Contains, [.seq vals, .obj v] =>
    match seqContains vals v with
    | .yes => k (.int 1) err
    | .no => k (.int 0) err
    | .raises e => k (.int (-1)) (some e)
  | .PyDict_GetItemWithError, [.dict keys, .obj v] =>
    match dictFind keys v with
    | .ok (some _) => k .borrowed err
    | .ok none => k .null err
    | .error e => k .null (some e)
  | .PyErr_ExceptionMatches, [.exc e] => k (ofBool (err == some e)) err
  | .PyErr_Occurred, [] => k (ofBool err.isSome) err
  | .PyErr_Clear, [] => k .undef none
  | .PyTuple_Pack, (.int _ :: xs) => k (.tup xs) err
  | .PyObject_Call, [f, .tup xs, .null] => pyCall C f xs err k
  | .PyObject_CallMethod, [.handler h, .str "slow_validate", .str "(OOO)", .hobj, .name, .obj v] =>
    pyCall C (.handler h) [.hobj, .name, .obj v] err k
  | .PyTuple_New, [.int n] => k (.mtuple (List.replicate n.toNat .null)) err
  | .Py_INCREF, [_] => k .undef err
  | .Py_DECREF, [_] => k .undef err
  | .Py_XDECREF, [_] => k .undef err
  | .raise_trait_error, [.trait _, .hobj, .name, .obj _] => k .null (some .traitError)
  | .default_value_for, [.trait (.adapt _ _ _ dflt), .hobj, .name] => k (.obj dflt) err
  | .default_value_for, [.trait (.complex _), .hobj, .name] => k (.obj C.cdflt) err
  | .helper name, xs => let r := C.helper name xs err; k r.1 r.2
  | _, _ => k .undef err

structure St where
  vars : List CV
  err : Err

def St.get (s : St) (i : Nat) : CV := s.vars.getD i .undef
def St.set (s : St) (i : Nat) (x : CV) : St := { s with vars := s.vars.set i x }

def evalField (x : CV) (f : Field) : CV :=
  match x, f with
  | .trait d, .py_validate => pyValidateOf d
  | .itrait none, .validate => .null
  | .itrait (some d), .validate => .fptr d
  | .cpx re _, .real => .dbl re
  | _, _ => .undef

def cvBitAnd : CV → CV → CV
  | .int m, .int n => .int (Int.ofNat (m.toNat &&& n.toNat))   -- non-negative operands
  | _, _ => .undef
def cvAdd : CV → CV → CV
  | .int m, .int n => .int (m + n)
  | _, _ => .undef
def cvSub : CV → CV → CV
  | .int m, .int n => .int (m - n)
  | _, _ => .undef
def cvNeg : CV → CV
  | .int n => .int (-n)
  | .dbl (.fin q) => .dbl (.fin (-q))
  | _ => .undef

/- Expressions, continuation-passing: `k` receives the value and the state
after the evaluation (left to right; `&&` / `||` short-circuit). -/
mutual
def evalE {R : Type} (C : Ctx) : Expr → St → (CV → St → R) → R
  | .var i, s, k => k (s.get i) s
  | .intLit n, s, k => k (.int n) s
  | .dblLit n, s, k => k (.dbl (.fin (4 * n))) s
  | .strLit t, s, k => k (.str t) s
  | .null, s, k => k .null s
  | .pyNone, s, k => k (.obj Val.none) s
  | .excTypeError, s, k => k (.exc .typeError) s
  | .excTraitError, s, k => k (.exc .traitError) s
  | .adaptFn, s, k => k .adaptFn s
  | .field e f, s, k => evalE C e s fun x s1 => k (evalField x f) s1
  | .call p args, s, k =>
    evalArgs C args s fun xs s1 =>
      match p, args, xs with
      -- the tuple under construction lives in its variable (no heap)
      | .PyTuple_SET_ITEM, (.var j :: _), [.mtuple ys, .int i, x] =>
        k .undef (s1.set j (.mtuple (ys.set i.toNat x)))
      | _, _, _ => prim C p xs s1.err fun r e => k r { s1 with err := e }
  | .callPtr f args, s, k =>
    evalE C f s fun fp s1 =>
      evalArgs C args s1 fun xs s2 =>
        match fp, xs with
        | .fptr d, [.itrait _, .hobj, .name, .obj v] =>
          pyCall C (.handler (C.inner d)) [.hobj, .name, .obj v] s2.err fun r e => k r { s2 with err := e }
        | _, _ => k .undef s2
  | .assign i e, s, k => evalE C e s fun x s1 => k x (s1.set i x)
  | .postInc i, s, k =>
    match s.get i with
    | .int n => k (.int n) (s.set i (.int (n + 1)))
    | _ => k .undef s
  | .eq a b, s, k => evalE C a s fun x s1 => evalE C b s1 fun y s2 => k (ofBool (cvEq x y)) s2
  | .ne a b, s, k => evalE C a s fun x s1 => evalE C b s1 fun y s2 => k (ofBool (!cvEq x y)) s2
  | .lt a b, s, k => evalE C a s fun x s1 => evalE C b s1 fun y s2 => k (ofBool (cvLt x y)) s2
  | .le a b, s, k => evalE C a s fun x s1 => evalE C b s1 fun y s2 => k (ofBool (cvLe x y)) s2
  | .gt a b, s, k => evalE C a s fun x s1 => evalE C b s1 fun y s2 => k (ofBool (cvLt y x)) s2
  | .ge a b, s, k => evalE C a s fun x s1 => evalE C b s1 fun y s2 => k (ofBool (cvLe y x)) s2
  | .and a b, s, k =>
    evalE C a s fun x s1 =>
      if x.truthy then evalE C b s1 fun y s2 => k (ofBool y.truthy) s2 else k (.int 0) s1
  | .or a b, s, k =>
    evalE C a s fun x s1 =>
      if x.truthy then k (.int 1) s1 else evalE C b s1 fun y s2 => k (ofBool y.truthy) s2
  | .bitAnd a b, s, k => evalE C a s fun x s1 => evalE C b s1 fun y s2 => k (cvBitAnd x y) s2
  | .add a b, s, k => evalE C a s fun x s1 => evalE C b s1 fun y s2 => k (cvAdd x y) s2
  | .sub a b, s, k => evalE C a s fun x s1 => evalE C b s1 fun y s2 => k (cvSub x y) s2
  | .not a, s, k => evalE C a s fun x s1 => k (ofBool (!x.truthy)) s1
  | .neg a, s, k => evalE C a s fun x s1 => k (cvNeg x) s1
def evalArgs {R : Type} (C : Ctx) : List Expr → St → (List CV → St → R) → R
  | [], s, k => k [] s
  | e :: es, s, k => evalE C e s fun x s1 => evalArgs C es s1 fun xs s2 => k (x :: xs) s2
end

/-- How a statement ends. -/
inductive Out where
  | norm | brk
  | ret (v : CV)
  | goto (label : String)
  | stuck                              -- out of fuel / not a C integer in a `switch`

/-- `for (…; cond; incr) body`, at most `fuel` iterations; `k` receives how the
loop ended (`norm` after the condition failed or a `break`). -/
def iter {R : Type} (cond incr : St → (CV → St → R) → R) (body : St → (Out → St → R) → R)
    (k : Out → St → R) : Nat → St → R
  | 0, s => k .stuck s
  | n + 1, s =>
    cond s fun c s1 =>
      if c.truthy then
        body s1 fun o s2 =>
          match o with
          | .norm => incr s2 fun _ s3 => iter cond incr body k n s3
          | .brk => k .norm s2
          | o => k o s2
      else k .norm s1

/- Statements, continuation-passing. -/
mutual
def exec {R : Type} (C : Ctx) (fuel : Nat) : Stmt → St → (Out → St → R) → R
  | .skip, s, k => k .norm s
  | .expr e, s, k => evalE C e s fun _ s1 => k .norm s1
  | .seq a b, s, k =>
    exec C fuel a s fun o s1 =>
      match o with
      | .norm => exec C fuel b s1 k
      | o => k o s1
  | .ite c t e, s, k =>
    evalE C c s fun x s1 => if x.truthy then exec C fuel t s1 k else exec C fuel e s1 k
  | .forLoop init cond incr body, s, k =>
    exec C fuel init s fun o s1 =>
      match o with
      | .norm => iter (fun s k' => evalE C cond s k') (fun s k' => evalE C incr s k')
                   (fun s k' => exec C fuel body s k') k fuel s1
      | o => k o s1
  | .switch scrut cases dflt, s, k =>
    evalE C scrut s fun x s1 =>
      match x with
      | .int n =>
        execCases C fuel n cases s1 (fun s2 => exec C fuel dflt s2 fun o s3 =>
            match o with
            | .brk => k .norm s3
            | o => k o s3)
          fun o s2 =>
            match o with
            | .brk => k .norm s2
            | o => k o s2
      | _ => k .stuck s1
  | .brk, s, k => k .brk s
  | .ret e, s, k => evalE C e s fun x s1 => k (.ret x) s1
  | .goto l, s, k => k (.goto l) s
def execCases {R : Type} (C : Ctx) (fuel : Nat) (n : Int) : Cases → St → (St → R) → (Out → St → R) → R
  | .nil, s, kd, _ => kd s
  | .cons n' body rest, s, kd, k => if n = n' then exec C fuel body s k else execCases C fuel n rest s kd k
end

/-- Run the labelled tails from the first one on (control falls from one into the next). -/
def runTails (C : Ctx) (fuel : Nat) : Tails → St → Option (CV × Err)
  | .nil, _ => none
  | .cons _ body rest, s =>
    exec C fuel body s fun o s1 =>
      match o with
      | .ret v => some (v, s1.err)
      | .norm => runTails C fuel rest s1
      | _ => none

def Tails.from (l : String) : Tails → Tails
  | .nil => .nil
  | .cons l' body rest => if l = l' then .cons l' body rest else Tails.from l rest

/-- Call a translated function: `none` when control runs off its end, a label
is missing or a loop runs out of fuel. -/
def runFn (C : Ctx) (fuel : Nat) (f : Fn) (args : List CV) (err : Err) : Option (CV × Err) :=
  let s0 : St := { vars := args ++ List.replicate (f.nvars - f.nparams) .undef, err := err }
  exec C fuel f.body s0 fun o s =>
    match o with
    | .ret v => some (v, s.err)
    | .norm => runTails C fuel f.tails s
    | .goto l => runTails C fuel (f.tails.from l) s
    | _ => none

/-- What the caller of a validator sees. -/
def toRes : Option (CV × Err) → Option Res
  | some (.obj w, none) => some (.ok w)
  | some (.mtuple xs, none) => some (.ok (.tuple false (xs.map cvToVal)))
  | some (.null, some .traitError) => some .traitError
  | some (.null, some e) => some (.raised e)
  | _ => none

end TraitsVerif.Model.CSrc
