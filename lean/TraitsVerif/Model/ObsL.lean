/-
Cluster `obs`: ObsL — a small deep-embedded imperative language into which
`harness/translate/obsl.py` translates the SOURCE TEXT of

  traits/observation/_observe.py   add_or_remove_notifiers, undo_processed,
                                   _AddOrRemoveNotifier.{__init__, __call__,
                                   _add_or_remove_notifiers, _add_or_remove_maintainers,
                                   _add_or_remove_children_notifiers, _add_or_remove_extra_graphs}
  traits/observation/observe.py    apply_observers

(one constructor per Python construct), and its total interpreter.  Recursion
through the program table (function and method calls) is by fuel (`run`); the
statement interpreter `exec` is structural and receives the call handler as a
parameter; `for` loops recurse on the list they iterate, `while log: log.pop()`
on the length of the log.

What is NOT translated but is the runtime of the interpreter (the IObserver
interface of a graph node, as modelled in Model/ObsGraph.lean, and the
`add_to`/`remove_from` of a notifier, Model/Hooks.lean — the latter are tied to
their own source by `Generated/NotifierProg.lean`):
`node.notify`, `node.iter_observables`, `node.iter_objects`,
`node.iter_extra_graphs`, `node.get_notifier`, `node.get_maintainer`,
`graph.children`.  Generators are evaluated eagerly (the loop bodies never change
the heap; the only failing `next()` of these generators is the first).

Undo logs are lists shared by reference: the state holds a store of logs and a
value `.log i` refers to the i-th one.  `[]` evaluates to a reference to a fresh
log, allocated by the statement that evaluated it.
-/
import TraitsVerif.Model.Hooks
namespace TraitsVerif.Model.ObsL
open TraitsVerif TraitsVerif.Model.Obs

/-! ### graph values and the IObserver interface of their root node -/

/-- The three kinds of graphs `add_or_remove_notifiers` is called with:
a compiled `ObserverGraph`; `ObserverGraph(node=_RestrictedNamedTraitObserver(name, g.node),
children=g.children)` built by `TraitAddedObserver.observer_change_handler`
(_trait_added_observer.py:184-190; `g` is `Maintain.restrict …`); and the extra graph
`ObserverGraph(node=TraitAddedObserver(…), children=[g])` contributed by the root of `g`
(_named_trait_observer.py:196-216, _filtered_trait_observer.py:160-180). -/
inductive GV where
  | plain (g : Graph)
  | restricted (g : Graph)
  | added (g : Graph)

/-- `graph.node.notify` (TraitAddedObserver: False, _trait_added_observer.py:62). -/
def GV.notify : GV → Bool
  | .plain g => g.ob.notify
  | .restricted g => g.ob.notify
  | .added _ => false

/-- `graph.children` -/
def GV.children : GV → List GV
  | .plain g => g.children.map .plain
  | .restricted g => g.children.map .plain
  | .added g => [.plain g]

/-- `graph.node.iter_observables(object)` -/
def GV.iterObservables (h : Heap) : GV → W → Except Exc (List Observable)
  | .plain g, x => observables h g.ob x
  | .restricted g, x => observables h g.ob x
  | .added g, x => extraObservables h g.ob x

/-- `graph.node.iter_objects(object)` (TraitAddedObserver: `yield from ()`). -/
def GV.iterObjects (h : Heap) : GV → W → Except Exc (List W)
  | .plain g, x => objects h g.ob x
  | .restricted g, x => objects h g.ob x
  | .added _, _ => .ok []

/-- the observers whose `iter_extra_graphs` yields a `trait_added` graph -/
def hasExtra : Observer → Bool
  | .named .. => true
  | .filtered .. => true
  | _ => false

/-- `graph.node.iter_extra_graphs(graph)` (`yield from ()` for the item observers, for
`TraitAddedObserver` and for `_RestrictedNamedTraitObserver`). -/
def GV.iterExtraGraphs : GV → List GV
  | .plain g => if hasExtra g.ob then [.added g] else []
  | .restricted _ => []
  | .added _ => []

/-- `graph.node.get_notifier(handler=…, target=…, dispatcher=…)`: a fresh
`TraitEventNotifier` (up to its reference count). -/
def GV.getNotifier : GV → Nat → W → Option NKey
  | .plain _, hd, some t => some (.user ⟨hd, t⟩)
  | .restricted _, hd, some t => some (.user ⟨hd, t⟩)
  | _, _, _ => none

/-- `graph.node.get_maintainer(graph=child, handler=…, target=…, dispatcher=…)`: a fresh
`ObserverChangeNotifier`. -/
def GV.getMaintainer : GV → GV → Nat → W → Option NKey
  | .plain g, .plain c, hd, some t => some (.maint g.ob.mkind c ⟨hd, t⟩)
  | .restricted g, .plain c, hd, some t => some (.maint g.ob.mkind c ⟨hd, t⟩)
  | .added _, .plain c, hd, some t => some (.maint .added c ⟨hd, t⟩)
  | _, _, _, _ => none

/-! ### syntax -/

/-- attributes of an `_AddOrRemoveNotifier` instance -/
inductive Fld where
  | object | graph | handler | target | dispatcher | remove | ownsProcessed | processed
  deriving DecidableEq, Repr

inductive Ex where
  | var (i : Nat)                       -- a local / parameter (slot)
  | selfF (f : Fld)                     -- `self.<f>`
  | noneLit                             -- `None`
  | boolLit (b : Bool)
  | newList                             -- `[]`
  | isNone (e : Ex)                     -- `e is None`
  | not (e : Ex)                        -- `not e`
  | ite (c a b : Ex)                    -- `a if c else b`
  | meths (ms : List String)            -- `[self.m1, self.m2, …]`
  | rev (e : Ex)                        -- `e[::-1]`
  | tuple2 (a b : Ex)                   -- `(notifier, observable)`
  | nodeNotify (g : Ex)                 -- `g.node.notify`
  | getNotifier (g hd tg dp : Ex)       -- `g.node.get_notifier(handler=hd, target=tg, dispatcher=dp)`
  | getMaintainer (g c hd tg dp : Ex)   -- `g.node.get_maintainer(graph=c, handler=hd, target=tg, dispatcher=dp)`
  | evOld (e : Ex)                      -- `e.old` of a trait change event
  | evNew (e : Ex)                      -- `e.new`
  | evRemoved (e : Ex)                  -- `e.removed` of a list / dict / set change event
  | evAdded (e : Ex)                    -- `e.added`
  | valuesOf (e : Ex)                   -- `e.values()`
  deriving Repr

inductive St where
  | skip
  | seq (a b : St)
  | assign (i : Nat) (e : Ex)
  | ifS (c : Ex) (t e : St)
  | ret                                               -- `return`
  | forObservables (i : Nat) (g o : Ex) (body : St)   -- `for i in g.node.iter_observables(o):`
  | forObjects (i : Nat) (g o : Ex) (body : St)       -- `for i in g.node.iter_objects(o):`
  | forExtraGraphs (i : Nat) (g a : Ex) (body : St)   -- `for i in g.node.iter_extra_graphs(a):`
  | forChildren (i : Nat) (g : Ex) (body : St)        -- `for i in g.children:`
  | forIn (i : Nat) (e : Ex) (body : St)              -- `for i in e:` over a list of graphs / of bound methods
  | callVar (i : Nat)                                 -- `i()` : a bound method of self, or an instance (`__call__`)
  | addTo (n o : Ex)                                  -- `n.add_to(o)`
  | removeFrom (n o : Ex)                             -- `n.remove_from(o)`
  | append (l e : Ex)                                 -- `l.append(e)`
  | clear (l : Ex)                                    -- `l.clear()`
  | whilePop (l : Ex) (i j : Nat) (body : St)         -- `while l: i, j = l.pop(); body`
  | construct (dst : Nat) (args : List (Option Ex))   -- `dst = _AddOrRemoveNotifier(…)` (args in `__init__` order; `none` = omitted)
  | callFn (name : String) (args : List (Option Ex))  -- a module-level function (args in parameter order; `none` = omitted)
  | tryS (body handler orelse : St)                   -- `try: … except Exception: … else: …`
  | reraise                                           -- bare `raise`
  | ifObservable (e : Ex) (body : St)                 -- `if all(e is not skipped for skipped in UNOBSERVABLE_VALUES): body`
  | tryOnly (body : St) (exc : Exc) (handler : St)    -- `try: body except <exc>: handler`
  deriving Repr

structure Func where
  nparams : Nat
  /-- the default of each parameter (`none`: the parameter is required); literals only -/
  defaults : List (Option Ex)
  body : St
  deriving Repr

structure Prog where
  /-- module-level functions -/
  fns : List (String × Func)
  /-- `_AddOrRemoveNotifier.__init__`: number of parameters, and `self.<f> = e` rows -/
  initParams : Nat
  initDefaults : List (Option Ex)
  init : List (Fld × Ex)
  /-- methods of `_AddOrRemoveNotifier` (no parameter but self) -/
  methods : List (String × St)
  /-- the names listed in `UNOBSERVABLE_VALUES` (_has_traits_helpers.py) -/
  unobservable : List String
  deriving Repr

/-! ### values and state -/

/-- an `_AddOrRemoveNotifier` instance (its attributes are assigned once, in `__init__`) -/
structure Frame where
  object : W
  graph : GV
  handler : Nat
  target : W
  remove : Bool
  owns : Bool
  processed : Nat

inductive PV where
  | unbound
  | none
  | bool (b : Bool)
  | obj (x : W)
  | handler (n : Nat)
  | disp                                   -- the dispatcher
  | graph (g : GV)
  | graphs (gs : List GV)
  | observable (o : Observable)
  | notifier (q : NKey)
  | item (it : Item)                       -- `(notifier, observable)`
  | log (i : Nat)                          -- reference to an undo log
  | meth (m : String)                      -- bound method of the current `self`
  | meths (ms : List String)
  | inst (fr : Frame)
  | val (v : Val)                          -- a trait value (what a change event carries)
  | event (old new : Val)                  -- a TraitChangeEvent
  | cevent (kind : MKind) (removed added : List Id)   -- a List / Dict / SetChangeEvent (dict: the VALUES of removed / added)
  | ids (l : List Id)                      -- a list or set of objects
  | dvals (l : List Id)                    -- a dict, seen through its values

/-- a trait value as the `object` of a walk: a heap object, or a value outside the heap -/
def valW : Val → W
  | .ref i => some i
  | _ => none

/-- `v is <name>` for the names `UNOBSERVABLE_VALUES` may list (`Uninitialized` = absent from `__dict__`) -/
def isNamedValue (nm : String) (v : Val) : Bool :=
  if nm = "Undefined" then v == .undef
  else if nm = "Uninitialized" then v == .unset
  else if nm = "None" then v == .none
  else false

def Frame.get (fr : Frame) : Fld → PV
  | .object => .obj fr.object
  | .graph => .graph fr.graph
  | .handler => .handler fr.handler
  | .target => .obj fr.target
  | .dispatcher => .disp
  | .remove => .bool fr.remove
  | .ownsProcessed => .bool fr.owns
  | .processed => .log fr.processed

abbrev Vars := Nat → PV

def setVar (vs : Vars) (i : Nat) (v : PV) : Vars := fun j => if j = i then v else vs j

def ofArgs (args : List PV) : Vars := fun i => args.getD i .unbound

abbrev Logs := List (List Item)

structure Sto where
  H : Hooks
  logs : Logs
  vars : Vars
  /-- the exception being handled (for a bare `raise`) -/
  exc : Option Exc

inductive Flow where
  | next | returned | raised (e : Exc) | stuck
  deriving DecidableEq, Repr

/-- what calls see and change: hooks and the store of undo logs -/
abbrev G := Hooks × Logs

inductive Callee where
  | fn (name : String) (args : List (Option PV))      -- `none` = argument omitted by the caller
  | meth (name : String) (fr : Frame)

/-! ### expressions (pure; `none` = stuck) -/

def isNoneV : PV → Bool
  | .none => true
  | _ => false

def eval (self : Option Frame) (vars : Vars) (nlogs : Nat) : Ex → Option PV
  | .var i => match vars i with
    | .unbound => none
    | v => some v
  | .selfF f => self.map (fun fr => fr.get f)
  | .noneLit => some .none
  | .boolLit b => some (.bool b)
  | .newList => some (.log nlogs)
  | .isNone e => (eval self vars nlogs e).map (fun v => .bool (isNoneV v))
  | .not e => match eval self vars nlogs e with
    | some (.bool b) => some (.bool (!b))
    | _ => none
  | .ite c a b => match eval self vars nlogs c with
    | some (.bool true) => eval self vars nlogs a
    | some (.bool false) => eval self vars nlogs b
    | _ => none
  | .meths ms => self.map (fun _ => .meths ms)
  | .rev e => match eval self vars nlogs e with
    | some (.meths ms) => some (.meths ms.reverse)
    | _ => none
  | .tuple2 a b => match eval self vars nlogs a, eval self vars nlogs b with
    | some (.notifier q), some (.observable o) => some (.item (o, q))
    | _, _ => none
  | .nodeNotify g => match eval self vars nlogs g with
    | some (.graph gv) => some (.bool gv.notify)
    | _ => none
  | .getNotifier g hd tg dp =>
    match eval self vars nlogs g, eval self vars nlogs hd, eval self vars nlogs tg, eval self vars nlogs dp with
    | some (.graph gv), some (.handler n), some (.obj t), some .disp => (gv.getNotifier n t).map .notifier
    | _, _, _, _ => none
  | .getMaintainer g c hd tg dp =>
    match eval self vars nlogs g, eval self vars nlogs c, eval self vars nlogs hd, eval self vars nlogs tg,
      eval self vars nlogs dp with
    | some (.graph gv), some (.graph cv), some (.handler n), some (.obj t), some .disp =>
      (gv.getMaintainer cv n t).map .notifier
    | _, _, _, _, _ => none
  | .evOld e => match eval self vars nlogs e with
    | some (.event old _) => some (.val old)
    | _ => none
  | .evNew e => match eval self vars nlogs e with
    | some (.event _ new) => some (.val new)
    | _ => none
  | .evRemoved e => match eval self vars nlogs e with
    | some (.cevent kind r _) => some (if kind = .dict then .dvals r else .ids r)
    | _ => none
  | .evAdded e => match eval self vars nlogs e with
    | some (.cevent kind _ a) => some (if kind = .dict then .dvals a else .ids a)
    | _ => none
  | .valuesOf e => match eval self vars nlogs e with
    | some (.dvals l) => some (.ids l)
    | _ => none

def evalAll (self : Option Frame) (vars : Vars) (nlogs : Nat) : List Ex → Option (List PV)
  | [] => some []
  | e :: es => match eval self vars nlogs e, evalAll self vars nlogs es with
    | some v, some vs => some (v :: vs)
    | _, _ => none

/-- the arguments of a call, `none` = omitted -/
def evalAllO (self : Option Frame) (vars : Vars) (nlogs : Nat) : List (Option Ex) → Option (List (Option PV))
  | [] => some []
  | none :: es => (evalAllO self vars nlogs es).map (none :: ·)
  | some e :: es => match eval self vars nlogs e, evalAllO self vars nlogs es with
    | some v, some vs => some (some v :: vs)
    | _, _ => none

/-- a parameter default: the literals `None`, `True`, `False` -/
def evalLit : Ex → Option PV
  | .noneLit => some .none
  | .boolLit b => some (.bool b)
  | _ => none

/-- bind the arguments of a call to the parameters: an omitted argument takes the default written in the
callee's signature; no default: stuck -/
def bindArgs : List (Option Ex) → List (Option PV) → Option (List PV)
  | [], [] => some []
  | d :: ds, a :: as =>
    match (match a with
           | some v => some v
           | none => d.bind evalLit), bindArgs ds as with
    | some v, some vs => some (v :: vs)
    | _, _ => none
  | _, _ => none

/-- the statement that evaluated `[]` allocates the log it refers to -/
def commit (v : PV) (logs : Logs) : Logs :=
  match v with
  | .log i => if i = logs.length then logs ++ [[]] else logs
  | _ => logs

/-- `_AddOrRemoveNotifier(…)`: evaluate the rows of `__init__` on the arguments. -/
def mkFrame (init : List (Fld × Ex)) (args : List PV) (nlogs : Nat) : Option Frame :=
  let ev (f : Fld) : Option PV := ((init.lookup f).bind (eval none (ofArgs args) nlogs)).map
    (fun v => match v with
      | .val w => .obj (valW w)      -- a trait value used as an object
      | v => v)
  match ev .object, ev .graph, ev .handler, ev .target, ev .dispatcher, ev .remove, ev .ownsProcessed,
    ev .processed with
  | some (.obj x), some (.graph g), some (.handler n), some (.obj t), some .disp, some (.bool rm), some (.bool ow),
    some (.log p) => some ⟨x, g, n, t, rm, ow, p⟩
  | _, _, _, _, _, _, _, _ => none

/-! ### statements -/

/-- `for i in vs: body` -/
def forLoop (i : Nat) (f : Sto → Sto × Flow) : List PV → Sto → Sto × Flow
  | [], st => (st, .next)
  | v :: vs, st =>
    match f { st with vars := setVar st.vars i v } with
    | (st', .next) => forLoop i f vs st'
    | r => r

/-- `while log: i, j = log.pop(); body` (the head of a log is its most recent entry);
runs out of fuel (stuck) if the body makes the log grow. -/
def popLoop (p i j : Nat) (f : Sto → Sto × Flow) : Nat → Sto → Sto × Flow
  | 0, st =>
    match st.logs[p]? with
    | some [] => (st, .next)
    | _ => (st, .stuck)
  | n + 1, st =>
    match st.logs[p]? with
    | none => (st, .stuck)
    | some [] => (st, .next)
    | some (it :: rest) =>
      match f { st with logs := st.logs.set p rest,
                        vars := setVar (setVar st.vars i (.notifier it.2)) j (.observable it.1) } with
      | (st', .next) => popLoop p i j f n st'
      | r => r

/-- a call as seen by the caller -/
def viaCall (call : Callee → G → G × Flow) (c : Callee) (st : Sto) : Sto × Flow :=
  match call c (st.H, st.logs) with
  | (g, .next) => ({ st with H := g.1, logs := g.2 }, .next)
  | (g, .raised e) => ({ st with H := g.1, logs := g.2 }, .raised e)
  | (g, _) => ({ st with H := g.1, logs := g.2 }, .stuck)

/-- a call of a module-level function as a statement: the functions of this language return nothing, so an undo
log allocated during the call is unreachable afterwards and is dropped -/
def viaCallT (call : Callee → G → G × Flow) (c : Callee) (st : Sto) : Sto × Flow :=
  ({ (viaCall call c st).1 with logs := (viaCall call c st).1.logs.take st.logs.length }, (viaCall call c st).2)

def exec (h : Heap) (P : Prog) (call : Callee → G → G × Flow) (self : Option Frame) : St → Sto → Sto × Flow
  | .skip, st => (st, .next)
  | .seq a b, st =>
    match exec h P call self a st with
    | (st', .next) => exec h P call self b st'
    | r => r
  | .assign i e, st =>
    match eval self st.vars st.logs.length e with
    | some v => ({ st with vars := setVar st.vars i v, logs := commit v st.logs }, .next)
    | none => (st, .stuck)
  | .ifS c t e, st =>
    match eval self st.vars st.logs.length c with
    | some (.bool true) => exec h P call self t st
    | some (.bool false) => exec h P call self e st
    | _ => (st, .stuck)
  | .ret, st => (st, .returned)
  | .forObservables i g o body, st =>
    match eval self st.vars st.logs.length g, eval self st.vars st.logs.length o with
    | some (.graph gv), some (.obj x) =>
      (match gv.iterObservables h x with
       | .error e => (st, .raised e)
       | .ok os => forLoop i (fun s => exec h P call self body s) (os.map .observable) st)
    | _, _ => (st, .stuck)
  | .forObjects i g o body, st =>
    match eval self st.vars st.logs.length g, eval self st.vars st.logs.length o with
    | some (.graph gv), some (.obj x) =>
      (match gv.iterObjects h x with
       | .error e => (st, .raised e)
       | .ok ys => forLoop i (fun s => exec h P call self body s) (ys.map .obj) st)
    | _, _ => (st, .stuck)
  | .forExtraGraphs i g a body, st =>
    match eval self st.vars st.logs.length g, eval self st.vars st.logs.length a with
    | some (.graph gv), some (.graph _) =>
      forLoop i (fun s => exec h P call self body s) (gv.iterExtraGraphs.map .graph) st
    | _, _ => (st, .stuck)
  | .forChildren i g body, st =>
    match eval self st.vars st.logs.length g with
    | some (.graph gv) => forLoop i (fun s => exec h P call self body s) (gv.children.map .graph) st
    | _ => (st, .stuck)
  | .forIn i e body, st =>
    match eval self st.vars st.logs.length e with
    | some (.graphs gs) => forLoop i (fun s => exec h P call self body s) (gs.map .graph) st
    | some (.meths ms) => forLoop i (fun s => exec h P call self body s) (ms.map .meth) st
    | some (.ids l) => forLoop i (fun s => exec h P call self body s) (l.map (fun y => .obj (some y))) st
    | _ => (st, .stuck)
  | .callVar i, st =>
    match st.vars i, self with
    | .meth m, some fr => viaCall call (.meth m fr) st
    | .inst fr, _ => viaCall call (.meth "__call__" fr) st
    | _, _ => (st, .stuck)
  | .addTo n o, st =>
    match eval self st.vars st.logs.length n, eval self st.vars st.logs.length o with
    | some (.notifier q), some (.observable ob) => ({ st with H := addItem (ob, q) st.H }, .next)
    | _, _ => (st, .stuck)
  | .removeFrom n o, st =>
    match eval self st.vars st.logs.length n, eval self st.vars st.logs.length o with
    | some (.notifier q), some (.observable ob) =>
      (match removeItem (ob, q) st.H with
       | .ok H' => ({ st with H := H' }, .next)
       | .error e => (st, .raised e))
    | _, _ => (st, .stuck)
  | .append l e, st =>
    match eval self st.vars st.logs.length l, eval self st.vars st.logs.length e with
    | some (.log p), some (.item it) =>
      (match st.logs[p]? with
       | some lg => ({ st with logs := st.logs.set p (it :: lg) }, .next)
       | none => (st, .stuck))
    | _, _ => (st, .stuck)
  | .clear l, st =>
    match eval self st.vars st.logs.length l with
    | some (.log p) => if p < st.logs.length then ({ st with logs := st.logs.set p [] }, .next) else (st, .stuck)
    | _ => (st, .stuck)
  | .whilePop l i j body, st =>
    match eval self st.vars st.logs.length l with
    | some (.log p) => popLoop p i j (fun s => exec h P call self body s) (st.logs.getD p []).length st
    | _ => (st, .stuck)
  | .construct dst args, st =>
    match (evalAllO self st.vars st.logs.length args).bind (bindArgs P.initDefaults) with
    | some vs =>
      if vs.length = P.initParams then
        (match mkFrame P.init vs st.logs.length with
         | some fr => ({ st with vars := setVar st.vars dst (.inst fr), logs := commit (.log fr.processed) st.logs }, .next)
         | none => (st, .stuck))
      else (st, .stuck)
    | none => (st, .stuck)
  | .callFn name args, st =>
    match evalAllO self st.vars st.logs.length args with
    | some vs => viaCallT call (.fn name vs) st
    | none => (st, .stuck)
  | .tryS body handler orelse, st =>
    match exec h P call self body st with
    | (st', .next) => exec h P call self orelse st'
    | (st', .raised e) => exec h P call self handler { st' with exc := some e }
    | r => r
  | .reraise, st =>
    match st.exc with
    | some e => (st, .raised e)
    | none => (st, .stuck)
  | .ifObservable e body, st =>
    match eval self st.vars st.logs.length e with
    | some (.val v) => if P.unobservable.all (fun nm => !isNamedValue nm v) then exec h P call self body st else (st, .next)
    | _ => (st, .stuck)
  | .tryOnly body exc handler, st =>
    match exec h P call self body st with
    | (st', .raised e) => if e = exc then exec h P call self handler { st' with exc := some e } else (st', .raised e)
    | r => r

/-- the result of a call: `return` ends it normally -/
def endCall (r : Sto × Flow) : G × Flow :=
  ((r.1.H, r.1.logs), match r.2 with
    | .returned => .next
    | f => f)

/-- Calls, by fuel. -/
def run (h : Heap) (P : Prog) : Nat → Callee → G → G × Flow
  | 0, _, g => (g, .stuck)
  | n + 1, .fn name args, g =>
    match P.fns.lookup name with
    | some f =>
      (match bindArgs f.defaults args with
       | some vs =>
         if vs.length = f.nparams then
           endCall (exec h P (run h P n) none f.body ⟨g.1, g.2, ofArgs vs, none⟩)
         else (g, .stuck)
       | none => (g, .stuck))
    | none => (g, .stuck)
  | n + 1, .meth name fr, g =>
    match P.methods.lookup name with
    | some body => endCall (exec h P (run h P n) (some fr) body ⟨g.1, g.2, fun _ => .unbound, none⟩)
    | none => (g, .stuck)

end TraitsVerif.Model.ObsL
