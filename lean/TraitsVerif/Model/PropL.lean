/-
PropL — a small deep embedding for the source of the `Property(observe=…)`
machinery (property C12), and its interpreter over the state of
`Model/Property.lean`.

Two fragments, both produced from the working tree by
`harness/translate/propsrc.py` (`Generated/PropertyProg.lean`):

* **Python** (`Stmt`): the body of `_create_property_observe_state.handler`
  (has_traits.py:320-326) and of `cached_property.decorator` with the
  assignment of its closure variable `name` (has_traits.py:900-909).  Locals are
  numbered by first occurrence (renaming a local gives the same term); the
  closure variables `cached`, `TraitsCache`, `property_name`, `function` and the
  constant `Undefined` are constructors.  Dictionary keys are evaluated
  symbolically to a list of atoms; `function.__name__` is `'_get_' + property_name`
  (traits naming convention; `[5:]` drops the prefix of length 5).
* **C** (`CStmt`): the statements of `trait_property_changed` (ctraits.c), over
  enumerated variables / functions (anything else makes the translator fail).

Core Lean only.  All functions total (structural recursion on the term).
-/
import TraitsVerif.Model.Property
namespace TraitsVerif.Model.PropL
open TraitsVerif TraitsVerif.Model.Property

/-! ## Python fragment -/

/-- Atoms of a symbolic dictionary key. -/
inductive Atom where
  | traitsCache   -- the constant `TraitsCache` = `'_traits_cache_'`
  | propName      -- the property's name
  | getPrefix     -- `'_get_'` (5 characters)
  | oldSuffix     -- `':old'`
  deriving DecidableEq, Repr

def Atom.len : Atom → Option Nat
  | .getPrefix => some 5
  | _ => none

/-- String-valued expressions (dictionary keys, the `name` argument). -/
inductive SExpr where
  | traitsCache
  | propName
  /-- `function.__name__` -/
  | funcName
  /-- the `cached` parameter of the legacy listener: `TraitsCache + name` (has_traits.py
  `update_traits_class_dict`: `if cached is True: cached = TraitsCache + name`) -/
  | cachedParam
  /-- the literal `':old'` -/
  | oldSuffix
  | var (x : Nat)
  | cat (a b : SExpr)
  /-- `e[n:]` -/
  | dropLeft (n : Nat) (e : SExpr)
  deriving Repr

/-- Value-valued expressions. -/
inductive VExpr where
  | undefined
  | none
  | var (x : Nat)
  /-- `<obj>.__dict__.pop(k, d)` -/
  | dictPop (k : SExpr) (d : VExpr)
  /-- `<obj>.__dict__.get(k, d)` -/
  | dictGet (k : SExpr) (d : VExpr)
  /-- `function(self)` -/
  | callFunction
  deriving Repr

inductive Cond where
  /-- the closure flag `cached` -/
  | cachedFlag
  /-- `x is Undefined` -/
  | isUndefined (x : Nat)
  /-- `x is not Undefined` -/
  | isNotUndefined (x : Nat)
  deriving Repr

inductive Stmt where
  | skip
  | seq (a b : Stmt)
  | assignS (x : Nat) (e : SExpr)
  | assign (x : Nat) (e : VExpr)
  /-- `<obj>.__dict__[k] = x = e` (targets left to right after `e` is evaluated) -/
  | dictSetAssign (k : SExpr) (x : Nat) (e : VExpr)
  /-- `<obj>.__dict__[k] = e` -/
  | dictSet (k : SExpr) (e : VExpr)
  | ite (c : Cond) (t e : Stmt)
  /-- `instance.trait_property_changed(name, old)` -/
  | propertyChanged (name : SExpr) (old : VExpr)
  | ret (x : Nat)
  deriving Repr

variable {Val : Type}

structure Ctx (Val : Type) where
  st : St Val
  svars : List (Nat × List Atom) := []
  vars : List (Nat × Old Val) := []
  exc : Option Exc := none
  result : Option (Old Val) := none

def lookupS (l : List (Nat × List Atom)) (x : Nat) : List Atom :=
  match l with
  | [] => []
  | (y, v) :: rest => if x = y then v else lookupS rest x

def lookupV (l : List (Nat × Old Val)) (x : Nat) : Old Val :=
  match l with
  | [] => .undefined
  | (y, v) :: rest => if x = y then v else lookupV rest x

def evalS (sv : List (Nat × List Atom)) : SExpr → List Atom
  | .traitsCache => [.traitsCache]
  | .propName => [.propName]
  | .funcName => [.getPrefix, .propName]
  | .cachedParam => [.traitsCache, .propName]
  | .oldSuffix => [.oldSuffix]
  | .var x => lookupS sv x
  | .cat a b => evalS sv a ++ evalS sv b
  | .dropLeft n e =>
    match evalS sv e with
    | a :: rest => if a.len = some n then rest else a :: rest
    | [] => []

/-- The key under which `cached_property` / the observer's handler keep the value. -/
def cacheKey : List Atom := [.traitsCache, .propName]

/-- `function(self)`: the raw getter (no store). -/
def callG (P : Env Val) (s : St Val) : Except Exc Val × St Val :=
  (P.G s.calls s.heap, { s with calls := s.calls + 1 })

/-- `x is Undefined` for a value the getter may have produced. -/
def isUndef (P : Env Val) : Old Val → Bool
  | .undefined => true
  | .none => false
  | .val v => P.isUndef v

def evalV (P : Env Val) (c : Ctx Val) : VExpr → Except Exc (Old Val) × St Val
  | .undefined => (.ok .undefined, c.st)
  | .none => (.ok .none, c.st)
  | .var x => (.ok (lookupV c.vars x), c.st)
  | .dictPop k d =>
    if evalS c.svars k = cacheKey then
      match c.st.cache with
      | some v => (.ok (.val v), { c.st with cache := none })
      | none => evalV P c d
    else evalV P c d
  | .dictGet k d =>
    if evalS c.svars k = cacheKey then
      match c.st.cache with
      | some v => (.ok (.val v), c.st)
      | none => evalV P c d
    else evalV P c d
  | .callFunction =>
    match callG P c.st with
    | (.ok v, s') => (.ok (.val v), s')
    | (.error e, s') => (.error e, s')

def evalC (P : Env Val) (c : Ctx Val) : Cond → Bool
  | .cachedFlag => P.cached
  | .isUndefined x => isUndef P (lookupV c.vars x)
  | .isNotUndefined x => !isUndef P (lookupV c.vars x)

def dictSet (k : List Atom) (v : Old Val) (s : St Val) : St Val :=
  if k = cacheKey then
    match v with
    | .val w => { s with cache := some w }
    | _ => s
  else s

/-- Execute a statement.  `tpcI` interprets `trait_property_changed` (the C
fragment).  A raised exception or a `return` stops the rest. -/
def exec (P : Env Val) (tpcI : St Val → Old Val → St Val) : Stmt → Ctx Val → Ctx Val
  | .skip, c => c
  | .seq a b, c =>
    let c' := exec P tpcI a c
    if c'.exc.isSome || c'.result.isSome then c' else exec P tpcI b c'
  | .assignS x e, c => { c with svars := (x, evalS c.svars e) :: c.svars }
  | .assign x e, c =>
    match evalV P c e with
    | (.ok v, s') => { c with st := s', vars := (x, v) :: c.vars }
    | (.error e, s') => { c with st := s', exc := some e }
  | .dictSetAssign k x e, c =>
    match evalV P c e with
    | (.ok v, s') => { c with st := dictSet (evalS c.svars k) v s', vars := (x, v) :: c.vars }
    | (.error e, s') => { c with st := s', exc := some e }
  | .dictSet k e, c =>
    match evalV P c e with
    | (.ok v, s') => { c with st := dictSet (evalS c.svars k) v s' }
    | (.error e, s') => { c with st := s', exc := some e }
  | .ite cnd t e, c => if evalC P c cnd then exec P tpcI t c else exec P tpcI e c
  | .propertyChanged _ old, c =>
    match evalV P c old with
    | (.ok v, s') => { c with st := tpcI s' v }
    | (.error e, s') => { c with st := s', exc := some e }
  | .ret x, c => { c with result := some (lookupV c.vars x) }

/-- The outcome of a getter-like program as `getattr` sees it. -/
def outcome (c : Ctx Val) : Except Exc Val × St Val :=
  match c.exc, c.result with
  | some e, _ => (.error e, c.st)
  | none, some (.val v) => (.ok v, c.st)
  | none, _ => (.error .other, c.st)

/-- `getattr(obj, 'p')`: ctraits.c `getattr_property1` calls the trait's getter
with the object; the getter is the `cached_property` wrapper (`decorator`) when
the user's function is wrapped, the user's function itself otherwise. -/
def readSrc (decorator : Stmt) (P : Env Val) (s : St Val) : Except Exc Val × St Val :=
  if P.cached then outcome (exec P (fun s _ => s) decorator { st := s }) else callG P s

/-! ## The legacy `depends_on` listener (`_init_trait_property_listener`)

Its two handlers keep the dropped entry in a second dictionary slot,
`cached + ':old'`, between the priority handler `pre_notify` and `notify`.
The model has no such slot (`dispatchFire` threads the dropped entry as a
value); the interpreter here carries it explicitly. -/

def oldKey : List Atom := [.traitsCache, .propName, .oldSuffix]

structure LCtx (Val : Type) where
  st : St Val
  /-- `obj.__dict__[cached + ':old']` -/
  oldSlot : Option (Old Val) := none
  svars : List (Nat × List Atom) := []
  vars : List (Nat × Old Val) := []

def evalVL (c : LCtx Val) : VExpr → Old Val × LCtx Val
  | .undefined => (.undefined, c)
  | .none => (.none, c)
  | .var x => (lookupV c.vars x, c)
  | .dictPop k d =>
    if evalS c.svars k = cacheKey then
      match c.st.cache with
      | some v => (.val v, { c with st := { c.st with cache := none } })
      | none => evalVL c d
    else if evalS c.svars k = oldKey then
      match c.oldSlot with
      | some o => (o, { c with oldSlot := none })
      | none => evalVL c d
    else evalVL c d
  | .dictGet k d =>
    if evalS c.svars k = cacheKey then
      match c.st.cache with
      | some v => (.val v, c)
      | none => evalVL c d
    else if evalS c.svars k = oldKey then
      match c.oldSlot with
      | some o => (o, c)
      | none => evalVL c d
    else evalVL c d
  | .callFunction => (.undefined, c)

def condL (P : Env Val) (c : LCtx Val) : Cond → Bool
  | .cachedFlag => P.cached
  | .isUndefined x => isUndef P (lookupV c.vars x)
  | .isNotUndefined x => !isUndef P (lookupV c.vars x)

/-- Execute a statement of the legacy fragment (no getter call, no `return`). -/
def execL (P : Env Val) (tpcI : St Val → Old Val → St Val) : Stmt → LCtx Val → LCtx Val
  | .skip, c => c
  | .seq a b, c => execL P tpcI b (execL P tpcI a c)
  | .assignS x e, c => { c with svars := (x, evalS c.svars e) :: c.svars }
  | .assign x e, c =>
    let r := evalVL c e
    { r.2 with vars := (x, r.1) :: r.2.vars }
  | .dictSet k e, c =>
    let r := evalVL c e
    if evalS c.svars k = oldKey then { r.2 with oldSlot := some r.1 }
    else if evalS c.svars k = cacheKey then
      match r.1 with
      | .val w => { r.2 with st := { r.2.st with cache := some w } }
      | _ => r.2
    else r.2
  | .dictSetAssign _ _ _, c => c
  | .ite cnd t e, c => if condL P c cnd then execL P tpcI t c else execL P tpcI e c
  | .propertyChanged _ old, c =>
    let r := evalVL c old
    { r.2 with st := tpcI r.2.st r.1 }
  | .ret _, c => c

/-! ## C fragment -/

inductive CVar where
  | obj | name | old_value | new_value | trait | tnotifiers | onotifiers | null_new_value | rc
  deriving DecidableEq, Repr

inductive CFun where
  | get_trait | has_notifiers | has_traits_getattro | call_notifiers
  deriving DecidableEq, Repr

inductive CExpr where
  | var (v : CVar)
  | null
  | int (n : Int)
  /-- `v->notifiers` -/
  | notifiersOf (v : CVar)
  /-- `f(args…, lits…)`: identifier arguments, then integer literals -/
  | call (f : CFun) (args : List CVar) (lits : List Int)
  /-- `v == NULL` -/
  | isNull (v : CVar)
  deriving Repr

inductive CStmt where
  | skip
  | seq (a b : CStmt)
  | assign (v : CVar) (e : CExpr)
  | ifS (c : CExpr) (t : CStmt)
  /-- `if ((v = e) == NULL) t` -/
  | ifAssignNull (v : CVar) (e : CExpr) (t : CStmt)
  | ret (e : CExpr)
  /-- `Py_DECREF(v)` (no effect on the model state) -/
  | decref (v : CVar)
  deriving Repr

inductive CVal (Val : Type) where
  | null
  | ptr
  /-- a notifier list (possibly `NULL`): does it hold a notifier? -/
  | notifiers (nonEmpty : Bool)
  | int (n : Int)
  | val (v : Val)
  | old (o : Old Val)

structure CState (Val : Type) where
  st : St Val
  loc : CVar → CVal Val
  ret : Option Int := none

def CVal.truthy : CVal Val → Bool
  | .null => false
  | .ptr => true
  | .notifiers _ => true
  | .int n => n != 0
  | .val _ => true
  | .old _ => true

def CVal.isNull : CVal Val → Bool
  | .null => true
  | _ => false

def CVal.nonEmpty : CVal Val → Bool
  | .notifiers b => b
  | _ => false

def setLoc (c : CState Val) (v : CVar) (x : CVal Val) : CState Val :=
  { c with loc := fun w => if w = v then x else c.loc w }

/-- Evaluate an expression.  `get_trait` finds the property's trait (instance
trait or class trait); `trait->notifiers` holds the class-level static handlers
(`_p_changed`, `_anytrait_changed`) and the handlers attached by name,
`obj->notifiers` the name-less ones; `has_traits_getattro(obj, name)` is the
ordinary attribute read `readI`; `call_notifiers` delivers `(old, new)` to
everybody present. -/
def evalCE (P : Env Val) (readI : St Val → Except Exc Val × St Val) (c : CState Val) :
    CExpr → CVal Val × CState Val
  | .var v => (c.loc v, c)
  | .null => (.null, c)
  | .int n => (.int n, c)
  | .notifiersOf v =>
    match v with
    | .trait => (.notifiers (P.staticL || c.st.dyn || P.staticAny), c)
    | .obj => (.notifiers c.st.dynObj, c)
    | _ => (.null, c)
  | .isNull v => (.int (if (c.loc v).isNull then 1 else 0), c)
  | .call .get_trait args lits =>
    -- `get_trait(obj, name, -1)`: the instance trait if there is one, else the class trait; never creates one
    if args = [.obj, .name] ∧ lits = [-1] then (.ptr, c) else (.null, c)
  | .call .has_notifiers args _ =>
    match args with
    | [a, b] => (.int (if (c.loc a).nonEmpty || (c.loc b).nonEmpty then 1 else 0), c)
    | _ => (.int 0, c)
  | .call .has_traits_getattro args _ =>
    if args = [.obj, .name] then
      match readI c.st with
      | (.ok v, s') => (.val v, { c with st := s' })
      | (.error _, s') => (.null, { c with st := s' })
    else (.null, c)
  | .call .call_notifiers args _ =>
    match args with
    | [_, _, _, _, o, n] =>
      match c.loc o, c.loc n with
      | .old ov, .val nv => (.int 0, { c with st := { c.st with notes := c.st.notes ++ [mkNote P c.st ov nv] } })
      | _, _ => (.int (-1), c)
    | _ => (.int (-1), c)

def retInt : CVal Val → Int
  | .int n => n
  | _ => 0

def execC (P : Env Val) (readI : St Val → Except Exc Val × St Val) : CStmt → CState Val → CState Val
  | .skip, c => c
  | .seq a b, c =>
    let c' := execC P readI a c
    if c'.ret.isSome then c' else execC P readI b c'
  | .assign v e, c =>
    let r := evalCE P readI c e
    setLoc r.2 v r.1
  | .ifS e t, c =>
    let r := evalCE P readI c e
    if r.1.truthy then execC P readI t r.2 else r.2
  | .ifAssignNull v e t, c =>
    let r := evalCE P readI c e
    let c' := setLoc r.2 v r.1
    if r.1.isNull then execC P readI t c' else c'
  | .ret e, c =>
    let r := evalCE P readI c e
    { r.2 with ret := some (retInt r.1) }
  | .decref _, c => c

/-- `obj.trait_property_changed(name, old)` (the Python-level method passes
`new_value = NULL`). -/
def tpcSrc (body : CStmt) (decorator : Stmt) (P : Env Val) (s : St Val) (old : Old Val) : St Val :=
  (execC P (readSrc decorator P) body
    { st := s, loc := fun v => match v with
        | .obj => .ptr | .name => .ptr | .old_value => .old old | _ => .null }).st

/-- What `trait_property_changed` returns (`-1`: an exception is set). -/
def tpcRcSrc (body : CStmt) (decorator : Stmt) (P : Env Val) (s : St Val) (old : Old Val) : Int :=
  ((execC P (readSrc decorator P) body
    { st := s, loc := fun v => match v with
        | .obj => .ptr | .name => .ptr | .old_value => .old old | _ => .null }).ret).getD 0

/-- The observer's handler `handler(instance, event)`. -/
def handlerSrc (handler : Stmt) (body : CStmt) (decorator : Stmt) (P : Env Val) (s : St Val) : St Val :=
  (exec P (tpcSrc body decorator P) handler { st := s }).st

/-! ## C property handlers as data (`getattr_property0..3`, `setattr_property0..3`,
`setattr_validate0..3`, `setattr_validate_property`, `_trait_set_property`)

`propsrc.py` reads each handler statement by statement against the grammar
"delete guard; build the argument tuple; call a callable stored in a field of
one of the trait objects; fail on NULL; return" and emits what varies: which
trait object, which field, which arguments in which order, which guards are
present and where.  Reference-count statements carry no data. -/

inductive HArg where
  | obj | name | value | trait | traito | traitd | validated
  deriving DecidableEq, Repr

inductive HField where
  | delegate_name | delegate_prefix | py_validate | validate | post_setattr
  deriving DecidableEq, Repr

inductive HWho where
  | trait | traito | traitd
  deriving DecidableEq, Repr

/-- `PyObject_Call(who->field, (args…))` or `who->field(args…)` -/
structure CallH where
  who : HWho
  field : HField
  args : List HArg
  deriving DecidableEq, Repr

/-- `setattr_propertyN`. -/
structure SetH where
  /-- `if (value == NULL) return set_delete_property_error(obj, name);` is the first statement -/
  deleteGuard : Bool
  call : CallH
  /-- `if (result == NULL) return -1;` follows the call; then `return 0` -/
  failOnNull : Bool
  deriving DecidableEq, Repr

/-- `setattr_validate_property`. -/
structure ValSetH where
  deleteGuard : Bool
  validate : CallH
  /-- `if (validated == NULL) return -1;` between the two calls -/
  failOnNull : Bool
  set : CallH
  /-- the result of the setter call is what is returned -/
  returnsSetResult : Bool
  deriving DecidableEq, Repr

/-- What `_trait_set_property(get, get_n, set, set_n, validate, validate_n)` installs. -/
structure InstallH where
  /-- indices in `getattr_property_handlers[]`, `setattr_property_handlers[]` (first four),
  `setattr_validate_handlers[]`: entry `i` is handler number … -/
  getTable : List Nat
  setTable : List Nat
  validateTable : List Nat
  /-- `trait->getattr = getattr_property_handlers[get_n]` -/
  getIndexedBy : String
  /-- with a validator: `setattr = setattr_validate_property`, `post_setattr = set table[…]`, `validate = validate table[…]` -/
  validatedSetattr : String
  validatedPostIndexedBy : String
  validatedValidateIndexedBy : String
  /-- without: `setattr = set table[…]` -/
  plainSetIndexedBy : String
  /-- the branch condition -/
  validatedWhen : String
  /-- `delegate_name`, `delegate_prefix`, `py_validate` := -/
  fields : List (String × String)
  deriving DecidableEq, Repr

structure Handlers where
  get : List CallH
  set : List SetH
  validate : List CallH
  vset : ValSetH
  install : InstallH

/-- The handler installed for index `n` through a table. -/
def viaTable {α : Type} (table : List Nat) (hs : List α) (n : Nat) : Option α :=
  match table[n]? with
  | some i => hs[i]?
  | none => none

/-- Run `setattr_propertyN` (data `h`) with `value` = `v` (`none`: `NULL`, a deletion);
`valueArg` is the name the value goes by in the argument list (`value`, or
`validated` when called from `setattr_validate_property`). -/
def runSetH (P : Env Val) (s : St Val) (h : SetH) (v : Option Int) : Except Exc Unit × St Val :=
  match v with
  | none => if h.deleteGuard then (.error .traitError, s) else (.error .other, s)
  | some x =>
    if h.call.who = .traitd ∧ h.call.field = .delegate_prefix then
      match P.fset with
      | none => (.error .traitError, s)
      | some f =>
        match f s.heap (if h.call.args.getLast? = some .value then some x else none) with
        | .error e => if h.failOnNull then (.error e, s) else (.ok (), s)
        | .ok ms => (.ok (), runMuts P s ms)
    else (.error .other, s)

/-- `obj.p = x` / `del obj.p` as the installed C handlers execute it. -/
def setSrc (H : Handlers) (P : Env Val) (s : St Val) (a : SetArg) : Except Exc Unit × St Val :=
  let v : Option Int := match a with | .value x => some x | .delete => none
  match P.fvalidate with
  | none =>
    -- `trait->setattr = setattr_property_handlers[set_n]`
    match viaTable H.install.setTable H.set P.setN with
    | some h => runSetH P s h v
    | none => (.error .other, s)
  | some fv =>
    -- `trait->setattr = setattr_validate_property`
    match v with
    | none => if H.vset.deleteGuard then (.error .traitError, s) else (.error .other, s)
    | some x =>
      if H.vset.validate = ⟨.traitd, .validate, [.traitd, .obj, .name, .value]⟩
          ∧ H.vset.set = ⟨.traitd, .post_setattr, [.traito, .traitd, .obj, .name, .validated]⟩
          ∧ H.vset.returnsSetResult then
        match fv x with
        | .error e => if H.vset.failOnNull then (.error e, s) else (.error .other, s)
        | .ok y =>
          -- `post_setattr = setattr_property_handlers[set_n]`, called with `validated` as its `value`
          match viaTable H.install.setTable H.set P.setN with
          | some h => runSetH P s h (some y)
          | none => (.error .other, s)
      else (.error .other, s)

end TraitsVerif.Model.PropL
