/-
PyLSync — the deep-embedded statement language into which
`harness/translate/syncprog.py` translates the *source text* of
`HasTraits._sync_trait_modified` and `HasTraits._sync_trait_items_modified`
(traits/has_traits.py), and its total interpreter.

Statements are generic Python control flow (sequence, `if`, `for` over a dict
view — live, or over a `list(...)` snapshot —, `try/except: pass`,
`try/finally`, `return`, `continue`); conditions and actions are the atomic
expressions of the two handlers after the translator has substituted the local
bindings (`info = self.__sync_trait__`, `locked = info[""]`, `object = object()`,
`partner_list = getattr(object, object_name)` …).  The state is the world of
`Model.Sync` extended by what partner death *during* a propagation needs:

* `doom`  — armed triggers `(p, o)`: when trait `p` is notified, the last strong
            reference to object `o` is dropped (a user handler doing `del`),
* `dead`  — the objects collected so far,
* `busy`  — the objects the running command addresses (kept alive by its frames),
* `swallowed` — exceptions that escaped a synchronisation handler and were
            swallowed by the notifier machinery (`push_exception_handler(…,
            reraise_exceptions=False)`, the configuration of the harness).

Trusted reading of CPython (what the interpreter *means*):

* `for … in d.values()` on a live dict is positional iteration with the size
  check of `dictiter_iternextvalue`: before every step (also the one that would
  end the loop) `len(d)` is compared with the length at loop start; a difference
  raises `RuntimeError`.  Faithful whenever tables only shrink during a loop —
  all a model history can do.
* a weak reference to a collected object dereferences to `None`; attribute
  access on it is an `AttributeError`.
* `partner_list is changed_list` is false: distinct `List` traits hold distinct
  `TraitListObject`s (a `List` trait copies on assignment), and the trait itself
  is never reached because its own lock is set (the `Any` partner of former
  finding F85 is outside the model).
* `del locked[name]` on an absent key is a `KeyError`.
* **List identity** (`updated = {id(changed_list)}`, `id(partner_list) in updated`,
  `updated.add(id(partner_list))`, fix 78fd598): the model has no list objects,
  only the lists traits hold.  Inside the model every trait holds a list object
  of its own (a `List` trait copies what it is assigned; a partner that is not a
  `List` trait and shares a list object — `Any` — is outside the model and runs on
  the implementation only, `#sy` cases), so the identity of "the list object held
  by trait `q`" is `q` itself: `updated` is a list of traits, initialised to
  `[self.name]`; the test is membership of the partner trait.
-/
import TraitsVerif.Model.Sync
namespace TraitsVerif.Model.PyLSync
open TraitsVerif TraitsVerif.Py TraitsVerif.Model TraitsVerif.Model.Sync

structure KWorld (α : Type) where
  w : World α
  doom : List (Pair × Nat) := []
  dead : List Nat := []
  busy : List Nat := []
  swallowed : Nat := 0
  /-- the traits on which `_sync_trait_modified` is registered (`sync_trait` adds and
  removes it; a stale registration is harmless: the handler returns at once when
  the trait has no table, so the propagation does not consult this field) -/
  hookedM : List Pair := []

/-- What is done to a trait: `setattr` or a list method. -/
inductive Req (α : Type) where
  | assign (v : AVal α)
  | mutate (op : Op α)

/-- What the notification passes to the synchronisation handler: `new` or `event`. -/
inductive Payload (α : Type) where
  | new (v : AVal α)
  | event (e : Event α)

/-- `setattr(obj, name, v)` / `getattr(obj, name).<mutator>(…)` with everything it triggers. -/
abbrev Rec (α : Type) := KWorld α → Pair → Req α → Except Exc (KWorld α × Option α)

/-- The local `index`. -/
inductive Idx where
  | int (n : Int)
  | slice (s : Slice)
  deriving DecidableEq, Repr

inductive Cond where
  /-- `name in self.__sync_trait__` -/
  | nameInInfo
  /-- `object_name in object()._get_sync_trait_info()[""]` (`true`) / `name in …` (`false`) -/
  | lockedAtPartner (partnerName : Bool)
  /-- `object() is None`: the partner has been collected -/
  | partnerDead
  /-- `isinstance(index, slice)` -/
  | indexIsSlice
  /-- `getattr(object(), object_name) is getattr(self, name)` -/
  | sameListObject
  /-- `id(getattr(object(), object_name)) in updated` -/
  | partnerListUpdated
  /-- truth value of `event.added` -/
  | eventAdded
  /-- `index.step is None` -/
  | stepIsNone
  | not (c : Cond)
  | or (a b : Cond)
  | and (a b : Cond)
  deriving DecidableEq, Repr

inductive Act where
  /-- `self.__sync_trait__[""][name] = None` -/
  | lock
  /-- `del self.__sync_trait__[""][name]` -/
  | unlock
  /-- `setattr(object(), object_name, new)` -/
  | setPartner
  /-- `index = slice(index, index + len(event.removed))` -/
  | indexToSlice
  /-- `getattr(object(), object_name)[index] = event.added` -/
  | partnerSetSlice
  /-- `del getattr(object(), object_name)[index]` -/
  | partnerDelSlice
  /-- `updated = {id(getattr(self, name))}` -/
  | initUpdated
  /-- `updated.add(id(getattr(object(), object_name)))` -/
  | markUpdated
  deriving DecidableEq, Repr

inductive Stmt where
  | skip
  | act (a : Act)
  | ret
  | cont
  | seq (s t : Stmt)
  | ite (c : Cond) (t e : Stmt)
  /-- `for object, object_name in info[name].values(): object = object(); body`
  (`live = false`: over `list(info[name].values())`) -/
  | forPartners (live : Bool) (body : Stmt)
  /-- `try: body  except: pass` (`all = false`: `except TraitError: pass`) -/
  | tryPass (all : Bool) (body : Stmt)
  | tryFinally (body fin : Stmt)
  deriving DecidableEq, Repr

inductive Sig where
  | norm
  | ret
  | cont
  | exc (e : Exc)
  deriving DecidableEq, Repr

structure St (α : Type) where
  k : KWorld α
  idx : Idx
  /-- the local `updated`: the list objects that hold the change already, each
  named by the trait that holds it (see the header) -/
  upd : List Pair := []

variable {α : Type}

def St.setW (s : St α) (w : World α) : St α := { s with k := { s.k with w := w } }

/-- The local `index = event.index` at handler entry. -/
def initIdx : Payload α → Idx
  | .event e =>
    match e.index with
    | .idx n => .int n
    | .slc a b c => .slice ⟨some a, some b, some c⟩
  | .new _ => .int 0

def evalCond (p : Pair) (pay : Payload α) (cur : Option Pair) (s : St α) : Cond → Except Exc Bool
  | .nameInInfo => .ok (!(s.k.w.partners p).isEmpty)
  | .lockedAtPartner pn =>
    match cur with
    | none => .error .other
    | some q =>
      if q.1 ∈ s.k.dead then .error .attributeError
      else .ok (decide ((q.1, if pn then q.2 else p.2) ∈ s.k.w.locked))
  | .partnerDead =>
    match cur with
    | none => .error .other
    | some q => .ok (decide (q.1 ∈ s.k.dead))
  | .indexIsSlice => .ok (match s.idx with | .slice _ => true | .int _ => false)
  | .sameListObject => .ok false
  | .partnerListUpdated =>
    match cur with
    | none => .error .other
    | some q => .ok (decide (q ∈ s.upd))
  | .eventAdded =>
    match pay with
    | .event e => .ok (!e.added.isEmpty)
    | .new _ => .error .attributeError
  | .stepIsNone =>
    match s.idx with
    | .slice sl => .ok sl.step.isNone
    | .int _ => .error .attributeError
  | .not c =>
    match evalCond p pay cur s c with
    | .ok b => .ok (!b)
    | .error e => .error e
  | .or a b =>
    match evalCond p pay cur s a with
    | .ok true => .ok true
    | .ok false => evalCond p pay cur s b
    | .error e => .error e
  | .and a b =>
    match evalCond p pay cur s a with
    | .ok false => .ok false
    | .ok true => evalCond p pay cur s b
    | .error e => .error e

/-- A call that reaches into the partner: `setattr` / a list method on a collected
partner (`None`) is an `AttributeError`; an exception leaves the state as it was
(the partner's own trait rejected the value before anything happened). -/
def callRec (rec : Rec α) (q : Pair) (req : Req α) (s : St α) : St α × Sig :=
  if q.1 ∈ s.k.dead then (s, .exc .attributeError)
  else match rec s.k q req with
    | .ok (k', _) => ({ s with k := k' }, .norm)
    | .error e => (s, .exc e)

def doAct (rec : Rec α) (p : Pair) (pay : Payload α) (cur : Option Pair) (s : St α) : Act → St α × Sig
  | .lock => (s.setW (s.k.w.lock p), .norm)
  | .unlock => if p ∈ s.k.w.locked then (s.setW (s.k.w.unlock p), .norm) else (s, .exc .keyError)
  | .indexToSlice =>
    match s.idx, pay with
    | .int n, .event e => ({ s with idx := .slice ⟨some n, some (n + e.removed.length), none⟩ }, .norm)
    | _, _ => (s, .exc .typeError)
  | .setPartner =>
    match cur, pay with
    | some q, .new v => callRec rec q (.assign v) s
    | _, _ => (s, .exc .other)
  | .partnerSetSlice =>
    match cur, pay, s.idx with
    | some q, .event e, .slice sl => callRec rec q (.mutate (.setSlice sl e.added)) s
    | _, _, _ => (s, .exc .traitError)
  | .partnerDelSlice =>
    match cur, s.idx with
    | some q, .slice sl => callRec rec q (.mutate (.delSlice sl)) s
    | _, _ => (s, .exc .typeError)
  | .initUpdated => ({ s with upd := [p] }, .norm)
  | .markUpdated =>
    match cur with
    | some q => ({ s with upd := q :: s.upd }, .norm)
    | none => (s, .exc .other)

/-- Live iteration over `info[name].values()` (see the header). -/
def liveLoop (body : St α → Pair → St α × Sig) (p : Pair) (n0 : Nat) : Nat → Nat → St α → St α × Sig
  | 0, _, s => (s, .norm)
  | fuel + 1, i, s =>
    if (s.k.w.partners p).length ≠ n0 then (s, .exc .runtimeError)
    else match (s.k.w.partners p)[i]? with
      | none => (s, .norm)
      | some q =>
        match body s q with
        | (s1, .norm) => liveLoop body p n0 fuel (i + 1) s1
        | (s1, .cont) => liveLoop body p n0 fuel (i + 1) s1
        | r => r

/-- Iteration over the snapshot `list(info[name].values())`. -/
def snapLoop (body : St α → Pair → St α × Sig) : List Pair → St α → St α × Sig
  | [], s => (s, .norm)
  | q :: qs, s =>
    match body s q with
    | (s1, .norm) => snapLoop body qs s1
    | (s1, .cont) => snapLoop body qs s1
    | r => r

def interp (rec : Rec α) (p : Pair) (pay : Payload α) : Stmt → Option Pair → St α → St α × Sig
  | .skip, _, s => (s, .norm)
  | .ret, _, s => (s, .ret)
  | .cont, _, s => (s, .cont)
  | .act a, cur, s => doAct rec p pay cur s a
  | .seq a b, cur, s =>
    match interp rec p pay a cur s with
    | (s1, .norm) => interp rec p pay b cur s1
    | r => r
  | .ite c t e, cur, s =>
    match evalCond p pay cur s c with
    | .error x => (s, .exc x)
    | .ok true => interp rec p pay t cur s
    | .ok false => interp rec p pay e cur s
  | .tryPass all body, cur, s =>
    match interp rec p pay body cur s with
    | (s1, .exc x) => if all || x = .traitError then (s1, .norm) else (s1, .exc x)
    | r => r
  | .tryFinally body fin, cur, s =>
    match interp rec p pay body cur s with
    | (s1, sig) =>
      match interp rec p pay fin cur s1 with
      | (s2, .norm) => (s2, sig)
      | r => r
  | .forPartners live body, _, s =>
    if (s.k.w.partners p).isEmpty then (s, .exc .keyError)     -- `info[name]`
    else if live then
      liveLoop (fun s q => interp rec p pay body (some q) s) p (s.k.w.partners p).length
        ((s.k.w.partners p).length + 1) 0 s
    else snapLoop (fun s q => interp rec p pay body (some q) s) (s.k.w.partners p) s

/-- Running a handler: the world it leaves and the exception that escaped it
(`return` ends it normally; a stray `continue` cannot be generated). -/
def runHandler (rec : Rec α) (prog : Stmt) (k : KWorld α) (p : Pair) (pay : Payload α) : KWorld α × Option Exc :=
  match interp rec p pay prog none { k := k, idx := initIdx pay } with
  | (s, .exc e) => (s.k, some e)
  | (s, _) => (s.k, none)

end TraitsVerif.Model.PyLSync
