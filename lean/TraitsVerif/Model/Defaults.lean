/-
Cluster `attr`, part 2: trait definitions, the allocation context and default
values.

Mirrors (pinned tree):
  traits/ctraits.c:1840-1913   `default_value_for` (all eleven `default_value_type`s)
  traits/ctraits.c:583-597     `call_class` (TraitListObject / TraitDictObject / TraitSetObject)
  traits/trait_type.py:36-56   `clone_copies_default_value`, `clone_becomes_constant_default_value`,
                               `clone_no_override_default_value`
  traits/trait_type.py:289-373 `TraitType.clone(default_value)`  (subclass-overridden defaults)
  traits/has_traits.py:553-569 `class_traits[name] = ictrait(value)` (override by value)
  traits/has_traits.py:620-677 static handlers and `_name_default` bound onto a clone of the class trait

"A fresh copy" is a fresh identity: the context carries an allocation counter
and a heap (container id ↦ element ids).  Copies are shallow, as
`PySequence_List` / `PyDict_Copy` / `TraitListObject(...)` are.
-/
import TraitsVerif.Model.Wrappers
namespace TraitsVerif.Model.Attr
open TraitsVerif

/-- Attribute names are numbered. -/
abbrev Name := Nat

/-- The fields of a `trait_object` (ctraits.c:217-239) that `setattr_trait`,
`getattr_trait` and `default_value_for` read, except the notifier list.
`validate` / `post` name a callback of the environment (`none` = NULL). -/
structure TraitCore where
  kind : Kind := .trait
  flags : Nat := 0
  validate : Option Nat := none
  post : Option Nat := none
  /-- `default_value_type` -/
  dvt : Nat := 0
  /-- `default_value` (`none` = NULL); for the callable kinds, the callable. -/
  dv : Option Id := none
  deriving DecidableEq, Repr, Inhabited

/-- A CTrait: its definition plus its notifier list (`none` = NULL). -/
structure TraitDef where
  core : TraitCore
  notifiers : Option (List Notifier) := none
  deriving DecidableEq, Repr, Inhabited

/-- An element of a value produced by a default factory: an existing object,
or a fresh container holding existing objects. -/
inductive Elem where
  | atom (v : Id)
  | inner (xs : List Id)
  deriving DecidableEq, Repr, Inhabited

/-- What a default factory (`factory(*args, **kw)`, `_name_default(self)`,
`Tuple._get_default_value`, …) returns: an object that already exists, or a
freshly built container. -/
inductive FRes where
  | existing (v : Id)
  /-- `frozen`: the outer container is a tuple (cannot be mutated itself) -/
  | fresh (elems : List Elem) (frozen : Bool := false)
  deriving DecidableEq, Repr, Inhabited

/-- Everything shared by all objects: allocation counter, heap, logs, callback ordinals. -/
structure Ctx where
  /-- next fresh identity -/
  alloc : Nat := 0
  /-- container id ↦ element ids (shallow) -/
  heap : List (Id × List Id) := []
  /-- immutable containers (tuples) -/
  frozen : List Id := []
  /-- user change-handler invocations, oldest first -/
  log : List Call := []
  /-- `post_setattr` invocations `(object, value)` -/
  postLog : List (Id × Id) := []
  /-- default factory invocations `(callable, object, attribute name)` -/
  fcalls : List (Id × Id × Name) := []
  /-- number of validator invocations so far (the validator's call ordinal) -/
  nval : Nat := 0
  deriving DecidableEq, Repr, Inhabited

/-- Callbacks and tables the model cannot compute. -/
structure Env where
  cmp : Cmp
  /-- validator number ↦ (call ordinal, value) ↦ validated value / exception -/
  validate : Nat → Callback Id Id
  /-- post_setattr number ↦ (call ordinal, value) ↦ () / exception -/
  post : Nat → Callback Id Unit
  /-- callable id ↦ (call ordinal, object) ↦ result / exception -/
  factory : Id → Callback Id FRes
  /-- handler number ↦ (call ordinal = number of earlier handler calls, (old, new)) -/
  handler : Nat → Callback (Id × Id) HAct
  /-- new values that are HasTraits objects with `HASTRAITS_VETO_NOTIFY` set -/
  veto : Id → Bool
  /-- top of the `trait_notifiers` exception-handler stack has `reraise_exceptions=True` -/
  reraiseLegacy : Bool
  /-- top of the `observation.exception_handling` stack has `reraise_exceptions=True` -/
  reraiseObserve : Bool
  /-- the warning filters turn `UserWarning` into an exception (`-W error`) -/
  warnError : Bool := false

def heapGet (heap : List (Id × List Id)) (i : Id) : Option (List Id) :=
  (heap.find? (·.1 == i)).map (·.2)

def heapSet (heap : List (Id × List Id)) (i : Id) (xs : List Id) : List (Id × List Id) :=
  if heap.any (·.1 == i) then heap.map (fun e => if e.1 == i then (i, xs) else e)
  else heap ++ [(i, xs)]

/-- Allocate a fresh container with the given elements. -/
def Ctx.newContainer (c : Ctx) (xs : List Id) : Id × Ctx :=
  (c.alloc, { c with alloc := c.alloc + 1, heap := c.heap ++ [(c.alloc, xs)] })

/-- Shallow copy of the object `src` (`list(src)`, `dict.copy`, `TraitListObject(..., src)`).
An object without heap entry is copied as an empty container. -/
def Ctx.copyOf (c : Ctx) (src : Id) : Id × Ctx :=
  c.newContainer ((heapGet c.heap src).getD [])

/-- Allocate the elements of a factory result, left to right. -/
def Ctx.allocElems (c : Ctx) : List Elem → List Id × Ctx
  | [] => ([], c)
  | .atom v :: es =>
    let (vs, c') := c.allocElems es
    (v :: vs, c')
  | .inner xs :: es =>
    let (i, c1) := c.newContainer xs
    let (vs, c') := c1.allocElems es
    (i :: vs, c')

/-- Materialise a factory result: inner containers first, then the outer one. -/
def Ctx.allocRes (c : Ctx) : FRes → Id × Ctx
  | .existing v => (v, c)
  | .fresh es fr =>
    let (vs, c1) := c.allocElems es
    let (i, c2) := c1.newContainer vs
    (i, if fr then { c2 with frozen := c2.frozen ++ [i] } else c2)

/-- `traitd->validate(traitd, obj, name, value)`; the call ordinal is the number
of earlier validator calls. -/
def runValidate (E : Env) (t : TraitCore) (v : Id) (c : Ctx) : Except Exc Id × Ctx :=
  match t.validate with
  | none => (.ok v, c)
  | some k => (E.validate k c.nval v, { c with nval := c.nval + 1 })

/-- `PyObject_Call(callable, …)` for a default: the call is recorded (its ordinal is
the number of earlier factory calls) and the result materialised.  `arg` is the
object for `_name_default(self)`, `None` for `factory(*args, **kw)`. -/
def callFactory (E : Env) (f obj : Id) (name : Name) (arg : Id) (c : Ctx) : Except Exc Id × Ctx :=
  match E.factory f c.fcalls.length arg with
  | .error e => (.error e, { c with fcalls := c.fcalls ++ [(f, obj, name)] })
  | .ok r =>
    match ({ c with fcalls := c.fcalls ++ [(f, obj, name)] } : Ctx).allocRes r with
    | (v, c2) => (.ok v, c2)

/-- ctraits.c:1885-1899: the result of `_name_default(self)` is validated; a trait
that stores original values keeps the unvalidated result. -/
def validateDefault (E : Env) (t : TraitCore) (v : Id) (c : Ctx) : Except Exc Id × Ctx :=
  match t.validate with
  | none => (.ok v, c)
  | some _ =>
    match runValidate E t v c with
    | (.error e, c3) => (.error e, c3)
    | (.ok w, c3) =>
      if testFlag t.flags Generated.TRAIT_SETATTR_ORIGINAL_VALUE then (.ok v, c3) else (.ok w, c3)

/-- `_warn_on_attribute_error(result)` (ctraits.c:1794-1838), applied to the result
of the two default kinds that call user code: an `AttributeError` raised by the
default computation makes Traits issue a `UserWarning` ("default value resolution
raised an AttributeError").  Under the usual warning filters the warning is
reported and the `AttributeError` is restored and passed through; when warnings
are errors the `UserWarning` (whose `__cause__` is the `AttributeError`) is raised
INSTEAD — the one path where a raising default is not passed through unchanged.
Every other exception is passed through unchanged. -/
def warnOnAttributeError (E : Env) : Except Exc Id → Except Exc Id
  | .error .attributeError => if E.warnError then .error .other else .error .attributeError
  | r => r

/-- `default_value_for(trait, obj, name)` (ctraits.c:1840-1913). -/
def defaultValueFor (E : Env) (t : TraitCore) (obj : Id) (name : Name) (c : Ctx) : Except Exc Id × Ctx :=
  if t.dvt = Generated.CONSTANT_DEFAULT_VALUE ∨ t.dvt = Generated.MISSING_DEFAULT_VALUE then
    -- result = trait->default_value; if (result == NULL) result = Py_None;
    (.ok (t.dv.getD noneId), c)
  else if t.dvt = Generated.OBJECT_DEFAULT_VALUE then
    (.ok obj, c)
  else if t.dvt = Generated.LIST_COPY_DEFAULT_VALUE ∨ t.dvt = Generated.DICT_COPY_DEFAULT_VALUE
        ∨ t.dvt = Generated.TRAIT_LIST_OBJECT_DEFAULT_VALUE ∨ t.dvt = Generated.TRAIT_DICT_OBJECT_DEFAULT_VALUE
        ∨ t.dvt = Generated.TRAIT_SET_OBJECT_DEFAULT_VALUE then
    -- PySequence_List / PyDict_Copy / call_class(Trait{List,Dict,Set}Object, …, default_value)
    match c.copyOf (t.dv.getD noneId) with
    | (i, c') => (.ok i, c')
  else if t.dvt = Generated.CALLABLE_AND_ARGS_DEFAULT_VALUE then
    -- PyObject_Call(dv[0], dv[1], dv[2]); _warn_on_attribute_error(result)
    match callFactory E (t.dv.getD noneId) obj name noneId c with
    | (r, c1) => (warnOnAttributeError E r, c1)
  else if t.dvt = Generated.CALLABLE_DEFAULT_VALUE then
    -- result = default_value(obj); then validate; _warn_on_attribute_error(result)
    match callFactory E (t.dv.getD noneId) obj name obj c with
    | (.error e, c1) => (warnOnAttributeError E (.error e), c1)
    | (.ok v, c2) =>
      match validateDefault E t v c2 with
      | (r, c3) => (warnOnAttributeError E r, c3)
  else
    -- DISALLOW_DEFAULT_VALUE: ValueError("default value not permitted for this trait")
    (.error .valueError, c)

/-! ### Class construction: subclass-overridden defaults -/

def dvtName (n : Nat) : String :=
  match Generated.defaultValueMembers.find? (fun p => p.2 == (n : Int)) with
  | some p => p.1
  | none => "?"

/-- `TraitType.clone(default_value)` (trait_type.py:333-371): the new
`(default_value_type, default_value)` of the clone.  `validated` is the outcome
of `self.validate(None, None, default_value)` (an exception there is logged
and ignored, keeping the unvalidated value). -/
def cloneDefault (E : Env) (t : TraitCore) (newDv : Id) (c : Ctx) : Except Exc TraitCore × Ctx :=
  if Generated.cloneNoOverrideDefaultValue.contains (dvtName t.dvt) then
    (.error .traitError, c)
  else
    let orig := testFlag t.flags Generated.TRAIT_SETATTR_ORIGINAL_VALUE
    let (dv1, c1) :=
      if t.validate.isNone || orig then (newDv, c)
      else match runValidate E t newDv c with
        | (.ok w, c1) => (w, c1)
        | (.error _, c1) => (newDv, c1)
    -- if new.default_value_type in clone_copies_default_value: default_value = default_value.copy()
    let (dv2, c2) :=
      if Generated.cloneCopiesDefaultValue.contains (dvtName t.dvt) then c1.copyOf dv1 else (dv1, c1)
    -- if new.default_value_type in clone_becomes_constant_default_value: … = DefaultValue.constant
    let dvt' :=
      if Generated.cloneBecomesConstantDefaultValue.contains (dvtName t.dvt) then Generated.CONSTANT_DEFAULT_VALUE
      else t.dvt
    -- `as_ctrait` reads `comparison_mode` from the trait type's `_metadata` without removing it
    -- (trait_type.py:470-475, repaired by 84d55f9: it used to `pop` it, finding F23), and the clone
    -- copies that `_metadata`: the CTrait of the clone has the flags of the original
    (.ok { t with dvt := dvt', dv := some dv2 }, c2)

/-- What a class body says about one attribute name. -/
inductive Member where
  /-- `x = SomeTrait(...)`: the CTrait `as_ctrait()` produces -/
  | trait (t : TraitCore)
  /-- `x = t` where the TraitType instance `t` was already bound to an earlier name:
  every `as_ctrait()` of one TraitType instance yields the same definition -/
  | traitAgain (t : TraitCore)
  /-- `x = <value>` where a base class defines trait `x` (override by value) -/
  | value (v : Id)
  deriving DecidableEq, Repr

/-- One class trait: the handler's (TraitType's) own definition — what a later
override-by-value clones — and the CTrait stored in `__class_traits__`
(which may carry a bound `_name_default` and static notifiers). -/
structure ClassTrait where
  handler : TraitCore
  ctrait : TraitDef
  deriving DecidableEq, Repr, Inhabited

structure ClassRec where
  traits : List (Name × ClassTrait) := []
  deriving DecidableEq, Repr, Inhabited

def ClassRec.get (k : ClassRec) (n : Name) : Option ClassTrait :=
  (k.traits.find? (·.1 == n)).map (·.2)

/-- Declaration of one name in a class statement: the member (if the body
assigns the name), the body's own `_name_default` (a callable id), and the
static handlers found for the name through the MRO
(`_anytrait_changed`, `_name_changed`, `_name_fired`, in this order). -/
structure Decl where
  name : Name
  member : Option Member := none
  default : Option Id := none
  statics : List Nat := []
  deriving DecidableEq, Repr

/-- The part of `update_traits_class_dict` that concerns one name:
resolve the member (own trait / override by value / inherited), then
"make sure all static trait notification handlers are attached to a *cloned*
copy of the original trait" and bind `_name_default`
(has_traits.py:620-677; `_clone_trait` does not copy notifiers). -/
def declare (E : Env) (base : Option ClassRec) (d : Decl) (c : Ctx) : Except Exc (Option ClassTrait) × Ctx :=
  let inherited := base.bind (·.get d.name)
  let resolved : Except Exc (Option TraitCore) × Ctx :=
    match d.member with
    | some (.trait t) => (.ok (some t), c)
    | some (.traitAgain t) => (.ok (some t), c)
    | some (.value v) =>
      match inherited with
      | none => (.ok none, c)           -- plain class attribute, not a trait
      | some ct =>
        match cloneDefault E ct.handler v c with
        | (.ok t, c1) => (.ok (some t), c1)
        | (.error e, c1) => (.error e, c1)
    | none => (.ok (inherited.map (·.ctrait.core)), c)
  match resolved with
  | (.error e, c1) => (.error e, c1)
  | (.ok none, c1) => (.ok none, c1)
  | (.ok (some t), c1) =>
    -- handler-level definition: own member, or the inherited handler when nothing is assigned
    let h : TraitCore := match d.member, inherited with
      | none, some ct => ct.handler
      | _, _ => t
    let core : TraitCore := match d.default with
      | some f => { t with dvt := Generated.CALLABLE_DEFAULT_VALUE, dv := some f }
      | none => t
    let ns : Option (List Notifier) :=
      if d.statics.isEmpty then none else some (d.statics.map (fun k => ⟨.static, k, 1⟩))
    (.ok (some { handler := h, ctrait := { core := core, notifiers := ns } }), c1)

/-- Build a class from its base and declarations (one per name, in order). -/
def buildClass (E : Env) (base : Option ClassRec) : List Decl → Ctx → Except Exc ClassRec × Ctx
  | [], c => (.ok {}, c)
  | d :: ds, c =>
    match declare E base d c with
    | (.error e, c1) => (.error e, c1)
    | (.ok r, c1) =>
      match buildClass E base ds c1 with
      | (.error e, c2) => (.error e, c2)
      | (.ok k, c2) =>
        match r with
        | none => (.ok k, c2)
        | some ct => (.ok { traits := (d.name, ct) :: k.traits }, c2)

end TraitsVerif.Model.Attr
