/-
Cluster `attr`, part 3: attribute assignment, read and notification.

Mirrors (pinned tree), function by function:
  traits/ctraits.c:2259-2329   `call_notifiers`
  traits/ctraits.c:2335-2367   `setattr_event`
  traits/ctraits.c:2373-2553   `setattr_trait`
  traits/ctraits.c:1939-1947   `getattr_event`
  traits/ctraits.c:1953-2012   `getattr_trait`
  traits/ctraits.c:649-665     `has_traits_setattro`
  traits/ctraits.c:836-884     `has_traits_getattro`
  traits/ctraits.c:890-979     `get_trait` (instance = 0, 1, 2)
  traits/ctraits.c:1239-1281   `_trait_change_notify`  (HASTRAITS_NO_NOTIFY)
  traits/has_traits.py:1418-1480  `trait_set(trait_change_notify=False)` / `trait_setq`
  traits/has_traits.py:2192-2265  `_on_trait_change` (add / remove, `priority`)
  traits/observation/_trait_event_notifier.py:127-190  `add_to` / `remove_from` (reference counted)
  traits/has_traits.py:2801-2865  `add_trait`

The first half works on one (object, attribute) pair (`OSt`); the second half
is the world of several instances of several classes (`World`), whose steps
focus on one pair, run the first half, and write the result back.
-/
import TraitsVerif.Model.Defaults
namespace TraitsVerif.Model.Attr
open TraitsVerif

/-- One object seen through one attribute name. -/
structure OSt where
  /-- identity of the HasTraits object -/
  self : Id := 0
  /-- the attribute name -/
  name : Name := 0
  /-- `obj.__dict__.get(name)` -/
  slot : Option Id := none
  /-- notifier list of the class trait (shared by all instances; never written here) -/
  cn : Option (List Notifier) := none
  /-- instance trait for the name: `none` = absent, `some l` = present with notifier list `l` -/
  it : Option (Option (List Notifier)) := none
  /-- `obj->notifiers` (anytrait handlers) -/
  on : Option (List Notifier) := none
  /-- `obj->flags & HASTRAITS_NO_NOTIFY` -/
  noNotify : Bool := false
  ctx : Ctx := {}
  deriving DecidableEq, Repr, Inhabited

/-- notifier list of the trait `has_traits_setattro` selects: instance trait
first, class trait otherwise (ctraits.c:654-657, 862-866). -/
def OSt.tn (s : OSt) : Option (List Notifier) :=
  match s.it with
  | some l => l
  | none => s.cn

/-- `get_trait(obj, name, 2)` (ctraits.c:941-975): create the instance trait as a
clone of the class trait with a *copy* of its notifier list. -/
def OSt.ensureItrait (s : OSt) : OSt :=
  match s.it with
  | some _ => s
  | none => { s with it := some s.cn }

/-- `has_notifiers(tnotifiers, onotifiers)` (ctraits.c:45-47). -/
def hasNotifiers (tn on : Option (List Notifier)) : Bool :=
  (match tn with | some l => !l.isEmpty | none => false)
  || (match on with | some l => !l.isEmpty | none => false)

/-- Which list a notifier was taken from. -/
inductive Loc where
  | t | o
  deriving DecidableEq, Repr

/-- "Concatenating trait notifiers and object notifiers.  Notifier lists are
copied in order to prevent run-time modifications" (ctraits.c:2293-2309). -/
def snapshot (tn on : Option (List Notifier)) : List (Notifier × Loc) :=
  (tn.getD []).map (·, Loc.t) ++ (on.getD []).map (·, Loc.o)

/-- Remove the first notifier of kind `k` wrapping handler `h`
(`_on_trait_change(remove=True)`: `del notifiers[i]` at the first `equals`;
static wrappers never compare equal). -/
def removeFirst (k : NKind) (h : Nat) : List Notifier → List Notifier
  | [] => []
  | n :: ns => if n.kind = k ∧ n.h = h then ns else n :: removeFirst k h ns

/-- `TraitEventNotifier.remove_from`: decrement the count of the first equal
notifier, dropping it at zero. -/
def releaseFirst (h : Nat) : List Notifier → List Notifier
  | [] => []
  | n :: ns =>
    if n.kind = .observe ∧ n.h = h then
      if n.rc ≤ 1 then ns else { n with rc := n.rc - 1 } :: ns
    else n :: releaseFirst h ns

/-- The handler unregisters itself from the list it was called through. -/
def OSt.removeSelf (s : OSt) (n : Notifier) (loc : Loc) : OSt :=
  let f : List Notifier → List Notifier :=
    if n.kind = .observe then releaseFirst n.h else removeFirst n.kind n.h
  match loc with
  | .o => { s with on := s.on.map f }
  | .t =>
    -- `_trait(name, 1)` / `_trait(name, 2)`: the instance trait's list
    let s := s.ensureItrait
    { s with it := s.it.map (·.map f) }

/-- One notifier of the snapshot is called with `(object, name, old, new)`.
Result: a raw exception reaching `call_notifiers` (or none) and the new state. -/
def callWrapper (E : Env) (t : TraitCore) (n : Notifier) (loc : Loc) (old new : Id) (s : OSt) :
    Option Exc × OSt :=
  match n.kind with
  | .observe =>
    -- TraitEventNotifier.__call__: event_factory; prevent_event; dispatcher(handler, event)
    if preventEvent E.cmp t.kind t.flags old new then (none, s)
    else
      let ord := s.ctx.log.length
      let s1 := { s with ctx := { s.ctx with log := s.ctx.log ++ [⟨s.self, n.h, old, new⟩] } }
      match E.handler n.h ord (old, new) with
      | .ok .stay => (none, s1)
      | .ok .removeSelf => (none, s1.removeSelf n loc)
      | .error e => if E.reraiseObserve then (some e, s1) else (none, s1)
  | _ =>
    -- _change_accepted: `if old is Uninitialized: return False`
    if old = uninit then (none, s)
    else
      -- `trait = object._trait(name, 2)`: forces the instance trait into existence
      let s0 := s.ensureItrait
      if !changeAcceptedCmp E.cmp t.kind t.flags old new then (none, s0)
      else
        let ord := s0.ctx.log.length
        let s1 := { s0 with ctx := { s0.ctx with log := s0.ctx.log ++ [⟨s.self, n.h, old, new⟩] } }
        match E.handler n.h ord (old, new) with
        | .ok .stay => (none, s1)
        | .ok .removeSelf => (none, if n.kind = .static then s1 else s1.removeSelf n loc)
        | .error e => if E.reraiseLegacy then (some e, s1) else (none, s1)

/-- The loop of `call_notifiers` over the copied list (ctraits.c:2311-2323):
veto test before every call, stop at the first raw exception. -/
def notifyLoop (E : Env) (t : TraitCore) (old new : Id) : List (Notifier × Loc) → OSt → Option Exc × OSt
  | [], s => (none, s)
  | (n, loc) :: rest, s =>
    if E.veto new then (none, s)
    else
      match callWrapper E t n loc old new s with
      | (some e, s1) => (some e, s1)
      | (none, s1) => notifyLoop E t old new rest s1

/-- `call_notifiers(tnotifiers, onotifiers, obj, name, old, new)`. -/
def callNotifiers (E : Env) (t : TraitCore) (tn on : Option (List Notifier)) (old new : Id) (s : OSt) :
    Option Exc × OSt :=
  if s.noNotify then (none, s)
  else notifyLoop E t old new (snapshot tn on) s

/-- `trait->post_setattr(trait, obj, name, value)` when not NULL. -/
def postSetattr (E : Env) (t : TraitCore) (v : Id) (s : OSt) : Option Exc × OSt :=
  match t.post with
  | none => (none, s)
  | some p =>
    let ord := s.ctx.postLog.length
    let s1 := { s with ctx := { s.ctx with postLog := s.ctx.postLog ++ [(s.self, v)] } }
    match E.post p ord v with
    | .ok _ => (none, s1)
    | .error e => (some e, s1)

/-- `default_value_for` on the object's context. -/
def OSt.defaultValueFor (E : Env) (t : TraitCore) (s : OSt) : Except Exc Id × OSt :=
  match Attr.defaultValueFor E t s.self s.name s.ctx with
  | (r, c) => (r, { s with ctx := c })

/-- `getattr_trait` (ctraits.c:1953-2012): called when the name is not in `__dict__`. -/
def getattrTrait (E : Env) (t : TraitCore) (s : OSt) : Except Exc Id × OSt :=
  match s.defaultValueFor E t with
  | (.error e, s1) => (.error e, s1)
  | (.ok v, s1) =>
    -- PyDict_SetItem(dict, name, result)
    let s2 := { s1 with slot := some v }
    match postSetattr E t v s2 with
    | (some e, s3) => (.error e, s3)
    | (none, s3) =>
      let tn := s3.tn
      let on := s3.on
      if hasNotifiers tn on then
        match callNotifiers E t tn on uninit v s3 with
        | (some e, s4) => (.error e, s4)
        | (none, s4) => (.ok v, s4)
      else (.ok v, s3)

/-- `trait->getattr` for the kinds modelled (getattr_handlers[kind]). -/
def traitGetattr (E : Env) (t : TraitCore) (s : OSt) : Except Exc Id × OSt :=
  match t.kind with
  | .trait => getattrTrait E t s
  | .event => (.error .attributeError, s)      -- getattr_event: "write only"

/-- `has_traits_getattro` (ctraits.c:836-884). -/
def getattro (E : Env) (t : TraitCore) (s : OSt) : Except Exc Id × OSt :=
  match s.slot with
  | some v => (.ok v, s)
  | none => traitGetattr E t s

/-- `setattr_event` (ctraits.c:2335-2367); `value = none` is `del`. -/
def setattrEvent (E : Env) (t : TraitCore) (value : Option Id) (s : OSt) : Option Exc × OSt :=
  match value with
  | none => (none, s)
  | some v =>
    let r := match t.validate with
      | none => ((.ok v : Except Exc Id), s)
      | some _ => match runValidate E t v s.ctx with
        | (r, c) => (r, { s with ctx := c })
    match r with
    | (.error e, s1) => (some e, s1)
    | (.ok w, s1) =>
      let tn := s1.tn
      let on := s1.on
      if hasNotifiers tn on then callNotifiers E t tn on undef w s1
      else (none, s1)

/-- ctraits.c:2445-2456: `value = traitd->validate(...)` unless there is no
validator or the value is `Undefined`. -/
def OSt.validateAssigned (E : Env) (t : TraitCore) (original : Id) (s : OSt) : Except Exc Id × OSt :=
  if t.validate.isSome && original != undef then
    match runValidate E t original s.ctx with
    | (r, c) => (r, { s with ctx := c })
  else (.ok original, s)

/-- ctraits.c:2479-2519: the old value is only looked at when somebody will be
told (`post_setattr != NULL || do_notifiers`).  When nothing is stored yet the
default is materialised: stored and `post_setattr`'d, but not notified.
Returns the old value (if fetched) and `changed`. -/
def OSt.fetchOld (E : Env) (t : TraitCore) (changed0 doNotifiers : Bool) (value : Id) (s1 : OSt) :
    Except Exc (Option Id × Bool) × OSt :=
  if t.post.isSome || doNotifiers then
    match s1.slot with
    | some old => (.ok (some old, changed0 || (old != value)), s1)   -- changed = (old_value != value)
    | none =>
      match s1.defaultValueFor E t with
      | (.error e, s2) => (.error e, s2)
      | (.ok old, s2) =>
        let s3 := { s2 with slot := some old }
        match postSetattr E t old s3 with
        | (some e, s4) => (.error e, s4)
        | (none, s4) => (.ok (some old, changed0 || (old != value)), s4)
  else (.ok (none, changed0), s1)

/-- ctraits.c:2392-2443: `del obj.name`. -/
def setattrTraitDel (E : Env) (t : TraitCore) (changed0 : Bool) (s : OSt) : Option Exc × OSt :=
  match s.slot with
  | none => (none, s)                          -- old_value == NULL: return 0
  | some old =>
    let s1 := { s with slot := none }          -- PyDict_DelItem
    if s1.noNotify then (none, s1)
    else
      let tn := s1.tn
      let on := s1.on
      if tn.isSome || on.isSome then           -- (tnotifiers != NULL) || (onotifiers != NULL)
        match traitGetattr E t s1 with         -- value = traito->getattr(traito, obj, name)
        | (.error e, s2) => (some e, s2)
        | (.ok v, s2) =>
          let changed := changed0 || (old != v)
          if changed then
            match postSetattr E t v s2 with
            | (some e, s3) => (some e, s3)
            | (none, s3) =>
              if hasNotifiers tn on then callNotifiers E t tn on old v s3
              else (none, s3)
          else (none, s2)
      else (none, s1)

/-- `setattr_trait` (ctraits.c:2373-2553); `value = none` is `del`.
`traitd == traito` (no delegation in this cluster). -/
def setattrTrait (E : Env) (t : TraitCore) (value : Option Id) (s : OSt) : Option Exc × OSt :=
  -- changed = (traitd->flags & TRAIT_COMPARISON_MODE_NONE);
  let changed0 := testFlag t.flags Generated.TRAIT_COMPARISON_MODE_NONE
  match value with
  | none => setattrTraitDel E t changed0 s
  | some original =>
    match s.validateAssigned E t original with
    | (.error e, s1) => (some e, s1)
    | (.ok value, s1) =>
      let newValue := if testFlag t.flags Generated.TRAIT_SETATTR_ORIGINAL_VALUE then original else value
      let tn := s1.tn
      let on := s1.on
      let doNotifiers := hasNotifiers tn on
      match s1.fetchOld E t changed0 doNotifiers value with
      | (.error e, s2) => (some e, s2)
      | (.ok (oldOpt, changed), s2) =>
        let s3 := { s2 with slot := some newValue }   -- PyDict_SetItem(dict, name, new_value)
        if changed then
          let postArg := if testFlag t.flags Generated.TRAIT_POST_SETATTR_ORIGINAL_VALUE then original else value
          match postSetattr E t postArg s3 with
          | (some e, s4) => (some e, s4)
          | (none, s4) =>
            match oldOpt, doNotifiers with
            | some old, true => callNotifiers E t tn on old newValue s4
            | _, _ => (none, s4)
        else (none, s3)

/-- `trait->setattr` for the kinds modelled (setattr_handlers[kind]). -/
def traitSetattr (E : Env) (t : TraitCore) (value : Option Id) (s : OSt) : Option Exc × OSt :=
  match t.kind with
  | .trait => setattrTrait E t value s
  | .event => setattrEvent E t value s

/-! ### Handler registration on one (object, attribute) pair -/

/-- `obj.on_trait_change(h, name, priority=p)` → `_on_trait_change` (has_traits.py:2250-2265). -/
def OSt.regDynamic (s : OSt) (h : Nat) (priority : Bool) : OSt :=
  let s := s.ensureItrait                      -- self._trait(name, 2)._notifiers(True)
  let l := (s.it.getD none).getD []
  if l.any (fun n => n.kind = .dynamic ∧ n.h = h) then { s with it := some (some l) }
  else { s with it := some (some (if priority then ⟨.dynamic, h, 1⟩ :: l else l ++ [⟨.dynamic, h, 1⟩])) }

/-- `obj.on_trait_change(h, name, remove=True)` (has_traits.py:2232-2248):
`_trait(name, 1)`; nothing to do without an instance trait or notifier list. -/
def OSt.unregDynamic (s : OSt) (h : Nat) : OSt :=
  match s.it with
  | some (some l) => { s with it := some (some (removeFirst .dynamic h l)) }
  | _ => s

/-- `obj.on_trait_change(h)` (anytrait): `self._notifiers(True)`. -/
def OSt.regAny (s : OSt) (h : Nat) (priority : Bool) : OSt :=
  let l := s.on.getD []
  if l.any (fun n => n.kind = .dynamic ∧ n.h = h) then { s with on := some l }
  else { s with on := some (if priority then ⟨.dynamic, h, 1⟩ :: l else l ++ [⟨.dynamic, h, 1⟩]) }

/-- `obj.on_trait_change(h, remove=True)` (anytrait): `self._notifiers(False)`. -/
def OSt.unregAny (s : OSt) (h : Nat) : OSt :=
  match s.on with
  | some l => { s with on := some (removeFirst .dynamic h l) }
  | none => s

def bumpFirst (h : Nat) : List Notifier → Option (List Notifier)
  | [] => none
  | n :: ns =>
    if n.kind = .observe ∧ n.h = h then some ({ n with rc := n.rc + 1 } :: ns)
    else (bumpFirst h ns).map (n :: ·)

/-- `obj.observe(h, "name")`: `TraitEventNotifier.add_to(obj._trait(name, 2))`. -/
def OSt.regObserve (s : OSt) (h : Nat) : OSt :=
  let s := s.ensureItrait
  let l := (s.it.getD none).getD []
  match bumpFirst h l with
  | some l' => { s with it := some (some l') }
  | none => { s with it := some (some (l ++ [⟨.observe, h, 1⟩])) }

/-- `obj.observe(h, "name", remove=True)`: `remove_from`; `NotifierNotFound` when absent.
Removal walks the steps in reverse (observation/_observe.py:87-90): the
`trait_added` extra graph is visited first and raises before the named trait is
touched, so a failed removal has no effect on this attribute. -/
def OSt.unregObserve (s : OSt) (h : Nat) : Option Exc × OSt :=
  match s.it with
  | some (some l) =>
    if l.any (fun n => n.kind = .observe ∧ n.h = h) then
      (none, { s with it := some (some (releaseFirst h l)) })
    else (some .notifierNotFound, s)
  | _ => (some .notifierNotFound, s)

/-! ### Histories on one (object, attribute) pair (property C02) -/

inductive Op where
  /-- `obj.x = v` (also a constructor keyword) -/
  | set (v : Id)
  /-- `del obj.x` -/
  | del
  /-- `obj.x` -/
  | get
  /-- `obj.trait_setq(x=v)` -/
  | setq (v : Id)
  | regDyn (h : Nat) (priority : Bool)
  | unregDyn (h : Nat)
  | regAny (h : Nat) (priority : Bool)
  | unregAny (h : Nat)
  | regObs (h : Nat)
  | unregObs (h : Nat)
  deriving DecidableEq, Repr

/-- Result of one operation: exception (if any), value returned by a read. -/
structure Res where
  exc : Option Exc := none
  val : Option Id := none
  deriving DecidableEq, Repr

/-- One statement executed on the object. -/
def step (E : Env) (t : TraitCore) (s : OSt) : Op → Res × OSt
  | .set v =>
    match traitSetattr E t (some v) s with
    | (e, s') => ({ exc := e }, s')
  | .del =>
    match traitSetattr E t none s with
    | (e, s') => ({ exc := e }, s')
  | .get =>
    match getattro E t s with
    | (.ok v, s') => ({ val := some v }, s')
    | (.error e, s') => ({ exc := some e }, s')
  | .setq v =>
    -- self._trait_change_notify(False); try: setattr … finally: self._trait_change_notify(True)
    match traitSetattr E t (some v) { s with noNotify := true } with
    | (e, s') => ({ exc := e }, { s' with noNotify := false })
  | .regDyn h p => ({}, s.regDynamic h p)
  | .unregDyn h => ({}, s.unregDynamic h)
  | .regAny h p => ({}, s.regAny h p)
  | .unregAny h => ({}, s.unregAny h)
  | .regObs h => ({}, s.regObserve h)
  | .unregObs h =>
    match s.unregObserve h with
    | (e, s') => ({ exc := e }, s')

/-- A history: a failing statement leaves whatever it left and the history goes on. -/
def run (E : Env) (t : TraitCore) : OSt → List Op → OSt
  | s, [] => s
  | s, op :: ops => run E t (step E t s op).2 ops

/-- The same, keeping every intermediate result (for the driver). -/
def runTrace (E : Env) (t : TraitCore) : OSt → List Op → List (Res × OSt)
  | _, [] => []
  | s, op :: ops =>
    let r := step E t s op
    r :: runTrace E t r.2 ops

/-! ### Several instances of several classes (property C10) -/

structure Inst where
  oid : Id
  cls : Nat
  dict : List (Name × Id) := []
  /-- `obj->itrait_dict` -/
  itraits : List (Name × TraitDef) := []
  on : Option (List Notifier) := none
  deriving DecidableEq, Repr, Inhabited

structure World where
  classes : List ClassRec := []
  insts : List Inst := []
  ctx : Ctx := {}
  deriving DecidableEq, Repr, Inhabited

def assocGet {β : Type} (l : List (Name × β)) (n : Name) : Option β :=
  (l.find? (·.1 == n)).map (·.2)

def assocSet {β : Type} (l : List (Name × β)) (n : Name) (b : β) : List (Name × β) :=
  if l.any (·.1 == n) then l.map (fun e => if e.1 == n then (n, b) else e) else l ++ [(n, b)]

def assocErase {β : Type} (l : List (Name × β)) (n : Name) : List (Name × β) :=
  l.filter (fun e => !(e.1 == n))

/-- class trait of instance `o` for `n` (`obj->ctrait_dict[name]`). -/
def World.classTrait (w : World) (o : Inst) (n : Name) : Option TraitDef :=
  ((w.classes[o.cls]?).bind (·.get n)).map (·.ctrait)

/-- `get_trait(obj, name, 0)`: instance trait, else class trait. -/
def World.traitOf (w : World) (o : Inst) (n : Name) : Option TraitDef :=
  match assocGet o.itraits n with
  | some t => some t
  | none => w.classTrait o n

/-- Look at instance `o` through name `n`; `t` is the trait in effect, `ct` the
class-level notifier list. -/
def World.focus (w : World) (o : Inst) (n : Name) : OSt :=
  { self := o.oid
    name := n
    slot := assocGet o.dict n
    cn := (w.classTrait o n).bind (·.notifiers)
    it := (assocGet o.itraits n).map (·.notifiers)
    on := o.on
    noNotify := false
    ctx := w.ctx }

/-- Write a focused state back into instance `o`. `core` is the definition the
instance trait is cloned from when it has just come into existence. -/
def Inst.absorb (o : Inst) (n : Name) (core : TraitCore) (s : OSt) : Inst :=
  { o with
    dict := match s.slot with
      | some v => assocSet o.dict n v
      | none => assocErase o.dict n
    itraits := match s.it with
      | some l =>
        let cur := (assocGet o.itraits n).map (·.core)
        assocSet o.itraits n { core := cur.getD core, notifiers := l }
      | none => o.itraits
    on := s.on }

def World.setInst (w : World) (i : Nat) (o : Inst) (c : Ctx) : World :=
  { w with insts := w.insts.set i o, ctx := c }

/-- Operations of property C10, each on instance number `i`. -/
inductive WOp where
  /-- `cls()` : a new instance of class `k` -/
  | new (k : Nat)
  /-- `obj.n` -/
  | get (i : Nat) (n : Name)
  /-- `obj.n = v` -/
  | set (i : Nat) (n : Name) (v : Id)
  /-- `obj.n.append(x)` / `obj.n[k] = x` / `obj.n.add(x)` : mutate the container read from `n` -/
  | mutate (i : Nat) (n : Name) (x : Id)
  /-- `obj.n[0].append(x)` : mutate the first element of the value read from `n` -/
  | mutateInner (i : Nat) (n : Name) (x : Id)
  | regDyn (i : Nat) (n : Name) (h : Nat)
  | regObs (i : Nat) (n : Name) (h : Nat)
  | regAny (i : Nat) (h : Nat)
  /-- `obj.add_trait(n, trait)` -/
  | addTrait (i : Nat) (n : Name) (t : TraitCore)
  /-- `del obj.n` / `obj.reset_traits([n])`: back to the never-assigned state -/
  | del (i : Nat) (n : Name)
  /-- a query that reads no attribute value: `obj.traits(**metadata)`, `obj.trait_names(**metadata)`,
  `obj.editable_traits()` (has_traits.py `traits`: works on a COPY of `__base_traits__`) -/
  | query (i : Nat)
  deriving DecidableEq, Repr

/-- Run a focused computation on instance `i`, attribute `n`. -/
def World.onAttr (w : World) (i : Nat) (n : Name)
    (f : TraitCore → OSt → Res × OSt) : Res × World :=
  match w.insts[i]? with
  | none => ({ exc := some .indexError }, w)
  | some o =>
    match w.traitOf o n with
    | none => ({ exc := some .attributeError }, w)     -- names without a trait are outside this model
    | some td =>
      match f td.core (w.focus o n) with
      | (r, s) => (r, w.setInst i (o.absorb n td.core s) s.ctx)

/-- Append `x` to the container `cid` (no-op result `TypeError`/`AttributeError` when it is not one). -/
def Ctx.mutate (c : Ctx) (cid x : Id) : Option Exc × Ctx :=
  match heapGet c.heap cid with
  | none => (some .attributeError, c)
  | some xs =>
    if c.frozen.contains cid then (some .attributeError, c)      -- a tuple has no `append`
    else (none, { c with heap := heapSet c.heap cid (xs ++ [x]) })

/-- `add_trait` (has_traits.py:2801-2865) for a name that may already have a trait:
the new instance trait inherits the old trait's notifiers; a brand-new name gets
the static notifiers found on the class (none here: the model's classes declare
static handlers per declared name only). -/
def World.addTrait (w : World) (i : Nat) (n : Name) (t : TraitCore) : Res × World :=
  match w.insts[i]? with
  | none => ({ exc := some .indexError }, w)
  | some o =>
    let old := w.traitOf o n
    let ns : Option (List Notifier) := match old with
      | some td => td.notifiers.map (fun l => l)       -- trait._notifiers(True).extend(old_notifiers)
      | none => none
    let o' := { o with itraits := assocSet o.itraits n { core := t, notifiers := ns } }
    ({}, w.setInst i o' w.ctx)

def World.step (E : Env) (w : World) : WOp → Res × World
  | .new k =>
    if k < w.classes.length then
      let oid := w.ctx.alloc
      ({ val := some oid },
       { w with insts := w.insts ++ [{ oid := oid, cls := k }], ctx := { w.ctx with alloc := w.ctx.alloc + 1 } })
    else ({ exc := some .indexError }, w)
  | .get i n => w.onAttr i n (fun t s => Attr.step E t s .get)
  | .set i n v => w.onAttr i n (fun t s => Attr.step E t s (.set v))
  | .mutate i n x =>
    match w.onAttr i n (fun t s => Attr.step E t s .get) with
    | (r, w1) =>
      match r.val with
      | none => (r, w1)
      | some cid =>
        match w1.ctx.mutate cid x with
        | (some e, c) => ({ exc := some e }, { w1 with ctx := c })
        | (none, c) => ({ val := some cid }, { w1 with ctx := c })
  | .mutateInner i n x =>
    match w.onAttr i n (fun t s => Attr.step E t s .get) with
    | (r, w1) =>
      match r.val with
      | none => (r, w1)
      | some cid =>
        match (heapGet w1.ctx.heap cid).bind (·.head?) with
        | none => ({ exc := some .indexError }, w1)
        | some inner =>
          match w1.ctx.mutate inner x with
          | (some e, c) => ({ exc := some e }, { w1 with ctx := c })
          | (none, c) => ({ val := some inner }, { w1 with ctx := c })
  | .regDyn i n h => w.onAttr i n (fun t s => Attr.step E t s (.regDyn h false))
  | .regObs i n h => w.onAttr i n (fun t s => Attr.step E t s (.regObs h))
  | .regAny i h =>
    match w.insts[i]? with
    | none => ({ exc := some .indexError }, w)
    | some o =>
      let s : OSt := { on := o.on }
      ({}, w.setInst i { o with on := (s.regAny h false).on } w.ctx)
  | .addTrait i n t => w.addTrait i n t
  | .del i n => w.onAttr i n (fun t s => Attr.step E t s .del)
  | .query i =>
    match w.insts[i]? with
    | none => ({ exc := some .indexError }, w)
    | some _ => ({}, w)

def World.run (E : Env) : World → List WOp → World
  | w, [] => w
  | w, op :: ops => World.run E (World.step E w op).2 ops

def World.runTrace (E : Env) : World → List WOp → List (Res × World)
  | _, [] => []
  | w, op :: ops =>
    let r := World.step E w op
    r :: World.runTrace E r.2 ops

end TraitsVerif.Model.Attr
