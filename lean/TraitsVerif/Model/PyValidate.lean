/-
Model of the Python-level validators (`traits/trait_types.py`,
`traits/trait_handlers.py`) and of the `fast_validate` descriptors the Python
constructors build:

* `TraitType`   — the trait types / legacy handlers of the `val` cluster with the
                  constructor options that influence validation;
* `pyValidate`  — one arm per Python `validate` method (file:line in comments);
* `descOf`      — the `fast_validate` tuple of the handler (`None` when the class
                  has none), including `TraitCompound.set_validate`
                  (trait_handlers.py:636-694): nested compounds are flattened,
                  fast alternatives keep declaration order, one `(slow, self)`
                  entry at the end stands for all alternatives without descriptor;
* `ctraitValidate` — what `CTrait.validate(obj, name, v)` does for the CTrait
                  built from the trait type (`as_ctrait`, trait_type.py:450-463):
                  fast validator if there is a descriptor, else the Python method,
                  else nothing.
-/
import TraitsVerif.Model.FastValidate
namespace TraitsVerif.Model.Val
open TraitsVerif TraitsVerif.Py.Value

/-- One entry of the `shape` option of Array: `None`, `n`, `(lo, hi)` / `(lo, None)`. -/
inductive DimSpec where
  | any
  | exact (n : Nat)
  | range (lo : Nat) (hi : Option Nat)
  deriving DecidableEq, Repr, Inhabited

inductive TraitType where
  | any                                                   -- Any: no validator
  | int | float | complex | str | bytes | bool            -- Int … Bool (fast classes)
  | cint | cfloat | ccomplex | cstr | cbytes | cbool      -- CInt … CBool
  | noFast (t : TraitType)                                -- the Base* class of `t`: same validate method, no descriptor
  | rangeF (lo hi : Option F) (exLo exHi : Bool)          -- Range with float bounds
  | rangeI (lo hi : Option Int) (exLo exHi : Bool)        -- Range with int bounds (Python only)
  | enum (vals : List Val)                                -- Enum(values)
  | map (keys vals : List Val)                            -- Map({k: v})
  | tuple (items : List TraitType)                        -- Tuple(t1, …, tn), n ≥ 1
  | baseTuple (items : List TraitType)                    -- BaseTuple(t1, …, tn)
  | validatedTuple (items : List TraitType) (fv : Option Nat)  -- ValidatedTuple(t1, …, tn[, fvalidate=f])
  | tupleAny                                              -- Tuple(): no_type_check
  | instance (cls : Ty) (allowNone : Bool) (adapt : Nat) (dflt : Val)  -- Instance(klass, allow_none=, adapt=)
  | type_ (cls : Ty) (allowNone : Bool)                   -- Type(klass=, allow_none=)
  | this (allowNone : Bool)                               -- This / self
  | callable (allowNone : Bool)                           -- Callable(allow_none=)
  | module                                                -- Module
  | either (alts : List TraitType) (withNone : Bool)      -- Either(t1, …[, None])
  | union (alts : List TraitType)                         -- Union(t1, …)
  | noneTrait                                             -- the `None` member of a Union
  | string (minlen : Nat) (maxlen : Option Nat) (regex : Option Nat)   -- String(minlen, maxlen, regex)
  | prefixList (vals : List String)                       -- PrefixList([...])
  | prefixMap (keys : List String) (vals : List Val)      -- PrefixMap({...})
  | array (dtype : Option Nat) (shape : Option (List DimSpec)) (casting : Nat)  -- Array(dtype, shape, casting=)
  -- legacy handlers (what Trait(...) builds)
  | coerceH (ty : Ty)                                     -- TraitCoerceType(T)
  | castH (ty : Ty)                                       -- TraitCastType(T)
  | instanceH (cls : Ty) (allowNone : Bool)               -- TraitInstance(cls, allow_none)
  | functionH (f : Nat)                                   -- TraitFunction(f)
  | enumH (vals : List Val)                               -- TraitEnum(values)
  | mapH (keys vals : List Val)                           -- TraitMap({k: v})
  | compoundH (hs : List TraitType)                       -- TraitCompound([h1, …])
  deriving Repr, Inhabited

/-- `trait_base.TypeTypes` (trait_base.py:31-40). -/
def _root_.TraitsVerif.Py.Value.Ty.isTypeType : Ty → Bool
  | .str | .int | .float | .complex | .list | .tuple | .dict | .bool => true
  | _ => false

/-- `issubclass(value, klass)`; `none` = TypeError (value is not a class). -/
def isSubclass (v : Val) (k : Ty) : Option Bool :=
  match v with
  | .atom (.cls _ mro) =>
    match k with
    | .user c => some (mro.contains c)
    | .object => some true
    | _ => some false
  | .atom (.tyobj t) =>
    some (k == .object || t == k || (t == .bool && k == .int))
  | _ => none

/-- `trait_types._validate_int` (trait_types.py:139-145). -/
def pyValidateInt (v : Val) : Except Exc Val :=
  match v with
  | .atom (.int false _) => .ok v                         -- type(value) is int
  | _ =>
    match index v with                                    -- operator.index(value)
    | .error e => .error e
    | .ok n => .ok (Val.ofInt n)                          -- int(...)

/-- The bound test shared by `float_validate` and `int_validate`
(trait_types.py:1782-1793, 1810-1821), on floats. -/
def pyInRangeF (lo hi : Option F) (exLo exHi : Bool) (x : F) : Bool :=
  (match lo with
   | none => true
   | some l => (exLo && F.lt l x) || (!exLo && F.le l x)) &&
  (match hi with
   | none => true
   | some h => (exHi && F.gt h x) || (!exHi && F.ge h x))

/-- … and on ints. -/
def pyInRangeI (lo hi : Option Int) (exLo exHi : Bool) (x : Int) : Bool :=
  (match lo with
   | none => true
   | some l => (exLo && decide (l < x)) || (!exLo && decide (l ≤ x))) &&
  (match hi with
   | none => true
   | some h => (exHi && decide (h > x)) || (!exHi && decide (h ≥ x)))

def intOf : Val → Int
  | .atom (.int _ n) => n
  | _ => 0

def strOf : Val → Option String
  | .atom (.str _ s) => some s
  | _ => none

/-- `PrefixList._complete_value` / `PrefixMap._complete_value`
(trait_types.py:2774-2807, 3252-3285) for a `str` value `v` with text `s`:
an exact member returns the value itself, a unique prefix its completion. -/
def completeValue (keys : List String) (v : Val) (s : String) : Res :=
  if keys.contains s then .ok v
  else
    match keys.filter (fun k => s.isPrefixOf k) with
    | [k] => .ok (Val.ofStr k)
    | _ => .traitError                                     -- ValueError → self.error

/-- The shape test of `AbstractArray.validate` (trait_numeric.py:141-158). -/
def dimOk : DimSpec → Nat → Bool
  | .any, _ => true
  | .exact n, d => d == n
  | .range lo hi, d => decide (lo ≤ d) && (match hi with | none => true | some h => decide (d ≤ h))

def shapeOk : List DimSpec → List Nat → Bool
  | [], [] => true
  | s :: ss, d :: ds => dimOk s d && shapeOk ss ds
  | _, _ => false

/-- First half of `AbstractArray.validate` (trait_numeric.py:126-138): the array
the value becomes — sequences go through `asarray(value[, dtype])`, arrays of
another dtype through `astype(dtype, casting=…)` — with its shape; `none` when
an exception ends in `self.error`.  `asarray` and castability are parameters. -/
def arrayStage1 (E : Env) (dtype : Option Nat) (casting : Nat) (v : Val) : Option (Val × List Nat) :=
  match v with
  | .atom (.ndarray d s) =>
    match dtype with
    | none => some (v, s)
    | some t =>
      if d == t then some (v, s)
      else if E.canCast d t casting then some (.atom (.ndarray t s), s) else none
  | .tuple _ _ | .list _ =>
    match E.asarray v dtype with
    | .ok (d, s) => some (.atom (.ndarray d s), s)
    | .error _ => none
  | _ => none

/-- `AbstractArray.validate` (trait_numeric.py:122-162): second half, the shape
is compared (141-158). -/
def arrayValidate (E : Env) (dtype : Option Nat) (shape : Option (List DimSpec)) (casting : Nat) (v : Val) : Res :=
  match arrayStage1 E dtype casting v with
  | none => .traitError
  | some (w, s) =>
    match shape with
    | none => .ok w
    | some sh => if shapeOk sh s then .ok w else .traitError

/-- The validator variant `String._init` selects (trait_types.py:713-725). -/
inductive StrVariant where
  | str | len | regex | all
  deriving DecidableEq, Repr

def stringInit (minlen : Nat) (maxlen regex : Option Nat) : StrVariant :=
  match regex with
  | some _ => if minlen == 0 && maxlen.isNone then .regex else .all
  | none => if minlen == 0 && maxlen.isNone then .str else .len

def strLenOk (minlen : Nat) (maxlen : Option Nat) (s : String) : Bool :=
  decide (minlen ≤ s.length) && (match maxlen with | none => true | some m => decide (s.length ≤ m))

def strReOk (E : Env) (regex : Option Nat) (s : String) : Bool :=
  match regex with | none => true | some k => E.rx k s

/-- The checks of `validate_str` / `validate_len` / `validate_regex` / `validate_all`
(732-781) on the string `s` that `strx(value)` produced (as value `w`). -/
def stringRun (E : Env) (minlen : Nat) (maxlen regex : Option Nat) (w : Val) (s : String) : StrVariant → Res
  | .str => .ok w
  | .len => if strLenOk minlen maxlen s then .ok w else .traitError
  | .regex => if strReOk E regex s then .ok w else .traitError
  | .all => if strLenOk minlen maxlen s && strReOk E regex s then .ok w else .traitError

/-- `String.validate`: `trait_base.strx` (trait_base.py:147-153: str(value) for
str / int / float / complex instances, TypeError otherwise; `cast .str` is
`str(value)`), then the selected variant; any exception ends in `self.error`. -/
def stringValidate (E : Env) (minlen : Nat) (maxlen : Option Nat) (regex : Option Nat) (v : Val) : Res :=
  if Val.isInst .str v || Val.isInst .int v || Val.isInst .float v || Val.isInst .complex v then
    match E.cast .str v with
    | .error _ => .traitError                              -- bare except
    | .ok w =>
      match strOf w with
      | none => .traitError
      | some s => stringRun E minlen maxlen regex w s (stringInit minlen maxlen regex)
  else .traitError

variable (E : Env)

/-- `Map.validate` (trait_types.py:3161-3168): TypeError swallowed, others propagate. -/
def pyMapValidate (keys : List Val) (v : Val) : Res :=
  match dictFind keys v with
  | .ok (some _) => .ok v
  | .ok none => .traitError
  | .error .typeError => .traitError
  | .error e => .raised e

/-- `TraitEnum.validate` (and the `None` member of Either): `value in self.values`;
an exception raised by `==` propagates. -/
def pyEnumValidate (vals : List Val) (v : Val) : Res :=
  match seqContains vals v with
  | .yes => .ok v
  | .no => .traitError
  | .raises e => .raised e

/-- `BaseEnum.validate` (trait_types.py:2116-2130): `value in self.values` inside
`try … except Exception: pass` — a containment check that raises means "not a
member", as in the C validator (case 5 / traits#376). -/
def pySafeEnumValidate (vals : List Val) (v : Val) : Res :=
  match seqContains vals v with
  | .yes => .ok v
  | _ => .traitError

/-- `C*.validate` with `except (ValueError, TypeError)` (CInt, CFloat, CComplex). -/
def pyCastNumeric (ty : Ty) (v : Val) : Res :=
  match E.cast ty v with
  | .ok w => .ok w
  | .error .valueError => .traitError
  | .error .typeError => .traitError
  | .error e => .raised e

/-- `C*.validate` with a bare `except` (CStr, CBytes, CBool). -/
def pyCastAny (ty : Ty) (v : Val) : Res :=
  match E.cast ty v with
  | .ok w => .ok w
  | .error _ => .traitError

/-- `BaseInstance.validate` (trait_types.py:3524-3563). -/
def pyInstanceValidate (cls : Ty) (an : Bool) (mode : Nat) (dflt : Val) (v : Val) : Res :=
  if v.isNone then (if an then .ok v else .traitError)
  else if mode = 0 then (if Val.isInst cls v then .ok v else .traitError)
  else
    match E.adapt v cls with
    | .error e => .raised e
    | .ok (some r) => .ok r
    | .ok none =>
      if Val.isInst cls v then .ok v
      else if mode = 1 then .traitError
      else .ok dflt

/-- `TraitCoerceType.validate` (trait_handlers.py:127-142): exact types only;
every entry after the main type is treated as coercible. -/
def pyCoerceValidate (ty : Ty) (rest : List (Option Ty)) (v : Val) : Res :=
  if Val.exactTy ty v then .ok v
  else if rest.any (fun t => match t with | some t => Val.exactTy t v | none => false) then
    match E.cast ty v with
    | .ok w => .ok w
    | .error e => .raised e
  else .traitError

/-- `CoercableTypes` (trait_handlers.py:39-42) / the default `(coerce, aType)`. -/
def coerceRest : Ty → List (Option Ty)
  | .float => [some .int]
  | .complex => [some .float, some .int]
  | _ => []

/-- Does the handler define a Python `validate` method. -/
def hasPy : TraitType → Bool
  | .any => false
  | .module => false
  | .noFast t => hasPy t
  | _ => true

/-- `CTrait.validate(obj, name, v)` given the pieces `as_ctrait` assembles
(trait_type.py:450-463; `_trait_validate` in ctraits.c: no validator → the
value itself): the fast validator if there is a descriptor, else the Python
method if the handler has one. -/
def ctraitValidateWith (d : Option Desc) (hp : Bool) (py : Val → Res) (v : Val) : Res :=
  match d with
  | some d => fastAlone E d v
  | none => if hp then py v else .ok v

mutual
/-- The Python `validate` method of the handler (`handler.validate(obj, name, v)`). -/
def pyValidate : TraitType → Val → Res
  -- Any and Module define no validate method (`handler.validate` is None: calling it is a TypeError)
  | .any, _ => .raised .typeError
  | .module, _ => .raised .typeError
  -- BaseInt.validate, trait_types.py:255-261
  | .int, v =>
    match pyValidateInt v with
    | .ok w => .ok w
    | .error .typeError => .traitError
    | .error e => .raised e
  -- BaseFloat.validate, 300-308 (`_validate_float` is the C function)
  | .float, v =>
    match validateFloat v with
    | .ok w => .ok w
    | .error .typeError => .traitError
    | .error e => .raised e
  -- BaseComplex.validate, 347-355
  | .complex, v =>
    match validateComplexNumber v with
    | .ok w => .ok w
    | .error .typeError => .traitError
    | .error e => .raised e
  -- BaseStr.validate, 387-395
  | .str, v => if Val.isInst .str v then .ok v else .traitError
  -- BaseBytes.validate, 449-457
  | .bytes, v => if Val.isInst .bytes v then .ok v else .traitError
  -- BaseBool.validate, 496-504: `bool(value)` of a bool is the bool itself
  | .bool, v =>
    match v with
    | .atom (.bool _) => .ok v
    | .atom (.npBool _) =>
      match E.cast .bool v with
      | .ok w => .ok w
      | .error e => .raised e
    | _ => .traitError
  -- BaseCInt / BaseCFloat / BaseCComplex .validate, 529-537, 555-563, 581-589
  | .cint, v => pyCastNumeric E .int v
  | .cfloat, v => pyCastNumeric E .float v
  | .ccomplex, v => pyCastNumeric E .complex v
  -- BaseCStr / BaseCBytes / BaseCBool .validate, 604-612, 627-635, 653-661
  | .cstr, v => pyCastAny E .str v
  | .cbytes, v => pyCastAny E .bytes v
  | .cbool, v => pyCastAny E .bool v
  | .noFast t, v => pyValidate t v
  -- BaseRange.float_validate, 1770-1796
  | .rangeF lo hi exLo exHi, v =>
    match validateFloat v with
    | .error .typeError => .traitError
    | .error e => .raised e
    | .ok w => if pyInRangeF lo hi exLo exHi (floatOf w) then .ok w else .traitError
  -- BaseRange.int_validate, 1798-1824
  | .rangeI lo hi exLo exHi, v =>
    match pyValidateInt v with
    | .error .typeError => .traitError
    | .error e => .raised e
    | .ok w => if pyInRangeI lo hi exLo exHi (intOf w) then .ok w else .traitError
  -- BaseEnum.validate, 2116-2130
  | .enum vals, v => pySafeEnumValidate vals v
  -- Map.validate, 3161-3168
  | .map keys _, v => pyMapValidate keys v
  -- Tuple.validate (typed), 2455-2480: `type.validate` is CTrait.validate of the
  -- inner trait; only TraitError is caught; always a new plain tuple
  | .tuple items, v =>
    match v with
    | .tuple _ vs =>
      if vs.length = items.length then
        match ctraitValidateL items vs with
        | .ok ws => .ok (.tuple false ws)
        | .error none => .traitError
        | .error (some e) => .raised e
      else .traitError
    | _ => .traitError
  -- BaseTuple.validate (typed), 2377-2404: lists converted first, bare except
  | .baseTuple items, v =>
    match v with
    | .tuple _ vs | .list vs =>
      if vs.length = items.length then
        match ctraitValidateL items vs with
        | .ok ws => .ok (.tuple false ws)
        | .error _ => .traitError
      else .traitError
    | _ => .traitError
  -- ValidatedTuple.validate, 2517-2526: BaseTuple.validate, then `fvalidate(values)`
  -- (its exceptions propagate); the VALIDATED tuple is returned
  | .validatedTuple items fv, v =>
    match v with
    | .tuple _ vs | .list vs =>
      if vs.length = items.length then
        match ctraitValidateL items vs with
        | .ok ws =>
          match fv with
          | none => .ok (.tuple false ws)
          | some f =>
            match E.pred f (.tuple false ws) with
            | .ok true => .ok (.tuple false ws)
            | .ok false => .traitError
            | .error e => .raised e
        | .error _ => .traitError
      else .traitError
    | _ => .traitError
  -- Tuple.validate (no_type_check), 2458-2469
  | .tupleAny, v =>
    match v with
    | .tuple _ _ => .ok v
    | .list vs => .ok (.tuple false vs)
    | _ => .traitError
  -- BaseInstance.validate, 3524-3563
  | .instance cls an mode dflt, v => pyInstanceValidate E cls an mode dflt v
  -- Type.validate, 3792-3802
  | .type_ cls an, v =>
    match isSubclass v cls with
    | some true => .ok v
    | some false => .traitError
    | none => if v.isNone && an then .ok v else .traitError
  -- This.validate / validate_none, 950-960
  | .this an, v =>
    if Val.isInst (.user E.selfCls) v || (an && v.isNone) then .ok v else .traitError
  -- Callable.validate (58d344c): None only if allow_none, then BaseCallable.validate, 890-896.
  -- (BaseCallable itself, which has no allow_none, is `noFast (callable true)`.)
  | .callable an, v =>
    if v.isNone && !an then .traitError
    else if v.isNone || v.callable then .ok v else .traitError
  -- TraitCompound.validate, trait_handlers.py:696-710, for the compound _TraitMaker builds
  -- from Either(t1, …, tn[, None]): the constants end up in a TraitEnum appended last
  | .either alts wn, v =>
    match pySel true alts v with
    | .traitError =>
      match (if wn then pyEnumValidate [Val.none] v else .traitError) with
      | .traitError => pySel false alts v
      | r => r
    | r => r
  -- Union.validate, trait_types.py:4180-4190
  | .union alts, v => unionFirst alts v
  -- _NoneTrait.validate, 4119-4123
  | .noneTrait, v => if v.isNone then .ok v else .traitError
  -- String.validate, 727-781
  | .string minlen maxlen regex, v => stringValidate E minlen maxlen regex v
  -- PrefixList.validate, 2809-2816
  | .prefixList vals, v =>
    match strOf v with
    | some s => completeValue vals v s
    | none => .traitError
  -- PrefixMap.validate, 3287-3294
  | .prefixMap keys _, v =>
    match strOf v with
    | some s => completeValue keys v s
    | none => .traitError
  -- AbstractArray.validate, trait_numeric.py:122-162
  | .array dt sh cast, v => arrayValidate E dt sh cast v
  -- TraitCoerceType.validate, trait_handlers.py:127-142
  | .coerceH ty, v => pyCoerceValidate E ty (coerceRest ty) v
  -- TraitCastType.validate, 229-238
  | .castH ty, v =>
    if Val.exactTy ty v then .ok v else pyCastAny E ty v
  -- TraitInstance.validate, 318-331
  | .instanceH cls an, v =>
    if v.isNone then (if an then .ok v else .traitError)
    else if Val.isInst cls v then .ok v else .traitError
  -- TraitFunction.validate, 437-441: only TraitError is caught
  | .functionH f, v =>
    match E.fn f v with
    | .ok w => .ok w
    | .error .traitError => .traitError
    | .error e => .raised e
  -- TraitEnum.validate, 499-502
  | .enumH vals, v => pyEnumValidate vals v
  -- TraitMap.validate, 573-580: bare except
  | .mapH keys _, v =>
    match dictFind keys v with
    | .ok (some _) => .ok v
    | _ => .traitError
  -- TraitCompound.validate, 696-710
  | .compoundH hs, v =>
    match pySel true hs v with
    | .traitError => pySel false hs v
    | r => r

/-- One pass of `TraitCompound.validate` (`want = true`: the handlers that have a
descriptor, `self.validates`) or of `slow_validate` (`want = false`): the first
handler whose Python `validate` does not raise TraitError decides. -/
def pySel (want : Bool) : List TraitType → Val → Res
  | [], _ => .traitError
  | t :: ts, v =>
    if (descOf t).isSome == want then
      -- set_validate (trait_handlers.py:646-664): a member without a fast validator and
      -- without a validate method (Any) gets the accept-all `_validate_anything`
      match (if want || hasPy t then pyValidate t v else .ok v) with
      | .traitError => pySel want ts v
      | r => r
    else pySel want ts v

/-- `Union.validate`: the inner CTraits' `validate`, first non-TraitError decides. -/
def unionFirst : List TraitType → Val → Res
  | [], _ => .traitError
  | t :: ts, v =>
    match ctraitValidateWith E (descOf t) (hasPy t) (fun x => pyValidate t x) v with
    | .traitError => unionFirst ts v
    | r => r

/-- `[type.validate(obj, name, x) for type, x in zip(types, value)]` (the first
failure decides: TraitError → `none`, other exception → `some e`). -/
def ctraitValidateL : List TraitType → List Val → Except (Option Exc) (List Val)
  | [], _ => .ok []
  | _ :: _, [] => .ok []
  | t :: ts, b :: bs =>
    match ctraitValidateWith E (descOf t) (hasPy t) (fun x => pyValidate t x) b with
    | .traitError => .error none
    | .raised e => .error (some e)
    | .ok a =>
      match ctraitValidateL ts bs with
      | .error x => .error x
      | .ok as => .ok (a :: as)

/-- The `fast_validate` tuple of the handler. -/
def descOf : TraitType → Option Desc
  | .any => none
  | .int => some .int                                      -- trait_types.py:277
  | .float => some .float                                  -- 325
  | .complex => some .complexNumber                        -- 371
  | .str => some (.coerce .str [])                         -- 415
  | .bytes => some (.coerce .bytes [])                     -- 477
  | .bool => some (.coerce .bool [none, some .npBool])     -- 97, 519
  | .cint => some (.cast .int)                             -- 545
  | .cfloat => some (.cast .float)                         -- 571
  | .ccomplex => some (.cast .complex)                     -- 597
  | .cstr => some (.cast .str)                             -- 620
  | .cbytes => some (.cast .bytes)                         -- 643
  | .cbool => some (.cast .bool)                           -- 669
  | .noFast _ => none
  -- BaseRange.__init__, 1743-1751 + Range.init_fast_validate 1974-1977
  | .rangeF lo hi exLo exHi =>
    some (.floatRange lo hi ((if exLo then 1 else 0) + (if exHi then 2 else 0)))
  | .rangeI .. => none
  | .enum vals => some (.enum vals)                        -- 2106, 2264-2266
  | .map keys _ => some (.map keys)                        -- 3147
  | .tuple items => some (.tuple (ctraitDescL items))      -- 2338-2339, 2441-2453
  | .baseTuple _ => none                                   -- 2372-2375
  | .validatedTuple .. => none                             -- inherits BaseTuple.init_fast_validate
  | .tupleAny => none                                      -- 2450-2451
  -- Instance.init_fast_validate, 3667-3683
  | .instance cls an mode dflt =>
    if mode = 0 then
      (if cls.isTypeType then some (.typeChk an cls) else some (.instChk an cls))
    else some (.adapt cls mode an dflt)
  | .type_ .. => none
  | .this an => some (.selfType an)                        -- 937, 945-946
  | .callable an => some (.callable (some an))             -- 904
  | .module => some (.coerce .module [])                   -- 991
  | .either alts wn =>
    let fvs := flatFast alts ++ (if wn then [Desc.enum [Val.none]] else [])
    match fvs with
    | [] => none
    | _ => some (.complex (fvs ++ (if anySlow alts then [Desc.slow (fun v => pySel false alts v)] else [])))
  | .union _ => none
  | .noneTrait => none
  | .string .. => none
  | .prefixList _ => none
  | .prefixMap .. => none
  | .array .. => none
  | .coerceH ty => some (.coerce ty (coerceRest ty))       -- trait_handlers.py:118-125
  | .castH ty => some (.cast ty)                           -- 227
  | .instanceH cls an =>                                   -- 310-316
    if cls.isTypeType then some (.typeChk an cls) else some (.instChk an cls)
  | .functionH f => some (.function f)                     -- 435
  | .enumH vals => some (.enum vals)                       -- 497
  | .mapH keys _ => some (.map keys)                       -- 571
  -- TraitCompound.set_validate, 636-694
  | .compoundH hs =>
    match flatFast hs with
    | [] => none
    | fvs => some (.complex (fvs ++ (if anySlow hs then [Desc.slow (fun v => pySel false hs v)] else [])))

/-- `fast_validates` of `set_validate` (646-656): descriptors in declaration
order, a nested `complex` descriptor spliced in. -/
def flatFast : List TraitType → List Desc
  | [] => []
  | t :: ts =>
    (match descOf t with
     | some (.complex ds) => ds
     | some d => [d]
     | none => []) ++ flatFast ts

/-- `len(slow_validates) > 0`. -/
def anySlow : List TraitType → Bool
  | [] => false
  | t :: ts => !(descOf t).isSome || anySlow ts

/-- The validators of the inner CTraits of a Tuple (`trait_from(t)`), as the C
tuple check sees them: fast validator, `validate_trait_python` around the
Python method, or NULL. -/
def ctraitDescL : List TraitType → List (Option Desc)
  | [] => []
  | t :: ts =>
    (match descOf t with
     | some d => some d
     | none => if hasPy t then some (.python (fun v => pyValidate t v)) else none) :: ctraitDescL ts

end

/-- Does the handler carry a `fast_validate` attribute. -/
def hasDesc (t : TraitType) : Bool := (descOf E t).isSome

/-- `CTrait.validate(obj, name, v)` for the CTrait built from `t`. -/
def ctraitValidate (t : TraitType) (v : Val) : Res :=
  ctraitValidateWith E (descOf E t) (hasPy t) (pyValidate E t) v

/-- `_TraitMaker.define` (traits.py:262-360) for the definitions that mix enumerated
constants with members — `Trait(default, c1, …, T1, …)`, `Either(c1, …, T1, …)` (whose
default is None): `do_list` sorts the constants into `enum` and the members into
`other`; the DEFAULT is added to the constants only when the definition has
constants ALONE and does not list it (322-326); a TraitEnum of the constants is
appended after the members (328); one handler is used as it is, several become a
TraitCompound (334-360). -/
def traitMaker (dflt : Val) (consts : List Val) (members : List TraitType) : TraitType :=
  match consts, members with
  | [], [m] => m
  | [], ms => .compoundH ms
  | cs, [] => .enumH (if seqContains cs dflt == .yes then cs else dflt :: cs)
  | cs, ms => .compoundH (ms ++ [.enumH cs])

/-- What assignment validates with: the CTrait's validator. -/
abbrev validate (tt : TraitType) (v : Val) : Res := ctraitValidate E tt v

end TraitsVerif.Model.Val
