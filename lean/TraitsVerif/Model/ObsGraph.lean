/-
Cluster `obs`: observers, observer graphs, what an observer yields on an object,
and the FROM-SCRATCH specification `hookList` / `reach`.

Mirrors traits/observation/_observer_graph.py, _named_trait_observer.py,
_list_item_observer.py, _dict_item_observer.py, _set_item_observer.py,
_filtered_trait_observer.py, _trait_added_observer.py, expression.py.
-/
import TraitsVerif.Model.Heap
namespace TraitsVerif.Model.Obs
open TraitsVerif

/-- `filter` of a `FilteredTraitObserver`: `anytrait_filter` (`*`) or
`MetadataFilter("tag")` (`+tag`). -/
inductive Filter where
  | anyTrait | metadata
  deriving DecidableEq, Repr

def Filter.matches : Filter → Field → Bool
  | .anyTrait, _ => true                     -- _anytrait_filter.py:15
  | .metadata, f => f.tagged                 -- _metadata_filter.py:32

/-- The observers reachable through `traits.observation.api`.  `TraitAddedObserver`
and `_RestrictedNamedTraitObserver` never occur inside a graph that is compared
or stored (they are the root of the extra graph / of the graph built in
`TraitAddedObserver.observer_change_handler`), so they are modelled by the
`extra` step and by `restrict` below rather than as constructors. -/
inductive Observer where
  | named (n : Name) (notify optional : Bool)
  | listItems (notify optional : Bool)
  | dictItems (notify optional : Bool)
  | setItems (notify optional : Bool)
  | filtered (f : Filter) (notify : Bool)
  deriving DecidableEq, Repr

def Observer.notify : Observer → Bool
  | .named _ n _ => n
  | .listItems n _ => n
  | .dictItems n _ => n
  | .setItems n _ => n
  | .filtered _ n => n

/-- `ObserverGraph` (_observer_graph.py). -/
inductive Graph where
  | node (ob : Observer) (children : List Graph)
  deriving Repr

def Graph.ob : Graph → Observer
  | .node ob _ => ob
def Graph.children : Graph → List Graph
  | .node _ cs => cs

/-! `ObserverGraph.__eq__` (_observer_graph.py:86-96): equal nodes and
`set(children) == set(other.children)`, i.e. the order of children is ignored.
Written so that every recursive call is on a child of the FIRST argument. -/
mutual
def Graph.beq : Graph → Graph → Bool
  | .node o cs, .node o' cs' => o == o' && Graph.allAny cs cs' && cs'.all (fun c' => Graph.anyL cs c')
/-- every graph of the first list has an equal one in the second -/
def Graph.allAny : List Graph → List Graph → Bool
  | [], _ => true
  | c :: cs, cs' => cs'.any (fun c' => Graph.beq c c') && Graph.allAny cs cs'
/-- some graph of the list equals `c'` -/
def Graph.anyL : List Graph → Graph → Bool
  | [], _ => false
  | c :: cs, c' => Graph.beq c c' || Graph.anyL cs c'
end

/-- `len(set(children)) != len(children)` fails (_observer_graph.py:73). -/
def uniqueGraphs : List Graph → Bool
  | [] => true
  | c :: cs => !Graph.anyL cs c && uniqueGraphs cs

/-- `ObserverGraph(node=…, children=…)`; `ValueError("Not all children are unique.")`. -/
def mkGraph (ob : Observer) (cs : List Graph) : Except Exc Graph :=
  if uniqueGraphs cs then .ok (.node ob cs) else .error .valueError

/-- `ObserverExpression` (expression.py). -/
inductive Expr where
  | single (ob : Observer)
  | series (a b : Expr)
  | parallel (a b : Expr)
  deriving Repr

/-- `list(dict.fromkeys(branches))` (expression.py:292): keep the first of each
class of equal graphs (`seen` in order of first occurrence). -/
def dedupGraphs : List Graph → List Graph → List Graph
  | seen, [] => seen
  | seen, c :: cs => if Graph.anyL seen c then dedupGraphs seen cs else dedupGraphs (seen ++ [c]) cs

/-- `_create_graphs(branches)` (expression.py:289-295, 318, 361). -/
def Expr.createGraphs : Expr → List Graph → Except Exc (List Graph)
  | .single ob, branches => (mkGraph ob (dedupGraphs [] branches)).map ([·])
  | .series a b, branches =>
    match b.createGraphs branches with
    | .error e => .error e
    | .ok bs => a.createGraphs bs
  | .parallel a b, branches =>
    match a.createGraphs branches with
    | .error e => .error e
    | .ok l => match b.createGraphs branches with
      | .error e => .error e
      | .ok r => .ok (l ++ r)

/-- `compile_expr` = `expr._as_graphs()`. -/
def Expr.compile (e : Expr) : Except Exc (List Graph) := e.createGraphs []

/-! ### Observables and notifier keys -/

/-- Where notifiers live: an instance trait (`object._trait(name, 2)`) or a
container object. -/
inductive Observable where
  | trait (o : Id) (n : Name)
  | cont (c : Id)
  deriving DecidableEq, Repr

/-- What makes two user handlers "the same" for a notifier
(_trait_event_notifier.py:236-240): handler, target; the dispatcher is always
`dispatch_same` here. -/
structure HKey where
  handler : Nat
  target : Id
  deriving DecidableEq, Repr

/-- `observer_handler` of an `ObserverChangeNotifier`, compared by identity in
`equals` (_observer_change_notifier.py:173): `observer_change_handler`
(_has_traits_helpers.py, named and filtered), the three `_observer_change_handler`
functions of the item observers, `TraitAddedObserver.observer_change_handler`. -/
inductive MKind where
  | trait | list | dict | set | added
  deriving DecidableEq, Repr

def Observer.mkind : Observer → MKind
  | .named .. => .trait
  | .filtered .. => .trait
  | .listItems .. => .list
  | .dictItems .. => .dict
  | .setItems .. => .set

/-- A notifier up to its reference count. -/
inductive NKey where
  | user (k : HKey)
  | maint (mk : MKind) (g : Graph) (k : HKey)
  deriving Repr

/-- `equals` of the two notifier classes. -/
def NKey.equals : NKey → NKey → Bool
  | .user k, .user k' => k == k'
  | .maint mk g k, .maint mk' g' k' => mk == mk' && k == k' && Graph.beq g g'
  | _, _ => false

abbrev Item := Observable × NKey

/-! ### `iter_observables` / `iter_objects` -/

/-- `iter_observables(object)`. -/
def observables (h : Heap) : Observer → W → Except Exc (List Observable)
  | .named n _ optional, x =>
    -- _named_trait_observer.py:77-98
    match x with
    | some i => if hasTrait h x n then .ok [.trait i n] else if optional then .ok [] else .error .valueError
    | none => if optional then .ok [] else .error .valueError
  | .listItems _ optional, x =>
    -- _list_item_observer.py:58-81
    match x, h.at x with
    | some i, .list _ => .ok [.cont i]
    | _, _ => if optional then .ok [] else .error .valueError
  | .dictItems _ optional, x =>
    match x, h.at x with
    | some i, .dict _ => .ok [.cont i]
    | _, _ => if optional then .ok [] else .error .valueError
  | .setItems _ optional, x =>
    match x, h.at x with
    | some i, .set _ => .ok [.cont i]
    | _, _ => if optional then .ok [] else .error .valueError
  | .filtered f _, x =>
    -- _filtered_trait_observer.py:64-78: `object.traits()` on a non-HasTraits → AttributeError
    match x, h.at x with
    | some i, .inst fs => .ok ((fs.filter f.matches).map (fun fl => .trait i fl.name))
    | _, _ => .error .attributeError

/-- `iter_objects(object, name)` of _has_traits_helpers.py:43-63: the `__dict__`
entry unless absent / `Undefined` / `Uninitialized` / `None`.  Never evaluates a
default. -/
def valObjects : Val → List W
  | .unset => []
  | .undef => []
  | .none => []
  | .int _ => [none]
  | .name _ => [none]
  | .ref i => [some i]

/-- `iter_objects(object)` of each observer. -/
def objects (h : Heap) : Observer → W → Except Exc (List W)
  | .named n _ optional, x =>
    -- _named_trait_observer.py:100-131
    if hasTrait h x n then .ok (valObjects (fieldVal h x n))
    else if optional then .ok [] else .error .valueError
  | .listItems _ optional, x =>
    match h.at x with
    | .list items => .ok (items.map some)
    | _ => if optional then .ok [] else .error .valueError
  | .dictItems _ optional, x =>
    match h.at x with
    | .dict items => .ok (items.map (fun kv => some kv.2))
    | _ => if optional then .ok [] else .error .valueError
  | .setItems _ optional, x =>
    match h.at x with
    | .set items => .ok (items.map some)
    | _ => if optional then .ok [] else .error .valueError
  | .filtered f _, x =>
    -- _filtered_trait_observer.py:80-104
    match h.at x with
    | .inst fs => .ok ((fs.filter f.matches).flatMap (fun fl => valObjects fl.val))
    | _ => .error .attributeError

/-- Observables of the extra graph (`TraitAddedObserver.iter_observables`,
_trait_added_observer.py:68-90) contributed by named and filtered observers
(`iter_extra_graphs`, _named_trait_observer.py:196, _filtered_trait_observer.py:160). -/
def extraObservables (h : Heap) : Observer → W → Except Exc (List Observable)
  | .named _ _ optional, x =>
    match x, h.at x with
    | some i, .inst _ => .ok [.trait i nTraitAdded]
    | _, _ => if optional then .ok [] else .error .valueError
  | .filtered _ _, x =>
    match x, h.at x with
    | some i, .inst _ => .ok [.trait i nTraitAdded]
    | _, _ => .error .valueError
  | _, _ => .ok []

/-! ### From-scratch specification -/

def okOr {α} (d : α) : Except Exc α → α
  | .ok a => a
  | .error _ => d

/-- The notifiers a registration of graph `g` on object `x` for handler key `k`
owes in heap `h`, computed from scratch (one entry per path; an object that is
reached twice contributes twice).  Failing `iter_*` calls contribute nothing:
the specification is only used where the walk succeeds. -/
def ownItems (h : Heap) (k : HKey) (ob : Observer) (cs : List Graph) (x : W) : List Item :=
  let os := okOr [] (observables h ob x)
  (if ob.notify then os.map (fun o => (o, NKey.user k)) else []) ++
  os.flatMap (fun o => cs.map (fun c => (o, NKey.maint ob.mkind c k)))

mutual
def hookList (h : Heap) (k : HKey) (extra : Bool) : Graph → W → List Item
  | .node ob cs, x =>
    ownItems h k ob cs x ++
    hookListCs h k ob x cs ++
    (if extra then (okOr [] (extraObservables h ob x)).map (fun o => (o, NKey.maint .added (.node ob cs) k)) else [])
def hookListCs (h : Heap) (k : HKey) (ob : Observer) (x : W) : List Graph → List Item
  | [] => []
  | c :: cs => (okOr [] (objects h ob x)).flatMap (fun y => hookList h k true c y) ++ hookListCs h k ob x cs
end

def isOk {α} : Except Exc α → Bool
  | .ok _ => true
  | .error _ => false

/-! The walk of `g` from `x` meets no failing `iter_observables` / `iter_objects`
(a property of the heap alone: this is exactly when a registration succeeds). -/
mutual
def walkOk (h : Heap) (extra : Bool) : Graph → W → Bool
  | .node ob cs, x =>
    isOk (observables h ob x) && walkOkCs h ob x cs && (!extra || isOk (extraObservables h ob x))
def walkOkCs (h : Heap) (ob : Observer) (x : W) : List Graph → Bool
  | [] => true
  | c :: cs =>
    (match objects h ob x with
     | .error _ => false
     | .ok ys => ys.all (fun y => walkOk h true c y)) && walkOkCs h ob x cs
end

/-! No node of the graph notifies (every link written with ':'). -/
mutual
def Graph.quiet : Graph → Bool
  | .node ob cs => !ob.notify && Graph.quietL cs
def Graph.quietL : List Graph → Bool
  | [] => true
  | c :: cs => Graph.quiet c && Graph.quietL cs
end

end TraitsVerif.Model.Obs
