/-
C15 — syntax trees of the observe mini-language, their grammatical kinds,
token strings and renderings.

`Cst` is the derivation tree of /repo/traits/observation/_dsl_grammar.lark with
the bracket nodes kept (so "redundant brackets" are *in* the tree and the parser
is a bijection between accepted token lists and grammatical trees):

  trait: NAME                                   (lark:7)    Cst.trait n
  items: "items"                                (lark:11)   Cst.items
  metadata: "+" NAME                            (lark:15)   Cst.metadata n
  anytrait: "*"                                 (lark:18)   Cst.any
  ?element: trait | items | metadata | "[" parallel "]"     (lark:27)   … | Cst.group p
  ?series: (series (notify | quiet))? element   (lark:30)   Cst.ser l c r
  ?parallel: (parallel ",")? series             (lark:33)   Cst.par l r
  ?series_terminal: (series (notify | quiet))? (element | anytrait)   (lark:42)
  ?parallel_terminal: (parallel_terminal ",")? series_terminal        (lark:44)
  ?start: parallel_terminal                     (lark:47)

Which trees are derivations of which nonterminal is the function `shape`
(least nonterminal deriving the tree) — `*` followed by a connector, or inside
brackets, has no shape; `namesOk` is the lexical side condition on NAMEs.
-/
import TraitsVerif.Model.DslLex
namespace TraitsVerif.Model.Dsl

inductive Cst where
  | trait (n : Name)
  | items
  | metadata (n : Name)
  | any
  | group (p : Cst)
  | ser (l : Cst) (c : Conn) (r : Cst)
  | par (l r : Cst)
  deriving DecidableEq, Repr, Inhabited

/-- Nonterminals, as "least nonterminal that derives the tree".
`elem < ser < par` (each is also a derivation of the later ones through the
`?`-rules' pass-through alternatives), `elem < serT`, `anyK < serT < parT`,
`ser < serT`, `par < parT`. -/
inductive Kind where
  | elem | ser | par | anyK | serT | parT
  deriving DecidableEq, Repr, Inhabited

/-- derivable from `series` -/
def Kind.leSer : Kind → Bool
  | .elem | .ser => true
  | _ => false
/-- derivable from `parallel` -/
def Kind.lePar : Kind → Bool
  | .elem | .ser | .par => true
  | _ => false
/-- derivable from `series_terminal` -/
def Kind.leSerT : Kind → Bool
  | .elem | .ser | .anyK | .serT => true
  | _ => false

/-- `[a-zA-Z_]\w*` -/
def validName (uw : Char → Bool) : Name → Bool
  | [] => false
  | c :: cs => isWordStart c && cs.all (isWordChar uw)

/-- The least nonterminal deriving the tree, names not looked at;
`none` = not a derivation tree. -/
def shape : Cst → Option Kind
  | .trait _ => some .elem
  | .items => some .elem
  | .metadata _ => some .elem
  | .any => some .anyK
  | .group p =>
    match shape p with
    | some k => if k.lePar then some .elem else none
    | none => none
  | .ser l _ r =>
    match shape l, shape r with
    | some kl, some kr =>
      if kl.leSer then
        (if kr == .elem then some .ser else if kr == .anyK then some .serT else none)
      else none
    | _, _ => none
  | .par l r =>
    match shape l, shape r with
    | some kl, some kr =>
      if kl.lePar && kr.leSer then some .par
      else if kr.leSerT then some .parT
      else none
    | _, _ => none

/-- The NAME tokens are identifiers; a trait name is not the keyword `items`
(that text is the ITEMS token there; after `+` it is a NAME). -/
def namesOk (uw : Char → Bool) : Cst → Bool
  | .trait n => validName uw n && n != itemsKw
  | .items => true
  | .metadata n => validName uw n
  | .any => true
  | .group p => namesOk uw p
  | .ser l _ r => namesOk uw l && namesOk uw r
  | .par l r => namesOk uw l && namesOk uw r

/-- A derivation tree of `start` (every tree with a shape derives from
`parallel_terminal`). -/
def grammatical (uw : Char → Bool) (c : Cst) : Bool := (shape c).isSome && namesOk uw c

/-- The token string of a tree (brackets only where the tree has a group). -/
def toks : Cst → List Tok
  | .trait n => [.name n]
  | .items => [.items]
  | .metadata n => [.plus, .name n]
  | .any => [.star]
  | .group p => .lb :: toks p ++ [.rb]
  | .ser l c r => toks l ++ .conn c :: toks r
  | .par l r => toks l ++ .comma :: toks r

/-- Text of a decorated token list: each token with the blanks before it,
`trail` after the last token. -/
def renderD : List (List Char × Tok) → List Char → List Char
  | [], trail => trail
  | (w, t) :: r, trail => w ++ t.text ++ renderD r trail

def allWs (w : List Char) : Bool := w.all isWs

/-- `s` is a rendering of the tree `c`: its tokens with arbitrary blanks
(possibly none) before, between and after them.  Redundant brackets are
`group` nodes of the tree itself. -/
def IsRendering (c : Cst) (s : List Char) : Prop :=
  ∃ (d : List (List Char × Tok)) (trail : List Char),
    d.map Prod.snd = toks c ∧ (∀ p ∈ d, allWs p.1 = true) ∧ allWs trail = true ∧ s = renderD d trail

/-- The canonical text (no blanks). -/
def Cst.text (c : Cst) : List Char := renderD ((toks c).map fun t => ([], t)) []

end TraitsVerif.Model.Dsl
