/-
Assignment wrapper for C01: `setattr_trait` (ctraits.c:2373-2553) reduced to what
the property speaks about — validate, then store, then `post_setattr` of a mapped
trait; a failing validation returns before anything is written (2448-2452).
Attribute assignment, a constructor keyword (`has_traits_init` →
`has_traits_setattro`, on a fresh object) and `trait_set` (has_traits.py:
`setattr(self, name, value)` per keyword) all end in this function.
Notification (C02) and defaults (C10) belong to the `attr` cluster.
-/
import TraitsVerif.Model.Domain
namespace TraitsVerif.Model.Val.Assign
open TraitsVerif TraitsVerif.Py.Value TraitsVerif.Model.Val

/-- The traits a class declares, by attribute name. -/
abbrev ClassDef := List (String × TraitType)

/-- The instance `__dict__` restricted to trait names and shadow names, kept
sorted by name. -/
abbrev State := List (String × Val)

def lookup (st : State) (name : String) : Option Val :=
  (st.find? (·.1 == name)).map (·.2)

/-- `PyDict_SetItem(dict, name, value)`. -/
def store : State → String → Val → State
  | [], n, v => [(n, v)]
  | (m, w) :: rest, n, v =>
    if n == m then (n, v) :: rest
    else if n < m then (n, v) :: (m, w) :: rest
    else (m, w) :: store rest n v

def traitOf (cls : ClassDef) (name : String) : Option TraitType :=
  (cls.find? (·.1 == name)).map (·.2)

/-- Is `post_setattr` set on the CTrait (`Map`, `PrefixMap`: trait_types.py:3174, 3300;
`TraitMap`: trait_handlers.py:586).  A compound with a mapped member is mapped too
(TraitCompound._post_setattr, trait_handlers.py:728): not modelled, see C01 ASSUMPTIONS. -/
def isMapped : TraitType → Bool
  | .map .. => true
  | .mapH .. => true
  | .prefixMap .. => true
  | _ => false

variable (E : Env)

/-- One assignment: the state afterwards and the exception, if any. -/
def step (cls : ClassDef) (st : State) (name : String) (v : Val) : State × Option Exc :=
  match traitOf cls name with
  | none => (store st name v, none)                        -- not a declared trait: plain attribute
  | some tt =>
    match validate E tt v with                             -- traitd->validate(traitd, obj, name, value), 2448-2453
    | .traitError => (st, some .traitError)                -- return -1: nothing written
    | .raised e => (st, some e)
    | .ok w =>
      let st' := store st name w                           -- PyDict_SetItem, 2521
      if isMapped tt then
        -- 2479-2519, 2534-2541: post_setattr runs unless the stored object is the
        -- one already there (`old_value != value`; compared structurally here)
        if lookup st name == some w then (st', none)
        else
          match mappedValue tt w with                      -- setattr(object, name + "_", self.mapped_value(value))
          | some s => (store st' (name ++ "_") s, none)
          | none => (st', some .keyError)
      else (st', none)

def assign (cls : ClassDef) (st : State) (name : String) (v : Val) : Except Exc State :=
  match step E cls st name v with
  | (st', none) => .ok st'
  | (_, some e) => .error e

/-- A history of assignments; failing ones leave the state as it was. -/
def run (cls : ClassDef) : State → List (String × Val) → State
  | st, [] => st
  | st, (n, v) :: ops => run cls (step E cls st n v).1 ops

end TraitsVerif.Model.Val.Assign
