/-
PyLCD — the subset of Python `TraitDict.__init__` and `TraitDictObject.__init__`
(traits/trait_dict_object.py:121-141, 440-452) are written in, deep-embedded,
with a total interpreter, and the hand-written models of the two constructors.
`harness/translate/ctorprogdict.py` translates the source text on every run
(`Generated/CtorProgDict.lean`); `Lemmas/PyLCtorDict.lean` proves the models
equal to the interpretation.  (Same scheme as `Model/PyLCtor.lean`; `VSrc`,
`NSrc` are shared.)  The object starts as `__new__` leaves it.
-/
import TraitsVerif.Model.PyLCtor
import TraitsVerif.Model.TraitDict
namespace TraitsVerif.Model.PyLCD
open TraitsVerif TraitsVerif.Py TraitsVerif.Model.PyLC TraitsVerif.Model.Map
open TraitsVerif.Py.Dict (ofPairs)

structure Obj (K V : Type) where
  items : Dict K V := []
  keyValidator : VSrc := .everything
  valueValidator : VSrc := .everything
  notifiers : NSrc := .newEmpty
  trait : Option (Option Bool) := none
  object : Option Bool := none
  name : Bool := false
  nameItems : Option Bool := none
  deriving Repr

inductive Expr where
  | var (i : Nat)
  | noneLit
  | emptyList                          -- `[]`
  | emptyDict                          -- `{}`
  | isNone (e : Expr)
  | isNotNone (e : Expr)
  | and (a b : Expr)
  | ite (c a b : Expr)
  | hasKeys (e : Expr)                 -- `hasattr(e, 'keys')`
  | itemsOf (e : Expr)                 -- `e.items()`
  | list1 (e : Expr)
  | selfAttr (name : String)
  | lambdaNone
  | ref (e : Expr)
  | attr (e : Expr) (name : String)
  | addStr (e : Expr) (s : String)
  deriving Repr

inductive Stmt where
  | skip
  | seq (a b : Stmt)
  | ifS (c : Expr) (t e : Stmt)
  | assign (i : Nat) (e : Expr)
  | setAttr (name : String) (e : Expr)
  | validateComp (i : Nat) (e : Expr)      -- `x = {self.key_validator(k): self.value_validator(v) for k, v in e}`
  | superInit1 (e : Expr)                  -- `super().__init__(e)`
  | superInitKw (value kv vv ns : Expr)    -- `super().__init__(value, key_validator=…, value_validator=…, notifiers=…)`
  deriving Repr

variable {K V : Type}

inductive Val (K V : Type) where
  | none
  | bool (b : Bool)
  | mapping (ps : List (K × V))       -- an object with `keys` (its items, in order)
  | pairs (ps : List (K × V))         -- an iterable of pairs without `keys`
  | dict (d : Dict K V)               -- a builtin dict built here
  | vfn (v : VSrc)
  | nlist (n : NSrc)
  | trait (hasItems : Bool)
  | owner | ownerRef | noOwnerFn | name | nameItems | boundNotifier
  deriving Repr

abbrev Frame (K V : Type) := List (Option (Val K V))

structure Ctx (K V : Type) where
  givenK : Callback K K
  givenV : Callback V V
  ownK : Callback K K
  ownV : Callback V V

def Ctx.kOf (C : Ctx K V) : VSrc → Callback K K
  | .everything => fun _ x => .ok x
  | .arg => C.givenK
  | .own => C.ownK

def Ctx.vOf (C : Ctx K V) : VSrc → Callback V V
  | .everything => fun _ x => .ok x
  | .arg => C.givenV
  | .own => C.ownV

def getVar (vars : Frame K V) (i : Nat) : Except Exc (Val K V) :=
  match vars[i]? with
  | some (some v) => .ok v
  | _ => PyLC.stuck

def truthy : Val K V → Option Bool
  | .none => some false
  | .bool b => some b
  | _ => Option.none

variable [DecidableEq K]

def eval (o : Obj K V) (vars : Frame K V) : Expr → Except Exc (Val K V)
  | .var i => getVar vars i
  | .noneLit => .ok .none
  | .emptyList => .ok (.nlist .newEmpty)       -- a fresh empty list
  | .emptyDict => .ok (.mapping [])
  | .isNone e =>
    match eval o vars e with
    | .ok .none => .ok (.bool true)
    | .ok _ => .ok (.bool false)
    | .error x => .error x
  | .isNotNone e =>
    match eval o vars e with
    | .ok .none => .ok (.bool false)
    | .ok _ => .ok (.bool true)
    | .error x => .error x
  | .and a b =>
    match eval o vars a with
    | .ok v => (match truthy v with | some false => .ok v | some true => eval o vars b | Option.none => PyLC.stuck)
    | .error x => .error x
  | .ite c a b =>
    match eval o vars c with
    | .ok v => (match truthy v with | some true => eval o vars a | some false => eval o vars b | Option.none => PyLC.stuck)
    | .error x => .error x
  | .hasKeys e =>
    match eval o vars e with
    | .ok (.mapping _) => .ok (.bool true)
    | .ok (.dict _) => .ok (.bool true)
    | .ok (.pairs _) => .ok (.bool false)
    | .ok _ => PyLC.stuck
    | .error x => .error x
  | .itemsOf e =>
    match eval o vars e with
    | .ok (.mapping ps) => .ok (.pairs ps)
    | .ok (.dict d) => .ok (.pairs d)
    | .ok (.pairs _) => .error .attributeError
    | .ok _ => PyLC.stuck
    | .error x => .error x
  | .list1 e =>
    match eval o vars e with
    | .ok .boundNotifier => .ok (.nlist .ownAlias)
    | .ok _ => PyLC.stuck
    | .error x => .error x
  | .selfAttr n =>
    if n = "key_validator" then .ok (.vfn o.keyValidator)
    else if n = "value_validator" then .ok (.vfn o.valueValidator)
    else if n = "_key_validator" then .ok (.vfn .own)
    else if n = "_value_validator" then .ok (.vfn .own)
    else if n = "notifier" then .ok .boundNotifier
    else PyLC.stuck
  | .lambdaNone => .ok .noOwnerFn
  | .ref e =>
    match eval o vars e with
    | .ok .owner => .ok .ownerRef
    | .ok .none => .error .typeError
    | .ok _ => PyLC.stuck
    | .error x => .error x
  | .attr e n =>
    match eval o vars e with
    | .ok (.trait h) => if n = "has_items" then .ok (.bool h) else PyLC.stuck
    | .ok .none => .error .attributeError
    | .ok _ => PyLC.stuck
    | .error x => .error x
  | .addStr e s =>
    match eval o vars e with
    | .ok .name => if s = "_items" then .ok .nameItems else PyLC.stuck
    | .ok _ => PyLC.stuck
    | .error x => .error x

def setAttrObj (o : Obj K V) (n : String) : Val K V → Option (Obj K V)
  | .vfn v =>
    if n = "key_validator" then some { o with keyValidator := v }
    else if n = "value_validator" then some { o with valueValidator := v } else Option.none
  | .nlist l => if n = "notifiers" then some { o with notifiers := l } else Option.none
  | .trait h => if n = "trait" then some { o with trait := some (some h) } else Option.none
  | .ownerRef => if n = "object" then some { o with object := some true } else Option.none
  | .noOwnerFn => if n = "object" then some { o with object := some false } else Option.none
  | .name => if n = "name" then some { o with name := true } else Option.none
  | .nameItems => if n = "name_items" then some { o with nameItems := some true } else Option.none
  | .none =>
    if n = "name_items" then some { o with nameItems := some false }
    else if n = "trait" then some { o with trait := some Option.none }
    else Option.none
  | _ => Option.none

def exec (C : Ctx K V) (sup : Option (Frame K V → Obj K V → Obj K V × PyLC.Flow)) :
    Stmt → Frame K V × Obj K V → (Frame K V × Obj K V) × PyLC.Flow
  | .skip, st => (st, .next)
  | .seq a b, st =>
    match exec C sup a st with
    | (st', .next) => exec C sup b st'
    | r => r
  | .ifS c t e, st =>
    match eval st.2 st.1 c with
    | .ok v =>
      (match truthy v with
       | some true => exec C sup t st
       | some false => exec C sup e st
       | Option.none => (st, .raised .other))
    | .error x => (st, .raised x)
  | .assign i e, st =>
    match eval st.2 st.1 e with
    | .ok v => ((st.1.set i (some v), st.2), .next)
    | .error x => (st, .raised x)
  | .setAttr n e, st =>
    match eval st.2 st.1 e with
    | .ok v => (match setAttrObj st.2 n v with | some o => ((st.1, o), .next) | Option.none => (st, .raised .other))
    | .error x => (st, .raised x)
  | .validateComp i e, st =>
    match eval st.2 st.1 e with
    | .ok (.pairs ps) =>
      (match valPairs (C.kOf st.2.keyValidator) (C.vOf st.2.valueValidator) 0 ps with
       | .ok ps' => ((st.1.set i (some (.dict (ofPairs ps'))), st.2), .next)
       | .error x => (st, .raised x))
    | .ok (.mapping _) => (st, .raised .other)      -- iterating a mapping yields keys, not pairs
    | .ok _ => (st, .raised .other)
    | .error x => (st, .raised x)
  | .superInit1 e, st =>
    match eval st.2 st.1 e with
    | .ok (.dict d) => ((st.1, { st.2 with items := d }), .next)
    | .ok _ => (st, .raised .other)
    | .error x => (st, .raised x)
  | .superInitKw value kv vv ns, st =>
    match sup, eval st.2 st.1 value, eval st.2 st.1 kv, eval st.2 st.1 vv, eval st.2 st.1 ns with
    | some f, .ok v, .ok a, .ok b, .ok n =>
      let r := f [some v, some a, some b, some n] st.2
      ((st.1, r.1), r.2)
    | _, .error x, _, _, _ => (st, .raised x)
    | _, _, .error x, _, _ => (st, .raised x)
    | _, _, _, .error x, _ => (st, .raised x)
    | _, _, _, _, .error x => (st, .raised x)
    | _, _, _, _, _ => (st, .raised .other)

structure Func where
  nparams : Nat
  nslots : Nat
  body : Stmt
  deriving Repr

def optVal {β : Type} (f : β → Val K V) : Option β → Val K V
  | some x => f x
  | Option.none => .none

def finish : (Frame K V × Obj K V) × PyLC.Flow → Except Exc (Obj K V)
  | ((_, o), .next) => .ok o
  | (_, .raised e) => .error e

/-- The `value` argument: not given / `None`, a mapping, an iterable of pairs. -/
inductive Arg (K V : Type) where
  | none
  | mapping (ps : List (K × V))
  | pairs (ps : List (K × V))

def Arg.val : Arg K V → Val K V
  | .none => .none
  | .mapping ps => .mapping ps
  | .pairs ps => .pairs ps

def Arg.items : Arg K V → List (K × V)
  | .none => []
  | .mapping ps => ps
  | .pairs ps => ps

/-- `TraitDict(value, key_validator=…, value_validator=…, notifiers=…)` after `__new__`. -/
def runDictInit (fn : Func) (C : Ctx K V) (a : Arg K V) (kv vv : Option VSrc) (ns : Option NSrc) :
    Except Exc (Obj K V) :=
  if fn.nparams ≠ 4 ∨ fn.nslots < 4 then PyLC.stuck
  else finish (exec C Option.none fn.body
    ([some a.val, some (optVal .vfn kv), some (optVal .vfn vv), some (optVal .nlist ns)]
      ++ List.replicate (fn.nslots - 4) Option.none, {}))

/-- `TraitDictObject(trait, object, name, value)` after `__new__`; `base` is the translated `TraitDict.__init__`. -/
def runDictObjectInit (fn base : Func) (C : Ctx K V) (t : Option Bool) (owner : Bool) (a : Arg K V) :
    Except Exc (Obj K V) :=
  if fn.nparams ≠ 4 ∨ fn.nslots < 4 ∨ base.nparams ≠ 4 ∨ base.nslots < 4 then PyLC.stuck
  else
    let sup : Frame K V → Obj K V → Obj K V × PyLC.Flow := fun args o =>
      let r := exec C Option.none base.body (args ++ List.replicate (base.nslots - 4) Option.none, o)
      (r.1.2, r.2)
    finish (exec C (some sup) fn.body
      ([some (optVal .trait t), some (if owner then .owner else .none), some .name, some a.val]
        ++ List.replicate (fn.nslots - 4) Option.none, {}))

/-! ### The hand-written models -/

/-- `TraitDict.__init__` (trait_dict_object.py:121-141): the validators are the
caller's iff given; the notifier list given is used AS IS (a fresh `[]` when
none was given); `None` means no items; a mapping (an object with `keys`) is
read through `.items()`, anything else is iterated as pairs; every pair is
validated key first, then value, with the ordinal threaded, and the validated
pairs are collected by a dict comprehension (a later duplicate key wins). -/
def dictInit (C : Ctx K V) (a : Arg K V) (kv vv : Option VSrc) (ns : Option NSrc) : Except Exc (Obj K V) :=
  let k := kv.getD .everything
  let v := vv.getD .everything
  match valPairs (C.kOf k) (C.vOf v) 0 a.items with
  | .error e => .error e
  | .ok ps => .ok { items := ofPairs ps, keyValidator := k, valueValidator := v, notifiers := ns.getD .newEmpty }

/-- `TraitDictObject.__init__` (trait_dict_object.py:440-452). -/
def dictObjectInit (C : Ctx K V) (t : Option Bool) (owner : Bool) (a : Arg K V) : Except Exc (Obj K V) :=
  match valPairs C.ownK C.ownV 0 a.items with
  | .error e => .error e
  | .ok ps =>
    .ok { items := ofPairs ps, keyValidator := .own, valueValidator := .own, notifiers := .ownAlias,
          trait := some t, object := some owner, name := true, nameItems := some (t == some true) }

end TraitsVerif.Model.PyLCD
