/-
Nested list traits `List(List(… T …))`: the item validator of an outer list is
`List.validate` of the inner trait, which *constructs* a new `TraitListObject`
(trait_types.py:2622-2639, trait_list_object.py:571-588, 854-870).  A mutation
is addressed by a path of indices down to the list it is applied to.
-/
import TraitsVerif.Model.TraitListObject
namespace TraitsVerif.Model
open TraitsVerif TraitsVerif.Py

/-- A (possibly nested) list trait type: a scalar inner trait given by its
validator, or `List(inner, minlen, maxlen)`. -/
inductive TT where
  | leaf (v : Int → Except Exc Int)
  | list (c : LenCfg) (inner : TT)

/-- Values: scalars or lists of values. -/
inductive CV where
  | atom (n : Int)
  | lst (xs : List CV)

/-- `mapM` written out (first failure aborts), so that recursion is structural on the trait type. -/
def mapExcept {α β : Type} (f : α → Except Exc β) : List α → Except Exc (List β)
  | [] => .ok []
  | x :: xs =>
    match f x with
    | .error e => .error e
    | .ok y =>
      match mapExcept f xs with
      | .error e => .error e
      | .ok ys => .ok (y :: ys)

/-- `trait.validate(object, name, value)` for the nested trait type. -/
def TT.validate : TT → CV → Except Exc CV
  | .leaf v, .atom n => (v n).map .atom
  | .leaf _, .lst _ => .error .traitError
  | .list _ _, .atom _ => .error .traitError
  | .list c inner, .lst xs =>
    if c.ok xs.length then (mapExcept inner.validate xs).map .lst else .error .traitError

/-- The `Env` a `TraitListObject` of trait `List(inner, …)` runs with: its item
validator is the inner trait's `validate`; `==` and the sort permutation stay
parameters. -/
def TT.env (inner : TT) (eq : CV → CV → Bool) (sort : Nat → List CV → List CV) : Env CV :=
  { v := fun _ x => inner.validate x, eq := eq, sort := sort }

/-- Apply a mutator to the list found by following `path` from a value of
trait type `tt`; every enclosing list is left alone (in Python the inner
`TraitListObject` is mutated in place). `none` = the path does not lead to a list. -/
def stepAt (eq : CV → CV → Bool) (sort : Nat → List CV → List CV) :
    TT → List Nat → Op CV → CV → Option (Except Exc CV)
  | .list c inner, [], op, .lst xs =>
    some ((TraitListObject.step c (inner.env eq sort) xs op).map (fun o => .lst o.items))
  | .list _ inner, i :: path, op, .lst xs =>
    match xs[i]? with
    | none => none
    | some x =>
      match stepAt eq sort inner path op x with
      | none => none
      | some (.error e) => some (.error e)
      | some (.ok x') => some (.ok (.lst (xs.set i x')))
  | _, _, _, _ => none

end TraitsVerif.Model
